"""Per-property check registry used by bin/check and bin/gen_manifest."""

HOOK_COMMITS = ["d1f7624"]
NOT_APPLICABLE = {}

ENGINES = [
    dict(name='mc', path='/verif/mc/mc.c', serves_properties=['C%02d' % i for i in range(1, 21)],
         kind_free_text='bounded-exhaustive case enumerator with fork-per-failure supervisor, sharding, shared counters, evidence writer (E1/E2)'),
    dict(name='ref', path='/verif/ref', serves_properties=['C05', 'C06', 'C10', 'C12', 'C13', 'C14', 'C15', 'C16', 'C17', 'C20'],
         kind_free_text='independent reference implementations written from the format specifications (E6)'),
    dict(name='fault', path='/verif/mc/fault.c', serves_properties=['C04', 'C08', 'C18', 'C19'],
         kind_free_text='allocator interposition (k-th allocation fails, live-block table) and failing stdio sinks (E4)'),
]

CHECKS = {
    'C11': dict(harness='enc', mode='c11', variant='asan', category='model_checking',
                quick_deadline=200, thorough_deadline=1500,
                require_counters=['states', 'transitions'],
                technique='bounded-exhaustive enumeration of value sequences on the real encoders/decoders + explicit-state BFS of the streaming RLE decoder',
                text='Every sequence of the small-scope families (all binary sequences up to 17/21 values at width 1, all ternary sequences over {0,1,max} at every width 2..32, all run-structured sequences over boundary run lengths, block-boundary lengths for delta, all short string sequences, every count 0..130 for byte-stream-split, ...) is encoded and decoded by the real code and compared; the streaming RLE decoder is explored as a state machine (BFS over get/get_batch/skip from every reachable decoder state) against the one-shot decoder. Exhaustive inside the stated bounds, nothing sampled.',
                note='Holds for the enumerated sequence families only; values outside the small alphabets are covered by the tagged-data argument for pure data-movement kernels. ASan build (-O2, NDEBUG as in the product build).'),
    'C12': dict(harness='enc', mode='c12', variant='asan', category='exploration',
                quick_deadline=200, thorough_deadline=1500,
                technique='bounded-exhaustive differential enumeration against independent specification encoders/decoders, both directions',
                text='The same exhaustive sequence families as C11, but judged by reference implementations written from the Parquet encoding specification: carquet-encode -> reference-decode and reference-encode -> carquet-decode, with the reference encoder run in every legal form (RLE only, bit-packed only, multi-group, runs shorter than 8, zero-length runs, padded final groups, widened / arbitrary unused miniblock widths).',
                note='Trusts /verif/ref (written from the specification, cross-checked against itself and published vectors by bin/selftest). Delta geometries other than 128/4 are not judged.'),
    'C09': dict(harness='codec', mode='c09', variant='fast2', category='exploration',
                quick_deadline=200, thorough_deadline=1500,
                technique='bounded-exhaustive enumeration of inputs x codec configurations with guard-paged exact-size buffers',
                text='Every input of the small-scope families (all strings over {a,b} up to 13/16 bytes and over {a,b,c} up to 8/10, every length 0..300 of four structured families, families built to alias the 16-bit hash positions beyond 64 KiB, a de Bruijn B(16,4) sequence, MiB-sized mixes) is compressed by Snappy, LZ4, GZIP and ZSTD (all levels on a reduced set) into a buffer of exactly compress_bound bytes fenced by PROT_NONE pages, decompressed into exactly len(x) fenced bytes and compared; capacities 0, 1, bound-1, bound+1 must be refused or handled correctly.',
                note='Inputs above ~20 bytes are covered by enumerated families, not exhaustively. Product optimisation level (-O2, NDEBUG), guard pages instead of ASan so that libz/libzstd run unmodified.'),
    'C10': dict(harness='codec', mode='c10', variant='fast2', category='exploration',
                quick_deadline=200, thorough_deadline=1500,
                technique='bounded-exhaustive grammar enumeration of Snappy/LZ4 streams and differential checking against strict reference decoders',
                text='(a) every stream carquet compresses from the C09 small-scope inputs is decoded by strict reference decoders written from the format documents (LZ4 including end-of-block rules); (b) every valid stream of up to 4/5 elements over element alphabets covering all tag kinds, length forms, offsets and overlapping copies is generated together with its expected output and fed to carquet; (c) the invalid classes (zero offset, offset beyond output, truncation, preamble mismatch, trailing elements) are derived from every generated stream and must be rejected. The reference decoder is the judge in both directions.',
                note='Trusts /verif/ref/ref_lz.c (cross-checked against the generator on every generated stream). Streams are bounded to 5 elements; literal payload content is a fixed tagged pattern.'),
    'C20': dict(harness='hash', mode='c20', variant='fast2', category='exploration',
                quick_deadline=200, thorough_deadline=1500, ldlibs=[],
                technique='bounded-exhaustive enumeration against reference XXH64 and split-block Bloom filter implementations',
                text='XXH64 is compared with a reference written from its specification for every length 0..100/300, every single-bit message, 5 seeds and every alignment; the Bloom filter is driven with every subset of a 12-value pool for each value type and four filter sizes, and its bit array must be identical to the Parquet split-block algorithm, have no false negatives, survive write/read and merge to a superset of the union.',
                note='Trusts ref_xxh64/ref_sbbf (published vectors checked in bin/selftest). Guard-paged message buffers detect over-reads of the hash.'),
}
