/* ref_lz.c — strict decoders for the raw Snappy block format
 * (format_description.txt) and the LZ4 block format (lz4_Block_format.md). */
#include "ref.h"
#include <string.h>

int ref_snappy_decode(const uint8_t* in, size_t n, uint8_t* out, size_t cap, size_t* out_n) {
    size_t ip = 0; uint64_t ulen = 0; int shift = 0;
    for (;;) {
        if (ip >= n) return -1;                  /* truncated preamble */
        uint8_t b = in[ip++];
        if (shift >= 32 && (b & 0x7f)) return -2;
        if (shift == 28 && (b & 0x70)) return -2; /* > 2^32-1 */
        ulen |= (uint64_t)(b & 0x7f) << shift;
        if (!(b & 0x80)) break;
        shift += 7; if (shift > 28) return -2;
    }
    if (ulen > cap) return -3;
    size_t op = 0;
    while (ip < n) {
        uint8_t tag = in[ip++];
        size_t len, off;
        switch (tag & 3) {
        case 0: {
            len = (size_t)(tag >> 2) + 1;
            if (len > 60) {
                size_t nb = len - 60; if (ip + nb > n) return -4;
                size_t l = 0; for (size_t i = 0; i < nb; i++) l |= (size_t)in[ip + i] << (8 * i);
                ip += nb; len = l + 1;
            }
            if (ip + len > n) return -5;
            if (op + len > ulen) return -6;
            memcpy(out + op, in + ip, len); ip += len; op += len;
            continue;
        }
        case 1:
            if (ip + 1 > n) return -7;
            len = 4 + ((tag >> 2) & 7); off = ((size_t)(tag >> 5) << 8) | in[ip]; ip += 1; break;
        case 2:
            if (ip + 2 > n) return -7;
            len = (size_t)(tag >> 2) + 1; off = (size_t)in[ip] | (size_t)in[ip + 1] << 8; ip += 2; break;
        default:
            if (ip + 4 > n) return -7;
            len = (size_t)(tag >> 2) + 1; off = (size_t)in[ip] | (size_t)in[ip + 1] << 8 | (size_t)in[ip + 2] << 16 | (size_t)in[ip + 3] << 24; ip += 4; break;
        }
        if (off == 0) return -8;
        if (off > op) return -9;
        if (op + len > ulen) return -6;
        for (size_t i = 0; i < len; i++) { out[op] = out[op - off]; op++; }
    }
    if (op != ulen) return -10;
    *out_n = op; return 0;
}

int ref_lz4_decode(const uint8_t* in, size_t n, uint8_t* out, size_t cap, size_t* out_n, bool check_end_rules) {
    size_t ip = 0, op = 0; size_t last_match_start = (size_t)-1; size_t last_lits = 0; int nseq = 0;
    if (n == 0) return -1;                          /* a block has at least the token of the last sequence */
    for (;;) {
        if (ip >= n) return -2;
        uint8_t tok = in[ip++];
        size_t ll = tok >> 4;
        if (ll == 15) { uint8_t b; do { if (ip >= n) return -3; b = in[ip++]; ll += b; } while (b == 255); }
        if (ip + ll > n) return -4;
        if (op + ll > cap) return -5;
        memcpy(out + op, in + ip, ll); ip += ll; op += ll; last_lits = ll; nseq++;
        if (ip == n) {                                  /* last sequence: literals only */
            if ((tok & 15) != 0 && check_end_rules) return -11;
            break;
        }
        if (ip + 2 > n) return -6;
        size_t off = (size_t)in[ip] | (size_t)in[ip + 1] << 8; ip += 2;
        if (off == 0) return -7;
        if (off > op) return -8;
        size_t ml = tok & 15;
        if (ml == 15) { uint8_t b; do { if (ip >= n) return -9; b = in[ip++]; ml += b; } while (b == 255); }
        ml += 4;
        if (op + ml > cap) return -5;
        last_match_start = op;
        for (size_t i = 0; i < ml; i++) { out[op] = out[op - off]; op++; }
        if (ip == n) return -10;                        /* block must end with a literal-only sequence */
    }
    if (check_end_rules && last_match_start != (size_t)-1) {
        if (last_lits < 5) return -12;                  /* last 5 bytes are always literals */
        if (last_match_start + 12 > op) return -13;     /* last match starts >= 12 bytes before the end */
    }
    *out_n = op; return 0;
}
