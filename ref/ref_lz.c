/* ref_lz.c — strict decoders for the raw Snappy block format
 * (format_description.txt) and the LZ4 block format (lz4_Block_format.md). */
#include "ref.h"
#include <string.h>

int ref_snappy_decode(const uint8_t* in, size_t n, uint8_t* out, size_t cap, size_t* out_n) {
    size_t ip = 0; uint64_t ulen = 0; int shift = 0;
    for (;;) {
        if (ip >= n) return -1;                  /* truncated preamble */
        uint8_t b = in[ip++];
        if (shift >= 32 && (b & 0x7f)) return -2;
        if (shift == 28 && (b & 0x70)) return -2; /* > 2^32-1 */
        ulen |= (uint64_t)(b & 0x7f) << shift;
        if (!(b & 0x80)) break;
        shift += 7; if (shift > 28) return -2;
    }
    if (ulen > cap) return -3;
    size_t op = 0;
    while (ip < n) {
        uint8_t tag = in[ip++];
        size_t len, off;
        switch (tag & 3) {
        case 0: {
            len = (size_t)(tag >> 2) + 1;
            if (len > 60) {
                size_t nb = len - 60; if (ip + nb > n) return -4;
                size_t l = 0; for (size_t i = 0; i < nb; i++) l |= (size_t)in[ip + i] << (8 * i);
                ip += nb; len = l + 1;
            }
            if (ip + len > n) return -5;
            if (op + len > ulen) return -6;
            memcpy(out + op, in + ip, len); ip += len; op += len;
            continue;
        }
        case 1:
            if (ip + 1 > n) return -7;
            len = 4 + ((tag >> 2) & 7); off = ((size_t)(tag >> 5) << 8) | in[ip]; ip += 1; break;
        case 2:
            if (ip + 2 > n) return -7;
            len = (size_t)(tag >> 2) + 1; off = (size_t)in[ip] | (size_t)in[ip + 1] << 8; ip += 2; break;
        default:
            if (ip + 4 > n) return -7;
            len = (size_t)(tag >> 2) + 1; off = (size_t)in[ip] | (size_t)in[ip + 1] << 8 | (size_t)in[ip + 2] << 16 | (size_t)in[ip + 3] << 24; ip += 4; break;
        }
        if (off == 0) return -8;
        if (off > op) return -9;
        if (op + len > ulen) return -6;
        for (size_t i = 0; i < len; i++) { out[op] = out[op - off]; op++; }
    }
    if (op != ulen) return -10;
    *out_n = op; return 0;
}

int ref_lz4_decode(const uint8_t* in, size_t n, uint8_t* out, size_t cap, size_t* out_n, bool check_end_rules) {
    size_t ip = 0, op = 0; size_t last_match_start = (size_t)-1; size_t last_lits = 0; int nseq = 0;
    if (n == 0) return -1;                          /* a block has at least the token of the last sequence */
    for (;;) {
        if (ip >= n) return -2;
        uint8_t tok = in[ip++];
        size_t ll = tok >> 4;
        if (ll == 15) { uint8_t b; do { if (ip >= n) return -3; b = in[ip++]; ll += b; } while (b == 255); }
        if (ip + ll > n) return -4;
        if (op + ll > cap) return -5;
        memcpy(out + op, in + ip, ll); ip += ll; op += ll; last_lits = ll; nseq++;
        if (ip == n) {                                  /* last sequence: literals only */
            if ((tok & 15) != 0 && check_end_rules) return -11;
            break;
        }
        if (ip + 2 > n) return -6;
        size_t off = (size_t)in[ip] | (size_t)in[ip + 1] << 8; ip += 2;
        if (off == 0) return -7;
        if (off > op) return -8;
        size_t ml = tok & 15;
        if (ml == 15) { uint8_t b; do { if (ip >= n) return -9; b = in[ip++]; ml += b; } while (b == 255); }
        ml += 4;
        if (op + ml > cap) return -5;
        last_match_start = op;
        for (size_t i = 0; i < ml; i++) { out[op] = out[op - off]; op++; }
        if (ip == n) return -10;                        /* block must end with a literal-only sequence */
    }
    if (check_end_rules && last_match_start != (size_t)-1) {
        if (last_lits < 5) return -12;                  /* last 5 bytes are always literals */
        if (last_match_start + 12 > op) return -13;     /* last match starts >= 12 bytes before the end */
    }
    *out_n = op; return 0;
}

/* ---- greedy reference compressors (real matches), written from lz4_Block_format.md and the Snappy format description ----
 * Candidates for a match at position i: the last earlier occurrence of the same 4 bytes (hash table) and every distance 1..40
 * (short periods: equal or cycling fixed-width values). The longest candidate wins. Output is checked by the strict decoders by the caller. */
static size_t ref_match_len(const uint8_t* in, size_t a, size_t b, size_t limit) { size_t l = 0; while (b + l < limit && in[a + l] == in[b + l]) l++; return l; }
static uint32_t ref_h4(const uint8_t* p) { uint32_t v = (uint32_t)p[0] | (uint32_t)p[1] << 8 | (uint32_t)p[2] << 16 | (uint32_t)p[3] << 24; return (v * 2654435761u) >> 18; }
static size_t ref_best_match(const uint8_t* in, size_t i, size_t limit, const uint32_t* tab, size_t maxoff, size_t* off) {
    size_t best = 0; *off = 0;
    for (size_t d = 1; d <= 40 && d <= i; d++) { size_t l = ref_match_len(in, i - d, i, limit); if (l > best) { best = l; *off = d; } }
    if (i + 4 <= limit) { uint32_t c = tab[ref_h4(in + i)]; if (c && (size_t)(c - 1) < i && i - (c - 1) <= maxoff) { size_t l = ref_match_len(in, c - 1, i, limit); if (l > best) { best = l; *off = i - (c - 1); } } }
    return best;
}
int ref_lz4_compress_greedy(const uint8_t* in, size_t n, ref_buf* out) {
    static uint32_t tab[1 << 14]; memset(tab, 0, sizeof tab);
    size_t i = 0, anchor = 0;
    size_t last_match_start = n >= 12 ? n - 12 : 0, match_end_limit = n >= 5 ? n - 5 : 0;    /* the last match starts at least 12 bytes before the end; the last 5 bytes are literals */
    while (n >= 13 && i <= last_match_start) {
        size_t off, l = ref_best_match(in, i, match_end_limit, tab, 65535, &off);
        if (i + 4 <= n) tab[ref_h4(in + i)] = (uint32_t)i + 1;
        if (l < 4) { i++; continue; }
        size_t lit = i - anchor, ml = l - 4;
        ref_buf_u8(out, (uint8_t)(((lit >= 15 ? 15 : lit) << 4) | (ml >= 15 ? 15 : ml)));
        if (lit >= 15) { size_t v = lit - 15; while (v >= 255) { ref_buf_u8(out, 255); v -= 255; } ref_buf_u8(out, (uint8_t)v); }
        ref_buf_put(out, in + anchor, lit);
        ref_buf_u8(out, (uint8_t)off); ref_buf_u8(out, (uint8_t)(off >> 8));
        if (ml >= 15) { size_t v = ml - 15; while (v >= 255) { ref_buf_u8(out, 255); v -= 255; } ref_buf_u8(out, (uint8_t)v); }
        for (size_t k = 1; k < l && i + k + 4 <= n; k += 3) tab[ref_h4(in + i + k)] = (uint32_t)(i + k) + 1;
        i += l; anchor = i;
    }
    size_t lit = n - anchor;
    ref_buf_u8(out, (uint8_t)((lit >= 15 ? 15 : lit) << 4));
    if (lit >= 15) { size_t v = lit - 15; while (v >= 255) { ref_buf_u8(out, 255); v -= 255; } ref_buf_u8(out, (uint8_t)v); }
    ref_buf_put(out, in + anchor, lit);
    return 0;
}
static void ref_snappy_literal(ref_buf* out, const uint8_t* p, size_t len) {
    if (!len) return; size_t m = len - 1;
    if (len <= 60) ref_buf_u8(out, (uint8_t)(m << 2)); else { int nb = m < 0x100 ? 1 : m < 0x10000 ? 2 : m < 0x1000000 ? 3 : 4; ref_buf_u8(out, (uint8_t)((59 + nb) << 2)); for (int k = 0; k < nb; k++) ref_buf_u8(out, (uint8_t)(m >> (8 * k))); }
    ref_buf_put(out, p, len);
}
int ref_snappy_compress_greedy(const uint8_t* in, size_t n, ref_buf* out) {
    static uint32_t tab[1 << 14]; memset(tab, 0, sizeof tab);
    ref_buf_uleb(out, n);
    size_t i = 0, anchor = 0;
    while (i + 4 <= n) {
        size_t off, l = ref_best_match(in, i, n, tab, (size_t)-1, &off);
        tab[ref_h4(in + i)] = (uint32_t)i + 1;
        if (l < 4) { i++; continue; }
        ref_snappy_literal(out, in + anchor, i - anchor);
        size_t rest = l;
        while (rest) {
            size_t c = rest > 64 ? 64 : rest; if (rest > 64 && rest - 64 < 4) c = 60;           /* keep every piece >= 4 bytes, as the format's compressors do */
            if (c >= 4 && c <= 11 && off < 2048) { ref_buf_u8(out, (uint8_t)(1 | ((c - 4) << 2) | ((off >> 8) << 5))); ref_buf_u8(out, (uint8_t)off); }
            else if (off < 65536) { ref_buf_u8(out, (uint8_t)(2 | ((c - 1) << 2))); ref_buf_u8(out, (uint8_t)off); ref_buf_u8(out, (uint8_t)(off >> 8)); }
            else { ref_buf_u8(out, (uint8_t)(3 | ((c - 1) << 2))); for (int k = 0; k < 4; k++) ref_buf_u8(out, (uint8_t)(off >> (8 * k))); }
            rest -= c;
        }
        for (size_t k = 1; k < l && i + k + 4 <= n; k += 3) tab[ref_h4(in + i + k)] = (uint32_t)(i + k) + 1;
        i += l; anchor = i;
    }
    ref_snappy_literal(out, in + anchor, n - anchor);
    return 0;
}
