/* ref_enc.c — Parquet encodings from the specification
 * (https://parquet.apache.org/docs/file-format/data-pages/encodings/). */
#include "ref.h"
#include <stdlib.h>
#include <string.h>

/* ---- buffer ----------------------------------------------------------- */
void ref_buf_init(ref_buf* b) { b->p = NULL; b->n = b->cap = 0; }
void ref_buf_free(ref_buf* b) { free(b->p); b->p = NULL; b->n = b->cap = 0; }
void ref_buf_clear(ref_buf* b) { b->n = 0; }
static void grow(ref_buf* b, size_t extra) {
    if (b->n + extra <= b->cap) return;
    size_t c = b->cap ? b->cap * 2 : 64;
    while (c < b->n + extra) c *= 2;
    b->p = realloc(b->p, c); b->cap = c;
    if (!b->p) abort();
}
void ref_buf_put(ref_buf* b, const void* d, size_t n) { if (!n) return; grow(b, n); memcpy(b->p + b->n, d, n); b->n += n; }
void ref_buf_u8(ref_buf* b, uint8_t v) { grow(b, 1); b->p[b->n++] = v; }
void ref_buf_u32le(ref_buf* b, uint32_t v) { for (int i = 0; i < 4; i++) ref_buf_u8(b, (uint8_t)(v >> (8 * i))); }
void ref_buf_u64le(ref_buf* b, uint64_t v) { for (int i = 0; i < 8; i++) ref_buf_u8(b, (uint8_t)(v >> (8 * i))); }
void ref_buf_uleb(ref_buf* b, uint64_t v) { while (v >= 0x80) { ref_buf_u8(b, (uint8_t)(v | 0x80)); v >>= 7; } ref_buf_u8(b, (uint8_t)v); }
void ref_buf_zz(ref_buf* b, int64_t v) { ref_buf_uleb(b, ((uint64_t)v << 1) ^ (uint64_t)(v >> 63)); }

static int get_uleb(const uint8_t* in, size_t n, size_t* pos, uint64_t* out) {
    uint64_t r = 0; int shift = 0;
    while (*pos < n && shift < 70) {
        uint8_t b = in[(*pos)++];
        if (shift < 64) r |= (uint64_t)(b & 0x7f) << shift;
        if (!(b & 0x80)) { *out = r; return 0; }
        shift += 7;
    }
    return -1;
}
static int64_t unzz(uint64_t v) { return (int64_t)(v >> 1) ^ -(int64_t)(v & 1); }

/* bit stream reader, LSB first */
static int get_bits(const uint8_t* in, size_t nbytes, uint64_t bitpos, int w, uint64_t* out) {
    uint64_t r = 0;
    for (int i = 0; i < w; i++) {
        uint64_t bp = bitpos + (uint64_t)i;
        if ((bp >> 3) >= nbytes) return -1;
        r |= (uint64_t)((in[bp >> 3] >> (bp & 7)) & 1) << i;
    }
    *out = r; return 0;
}

/* ---- raw bit packing --------------------------------------------------- */
void ref_bitpack(const uint64_t* v, size_t n, int bw, ref_buf* out) {
    size_t nbytes = (n * (size_t)bw + 7) / 8;
    size_t base = out->n;
    for (size_t i = 0; i < nbytes; i++) ref_buf_u8(out, 0);
    uint64_t bp = 0;
    for (size_t i = 0; i < n; i++)
        for (int k = 0; k < bw; k++, bp++)
            if ((v[i] >> k) & 1) out->p[base + (bp >> 3)] |= (uint8_t)(1u << (bp & 7));
}
void ref_bitunpack(const uint8_t* in, size_t n, int bw, uint64_t* out) {
    size_t nbytes = (n * (size_t)bw + 7) / 8;
    for (size_t i = 0; i < n; i++) { uint64_t x = 0; get_bits(in, nbytes, (uint64_t)i * (uint64_t)bw, bw, &x); out[i] = x; }
}

/* ---- hybrid ------------------------------------------------------------- */
const char* const ref_hybrid_form_name[REF_H_NFORMS] = { "rle-only", "bitpacked-only", "mixed-multigroup", "short-rle", "zero-length-runs", "padded-ones", "single-groups" };

int64_t ref_hybrid_decode(const uint8_t* in, size_t n, int bw, uint32_t* out, int64_t max, size_t* used) {
    size_t pos = 0; int64_t cnt = 0;
    uint64_t mask = bw >= 32 ? 0xffffffffull : ((1ull << bw) - 1);
    while (cnt < max) {
        if (pos >= n) break;
        uint64_t h;
        if (get_uleb(in, n, &pos, &h) < 0) return -1;
        if ((h & 1) == 0) {
            uint64_t c = h >> 1; size_t vb = (size_t)(bw + 7) / 8;
            if (pos + vb > n) return -1;
            uint64_t val = 0;
            for (size_t i = 0; i < vb; i++) val |= (uint64_t)in[pos + i] << (8 * i);
            pos += vb; val &= mask;
            for (uint64_t i = 0; i < c && cnt < max; i++) out[cnt++] = (uint32_t)val;
        } else {
            uint64_t groups = h >> 1;
            uint64_t total = groups * 8;
            uint64_t need = total;
            if ((uint64_t)(max - cnt) < need) need = (uint64_t)(max - cnt);
            for (uint64_t i = 0; i < need; i++) {
                uint64_t x;
                if (get_bits(in + pos, n - pos, i * (uint64_t)bw, bw, &x) < 0) return -1;
                out[cnt++] = (uint32_t)x;
            }
            size_t bytes = (size_t)(groups * (uint64_t)bw);
            pos = pos + bytes > n ? n : pos + bytes;
        }
    }
    if (used) *used = pos;
    return cnt;
}

static void emit_rle(ref_buf* o, uint64_t count, uint32_t val, int bw) {
    ref_buf_uleb(o, count << 1);
    for (int i = 0; i < (bw + 7) / 8; i++) ref_buf_u8(o, (uint8_t)(val >> (8 * i)));
}
static void emit_bp(ref_buf* o, const uint32_t* v, size_t n, int bw, uint32_t pad) {
    size_t groups = (n + 7) / 8;
    ref_buf_uleb(o, (groups << 1) | 1);
    uint64_t* t = malloc((groups * 8 + 1) * sizeof *t);
    for (size_t i = 0; i < groups * 8; i++) t[i] = i < n ? v[i] : pad;
    ref_bitpack(t, groups * 8, bw, o);
    free(t);
}
static int64_t run_len(const uint32_t* v, int64_t n, int64_t i) { int64_t j = i; while (j < n && v[j] == v[i]) j++; return j - i; }

void ref_hybrid_encode(const uint32_t* v, int64_t n, int bw, int form, ref_buf* out) {
    uint32_t mask = bw >= 32 ? 0xffffffffu : ((1u << bw) - 1);
    switch (form) {
    case REF_H_RLE_ONLY:
        for (int64_t i = 0; i < n;) { int64_t r = run_len(v, n, i); emit_rle(out, (uint64_t)r, v[i], bw); i += r; }
        return;
    case REF_H_SHORT_RLE:
        for (int64_t i = 0; i < n;) { int64_t r = run_len(v, n, i); if (r > 3) r = 3; emit_rle(out, (uint64_t)r, v[i], bw); i += r; }
        return;
    case REF_H_BP_ONLY:
        if (n) emit_bp(out, v, (size_t)n, bw, 0);
        return;
    case REF_H_PADDED_ONES:
        if (n) emit_bp(out, v, (size_t)n, bw, mask);
        return;
    default: break;
    }
    /* MIXED / ZERO_RUNS / SINGLE_GROUPS: greedy run selection */
    uint32_t* lit = malloc(((size_t)n + 8) * sizeof *lit); size_t nl = 0;
    uint32_t zval = mask < 2 ? mask : 2;
    #define FLUSH_LIT() do { if (nl) { \
        if (form == REF_H_ZERO_RUNS) { emit_rle(out, 0, zval, bw); ref_buf_uleb(out, 1); } \
        if (form == REF_H_SINGLE_GROUPS) { for (size_t g = 0; g < nl; g += 8) emit_bp(out, lit + g, nl - g < 8 ? nl - g : 8, bw, 0); } \
        else emit_bp(out, lit, nl, bw, 0); \
        nl = 0; } } while (0)
    for (int64_t i = 0; i < n;) {
        int64_t r = run_len(v, n, i);
        if (r >= 8 && (nl % 8) == 0) {
            FLUSH_LIT();
            if (form == REF_H_ZERO_RUNS) { ref_buf_uleb(out, 1); emit_rle(out, 0, zval, bw); }
            emit_rle(out, (uint64_t)r, v[i], bw); i += r;
        } else if (r >= 8) {
            size_t k = 8 - (nl % 8);
            for (size_t j = 0; j < k; j++) lit[nl++] = v[i];
            i += (int64_t)k;
        } else { lit[nl++] = v[i]; i++; }
    }
    FLUSH_LIT();
    if (form == REF_H_ZERO_RUNS) { emit_rle(out, 0, zval, bw); }
    free(lit);
}

/* ---- DELTA_BINARY_PACKED ------------------------------------------------ */
static int width_of(uint64_t x) { int w = 0; while (x) { w++; x >>= 1; } return w; }

void ref_delta_encode(const int64_t* v, int64_t n, const ref_delta_opts* o, ref_buf* out) {
    int B = o->block_size ? o->block_size : 128, M = o->miniblocks ? o->miniblocks : 4, mbs = B / M;
    int bits = o->bits ? o->bits : 64;
    uint64_t tmask = bits == 64 ? ~0ull : ((1ull << bits) - 1);
    ref_buf_uleb(out, (uint64_t)B); ref_buf_uleb(out, (uint64_t)M); ref_buf_uleb(out, (uint64_t)n);
    ref_buf_zz(out, n ? v[0] : 0);
    int64_t nd = n > 0 ? n - 1 : 0;
    int64_t* d = malloc(((size_t)nd + 1) * sizeof *d);
    for (int64_t i = 0; i < nd; i++) {
        uint64_t x = ((uint64_t)v[i + 1] - (uint64_t)v[i]) & tmask;
        if (bits < 64 && (x >> (bits - 1)) & 1) x |= ~tmask;    /* sign-extend */
        d[i] = (int64_t)x;
    }
    uint64_t* adj = malloc((size_t)mbs * sizeof *adj);
    for (int64_t b0 = 0; b0 < nd; b0 += B) {
        int64_t cnt = nd - b0 < B ? nd - b0 : B;
        int64_t mn = d[b0];
        for (int64_t i = 1; i < cnt; i++) if (d[b0 + i] < mn) mn = d[b0 + i];
        ref_buf_zz(out, mn);
        int widths[64];
        for (int m = 0; m < M; m++) {
            int64_t s = (int64_t)m * mbs;
            if (s >= cnt) { widths[m] = -1; ref_buf_u8(out, (uint8_t)o->unused_width_byte); continue; }
            uint64_t mx = 0;
            for (int64_t i = s; i < s + mbs && i < cnt; i++) { uint64_t a = ((uint64_t)d[b0 + i] - (uint64_t)mn) & tmask; if (a > mx) mx = a; }
            int w = width_of(mx) + o->widen; if (w > bits) w = bits;
            widths[m] = w; ref_buf_u8(out, (uint8_t)w);
        }
        for (int m = 0; m < M; m++) {
            if (widths[m] < 0) continue;
            int64_t s = (int64_t)m * mbs;
            for (int i = 0; i < mbs; i++) adj[i] = (s + i < cnt) ? (((uint64_t)d[b0 + s + i] - (uint64_t)mn) & tmask) : 0;
            ref_bitpack(adj, (size_t)mbs, widths[m], out);
        }
    }
    free(adj); free(d);
}

int ref_delta_decode(const uint8_t* in, size_t n, int64_t* out, int64_t count, size_t* used, int64_t* total_hdr) {
    size_t pos = 0; uint64_t B, M, T, F;
    if (get_uleb(in, n, &pos, &B) || get_uleb(in, n, &pos, &M) || get_uleb(in, n, &pos, &T) || get_uleb(in, n, &pos, &F)) return -1;
    if (total_hdr) *total_hdr = (int64_t)T;
    if (B == 0 || M == 0 || B % M || B > (1u << 20)) return -2;
    uint64_t mbs = B / M;
    if ((uint64_t)count > T) return -3;
    if (count == 0) { if (used) *used = pos; return 0; }
    uint64_t last = (uint64_t)unzz(F);
    int64_t k = 0; out[k++] = (int64_t)last;
    int64_t left_total = (int64_t)T - 1;         /* deltas stored in the stream */
    while (k < count) {
        uint64_t z; if (get_uleb(in, n, &pos, &z)) return -4;
        uint64_t mn = (uint64_t)unzz(z);
        if (pos + M > n) return -5;
        const uint8_t* widths = in + pos; pos += M;
        for (uint64_t m = 0; m < M && left_total > 0; m++) {
            int w = widths[m]; if (w > 64) return -6;
            size_t bytes = (size_t)((mbs * (uint64_t)w + 7) / 8);
            if (pos + bytes > n) return -7;
            for (uint64_t i = 0; i < mbs && left_total > 0; i++) {
                uint64_t x = 0; get_bits(in + pos, bytes, i * (uint64_t)w, w, &x);
                last = last + mn + x; left_total--;
                if (k < count) out[k++] = (int64_t)last;
            }
            pos += bytes;
            if (k >= count) break;
        }
        if (left_total <= 0 && k < count) return -8;
    }
    if (used) *used = pos;
    return 0;
}

/* ---- DELTA_LENGTH_BYTE_ARRAY / DELTA_BYTE_ARRAY ---------------------------- */
static const ref_delta_opts k_len_opts = { 128, 4, 0, 32, 0 };
void ref_dlba_encode(const ref_str* v, int64_t n, ref_buf* out) {
    int64_t* len = malloc(((size_t)n + 1) * sizeof *len);
    for (int64_t i = 0; i < n; i++) len[i] = v[i].n;
    ref_delta_encode(len, n, &k_len_opts, out);
    for (int64_t i = 0; i < n; i++) ref_buf_put(out, v[i].p, v[i].n);
    free(len);
}
int ref_dlba_decode(const uint8_t* in, size_t n, ref_str* out, int64_t count, size_t* used) {
    int64_t* len = malloc(((size_t)count + 1) * sizeof *len); size_t u = 0;
    int rc = ref_delta_decode(in, n, len, count, &u, NULL);
    if (rc) { free(len); return rc; }
    size_t pos = u;
    for (int64_t i = 0; i < count; i++) {
        int32_t L = (int32_t)len[i];
        if (L < 0 || pos + (size_t)L > n) { free(len); return -20; }
        out[i].p = in + pos; out[i].n = (uint32_t)L; pos += (size_t)L;
    }
    free(len); if (used) *used = pos; return 0;
}
void ref_dba_encode(const ref_str* v, int64_t n, ref_buf* out) {
    int64_t* pre = malloc(((size_t)n + 1) * sizeof *pre);
    ref_str* suf = malloc(((size_t)n + 1) * sizeof *suf);
    for (int64_t i = 0; i < n; i++) {
        uint32_t c = 0;
        if (i > 0) { uint32_t m = v[i].n < v[i - 1].n ? v[i].n : v[i - 1].n; while (c < m && v[i].p[c] == v[i - 1].p[c]) c++; }
        pre[i] = c; suf[i].p = v[i].p + c; suf[i].n = v[i].n - c;
    }
    ref_delta_encode(pre, n, &k_len_opts, out);
    ref_dlba_encode(suf, n, out);
    free(pre); free(suf);
}
int ref_dba_decode(const uint8_t* in, size_t n, ref_str* out, int64_t count, uint8_t* work, size_t work_n, size_t* used) {
    int64_t* pre = malloc(((size_t)count + 1) * sizeof *pre);
    ref_str* suf = malloc(((size_t)count + 1) * sizeof *suf);
    size_t u1 = 0, u2 = 0; int rc = ref_delta_decode(in, n, pre, count, &u1, NULL);
    if (!rc) rc = ref_dlba_decode(in + u1, n - u1, suf, count, &u2);
    size_t w = 0;
    for (int64_t i = 0; i < count && !rc; i++) {
        int32_t p = (int32_t)pre[i];
        if (p < 0 || (i == 0 && p != 0) || (i > 0 && (uint32_t)p > out[i - 1].n)) { rc = -30; break; }
        if (w + (size_t)p + suf[i].n > work_n) { rc = -31; break; }
        if (p) memcpy(work + w, out[i - 1].p, (size_t)p);
        if (suf[i].n) memcpy(work + w + p, suf[i].p, suf[i].n);
        out[i].p = work + w; out[i].n = (uint32_t)p + suf[i].n; w += out[i].n;
    }
    free(pre); free(suf); if (used) *used = u1 + u2; return rc;
}

/* ---- BYTE_STREAM_SPLIT --------------------------------------------------- */
void ref_bss_encode(const uint8_t* v, int64_t count, int width, uint8_t* out) {
    for (int64_t i = 0; i < count; i++) for (int k = 0; k < width; k++) out[(int64_t)k * count + i] = v[i * width + k];
}
void ref_bss_decode(const uint8_t* in, int64_t count, int width, uint8_t* out) {
    for (int64_t i = 0; i < count; i++) for (int k = 0; k < width; k++) out[i * width + k] = in[(int64_t)k * count + i];
}

/* ---- PLAIN ------------------------------------------------------------------ */
void ref_plain_bool_encode(const uint8_t* v, int64_t n, ref_buf* out) {
    uint64_t* t = malloc(((size_t)n + 1) * sizeof *t);
    for (int64_t i = 0; i < n; i++) t[i] = v[i] ? 1 : 0;
    ref_bitpack(t, (size_t)n, 1, out); free(t);
}
void ref_plain_bool_decode(const uint8_t* in, int64_t n, uint8_t* out) {
    for (int64_t i = 0; i < n; i++) out[i] = (in[i >> 3] >> (i & 7)) & 1;
}
void ref_plain_ba_encode(const ref_str* v, int64_t n, ref_buf* out) {
    for (int64_t i = 0; i < n; i++) { ref_buf_u32le(out, v[i].n); ref_buf_put(out, v[i].p, v[i].n); }
}
int ref_plain_ba_decode(const uint8_t* in, size_t n, ref_str* out, int64_t count, size_t* used) {
    size_t pos = 0;
    for (int64_t i = 0; i < count; i++) {
        if (pos + 4 > n) return -1;
        uint32_t L = (uint32_t)in[pos] | (uint32_t)in[pos + 1] << 8 | (uint32_t)in[pos + 2] << 16 | (uint32_t)in[pos + 3] << 24;
        pos += 4; if (L > n - pos) return -2;
        out[i].p = in + pos; out[i].n = L; pos += L;
    }
    if (used) *used = pos; return 0;
}
