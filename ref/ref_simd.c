/* ref_simd.c — scalar definitions of the vectorised kernels (see ref_simd.h).
 * Deliberately naive: one element per iteration, no library calls, no carquet
 * code. */
#include "ref_simd.h"

void ref_simd_prefix_sum_u32(uint32_t* values, int64_t count, uint32_t initial) {
    uint32_t sum = initial;
    for (int64_t i = 0; i < count; i++) { sum += values[i]; values[i] = sum; }
}
void ref_simd_prefix_sum_u64(uint64_t* values, int64_t count, uint64_t initial) {
    uint64_t sum = initial;
    for (int64_t i = 0; i < count; i++) { sum += values[i]; values[i] = sum; }
}

void ref_simd_gather32(const uint32_t* dict, const uint32_t* idx, int64_t count, uint32_t* out) {
    for (int64_t i = 0; i < count; i++) out[i] = dict[idx[i]];
}
void ref_simd_gather64(const uint64_t* dict, const uint32_t* idx, int64_t count, uint64_t* out) {
    for (int64_t i = 0; i < count; i++) out[i] = dict[idx[i]];
}

void ref_simd_bss_encode(const uint8_t* in, int64_t count, int width, uint8_t* out) {
    for (int64_t i = 0; i < count; i++)
        for (int b = 0; b < width; b++) out[(int64_t)b * count + i] = in[i * width + b];
}
void ref_simd_bss_decode(const uint8_t* in, int64_t count, int width, uint8_t* out) {
    for (int64_t i = 0; i < count; i++)
        for (int b = 0; b < width; b++) out[i * width + b] = in[(int64_t)b * count + i];
}

void ref_simd_unpack_bools(const uint8_t* in, uint8_t* out, int64_t count) {
    for (int64_t i = 0; i < count; i++) out[i] = (uint8_t)((in[i >> 3] >> (i & 7)) & 1u);
}
void ref_simd_pack_bools(const uint8_t* in, uint8_t* out, int64_t count) {
    int64_t nbytes = (count + 7) / 8;
    for (int64_t b = 0; b < nbytes; b++) out[b] = 0;
    for (int64_t i = 0; i < count; i++) if (in[i]) out[i >> 3] = (uint8_t)(out[i >> 3] | (1u << (i & 7)));
}

int64_t ref_simd_find_run_length_u32(const uint32_t* v, int64_t count) {
    if (count <= 0) return 0;
    int64_t n = 1;
    while (n < count && v[n] == v[0]) n++;
    return n;
}

uint32_t ref_simd_crc32c(uint32_t crc, const uint8_t* data, size_t len) {
    uint32_t c = ~crc;
    for (size_t i = 0; i < len; i++) {
        c ^= data[i];
        for (int k = 0; k < 8; k++) c = (c & 1u) ? (c >> 1) ^ 0x82F63B78u : (c >> 1);
    }
    return ~c;
}

void ref_simd_match_copy(uint8_t* dst, const uint8_t* src, size_t len, size_t offset) {
    (void)offset;
    for (size_t i = 0; i < len; i++) dst[i] = src[i];
}
size_t ref_simd_match_length(const uint8_t* p, const uint8_t* match, const uint8_t* limit) {
    size_t n = 0;
    while (p + n < limit && p[n] == match[n]) n++;
    return n;
}

int64_t ref_simd_count_non_nulls(const int16_t* lv, int64_t count, int16_t max_def) {
    int64_t n = 0;
    for (int64_t i = 0; i < count; i++) if (lv[i] == max_def) n++;
    return n;
}
void ref_simd_build_null_bitmap(const int16_t* lv, int64_t count, int16_t max_def, uint8_t* bitmap) {
    int64_t nbytes = (count + 7) / 8;
    for (int64_t b = 0; b < nbytes; b++) bitmap[b] = 0;
    for (int64_t i = 0; i < count; i++) if (lv[i] < max_def) bitmap[i >> 3] = (uint8_t)(bitmap[i >> 3] | (1u << (i & 7)));
}
void ref_simd_fill_i16(int16_t* lv, int64_t count, int16_t value) {
    for (int64_t i = 0; i < count; i++) lv[i] = value;
}

void ref_simd_bitunpack(const uint8_t* in, int n, int bw, uint32_t* out) {
    for (int i = 0; i < n; i++) {
        uint32_t v = 0;
        for (int b = 0; b < bw; b++) {
            int64_t bit = (int64_t)i * bw + b;
            if ((in[bit >> 3] >> (bit & 7)) & 1u) v |= 1u << b;
        }
        out[i] = v;
    }
}

void ref_simd_memset(uint8_t* d, uint8_t v, size_t n) { for (size_t i = 0; i < n; i++) d[i] = v; }
void ref_simd_memcpy(uint8_t* d, const uint8_t* s, size_t n) { for (size_t i = 0; i < n; i++) d[i] = s[i]; }
