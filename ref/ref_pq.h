/* ref_pq.h — independent Parquet file writer and validating reader, written
 * from the Parquet format specification (file layout, page layout, encodings,
 * parquet.thrift).  Shares no code with carquet. */
#ifndef REF_PQ_H
#define REF_PQ_H
#include "ref.h"
#include "ref_thrift.h"

enum { PT_BOOLEAN = 0, PT_INT32, PT_INT64, PT_INT96, PT_FLOAT, PT_DOUBLE, PT_BYTE_ARRAY, PT_FLBA };
enum { ENC_PLAIN = 0, ENC_PLAIN_DICT = 2, ENC_RLE = 3, ENC_BIT_PACKED = 4, ENC_DELTA_BINARY = 5, ENC_DELTA_LENGTH = 6, ENC_DELTA_BYTE_ARRAY = 7, ENC_RLE_DICT = 8, ENC_BSS = 9 };
enum { CODEC_NONE = 0, CODEC_SNAPPY = 1, CODEC_GZIP = 2, CODEC_LZO = 3, CODEC_BROTLI = 4, CODEC_LZ4 = 5, CODEC_ZSTD = 6, CODEC_LZ4_RAW = 7 };

int ref_type_width(int ptype, int type_length);   /* bytes per value in the in-memory form (BOOLEAN 1, BYTE_ARRAY 0) */
int ref_bit_width(int max_level);

/* one column chunk worth of data in "level + dense values" form */
typedef struct {
    int ptype, type_length, max_def, max_rep;
    int64_t nlevels;            /* number of level entries (= rows for flat schemas) */
    int16_t* def; int16_t* rep; /* NULL allowed when the corresponding max is 0 */
    int64_t nvalues;            /* entries with def == max_def */
    uint8_t* fixed;             /* nvalues * width (BOOLEAN: one byte 0/1 each) */
    ref_str* strs;              /* BYTE_ARRAY values */
} ref_coldata;

typedef struct {
    int codec;                  /* CODEC_* */
    int value_encoding;         /* ENC_PLAIN / ENC_PLAIN_DICT / ENC_RLE_DICT / others */
    int npages; int page_levels[8];  /* level entries per data page (0 pages => one page with everything) */
    int uniform_page_levels;    /* > 0: every data page holds this many level entries (as many pages as needed); overrides npages */
    int level_form, index_form; /* REF_H_* */
    int index_bw_extra;         /* dictionary index bit width = minimal + extra */
    bool crc;
    const ref_stats* chunk_stats;    /* NULL => no chunk statistics */
    const ref_stats* page_stats;     /* NULL => no page statistics (same struct in every page) */
    bool dict_offset_present;   /* write ColumnMetaData.dictionary_page_offset (when a dictionary page exists) */
    bool data_offset_at_dict;   /* data_page_offset points at the dictionary page (seen from some writers) */
    bool v2;                    /* DATA_PAGE_V2 */
    int level_encoding;         /* 0/ENC_RLE default; ENC_BIT_PACKED for the deprecated encoding */
    bool omit_num_children_zero;/* unused */
    unsigned plain_page_mask;   /* dictionary chunks only: bit p set => data page p is written PLAIN instead of dictionary-encoded (the "dictionary fallback" of other writers, in any order) */
    bool absent_levels_bit_packed; /* announce the encoding of a level the column does not have (max level 0) as BIT_PACKED, as parquet-mr does; no bytes are stored for such a level */
} ref_chunk_layout;

typedef struct {
    ref_tform tform;            /* header forms for footer and page headers */
    int unknown_kind;           /* 0 none; k>0: unknown field payload kind k-1 inserted in every struct of footer and page headers */
    bool unknown_at_end;
    const char* created_by;
    bool kv;
} ref_file_layout;

typedef struct { size_t header_off, body_off, body_len; int rg, leaf, page_type; bool has_crc; int64_t first_level, nlevels; } ref_pageinfo;

typedef struct {
    const ref_schema_elem* schema; int nschema;      /* DFS list, root first */
    int nleaves;
    int nrg; const int64_t* rg_rows;
    const ref_coldata* cols;                          /* [rg * nleaves + leaf] */
    const ref_chunk_layout* layouts;                  /* [rg * nleaves + leaf] */
    ref_file_layout fl;
} ref_write_req;

/* unknown-field payload generator shared with the thrift harness */
ref_tval ref_unknown_payload(ref_arena* a, int kind);
#define REF_N_UNKNOWN 16
extern const char* const ref_unknown_name[REF_N_UNKNOWN];

int ref_pq_write(ref_arena* a, const ref_write_req* rq, ref_buf* out, ref_pageinfo* pages, int maxpages, int* npages);

/* schema helpers */
typedef struct { int nleaves; int leaf_schema_idx[4096]; int max_def[4096]; int max_rep[4096]; } ref_leaves;
int ref_schema_leaves(const ref_schema_elem* schema, int nschema, ref_leaves* out);   /* 0 ok, <0 malformed tree */

typedef struct {
    ref_file_meta meta; ref_leaves leaves;
    ref_coldata* cols;          /* [rg * nleaves + leaf] */
    ref_pageinfo* pages; int npages;
    size_t footer_start;
    char err[300];              /* "<class>: <detail>" when the return value is negative */
} ref_file;
#define REF_RD_CHECK_TOTALS 1u  /* judge total_uncompressed_size / total_byte_size per parquet.thrift */
int ref_pq_read(ref_arena* a, const uint8_t* img, size_t n, ref_file* out, unsigned flags);

/* codecs used by the reference stack */
/* ref_compress_form selects among equally valid encodings: 0 default; 1 = SNAPPY: the whole input as ONE literal element (1..4 length bytes);
 * ZSTD: a frame whose header carries no Frame_Content_Size (what streaming compressors emit) */
extern int ref_compress_form;
extern int ref_pq_gap_before_rg; extern uint64_t ref_pq_gap_bytes; extern size_t ref_pq_gap_pos;      /* a hole in front of a row group (files beyond 2 / 4 GiB without writing them) */
int ref_compress(int codec, const uint8_t* in, size_t n, ref_buf* out);
int ref_decompress(int codec, const uint8_t* in, size_t n, uint8_t* out, size_t cap, size_t* out_n);
#endif
