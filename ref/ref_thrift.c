/* ref_thrift.c — Thrift compact protocol over a generic value tree, and the
 * parquet.thrift structure mapping (field ids and wire types from the IDL). */
#include "ref_thrift.h"
#include <stdlib.h>
#include <string.h>
#include <stdio.h>

/* ---- arena ---------------------------------------------------------------- */
struct ref_chunk_ { struct ref_chunk_* next; size_t used, cap; unsigned char data[]; };
void* ref_alloc(ref_arena* a, size_t n) {
    n = (n + 15) & ~(size_t)15; if (n == 0) n = 16;
    struct ref_chunk_* c = a->head;
    if (!c || c->used + n > c->cap) {
        size_t cap = n > 65536 ? n : 65536;
        c = malloc(sizeof *c + cap); if (!c) abort();
        c->next = a->head; c->used = 0; c->cap = cap; a->head = c;
    }
    void* p = c->data + c->used; c->used += n; memset(p, 0, n); return p;
}
void ref_arena_free(ref_arena* a) { while (a->head) { struct ref_chunk_* n = a->head->next; free(a->head); a->head = n; } }

/* ---- encode ----------------------------------------------------------------- */
static void enc_value(const ref_tval* v, const ref_tform* f, ref_buf* o);
static void enc_list_header(int et, int n, const ref_tform* f, ref_buf* o) {
    if (n < 15 && !f->long_list_headers) ref_buf_u8(o, (uint8_t)((n << 4) | et));
    else { ref_buf_u8(o, (uint8_t)(0xF0 | et)); ref_buf_uleb(o, (uint64_t)n); }
}
static int wire_of(const ref_tval* v) { return v->type == RT_TRUE ? (v->i ? RT_TRUE : RT_FALSE) : v->type; }
static void enc_struct(const ref_tval* s, const ref_tform* f, ref_buf* o) {
    int last = 0;
    for (int k = 0; k < s->nitems; k++) {
        int fid = s->fids[k], delta = fid - last, wt = wire_of(&s->items[k]);
        if (delta > 0 && delta <= 15 && !f->long_field_headers) ref_buf_u8(o, (uint8_t)((delta << 4) | wt));
        else { ref_buf_u8(o, (uint8_t)wt); ref_buf_zz(o, fid); }
        last = fid;
        if (wt != RT_TRUE && wt != RT_FALSE) enc_value(&s->items[k], f, o);
    }
    ref_buf_u8(o, 0);
}
static void enc_value(const ref_tval* v, const ref_tform* f, ref_buf* o) {
    switch (v->type) {
    case RT_TRUE: case RT_FALSE: ref_buf_u8(o, v->i ? 1 : 0); break;      /* element position: one byte */
    case RT_BYTE: ref_buf_u8(o, (uint8_t)v->i); break;
    case RT_I16: case RT_I32: case RT_I64: ref_buf_zz(o, v->i); break;
    case RT_DOUBLE: ref_buf_put(o, v->raw, 8); break;
    case RT_UUID: ref_buf_put(o, v->raw, 16); break;
    case RT_BINARY: ref_buf_uleb(o, v->has_lie ? v->lie : v->bin_n); ref_buf_put(o, v->bin, v->bin_n); break;
    case RT_LIST: case RT_SET:
        if (v->has_lie) { ref_buf_u8(o, (uint8_t)(0xF0 | (v->elem_type == RT_FALSE ? RT_TRUE : v->elem_type))); ref_buf_uleb(o, v->lie); }
        else enc_list_header(v->elem_type == RT_FALSE ? RT_TRUE : v->elem_type, v->nitems, f, o);
        for (int k = 0; k < v->nitems; k++) enc_value(&v->items[k], f, o);
        break;
    case RT_MAP:
        if (v->nitems == 0) { ref_buf_u8(o, 0); break; }
        ref_buf_uleb(o, v->has_lie ? v->lie : (uint64_t)(v->nitems / 2)); ref_buf_u8(o, (uint8_t)((v->key_type << 4) | v->elem_type));
        for (int k = 0; k < v->nitems; k++) enc_value(&v->items[k], f, o);
        break;
    case RT_STRUCT: enc_struct(v, f, o); break;
    default: abort();
    }
}
void ref_thrift_encode(const ref_tval* root, const ref_tform* f, ref_buf* out) { static const ref_tform dflt = { false, false }; enc_struct(root, f ? f : &dflt, out); }

/* ---- decode ----------------------------------------------------------------- */
typedef struct { const uint8_t* p; size_t n, pos; ref_arena* a; int depth; } dec_t;
static int d_u8(dec_t* d, uint8_t* b) { if (d->pos >= d->n) return -1; *b = d->p[d->pos++]; return 0; }
static int d_uleb(dec_t* d, uint64_t* v) {
    uint64_t r = 0; int sh = 0; uint8_t b;
    for (;;) { if (d_u8(d, &b)) return -1; if (sh < 64) r |= (uint64_t)(b & 0x7f) << sh; if (!(b & 0x80)) break; sh += 7; if (sh > 70) return -2; }
    *v = r; return 0;
}
static int64_t unzz(uint64_t v) { return (int64_t)(v >> 1) ^ -(int64_t)(v & 1); }
static int d_value(dec_t* d, int type, ref_tval* v);
static int d_struct(dec_t* d, ref_tval* s) {
    if (++d->depth > 200) return -10;
    s->type = RT_STRUCT; int cap = 8; s->items = ref_alloc(d->a, sizeof(ref_tval) * (size_t)cap); s->fids = ref_alloc(d->a, sizeof(int16_t) * (size_t)cap); s->nitems = 0;
    int last = 0;
    for (;;) {
        uint8_t h; if (d_u8(d, &h)) return -1;
        if (h == 0) break;
        int wt = h & 15, delta = h >> 4, fid;
        if (delta == 0) { uint64_t z; if (d_uleb(d, &z)) return -1; fid = (int16_t)unzz(z); } else fid = last + delta;
        last = fid;
        if (s->nitems == cap) {
            ref_tval* ni = ref_alloc(d->a, sizeof(ref_tval) * (size_t)cap * 2); int16_t* nf = ref_alloc(d->a, sizeof(int16_t) * (size_t)cap * 2);
            memcpy(ni, s->items, sizeof(ref_tval) * (size_t)cap); memcpy(nf, s->fids, sizeof(int16_t) * (size_t)cap); s->items = ni; s->fids = nf; cap *= 2;
        }
        ref_tval* v = &s->items[s->nitems]; s->fids[s->nitems] = (int16_t)fid; s->nitems++;
        if (wt == RT_TRUE || wt == RT_FALSE) { v->type = RT_TRUE; v->i = wt == RT_TRUE; }
        else { int rc = d_value(d, wt, v); if (rc) return rc; }
    }
    d->depth--; return 0;
}
static int d_value(dec_t* d, int type, ref_tval* v) {
    uint64_t z; uint8_t b;
    v->type = type;
    switch (type) {
    case RT_TRUE: case RT_FALSE: if (d_u8(d, &b)) return -1; v->type = RT_TRUE; v->i = b == 1; return 0;
    case RT_BYTE: if (d_u8(d, &b)) return -1; v->i = (int8_t)b; return 0;
    case RT_I16: case RT_I32: case RT_I64: if (d_uleb(d, &z)) return -1; v->i = unzz(z); return 0;
    case RT_DOUBLE: if (d->pos + 8 > d->n) return -1; memcpy(v->raw, d->p + d->pos, 8); d->pos += 8; return 0;
    case RT_UUID: if (d->pos + 16 > d->n) return -1; memcpy(v->raw, d->p + d->pos, 16); d->pos += 16; return 0;
    case RT_BINARY: if (d_uleb(d, &z)) return -1; if (z > d->n - d->pos) return -3; v->bin = d->p + d->pos; v->bin_n = (size_t)z; d->pos += (size_t)z; return 0;
    case RT_LIST: case RT_SET: {
        if (++d->depth > 200) return -10;
        if (d_u8(d, &b)) return -1;
        uint64_t n = b >> 4; v->elem_type = b & 15;
        if (n == 15) { if (d_uleb(d, &n)) return -1; }
        if (n > d->n - d->pos && v->elem_type != RT_STRUCT) return -4;
        if (n > (1u << 24)) return -4;
        v->nitems = (int)n; v->items = ref_alloc(d->a, sizeof(ref_tval) * (size_t)(n ? n : 1));
        for (uint64_t k = 0; k < n; k++) { int rc = d_value(d, v->elem_type, &v->items[k]); if (rc) return rc; }
        d->depth--; return 0;
    }
    case RT_MAP: {
        if (++d->depth > 200) return -10;
        if (d_uleb(d, &z)) return -1;
        if (z == 0) { v->nitems = 0; d->depth--; return 0; }
        if (z > d->n - d->pos) return -4;
        if (d_u8(d, &b)) return -1;
        v->key_type = b >> 4; v->elem_type = b & 15; v->nitems = (int)(2 * z); v->items = ref_alloc(d->a, sizeof(ref_tval) * (size_t)(2 * z));
        for (uint64_t k = 0; k < z; k++) { int rc = d_value(d, v->key_type, &v->items[2 * k]); if (rc) return rc; rc = d_value(d, v->elem_type, &v->items[2 * k + 1]); if (rc) return rc; }
        d->depth--; return 0;
    }
    case RT_STRUCT: return d_struct(d, v);
    default: return -5;
    }
}
int ref_thrift_decode(ref_arena* a, const uint8_t* in, size_t n, ref_tval* root, size_t* used) {
    dec_t d = { in, n, 0, a, 0 }; memset(root, 0, sizeof *root);
    int rc = d_struct(&d, root); if (used) *used = d.pos; return rc;
}

/* ---- tree helpers ------------------------------------------------------------ */
ref_tval ref_t_i(int type, int64_t v) { ref_tval t; memset(&t, 0, sizeof t); t.type = type; t.i = v; return t; }
ref_tval ref_t_bool(bool v) { ref_tval t; memset(&t, 0, sizeof t); t.type = RT_TRUE; t.i = v; return t; }
ref_tval ref_t_bin(const void* p, size_t n) { ref_tval t; memset(&t, 0, sizeof t); t.type = RT_BINARY; t.bin = p; t.bin_n = n; return t; }
ref_tval ref_t_struct(ref_arena* a, int cap) {
    ref_tval t; memset(&t, 0, sizeof t); t.type = RT_STRUCT; if (cap < 4) cap = 4;
    t.items = ref_alloc(a, sizeof(ref_tval) * (size_t)cap); t.fids = ref_alloc(a, sizeof(int16_t) * (size_t)cap); t.elem_type = cap; /* capacity kept in elem_type */
    return t;
}
void ref_t_insert(ref_arena* a, ref_tval* st, int pos, int16_t fid, ref_tval v) {
    int cap = st->elem_type;
    if (st->nitems >= cap) {
        int nc = (st->nitems + 4) * 2; ref_tval* ni = ref_alloc(a, sizeof(ref_tval) * (size_t)nc); int16_t* nf = ref_alloc(a, sizeof(int16_t) * (size_t)nc);
        if (st->nitems) { memcpy(ni, st->items, sizeof(ref_tval) * (size_t)st->nitems); memcpy(nf, st->fids, sizeof(int16_t) * (size_t)st->nitems); }
        st->items = ni; st->fids = nf; st->elem_type = nc;
    }
    if (pos > st->nitems) pos = st->nitems;
    memmove(st->items + pos + 1, st->items + pos, sizeof(ref_tval) * (size_t)(st->nitems - pos));
    memmove(st->fids + pos + 1, st->fids + pos, sizeof(int16_t) * (size_t)(st->nitems - pos));
    st->items[pos] = v; st->fids[pos] = fid; st->nitems++;
}
void ref_t_add(ref_arena* a, ref_tval* st, int16_t fid, ref_tval v) { ref_t_insert(a, st, st->nitems, fid, v); }
ref_tval ref_t_list(ref_arena* a, int et, int n) {
    ref_tval t; memset(&t, 0, sizeof t); t.type = RT_LIST; t.elem_type = et; t.nitems = n; t.items = ref_alloc(a, sizeof(ref_tval) * (size_t)(n ? n : 1)); return t;
}
const ref_tval* ref_t_get(const ref_tval* st, int16_t fid) { for (int k = 0; k < st->nitems; k++) if (st->fids[k] == fid) return &st->items[k]; return NULL; }
static void walk(ref_tval* v, ref_tval** out, int cap, int* n) {
    if (v->type == RT_STRUCT) { if (*n < cap) out[*n] = v; (*n)++; }
    if (v->type == RT_STRUCT || v->type == RT_LIST || v->type == RT_SET || v->type == RT_MAP) for (int k = 0; k < v->nitems; k++) walk(&v->items[k], out, cap, n);
}
int ref_t_structs(ref_tval* root, ref_tval** out, int cap) { int n = 0; walk(root, out, cap, &n); return n; }

/* ---- parquet.thrift: structures -> tree -------------------------------------- */
static ref_tval t_binv(const ref_bin* b) { return ref_t_bin(b->p, (size_t)b->n); }
static ref_tval stats_to_tree(ref_arena* a, const ref_stats* s) {
    ref_tval t = ref_t_struct(a, 8);
    if (s->max.present) ref_t_add(a, &t, 1, t_binv(&s->max));
    if (s->min.present) ref_t_add(a, &t, 2, t_binv(&s->min));
    if (s->has_null_count) ref_t_add(a, &t, 3, ref_t_i(RT_I64, s->null_count));
    if (s->has_distinct) ref_t_add(a, &t, 4, ref_t_i(RT_I64, s->distinct));
    if (s->max_value.present) ref_t_add(a, &t, 5, t_binv(&s->max_value));
    if (s->min_value.present) ref_t_add(a, &t, 6, t_binv(&s->min_value));
    if (s->has_max_exact) ref_t_add(a, &t, 7, ref_t_bool(s->max_exact));
    if (s->has_min_exact) ref_t_add(a, &t, 8, ref_t_bool(s->min_exact));
    return t;
}
static ref_tval logical_to_tree(ref_arena* a, const ref_logical* l) {
    ref_tval u = ref_t_struct(a, 2), in = ref_t_struct(a, 4);
    if (l->id == 5) { ref_t_add(a, &in, 1, ref_t_i(RT_I32, l->scale)); ref_t_add(a, &in, 2, ref_t_i(RT_I32, l->precision)); }
    else if (l->id == 7 || l->id == 8) {
        ref_t_add(a, &in, 1, ref_t_bool(l->utc));
        ref_tval unit = ref_t_struct(a, 2); ref_t_add(a, &unit, (int16_t)(l->unit ? l->unit : 1), ref_t_struct(a, 1)); ref_t_add(a, &in, 2, unit);
    } else if (l->id == 10) { ref_t_add(a, &in, 1, ref_t_i(RT_BYTE, l->bit_width)); ref_t_add(a, &in, 2, ref_t_bool(l->is_signed)); }
    ref_t_add(a, &u, (int16_t)l->id, in);
    return u;
}
static ref_tval kv_list(ref_arena* a, const ref_kv* kv, int n) {
    ref_tval l = ref_t_list(a, RT_STRUCT, n);
    for (int i = 0; i < n; i++) { ref_tval s = ref_t_struct(a, 2); ref_t_add(a, &s, 1, t_binv(&kv[i].key)); if (kv[i].value.present) ref_t_add(a, &s, 2, t_binv(&kv[i].value)); l.items[i] = s; }
    return l;
}
static ref_tval colmeta_to_tree(ref_arena* a, const ref_col_meta* m) {
    ref_tval t = ref_t_struct(a, 16);
    ref_t_add(a, &t, 1, ref_t_i(RT_I32, m->type));
    ref_tval e = ref_t_list(a, RT_I32, m->n_enc); for (int i = 0; i < m->n_enc; i++) e.items[i] = ref_t_i(RT_I32, m->encodings[i]); ref_t_add(a, &t, 2, e);
    ref_tval p = ref_t_list(a, RT_BINARY, m->n_path); for (int i = 0; i < m->n_path; i++) p.items[i] = t_binv(&m->path[i]); ref_t_add(a, &t, 3, p);
    ref_t_add(a, &t, 4, ref_t_i(RT_I32, m->codec)); ref_t_add(a, &t, 5, ref_t_i(RT_I64, m->num_values));
    ref_t_add(a, &t, 6, ref_t_i(RT_I64, m->total_uncompressed)); ref_t_add(a, &t, 7, ref_t_i(RT_I64, m->total_compressed));
    if (m->has_kv) ref_t_add(a, &t, 8, kv_list(a, m->kv, m->n_kv));
    ref_t_add(a, &t, 9, ref_t_i(RT_I64, m->data_page_offset));
    if (m->has_index_page_offset) ref_t_add(a, &t, 10, ref_t_i(RT_I64, m->index_page_offset));
    if (m->has_dict_page_offset) ref_t_add(a, &t, 11, ref_t_i(RT_I64, m->dict_page_offset));
    if (m->has_stats) ref_t_add(a, &t, 12, stats_to_tree(a, &m->stats));
    if (m->has_encstats) {
        ref_tval l = ref_t_list(a, RT_STRUCT, m->n_encstats);
        for (int i = 0; i < m->n_encstats; i++) { ref_tval s = ref_t_struct(a, 3); ref_t_add(a, &s, 1, ref_t_i(RT_I32, m->encstats[i].page_type)); ref_t_add(a, &s, 2, ref_t_i(RT_I32, m->encstats[i].encoding)); ref_t_add(a, &s, 3, ref_t_i(RT_I32, m->encstats[i].count)); l.items[i] = s; }
        ref_t_add(a, &t, 13, l);
    }
    if (m->has_bloom_offset) ref_t_add(a, &t, 14, ref_t_i(RT_I64, m->bloom_offset));
    if (m->has_bloom_length) ref_t_add(a, &t, 15, ref_t_i(RT_I32, m->bloom_length));
    return t;
}
ref_tval ref_meta_file_to_tree(ref_arena* a, const ref_file_meta* m) {
    ref_tval t = ref_t_struct(a, 8);
    ref_t_add(a, &t, 1, ref_t_i(RT_I32, m->version));
    ref_tval sl = ref_t_list(a, RT_STRUCT, m->nschema);
    for (int i = 0; i < m->nschema; i++) {
        const ref_schema_elem* e = &m->schema[i]; ref_tval s = ref_t_struct(a, 10);
        if (e->has_type) ref_t_add(a, &s, 1, ref_t_i(RT_I32, e->type));
        if (e->has_type_length) ref_t_add(a, &s, 2, ref_t_i(RT_I32, e->type_length));
        if (e->has_rep) ref_t_add(a, &s, 3, ref_t_i(RT_I32, e->rep));
        if (e->name.present) ref_t_add(a, &s, 4, t_binv(&e->name));
        if (e->has_num_children) ref_t_add(a, &s, 5, ref_t_i(RT_I32, e->num_children));
        if (e->has_converted) ref_t_add(a, &s, 6, ref_t_i(RT_I32, e->converted));
        if (e->has_scale) ref_t_add(a, &s, 7, ref_t_i(RT_I32, e->scale));
        if (e->has_precision) ref_t_add(a, &s, 8, ref_t_i(RT_I32, e->precision));
        if (e->has_field_id) ref_t_add(a, &s, 9, ref_t_i(RT_I32, e->field_id));
        if (e->has_logical && e->logical.id) ref_t_add(a, &s, 10, logical_to_tree(a, &e->logical));
        sl.items[i] = s;
    }
    ref_t_add(a, &t, 2, sl);
    ref_t_add(a, &t, 3, ref_t_i(RT_I64, m->num_rows));
    ref_tval rl = ref_t_list(a, RT_STRUCT, m->nrg);
    for (int i = 0; i < m->nrg; i++) {
        const ref_rg* g = &m->rgs[i]; ref_tval s = ref_t_struct(a, 8);
        ref_tval cl = ref_t_list(a, RT_STRUCT, g->ncols);
        for (int c = 0; c < g->ncols; c++) {
            const ref_chunk* k = &g->cols[c]; ref_tval cs = ref_t_struct(a, 8);
            if (k->file_path.present) ref_t_add(a, &cs, 1, t_binv(&k->file_path));
            ref_t_add(a, &cs, 2, ref_t_i(RT_I64, k->file_offset));
            if (k->has_meta) ref_t_add(a, &cs, 3, colmeta_to_tree(a, &k->meta));
            if (k->has_oi_offset) ref_t_add(a, &cs, 4, ref_t_i(RT_I64, k->oi_offset));
            if (k->has_oi_length) ref_t_add(a, &cs, 5, ref_t_i(RT_I32, k->oi_length));
            if (k->has_ci_offset) ref_t_add(a, &cs, 6, ref_t_i(RT_I64, k->ci_offset));
            if (k->has_ci_length) ref_t_add(a, &cs, 7, ref_t_i(RT_I32, k->ci_length));
            cl.items[c] = cs;
        }
        ref_t_add(a, &s, 1, cl); ref_t_add(a, &s, 2, ref_t_i(RT_I64, g->total_byte_size)); ref_t_add(a, &s, 3, ref_t_i(RT_I64, g->num_rows));
        if (g->has_file_offset) ref_t_add(a, &s, 5, ref_t_i(RT_I64, g->file_offset));
        if (g->has_total_compressed) ref_t_add(a, &s, 6, ref_t_i(RT_I64, g->total_compressed));
        if (g->has_ordinal) ref_t_add(a, &s, 7, ref_t_i(RT_I16, g->ordinal));
        rl.items[i] = s;
    }
    ref_t_add(a, &t, 4, rl);
    if (m->has_kv) ref_t_add(a, &t, 5, kv_list(a, m->kv, m->n_kv));
    if (m->created_by.present) ref_t_add(a, &t, 6, t_binv(&m->created_by));
    return t;
}
ref_tval ref_meta_page_to_tree(ref_arena* a, const ref_page_header* h) {
    ref_tval t = ref_t_struct(a, 8);
    ref_t_add(a, &t, 1, ref_t_i(RT_I32, h->type)); ref_t_add(a, &t, 2, ref_t_i(RT_I32, h->uncompressed_size)); ref_t_add(a, &t, 3, ref_t_i(RT_I32, h->compressed_size));
    if (h->has_crc) ref_t_add(a, &t, 4, ref_t_i(RT_I32, h->crc));
    if (h->has_dph) {
        ref_tval s = ref_t_struct(a, 5);
        ref_t_add(a, &s, 1, ref_t_i(RT_I32, h->dph.num_values)); ref_t_add(a, &s, 2, ref_t_i(RT_I32, h->dph.encoding));
        ref_t_add(a, &s, 3, ref_t_i(RT_I32, h->dph.def_enc)); ref_t_add(a, &s, 4, ref_t_i(RT_I32, h->dph.rep_enc));
        if (h->dph.has_stats) ref_t_add(a, &s, 5, stats_to_tree(a, &h->dph.stats));
        ref_t_add(a, &t, 5, s);
    }
    if (h->has_index) ref_t_add(a, &t, 6, ref_t_struct(a, 1));
    if (h->has_dict) {
        ref_tval s = ref_t_struct(a, 3);
        ref_t_add(a, &s, 1, ref_t_i(RT_I32, h->dict.num_values)); ref_t_add(a, &s, 2, ref_t_i(RT_I32, h->dict.encoding));
        if (h->dict.has_sorted) ref_t_add(a, &s, 3, ref_t_bool(h->dict.sorted));
        ref_t_add(a, &t, 7, s);
    }
    if (h->has_v2) {
        ref_tval s = ref_t_struct(a, 8);
        ref_t_add(a, &s, 1, ref_t_i(RT_I32, h->v2.num_values)); ref_t_add(a, &s, 2, ref_t_i(RT_I32, h->v2.num_nulls)); ref_t_add(a, &s, 3, ref_t_i(RT_I32, h->v2.num_rows));
        ref_t_add(a, &s, 4, ref_t_i(RT_I32, h->v2.encoding)); ref_t_add(a, &s, 5, ref_t_i(RT_I32, h->v2.def_len)); ref_t_add(a, &s, 6, ref_t_i(RT_I32, h->v2.rep_len));
        if (h->v2.has_compressed) ref_t_add(a, &s, 7, ref_t_bool(h->v2.compressed));
        if (h->v2.has_stats) ref_t_add(a, &s, 8, stats_to_tree(a, &h->v2.stats));
        ref_t_add(a, &t, 8, s);
    }
    return t;
}

/* ---- parquet.thrift: tree -> structures (unknown fields ignored) -------------- */
char ref_meta_err[200];
#define BAD(...) do { snprintf(ref_meta_err, sizeof ref_meta_err, __VA_ARGS__); return -1; } while (0)
static int want(const ref_tval* v, int type, const char* what) {
    if (v->type == type) return 0;
    if ((type == RT_LIST && v->type == RT_SET)) return 0;
    snprintf(ref_meta_err, sizeof ref_meta_err, "%s: wire type %d, expected %d", what, v->type, type); return -1;
}
static ref_bin binof(const ref_tval* v) { ref_bin b = { v->bin, (int32_t)v->bin_n, true }; return b; }
static int stats_from(const ref_tval* t, ref_stats* s) {
    memset(s, 0, sizeof *s);
    if (want(t, RT_STRUCT, "Statistics")) return -1;
    for (int k = 0; k < t->nitems; k++) {
        const ref_tval* v = &t->items[k];
        switch (t->fids[k]) {
        case 1: if (want(v, RT_BINARY, "Statistics.max")) return -1; s->max = binof(v); break;
        case 2: if (want(v, RT_BINARY, "Statistics.min")) return -1; s->min = binof(v); break;
        case 3: if (want(v, RT_I64, "Statistics.null_count")) return -1; s->has_null_count = true; s->null_count = v->i; break;
        case 4: if (want(v, RT_I64, "Statistics.distinct_count")) return -1; s->has_distinct = true; s->distinct = v->i; break;
        case 5: if (want(v, RT_BINARY, "Statistics.max_value")) return -1; s->max_value = binof(v); break;
        case 6: if (want(v, RT_BINARY, "Statistics.min_value")) return -1; s->min_value = binof(v); break;
        case 7: if (want(v, RT_TRUE, "Statistics.is_max_value_exact")) return -1; s->has_max_exact = true; s->max_exact = v->i != 0; break;
        case 8: if (want(v, RT_TRUE, "Statistics.is_min_value_exact")) return -1; s->has_min_exact = true; s->min_exact = v->i != 0; break;
        default: break;
        }
    }
    return 0;
}
static int logical_from(const ref_tval* t, ref_logical* l) {
    memset(l, 0, sizeof *l);
    if (want(t, RT_STRUCT, "LogicalType")) return -1;
    for (int k = 0; k < t->nitems; k++) {
        const ref_tval* in = &t->items[k]; int id = t->fids[k];
        if (id < 1 || id > 15 || id == 9) continue;
        if (want(in, RT_STRUCT, "LogicalType member")) return -1;
        l->id = id;
        for (int j = 0; j < in->nitems; j++) {
            const ref_tval* v = &in->items[j]; int f = in->fids[j];
            if (id == 5) { if (f == 1) { if (want(v, RT_I32, "Decimal.scale")) return -1; l->scale = (int32_t)v->i; } else if (f == 2) { if (want(v, RT_I32, "Decimal.precision")) return -1; l->precision = (int32_t)v->i; } }
            else if (id == 7 || id == 8) {
                if (f == 1) { if (want(v, RT_TRUE, "isAdjustedToUTC")) return -1; l->utc = v->i != 0; }
                else if (f == 2) { if (want(v, RT_STRUCT, "TimeUnit")) return -1; for (int q = 0; q < v->nitems; q++) if (v->fids[q] >= 1 && v->fids[q] <= 3) l->unit = v->fids[q]; }
            } else if (id == 10) { if (f == 1) { if (want(v, RT_BYTE, "IntType.bitWidth")) return -1; l->bit_width = (int8_t)v->i; } else if (f == 2) { if (want(v, RT_TRUE, "IntType.isSigned")) return -1; l->is_signed = v->i != 0; } }
        }
    }
    return 0;
}
static int kv_from(ref_arena* a, const ref_tval* t, ref_kv** out, int* n) {
    if (want(t, RT_LIST, "key_value_metadata")) return -1;
    *n = t->nitems; *out = ref_alloc(a, sizeof(ref_kv) * (size_t)(t->nitems + 1));
    for (int i = 0; i < t->nitems; i++) {
        const ref_tval* s = &t->items[i]; if (want(s, RT_STRUCT, "KeyValue")) return -1;
        for (int k = 0; k < s->nitems; k++) {
            if (s->fids[k] == 1) { if (want(&s->items[k], RT_BINARY, "KeyValue.key")) return -1; (*out)[i].key = binof(&s->items[k]); }
            else if (s->fids[k] == 2) { if (want(&s->items[k], RT_BINARY, "KeyValue.value")) return -1; (*out)[i].value = binof(&s->items[k]); }
        }
        if (!(*out)[i].key.present) BAD("KeyValue.key missing");
    }
    return 0;
}
#define GET_I(field, wt, name) do { if (want(v, wt, name)) return -1; field = v->i; } while (0)
static int colmeta_from(ref_arena* a, const ref_tval* t, ref_col_meta* m) {
    memset(m, 0, sizeof *m); unsigned seen = 0;
    if (want(t, RT_STRUCT, "ColumnMetaData")) return -1;
    for (int k = 0; k < t->nitems; k++) {
        const ref_tval* v = &t->items[k]; int f = t->fids[k];
        if (f >= 1 && f <= 15) seen |= 1u << f;
        switch (f) {
        case 1: GET_I(m->type, RT_I32, "ColumnMetaData.type"); break;
        case 2: if (want(v, RT_LIST, "encodings")) return -1; m->n_enc = v->nitems; m->encodings = ref_alloc(a, 4 * (size_t)(v->nitems + 1));
                for (int i = 0; i < v->nitems; i++) { if (want(&v->items[i], RT_I32, "encodings[]")) return -1; m->encodings[i] = (int32_t)v->items[i].i; } break;
        case 3: if (want(v, RT_LIST, "path_in_schema")) return -1; m->n_path = v->nitems; m->path = ref_alloc(a, sizeof(ref_bin) * (size_t)(v->nitems + 1));
                for (int i = 0; i < v->nitems; i++) { if (want(&v->items[i], RT_BINARY, "path_in_schema[]")) return -1; m->path[i] = binof(&v->items[i]); } break;
        case 4: GET_I(m->codec, RT_I32, "codec"); break;
        case 5: GET_I(m->num_values, RT_I64, "num_values"); break;
        case 6: GET_I(m->total_uncompressed, RT_I64, "total_uncompressed_size"); break;
        case 7: GET_I(m->total_compressed, RT_I64, "total_compressed_size"); break;
        case 8: m->has_kv = true; if (kv_from(a, v, &m->kv, &m->n_kv)) return -1; break;
        case 9: GET_I(m->data_page_offset, RT_I64, "data_page_offset"); break;
        case 10: m->has_index_page_offset = true; GET_I(m->index_page_offset, RT_I64, "index_page_offset"); break;
        case 11: m->has_dict_page_offset = true; GET_I(m->dict_page_offset, RT_I64, "dictionary_page_offset"); break;
        case 12: m->has_stats = true; if (stats_from(v, &m->stats)) return -1; break;
        case 13: if (want(v, RT_LIST, "encoding_stats")) return -1; m->has_encstats = true; m->n_encstats = v->nitems; m->encstats = ref_alloc(a, sizeof(ref_encstat) * (size_t)(v->nitems + 1));
                 for (int i = 0; i < v->nitems; i++) { const ref_tval* s = &v->items[i]; if (want(s, RT_STRUCT, "PageEncodingStats")) return -1;
                     for (int q = 0; q < s->nitems; q++) { if (s->fids[q] == 1) m->encstats[i].page_type = (int32_t)s->items[q].i; else if (s->fids[q] == 2) m->encstats[i].encoding = (int32_t)s->items[q].i; else if (s->fids[q] == 3) m->encstats[i].count = (int32_t)s->items[q].i; } } break;
        case 14: m->has_bloom_offset = true; GET_I(m->bloom_offset, RT_I64, "bloom_filter_offset"); break;
        case 15: m->has_bloom_length = true; GET_I(m->bloom_length, RT_I32, "bloom_filter_length"); break;
        default: break;
        }
    }
    const unsigned req = (1u << 1) | (1u << 2) | (1u << 3) | (1u << 4) | (1u << 5) | (1u << 6) | (1u << 7) | (1u << 9);
    if ((seen & req) != req) BAD("ColumnMetaData: required field missing (seen mask %x)", seen);
    return 0;
}
int ref_meta_file_from_tree(ref_arena* a, const ref_tval* t, ref_file_meta* m) {
    memset(m, 0, sizeof *m); unsigned seen = 0; ref_meta_err[0] = 0;
    if (want(t, RT_STRUCT, "FileMetaData")) return -1;
    for (int k = 0; k < t->nitems; k++) {
        const ref_tval* v = &t->items[k]; int f = t->fids[k];
        if (f >= 1 && f <= 9) seen |= 1u << f;
        switch (f) {
        case 1: GET_I(m->version, RT_I32, "version"); break;
        case 2:
            if (want(v, RT_LIST, "schema")) return -1;
            m->nschema = v->nitems; m->schema = ref_alloc(a, sizeof(ref_schema_elem) * (size_t)(v->nitems + 1));
            for (int i = 0; i < v->nitems; i++) {
                const ref_tval* s = &v->items[i]; ref_schema_elem* e = &m->schema[i];
                if (want(s, RT_STRUCT, "SchemaElement")) return -1;
                for (int q = 0; q < s->nitems; q++) {
                    const ref_tval* x = &s->items[q];
                    switch (s->fids[q]) {
                    case 1: if (want(x, RT_I32, "SchemaElement.type")) return -1; e->has_type = true; e->type = (int32_t)x->i; break;
                    case 2: if (want(x, RT_I32, "type_length")) return -1; e->has_type_length = true; e->type_length = (int32_t)x->i; break;
                    case 3: if (want(x, RT_I32, "repetition_type")) return -1; e->has_rep = true; e->rep = (int32_t)x->i; break;
                    case 4: if (want(x, RT_BINARY, "name")) return -1; e->name = binof(x); break;
                    case 5: if (want(x, RT_I32, "num_children")) return -1; e->has_num_children = true; e->num_children = (int32_t)x->i; break;
                    case 6: if (want(x, RT_I32, "converted_type")) return -1; e->has_converted = true; e->converted = (int32_t)x->i; break;
                    case 7: if (want(x, RT_I32, "scale")) return -1; e->has_scale = true; e->scale = (int32_t)x->i; break;
                    case 8: if (want(x, RT_I32, "precision")) return -1; e->has_precision = true; e->precision = (int32_t)x->i; break;
                    case 9: if (want(x, RT_I32, "field_id")) return -1; e->has_field_id = true; e->field_id = (int32_t)x->i; break;
                    case 10: e->has_logical = true; if (logical_from(x, &e->logical)) return -1; break;
                    default: break;
                    }
                }
                if (!e->name.present) BAD("SchemaElement[%d].name missing", i);
            }
            break;
        case 3: GET_I(m->num_rows, RT_I64, "num_rows"); break;
        case 4:
            if (want(v, RT_LIST, "row_groups")) return -1;
            m->nrg = v->nitems; m->rgs = ref_alloc(a, sizeof(ref_rg) * (size_t)(v->nitems + 1));
            for (int i = 0; i < v->nitems; i++) {
                const ref_tval* s = &v->items[i]; ref_rg* g = &m->rgs[i]; unsigned gs = 0;
                if (want(s, RT_STRUCT, "RowGroup")) return -1;
                for (int q = 0; q < s->nitems; q++) {
                    const ref_tval* x = &s->items[q]; if (s->fids[q] >= 1 && s->fids[q] <= 7) gs |= 1u << s->fids[q];
                    switch (s->fids[q]) {
                    case 1:
                        if (want(x, RT_LIST, "RowGroup.columns")) return -1;
                        g->ncols = x->nitems; g->cols = ref_alloc(a, sizeof(ref_chunk) * (size_t)(x->nitems + 1));
                        for (int c = 0; c < x->nitems; c++) {
                            const ref_tval* cs = &x->items[c]; ref_chunk* ch = &g->cols[c]; bool fo = false;
                            if (want(cs, RT_STRUCT, "ColumnChunk")) return -1;
                            for (int r = 0; r < cs->nitems; r++) {
                                const ref_tval* y = &cs->items[r];
                                switch (cs->fids[r]) {
                                case 1: if (want(y, RT_BINARY, "file_path")) return -1; ch->file_path = binof(y); break;
                                case 2: if (want(y, RT_I64, "file_offset")) return -1; ch->file_offset = y->i; fo = true; break;
                                case 3: ch->has_meta = true; if (colmeta_from(a, y, &ch->meta)) return -1; break;
                                case 4: if (want(y, RT_I64, "offset_index_offset")) return -1; ch->has_oi_offset = true; ch->oi_offset = y->i; break;
                                case 5: if (want(y, RT_I32, "offset_index_length")) return -1; ch->has_oi_length = true; ch->oi_length = (int32_t)y->i; break;
                                case 6: if (want(y, RT_I64, "column_index_offset")) return -1; ch->has_ci_offset = true; ch->ci_offset = y->i; break;
                                case 7: if (want(y, RT_I32, "column_index_length")) return -1; ch->has_ci_length = true; ch->ci_length = (int32_t)y->i; break;
                                default: break;
                                }
                            }
                            if (!fo) BAD("ColumnChunk.file_offset missing");
                        }
                        break;
                    case 2: if (want(x, RT_I64, "total_byte_size")) return -1; g->total_byte_size = x->i; break;
                    case 3: if (want(x, RT_I64, "RowGroup.num_rows")) return -1; g->num_rows = x->i; break;
                    case 5: if (want(x, RT_I64, "RowGroup.file_offset")) return -1; g->has_file_offset = true; g->file_offset = x->i; break;
                    case 6: if (want(x, RT_I64, "RowGroup.total_compressed_size")) return -1; g->has_total_compressed = true; g->total_compressed = x->i; break;
                    case 7: if (want(x, RT_I16, "ordinal")) return -1; g->has_ordinal = true; g->ordinal = (int16_t)x->i; break;
                    default: break;
                    }
                }
                if ((gs & 14u) != 14u) BAD("RowGroup[%d]: required field missing (mask %x)", i, gs);
            }
            break;
        case 5: m->has_kv = true; if (kv_from(a, v, &m->kv, &m->n_kv)) return -1; break;
        case 6: if (want(v, RT_BINARY, "created_by")) return -1; m->created_by = binof(v); break;
        default: break;
        }
    }
    if ((seen & 30u) != 30u) BAD("FileMetaData: required field missing (mask %x)", seen);
    return 0;
}
int ref_meta_page_from_tree(ref_arena* a, const ref_tval* t, ref_page_header* h) {
    (void)a; memset(h, 0, sizeof *h); unsigned seen = 0; ref_meta_err[0] = 0;
    if (want(t, RT_STRUCT, "PageHeader")) return -1;
    for (int k = 0; k < t->nitems; k++) {
        const ref_tval* v = &t->items[k]; int f = t->fids[k];
        if (f >= 1 && f <= 8) seen |= 1u << f;
        switch (f) {
        case 1: GET_I(h->type, RT_I32, "PageHeader.type"); break;
        case 2: GET_I(h->uncompressed_size, RT_I32, "uncompressed_page_size"); break;
        case 3: GET_I(h->compressed_size, RT_I32, "compressed_page_size"); break;
        case 4: h->has_crc = true; GET_I(h->crc, RT_I32, "crc"); break;
        case 5:
            if (want(v, RT_STRUCT, "data_page_header")) return -1; h->has_dph = true;
            for (int q = 0; q < v->nitems; q++) { const ref_tval* x = &v->items[q];
                switch (v->fids[q]) {
                case 1: if (want(x, RT_I32, "dph.num_values")) return -1; h->dph.num_values = (int32_t)x->i; break;
                case 2: if (want(x, RT_I32, "dph.encoding")) return -1; h->dph.encoding = (int32_t)x->i; break;
                case 3: if (want(x, RT_I32, "dph.definition_level_encoding")) return -1; h->dph.def_enc = (int32_t)x->i; break;
                case 4: if (want(x, RT_I32, "dph.repetition_level_encoding")) return -1; h->dph.rep_enc = (int32_t)x->i; break;
                case 5: h->dph.has_stats = true; if (stats_from(x, &h->dph.stats)) return -1; break;
                default: break; } }
            break;
        case 6: h->has_index = true; break;
        case 7:
            if (want(v, RT_STRUCT, "dictionary_page_header")) return -1; h->has_dict = true;
            for (int q = 0; q < v->nitems; q++) { const ref_tval* x = &v->items[q];
                switch (v->fids[q]) {
                case 1: if (want(x, RT_I32, "dict.num_values")) return -1; h->dict.num_values = (int32_t)x->i; break;
                case 2: if (want(x, RT_I32, "dict.encoding")) return -1; h->dict.encoding = (int32_t)x->i; break;
                case 3: if (want(x, RT_TRUE, "dict.is_sorted")) return -1; h->dict.has_sorted = true; h->dict.sorted = x->i != 0; break;
                default: break; } }
            break;
        case 8:
            if (want(v, RT_STRUCT, "data_page_header_v2")) return -1; h->has_v2 = true;
            for (int q = 0; q < v->nitems; q++) { const ref_tval* x = &v->items[q];
                switch (v->fids[q]) {
                case 1: h->v2.num_values = (int32_t)x->i; break; case 2: h->v2.num_nulls = (int32_t)x->i; break; case 3: h->v2.num_rows = (int32_t)x->i; break;
                case 4: h->v2.encoding = (int32_t)x->i; break; case 5: h->v2.def_len = (int32_t)x->i; break; case 6: h->v2.rep_len = (int32_t)x->i; break;
                case 7: if (want(x, RT_TRUE, "v2.is_compressed")) return -1; h->v2.has_compressed = true; h->v2.compressed = x->i != 0; break;
                case 8: h->v2.has_stats = true; if (stats_from(x, &h->v2.stats)) return -1; break;
                default: break; } }
            break;
        default: break;
        }
    }
    if ((seen & 14u) != 14u) BAD("PageHeader: required field missing (mask %x)", seen);
    return 0;
}
