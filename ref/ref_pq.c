/* ref_pq.c — reference Parquet writer / validating reader (see ref_pq.h). */
#include "ref_pq.h"
#include <stdlib.h>
#include <string.h>
#include <stdio.h>
#include <zlib.h>
#include <zstd.h>

int ref_type_width(int t, int tl) { switch (t) { case PT_BOOLEAN: return 1; case PT_INT32: case PT_FLOAT: return 4; case PT_INT64: case PT_DOUBLE: return 8; case PT_INT96: return 12; case PT_FLBA: return tl; default: return 0; } }
int ref_bit_width(int m) { int w = 0; while (m > 0) { w++; m >>= 1; } return w; }

/* ---- codecs ------------------------------------------------------------------ */
int ref_compress_form = 0;
/* a hole of ref_pq_gap_bytes bytes in front of row group ref_pq_gap_before_rg (>= 0): all file offsets recorded from there on are shifted by it; the image stays contiguous and ref_pq_gap_pos tells where the hole belongs */
int ref_pq_gap_before_rg = -1; uint64_t ref_pq_gap_bytes = 0; size_t ref_pq_gap_pos = 0;
int ref_compress(int codec, const uint8_t* in, size_t n, ref_buf* out) {
    if (ref_compress_form == 1 && codec == CODEC_SNAPPY && n > 0) {      /* one literal */
        ref_buf_uleb(out, n); size_t m = n - 1;
        if (n <= 60) ref_buf_u8(out, (uint8_t)(m << 2)); else { int nb = m < 0x100 ? 1 : m < 0x10000 ? 2 : m < 0x1000000 ? 3 : 4; ref_buf_u8(out, (uint8_t)((59 + nb) << 2)); for (int i = 0; i < nb; i++) ref_buf_u8(out, (uint8_t)(m >> (8 * i))); }
        ref_buf_put(out, in, n); return 0; }
    if (ref_compress_form == 1 && codec == CODEC_ZSTD) {                 /* no Frame_Content_Size */
        ZSTD_CCtx* c = ZSTD_createCCtx(); if (!c) return -1; ZSTD_CCtx_setParameter(c, ZSTD_c_contentSizeFlag, 0); ZSTD_CCtx_setParameter(c, ZSTD_c_compressionLevel, 3);
        size_t cap = ZSTD_compressBound(n) + 64; uint8_t* tmp = malloc(cap); ZSTD_outBuffer ob = { tmp, cap, 0 }; ZSTD_inBuffer ib = { in, n, 0 }; size_t r = ZSTD_compressStream2(c, &ob, &ib, ZSTD_e_end); ZSTD_freeCCtx(c);
        if (ZSTD_isError(r) || r != 0) { free(tmp); return -1; } ref_buf_put(out, tmp, ob.pos); free(tmp); return 0; }
    if (ref_compress_form == 2 && (codec == CODEC_SNAPPY || codec == CODEC_LZ4 || codec == CODEC_LZ4_RAW)) {      /* greedy matcher: real copies at many distances */
        size_t at = out->n; int rc = codec == CODEC_SNAPPY ? ref_snappy_compress_greedy(in, n, out) : ref_lz4_compress_greedy(in, n, out); if (rc) return rc;
        uint8_t* chk = malloc(n + 1); size_t on = 0; int d = codec == CODEC_SNAPPY ? ref_snappy_decode(out->p + at, out->n - at, chk, n, &on) : ref_lz4_decode(out->p + at, out->n - at, chk, n, &on, true);
        int bad = d != 0 || on != n || (n && memcmp(chk, in, n)); free(chk); return bad ? -3 : 0; }
    switch (codec) {
    case CODEC_NONE: ref_buf_put(out, in, n); return 0;
    case CODEC_SNAPPY: {           /* literals of up to 300 bytes, and a copy element for runs of one repeated byte */
        ref_buf_uleb(out, n); size_t i = 0;
        while (i < n) {
            size_t run = 1; while (i > 0 && i + run < n && in[i + run - 1] == in[i - 1] && in[i + run] == in[i - 1] && run < 64) run++;
            if (i > 0 && run >= 4 && in[i] == in[i - 1]) { ref_buf_u8(out, (uint8_t)(((run - 1) << 2) | 2)); ref_buf_u8(out, 1); ref_buf_u8(out, 0); i += run; continue; }
            size_t len = n - i > 300 ? 300 : n - i;
            if (len <= 60) ref_buf_u8(out, (uint8_t)((len - 1) << 2)); else if (len <= 256) { ref_buf_u8(out, 60 << 2); ref_buf_u8(out, (uint8_t)(len - 1)); } else { ref_buf_u8(out, 61 << 2); ref_buf_u8(out, (uint8_t)(len - 1)); ref_buf_u8(out, (uint8_t)((len - 1) >> 8)); }
            ref_buf_put(out, in + i, len); i += len;
        }
        return 0; }
    case CODEC_LZ4: case CODEC_LZ4_RAW: {   /* one literal-only sequence */
        if (n >= 15) { ref_buf_u8(out, 0xF0); size_t v = n - 15; while (v >= 255) { ref_buf_u8(out, 255); v -= 255; } ref_buf_u8(out, (uint8_t)v); } else ref_buf_u8(out, (uint8_t)(n << 4));
        ref_buf_put(out, in, n); return 0; }
    case CODEC_GZIP: {
        z_stream s; memset(&s, 0, sizeof s); if (deflateInit2(&s, 6, Z_DEFLATED, 15 + 16, 8, Z_DEFAULT_STRATEGY) != Z_OK) return -1;
        size_t cap = deflateBound(&s, (uLong)n) + 64; uint8_t* tmp = malloc(cap);
        s.next_in = (Bytef*)in; s.avail_in = (uInt)n; s.next_out = tmp; s.avail_out = (uInt)cap;
        int rc = deflate(&s, Z_FINISH); size_t w = s.total_out; deflateEnd(&s);
        if (rc != Z_STREAM_END) { free(tmp); return -1; }
        ref_buf_put(out, tmp, w); free(tmp); return 0; }
    case CODEC_ZSTD: {
        size_t cap = ZSTD_compressBound(n); uint8_t* tmp = malloc(cap ? cap : 1); size_t w = ZSTD_compress(tmp, cap, in, n, 3);
        if (ZSTD_isError(w)) { free(tmp); return -1; } ref_buf_put(out, tmp, w); free(tmp); return 0; }
    default: return -2;
    }
}
int ref_decompress(int codec, const uint8_t* in, size_t n, uint8_t* out, size_t cap, size_t* on) {
    switch (codec) {
    case CODEC_NONE: if (n > cap) return -1; memcpy(out, in, n); *on = n; return 0;
    case CODEC_SNAPPY: return ref_snappy_decode(in, n, out, cap, on);
    case CODEC_LZ4_RAW: return ref_lz4_decode(in, n, out, cap, on, false);
    case CODEC_LZ4: {   /* deprecated codec id: accept a raw block, or Hadoop framing (BE uncompressed len, BE compressed len, block)* */
        if (ref_lz4_decode(in, n, out, cap, on, false) == 0 && *on == cap) return 0;
        size_t ip = 0, op = 0;
        while (ip + 8 <= n) {
            uint32_t ul = (uint32_t)in[ip] << 24 | (uint32_t)in[ip + 1] << 16 | (uint32_t)in[ip + 2] << 8 | in[ip + 3];
            uint32_t cl = (uint32_t)in[ip + 4] << 24 | (uint32_t)in[ip + 5] << 16 | (uint32_t)in[ip + 6] << 8 | in[ip + 7]; ip += 8;
            if (cl > n - ip || ul > cap - op) return -1; size_t got = 0;
            if (ref_lz4_decode(in + ip, cl, out + op, ul, &got, false) || got != ul) return -1; ip += cl; op += ul;
        }
        if (ip != n) return -1; *on = op; return 0; }
    case CODEC_GZIP: {
        z_stream s; memset(&s, 0, sizeof s); if (inflateInit2(&s, 15 + 16) != Z_OK) return -1;
        s.next_in = (Bytef*)in; s.avail_in = (uInt)n; s.next_out = out; s.avail_out = (uInt)cap;
        int rc = inflate(&s, Z_FINISH); *on = s.total_out; inflateEnd(&s); return rc == Z_STREAM_END ? 0 : -1; }
    case CODEC_ZSTD: { size_t r = ZSTD_decompress(out, cap, in, n); if (ZSTD_isError(r)) return -1; *on = r; return 0; }
    default: return -2;
    }
}

/* ---- schema --------------------------------------------------------------------- */
static int walk_schema(const ref_schema_elem* s, int n, int idx, int def, int rep, ref_leaves* out, int depth) {
    if (idx >= n || depth > 100) return -1;
    const ref_schema_elem* e = &s[idx];
    if (idx > 0 && e->has_rep) { if (e->rep == 1) def++; else if (e->rep == 2) { def++; rep++; } }
    int nc = e->has_num_children ? e->num_children : 0;
    if (nc < 0) return -1;
    if (nc == 0 && idx > 0) {
        if (out->nleaves >= 4096) return -1;
        out->leaf_schema_idx[out->nleaves] = idx; out->max_def[out->nleaves] = def; out->max_rep[out->nleaves] = rep; out->nleaves++;
        return idx + 1;
    }
    int next = idx + 1;
    for (int c = 0; c < nc; c++) { next = walk_schema(s, n, next, def, rep, out, depth + 1); if (next < 0) return -1; }
    return next;
}
int ref_schema_leaves(const ref_schema_elem* s, int n, ref_leaves* out) {
    out->nleaves = 0; if (n < 1) return -1;
    int end = walk_schema(s, n, 0, 0, 0, out, 0);
    return end == n ? 0 : -1;
}

/* ---- unknown field payloads ------------------------------------------------------ */
const char* const ref_unknown_name[REF_N_UNKNOWN] = { "bool-true", "bool-false", "byte", "i16", "i32", "i64", "double", "binary", "list-i32-17", "list-bool", "set-binary", "map-i32-binary", "map-empty", "struct-nested", "uuid", "list-of-lists" };
ref_tval ref_unknown_payload(ref_arena* a, int k) {
    ref_tval v; memset(&v, 0, sizeof v);
    switch (k) {
    case 0: return ref_t_bool(true);
    case 1: return ref_t_bool(false);
    case 2: return ref_t_i(RT_BYTE, -3);
    case 3: return ref_t_i(RT_I16, -300);
    case 4: return ref_t_i(RT_I32, -2147483647 - 1);
    case 5: return ref_t_i(RT_I64, 9223372036854775807LL);
    case 6: v.type = RT_DOUBLE; memcpy(v.raw, "\x18\x2d\x44\x54\xfb\x21\x09\x40", 8); return v;
    case 7: return ref_t_bin("unknown\x00\xff", 9);
    case 8: v = ref_t_list(a, RT_I32, 17); for (int i = 0; i < 17; i++) v.items[i] = ref_t_i(RT_I32, i * 99991); return v;
    case 9: v = ref_t_list(a, RT_TRUE, 3); v.items[0] = ref_t_bool(true); v.items[1] = ref_t_bool(false); v.items[2] = ref_t_bool(true); return v;
    case 10: v = ref_t_list(a, RT_BINARY, 2); v.type = RT_SET; v.items[0] = ref_t_bin("", 0); v.items[1] = ref_t_bin("xy", 2); return v;
    case 11: v.type = RT_MAP; v.key_type = RT_I32; v.elem_type = RT_BINARY; v.nitems = 4; v.items = ref_alloc(a, sizeof(ref_tval) * 4);
             v.items[0] = ref_t_i(RT_I32, 1); v.items[1] = ref_t_bin("one", 3); v.items[2] = ref_t_i(RT_I32, -2); v.items[3] = ref_t_bin("", 0); return v;
    case 12: v.type = RT_MAP; v.nitems = 0; return v;
    case 13: { ref_tval in = ref_t_struct(a, 2); ref_t_add(a, &in, 1, ref_t_i(RT_I64, 5)); ref_t_add(a, &in, 20, ref_t_bool(true));
               ref_tval l = ref_t_list(a, RT_STRUCT, 2); l.items[0] = in; l.items[1] = ref_t_struct(a, 1);
               v = ref_t_struct(a, 3); ref_t_add(a, &v, 1, in); ref_t_add(a, &v, 2, l); ref_t_add(a, &v, 100, ref_t_bin("z", 1)); return v; }
    case 14: v.type = RT_UUID; for (int i = 0; i < 16; i++) v.raw[i] = (uint8_t)(i * 17); return v;
    default: { ref_tval inner = ref_t_list(a, RT_I32, 2); inner.items[0] = ref_t_i(RT_I32, 1); inner.items[1] = ref_t_i(RT_I32, 2);
               v = ref_t_list(a, RT_LIST, 2); v.items[0] = inner; v.items[1] = ref_t_list(a, RT_I32, 0); return v; }
    }
}
static void inject_unknown(ref_arena* a, ref_tval* root, const ref_file_layout* fl) {
    if (!fl->unknown_kind) return;
    static ref_tval* nodes[8192]; int nn = ref_t_structs(root, nodes, 8192); if (nn > 8192) nn = 8192;
    for (int i = 0; i < nn; i++) ref_t_insert(a, nodes[i], fl->unknown_at_end ? nodes[i]->nitems : 0, 1000, ref_unknown_payload(a, fl->unknown_kind - 1));
}
static void encode_tree(ref_arena* a, ref_tval* t, const ref_file_layout* fl, ref_buf* out) {
    if (fl->unknown_kind) {       /* to_tree results may share capacity bookkeeping: re-materialise through bytes */
        ref_buf tmp; ref_buf_init(&tmp); ref_thrift_encode(t, NULL, &tmp);
        uint8_t* keep = ref_alloc(a, tmp.n + 1); memcpy(keep, tmp.p, tmp.n); ref_tval t2; ref_thrift_decode(a, keep, tmp.n, &t2, NULL); ref_buf_free(&tmp);
        inject_unknown(a, &t2, fl); ref_thrift_encode(&t2, &fl->tform, out); return;
    }
    ref_thrift_encode(t, &fl->tform, out);
}

/* ---- writer ---------------------------------------------------------------------- */
static void put_levels(const int16_t* lv, int64_t from, int64_t cnt, int maxl, int form, int lenc, bool prefixed, ref_buf* out) {
    if (maxl == 0) return;
    int bw = ref_bit_width(maxl);
    uint32_t* t = malloc(((size_t)cnt + 1) * 4); for (int64_t i = 0; i < cnt; i++) t[i] = (uint32_t)lv[from + i];
    ref_buf b; ref_buf_init(&b);
    if (lenc == ENC_BIT_PACKED) {      /* deprecated: MSB-first packing, no length prefix */
        size_t nbytes = ((size_t)cnt * (size_t)bw + 7) / 8; for (size_t i = 0; i < nbytes; i++) ref_buf_u8(&b, 0);
        uint64_t bp = 0; for (int64_t i = 0; i < cnt; i++) for (int k = bw - 1; k >= 0; k--, bp++) if ((t[i] >> k) & 1) b.p[bp >> 3] |= (uint8_t)(0x80u >> (bp & 7));
        ref_buf_put(out, b.p, b.n);
    } else {
        ref_hybrid_encode(t, cnt, bw, form, &b);
        if (prefixed) ref_buf_u32le(out, (uint32_t)b.n);
        ref_buf_put(out, b.p, b.n);
    }
    ref_buf_free(&b); free(t);
}
static bool val_eq(const ref_coldata* c, int64_t i, int64_t j, int w) {
    if (c->ptype == PT_BYTE_ARRAY) return c->strs[i].n == c->strs[j].n && (c->strs[i].n == 0 || !memcmp(c->strs[i].p, c->strs[j].p, c->strs[i].n));
    return !memcmp(c->fixed + i * w, c->fixed + j * w, (size_t)w);
}
static void put_plain(const ref_coldata* c, int64_t from, int64_t cnt, ref_buf* out) {
    int w = ref_type_width(c->ptype, c->type_length);
    if (c->ptype == PT_BOOLEAN) ref_plain_bool_encode(c->fixed + from, cnt, out);
    else if (c->ptype == PT_BYTE_ARRAY) ref_plain_ba_encode(c->strs + from, cnt, out);
    else ref_buf_put(out, c->fixed + from * w, (size_t)(cnt * w));
}
static void put_other_encoding(const ref_coldata* c, int enc, int64_t from, int64_t cnt, ref_buf* out) {
    int w = ref_type_width(c->ptype, c->type_length);
    if (enc == ENC_DELTA_BINARY && (c->ptype == PT_INT32 || c->ptype == PT_INT64)) {
        int64_t* v = malloc(((size_t)cnt + 1) * 8);
        for (int64_t i = 0; i < cnt; i++) { if (c->ptype == PT_INT32) { int32_t x; memcpy(&x, c->fixed + (from + i) * 4, 4); v[i] = x; } else memcpy(&v[i], c->fixed + (from + i) * 8, 8); }
        ref_delta_opts o = { 128, 4, 0, c->ptype == PT_INT32 ? 32 : 64, 0 }; ref_delta_encode(v, cnt, &o, out); free(v);
    } else if (enc == ENC_DELTA_LENGTH && c->ptype == PT_BYTE_ARRAY) ref_dlba_encode(c->strs + from, cnt, out);
    else if (enc == ENC_DELTA_BYTE_ARRAY && c->ptype == PT_BYTE_ARRAY) ref_dba_encode(c->strs + from, cnt, out);
    else if (enc == ENC_BSS && w > 0 && c->ptype != PT_BOOLEAN) { size_t base = out->n; for (int64_t i = 0; i < cnt * w; i++) ref_buf_u8(out, 0); ref_bss_encode(c->fixed + from * w, cnt, w, out->p + base); }
    else put_plain(c, from, cnt, out);
}

int ref_pq_write(ref_arena* a, const ref_write_req* rq, ref_buf* out, ref_pageinfo* pages, int maxpages, int* npages_out) {
    ref_leaves lv; if (ref_schema_leaves(rq->schema, rq->nschema, &lv) || lv.nleaves != rq->nleaves) return -1;
    /* path of each leaf */
    int parent[1024];
    { int stack[128], remaining[128], sp = 0;
      for (int i = 0; i < rq->nschema && i < 1024; i++) {
          parent[i] = sp ? stack[sp - 1] : -1;
          if (sp) remaining[sp - 1]--;
          int nc = rq->schema[i].has_num_children ? rq->schema[i].num_children : 0;
          if (nc > 0 && sp < 127) { stack[sp] = i; remaining[sp] = nc; sp++; }
          while (sp && remaining[sp - 1] == 0) sp--;
      } }
    ref_file_meta fm; memset(&fm, 0, sizeof fm);
    fm.version = 1; fm.schema = (ref_schema_elem*)rq->schema; fm.nschema = rq->nschema; fm.nrg = rq->nrg; fm.rgs = ref_alloc(a, sizeof(ref_rg) * (size_t)(rq->nrg + 1));
    if (rq->fl.created_by) { fm.created_by.p = (const uint8_t*)rq->fl.created_by; fm.created_by.n = (int32_t)strlen(rq->fl.created_by); fm.created_by.present = true; }
    if (rq->fl.kv) { fm.has_kv = true; fm.n_kv = 2; fm.kv = ref_alloc(a, sizeof(ref_kv) * 2); fm.kv[0].key = (ref_bin){ (const uint8_t*)"writer", 6, true }; fm.kv[0].value = (ref_bin){ (const uint8_t*)"ref_pq", 6, true }; fm.kv[1].key = (ref_bin){ (const uint8_t*)"novalue", 7, true }; }
    int np = 0;
    ref_buf_put(out, "PAR1", 4);
    uint64_t bias = 0;
    for (int g = 0; g < rq->nrg; g++) {
        if (g == ref_pq_gap_before_rg) { ref_pq_gap_pos = out->n; bias = ref_pq_gap_bytes; }
        ref_rg* rg = &fm.rgs[g]; rg->ncols = rq->nleaves; rg->cols = ref_alloc(a, sizeof(ref_chunk) * (size_t)rq->nleaves); rg->num_rows = rq->rg_rows[g];
        rg->has_file_offset = true; rg->file_offset = (int64_t)(out->n + bias); rg->has_ordinal = true; rg->ordinal = (int16_t)g; rg->has_total_compressed = true;
        fm.num_rows += rq->rg_rows[g];
        for (int l = 0; l < rq->nleaves; l++) {
            const ref_coldata* c = &rq->cols[g * rq->nleaves + l]; const ref_chunk_layout* L = &rq->layouts[g * rq->nleaves + l];
            ref_chunk* ch = &rg->cols[l]; ch->has_meta = true; ref_col_meta* cm = &ch->meta;
            int w = ref_type_width(c->ptype, c->type_length);
            size_t chunk_start = out->n; int64_t tot_unc = 0;
            bool dict = L->value_encoding == ENC_PLAIN_DICT || L->value_encoding == ENC_RLE_DICT;
            uint32_t* idx = NULL; int64_t ndict = 0; int64_t* dpos = NULL;
            cm->type = c->ptype; cm->codec = L->codec; cm->num_values = c->nlevels;
            cm->encodings = ref_alloc(a, 4 * 4); cm->n_enc = 0;
            cm->encodings[cm->n_enc++] = dict ? L->value_encoding : L->value_encoding;
            cm->encodings[cm->n_enc++] = L->level_encoding == ENC_BIT_PACKED ? ENC_BIT_PACKED : ENC_RLE;
            if (dict) cm->encodings[cm->n_enc++] = ENC_PLAIN;
            /* path */
            { int chain[256], d = 0; for (int i = lv.leaf_schema_idx[l]; i > 0 && d < 256; i = parent[i]) chain[d++] = i; cm->n_path = d; cm->path = ref_alloc(a, sizeof(ref_bin) * (size_t)(d + 1)); for (int i = 0; i < d; i++) cm->path[i] = rq->schema[chain[d - 1 - i]].name; }
            if (dict) {
                idx = malloc(((size_t)c->nvalues + 1) * 4); dpos = malloc(((size_t)c->nvalues + 1) * 8);
                for (int64_t i = 0; i < c->nvalues; i++) { int64_t k; for (k = 0; k < ndict; k++) if (val_eq(c, i, dpos[k], w)) break; if (k == ndict) dpos[ndict++] = i; idx[i] = (uint32_t)k; }
                ref_buf body; ref_buf_init(&body);
                for (int64_t k = 0; k < ndict; k++) { if (c->ptype == PT_BYTE_ARRAY) ref_plain_ba_encode(&c->strs[dpos[k]], 1, &body); else if (c->ptype == PT_BOOLEAN) ref_buf_u8(&body, c->fixed[dpos[k]]); else ref_buf_put(&body, c->fixed + dpos[k] * w, (size_t)w); }
                ref_buf comp; ref_buf_init(&comp); if (ref_compress(L->codec, body.p, body.n, &comp)) return -2;
                ref_page_header h; memset(&h, 0, sizeof h); h.type = 2; h.uncompressed_size = (int32_t)body.n; h.compressed_size = (int32_t)comp.n;
                if (L->crc) { h.has_crc = true; h.crc = (int32_t)ref_crc32_ieee(comp.p, comp.n); }
                h.has_dict = true; h.dict.num_values = (int32_t)ndict; h.dict.encoding = L->value_encoding == ENC_RLE_DICT ? ENC_PLAIN : ENC_PLAIN_DICT;
                ref_tval t = ref_meta_page_to_tree(a, &h); size_t hs = out->n; encode_tree(a, &t, &rq->fl, out);
                if (pages && np < maxpages) { ref_pageinfo pi = { hs, out->n, comp.n, g, l, 2, h.has_crc, 0, 0 }; pages[np] = pi; } np++;
                tot_unc += (int64_t)(out->n - hs) + (int64_t)body.n;
                ref_buf_put(out, comp.p, comp.n); ref_buf_free(&comp); ref_buf_free(&body);
                if (L->dict_offset_present) { cm->has_dict_page_offset = true; cm->dict_page_offset = (int64_t)(chunk_start + bias); }
            }
            cm->data_page_offset = (L->data_offset_at_dict && dict) ? (int64_t)(chunk_start + bias) : (int64_t)(out->n + bias);
            int npg = L->uniform_page_levels > 0 ? (int)((c->nlevels + L->uniform_page_levels - 1) / L->uniform_page_levels) : L->npages > 0 ? L->npages : (c->nlevels > 0 ? 1 : 0);
            int64_t lpos = 0, vpos = 0;
            for (int p = 0; p < npg; p++) {
                int64_t pl = L->uniform_page_levels > 0 ? (c->nlevels - lpos < L->uniform_page_levels ? c->nlevels - lpos : L->uniform_page_levels) : L->npages > 0 ? L->page_levels[p] : c->nlevels;
                int64_t pv = 0; for (int64_t i = 0; i < pl; i++) if (c->max_def == 0 || c->def[lpos + i] == c->max_def) pv++;
                ref_buf rep, def, val; ref_buf_init(&rep); ref_buf_init(&def); ref_buf_init(&val);
                put_levels(c->rep, lpos, pl, c->max_rep, L->level_form, L->level_encoding, !L->v2, &rep);
                put_levels(c->def, lpos, pl, c->max_def, L->level_form, L->level_encoding, !L->v2, &def);
                bool pdict = dict && !((L->plain_page_mask >> p) & 1u); int penc = pdict || !dict ? L->value_encoding : ENC_PLAIN;
                if (pdict) { int bw = ref_bit_width((int)(ndict > 0 ? ndict - 1 : 0)); if (L->index_bw_extra >= 100) { if (L->index_bw_extra - 100 > bw) bw = L->index_bw_extra - 100; } else bw += L->index_bw_extra; if (bw > 32) bw = 32; ref_buf_u8(&val, (uint8_t)bw); ref_hybrid_encode(idx + vpos, pv, bw, L->index_form, &val); }
                else if (penc == ENC_PLAIN) put_plain(c, vpos, pv, &val);
                else put_other_encoding(c, L->value_encoding, vpos, pv, &val);
                ref_buf comp; ref_buf_init(&comp); ref_page_header h; memset(&h, 0, sizeof h);
                size_t unc;
                if (!L->v2) {
                    ref_buf body; ref_buf_init(&body); ref_buf_put(&body, rep.p, rep.n); ref_buf_put(&body, def.p, def.n); ref_buf_put(&body, val.p, val.n);
                    if (ref_compress(L->codec, body.p, body.n, &comp)) return -2; unc = body.n; ref_buf_free(&body);
                    h.type = 0; h.has_dph = true; h.dph.num_values = (int32_t)pl; h.dph.encoding = penc; h.dph.def_enc = h.dph.rep_enc = L->level_encoding == ENC_BIT_PACKED ? ENC_BIT_PACKED : ENC_RLE; if (L->absent_levels_bit_packed) { if (c->max_def == 0) h.dph.def_enc = ENC_BIT_PACKED; if (c->max_rep == 0) h.dph.rep_enc = ENC_BIT_PACKED; }
                    if (L->page_stats) { h.dph.has_stats = true; h.dph.stats = *L->page_stats; }
                } else {
                    ref_buf_put(&comp, rep.p, rep.n); ref_buf_put(&comp, def.p, def.n); if (ref_compress(L->codec, val.p, val.n, &comp)) return -2; unc = rep.n + def.n + val.n;
                    h.type = 3; h.has_v2 = true; h.v2.num_values = (int32_t)pl; h.v2.num_nulls = (int32_t)(pl - pv); h.v2.num_rows = (int32_t)pl; h.v2.encoding = penc; h.v2.def_len = (int32_t)def.n; h.v2.rep_len = (int32_t)rep.n;
                    h.v2.has_compressed = true; h.v2.compressed = L->codec != CODEC_NONE;
                }
                h.uncompressed_size = (int32_t)unc; h.compressed_size = (int32_t)comp.n;
                if (L->crc) { h.has_crc = true; h.crc = (int32_t)ref_crc32_ieee(comp.p, comp.n); }
                ref_tval t = ref_meta_page_to_tree(a, &h); size_t hs = out->n; encode_tree(a, &t, &rq->fl, out);
                if (pages && np < maxpages) { ref_pageinfo pi = { hs, out->n, comp.n, g, l, h.type, h.has_crc, lpos, pl }; pages[np] = pi; } np++;
                tot_unc += (int64_t)(out->n - hs) + (int64_t)unc;
                ref_buf_put(out, comp.p, comp.n);
                ref_buf_free(&comp); ref_buf_free(&rep); ref_buf_free(&def); ref_buf_free(&val);
                lpos += pl; vpos += pv;
            }
            if (lpos != c->nlevels) return -3;
            free(idx); free(dpos);
            cm->total_compressed = (int64_t)(out->n - chunk_start); cm->total_uncompressed = tot_unc;
            ch->file_offset = 0;
            if (L->chunk_stats) { cm->has_stats = true; cm->stats = *L->chunk_stats; }
            rg->total_byte_size += tot_unc; rg->total_compressed += cm->total_compressed;
        }
    }
    size_t fstart = out->n;
    ref_tval ft = ref_meta_file_to_tree(a, &fm); encode_tree(a, &ft, &rq->fl, out);
    ref_buf_u32le(out, (uint32_t)(out->n - fstart)); ref_buf_put(out, "PAR1", 4);
    if (npages_out) *npages_out = np;
    return 0;
}

/* ---- reader ---------------------------------------------------------------------- */
static bool same_name(const ref_bin* a, const ref_bin* b) { return a->present && b->present && a->n == b->n && (a->n == 0 || !memcmp(a->p, b->p, (size_t)a->n)); }
#define FAIL(...) do { snprintf(f->err, sizeof f->err, __VA_ARGS__); return -1; } while (0)
typedef struct { uint8_t* p; size_t n, cap; } gbuf;
static void gput(ref_arena* a, gbuf* g, const void* d, size_t n) {
    if (g->n + n > g->cap) { size_t c = g->cap ? g->cap * 2 : 256; while (c < g->n + n) c *= 2; uint8_t* np = ref_alloc(a, c); if (g->n) memcpy(np, g->p, g->n); g->p = np; g->cap = c; }
    if (n) memcpy(g->p + g->n, d, n); g->n += n;
}
static int get_levels(ref_file* f, const uint8_t** pp, size_t* rem, int maxl, int lenc, int64_t cnt, int16_t* dst, bool prefixed, int64_t explicit_len) {
    if (maxl == 0) { for (int64_t i = 0; i < cnt; i++) dst[i] = 0; return 0; }
    int bw = ref_bit_width(maxl);
    if (lenc == ENC_BIT_PACKED) {
        size_t nbytes = ((size_t)cnt * (size_t)bw + 7) / 8; if (nbytes > *rem) FAIL("levels: BIT_PACKED levels truncated");
        uint64_t bp = 0; for (int64_t i = 0; i < cnt; i++) { int v = 0; for (int k = 0; k < bw; k++, bp++) v = (v << 1) | (((*pp)[bp >> 3] >> (7 - (bp & 7))) & 1); dst[i] = (int16_t)v; }
        *pp += nbytes; *rem -= nbytes; return 0;
    }
    size_t len;
    if (prefixed) { if (*rem < 4) FAIL("levels: missing length prefix"); len = (size_t)(*pp)[0] | (size_t)(*pp)[1] << 8 | (size_t)(*pp)[2] << 16 | (size_t)(*pp)[3] << 24; *pp += 4; *rem -= 4; }
    else len = (size_t)explicit_len;
    if (len > *rem) FAIL("levels: level block length %zu exceeds page remainder %zu", len, *rem);
    uint32_t* t = malloc(((size_t)cnt + 1) * 4);
    int64_t got = ref_hybrid_decode(*pp, len, bw, t, cnt, NULL);
    if (got != cnt) { free(t); FAIL("levels: level block decodes to %lld of %lld levels", (long long)got, (long long)cnt); }
    for (int64_t i = 0; i < cnt; i++) { if ((int)t[i] > maxl) { free(t); FAIL("levels: level %u above maximum %d", t[i], maxl); } dst[i] = (int16_t)t[i]; }
    free(t); *pp += len; *rem -= len; return 0;
}

int ref_pq_read(ref_arena* a, const uint8_t* img, size_t n, ref_file* f, unsigned flags) {
    memset(f, 0, sizeof *f);
    if (n < 12) FAIL("magic: file shorter than 12 bytes");
    if (memcmp(img, "PAR1", 4)) FAIL("magic: leading PAR1 missing");
    if (memcmp(img + n - 4, "PAR1", 4)) FAIL("magic: trailing PAR1 missing");
    uint32_t flen = (uint32_t)img[n - 8] | (uint32_t)img[n - 7] << 8 | (uint32_t)img[n - 6] << 16 | (uint32_t)img[n - 5] << 24;
    if ((size_t)flen > n - 12) FAIL("footer-length: %u does not fit a file of %zu bytes", flen, n);
    size_t fstart = n - 8 - flen; f->footer_start = fstart;
    ref_tval tree; size_t used = 0; int rc = ref_thrift_decode(a, img + fstart, flen, &tree, &used);
    if (rc) FAIL("thrift: footer does not decode (rc %d)", rc);
    if (used != flen) FAIL("thrift: footer struct ends after %zu of %u bytes", used, flen);
    if (ref_meta_file_from_tree(a, &tree, &f->meta)) FAIL("required-field: %s", ref_meta_err);
    const ref_file_meta* m = &f->meta;
    if (ref_schema_leaves(m->schema, m->nschema, &f->leaves)) FAIL("schema: child counts do not describe a tree over %d elements", m->nschema);
    int nl = f->leaves.nleaves;
    f->cols = ref_alloc(a, sizeof(ref_coldata) * (size_t)(m->nrg * nl + 1));
    int pcap = 64; f->pages = ref_alloc(a, sizeof(ref_pageinfo) * (size_t)pcap); f->npages = 0;
    int64_t rows = 0; size_t expect = 4;
    for (int g = 0; g < m->nrg; g++) {
        const ref_rg* rg = &m->rgs[g]; rows += rg->num_rows;
        if (rg->num_rows < 0) FAIL("row-count: row group %d has negative num_rows", g);
        if (rg->ncols != nl) FAIL("row-group: row group %d has %d column chunks, schema has %d leaves", g, rg->ncols, nl);
        int64_t sum_unc = 0, sum_comp = 0;
        for (int l = 0; l < nl; l++) {
            const ref_chunk* ch = &rg->cols[l]; if (!ch->has_meta) FAIL("required-field: row group %d column %d has no meta_data", g, l);
            const ref_col_meta* cm = &ch->meta; const ref_schema_elem* se = &m->schema[f->leaves.leaf_schema_idx[l]];
            if (!se->has_type) FAIL("schema: leaf %d has no type", l);
            if (cm->type != se->type) FAIL("type: row group %d column %d chunk type %d, schema type %d", g, l, cm->type, se->type);
            if (cm->n_path < 1 || !same_name(&cm->path[cm->n_path - 1], &se->name)) FAIL("path: row group %d column %d path_in_schema does not end with the leaf name", g, l);
            int64_t start = cm->data_page_offset; if (cm->has_dict_page_offset && cm->dict_page_offset > 0 && cm->dict_page_offset < start) start = cm->dict_page_offset;
            if (start < 4 || cm->total_compressed < 0 || (uint64_t)start + (uint64_t)cm->total_compressed > fstart) FAIL("tiling: row group %d column %d chunk [%lld,+%lld) outside data region [4,%zu)", g, l, (long long)start, (long long)cm->total_compressed, fstart);
            if ((size_t)start != expect) FAIL("tiling: row group %d column %d chunk starts at %lld, previous chunk ended at %zu", g, l, (long long)start, expect);
            size_t pos = (size_t)start, end = (size_t)start + (size_t)cm->total_compressed; expect = end;
            ref_coldata* cd = &f->cols[g * nl + l]; cd->ptype = cm->type; cd->type_length = se->has_type_length ? se->type_length : 0; cd->max_def = f->leaves.max_def[l]; cd->max_rep = f->leaves.max_rep[l];
            int w = ref_type_width(cd->ptype, cd->type_length);
            if (cd->ptype == PT_FLBA && w <= 0) FAIL("schema: FIXED_LEN_BYTE_ARRAY leaf %d without positive type_length", l);
            gbuf gd = { 0 }, gr = { 0 }, gv = { 0 }, gs = { 0 };
            uint8_t* dict = NULL; size_t dict_n = 0; int64_t dict_cnt = -1; ref_str* dict_s = NULL;
            int64_t nvals = 0, hdr_unc = 0; bool seen_data = false;
            while (pos < end) {
                ref_tval pt; size_t hu = 0; if (ref_thrift_decode(a, img + pos, end - pos, &pt, &hu)) FAIL("page-chain: row group %d column %d: page header at %zu does not decode inside the chunk", g, l, pos);
                ref_page_header h; if (ref_meta_page_from_tree(a, &pt, &h)) FAIL("required-field: page header at %zu: %s", pos, ref_meta_err);
                if (h.compressed_size < 0 || h.uncompressed_size < 0) FAIL("page-chain: negative page size at %zu", pos);
                size_t body = pos + hu; if (body + (size_t)h.compressed_size > end) FAIL("page-chain: row group %d column %d: page at %zu (header %zu + body %d) runs past the chunk end %zu", g, l, pos, hu, h.compressed_size, end);
                if (f->npages == pcap) { ref_pageinfo* np2 = ref_alloc(a, sizeof(ref_pageinfo) * (size_t)pcap * 2); memcpy(np2, f->pages, sizeof(ref_pageinfo) * (size_t)pcap); f->pages = np2; pcap *= 2; }
                ref_pageinfo pi = { pos, body, (size_t)h.compressed_size, g, l, h.type, h.has_crc, nvals, 0 };
                if (h.has_crc) { uint32_t c = ref_crc32_ieee(img + body, (size_t)h.compressed_size); if (c != (uint32_t)h.crc) FAIL("crc: row group %d column %d page at %zu: stored %08x, CRC-32 of the page bytes %08x", g, l, pos, (uint32_t)h.crc, c); }
                hdr_unc += (int64_t)hu + h.uncompressed_size;
                uint8_t* ub = ref_alloc(a, (size_t)h.uncompressed_size + 8); size_t un = 0;
                if (h.type == 2) {
                    if (!h.has_dict) FAIL("required-field: dictionary page without dictionary_page_header");
                    if (seen_data || dict_cnt >= 0) FAIL("page-chain: dictionary page is not the first page of the chunk");
                    if (ref_decompress(cm->codec, img + body, (size_t)h.compressed_size, ub, (size_t)h.uncompressed_size, &un)) FAIL("codec: row group %d column %d dictionary page does not decompress with codec %d", g, l, cm->codec);
                    if (un != (size_t)h.uncompressed_size) FAIL("uncompressed-size: dictionary page declares %d, decompresses to %zu", h.uncompressed_size, un);
                    dict_cnt = h.dict.num_values; if (dict_cnt < 0) FAIL("num-values: negative dictionary size");
                    if (cd->ptype == PT_BYTE_ARRAY) { dict_s = ref_alloc(a, sizeof(ref_str) * (size_t)(dict_cnt + 1)); size_t u2; if (ref_plain_ba_decode(ub, un, dict_s, dict_cnt, &u2)) FAIL("values: dictionary page truncated"); }
                    else if (cd->ptype == PT_BOOLEAN) FAIL("values: dictionary page for BOOLEAN column");
                    else { if ((size_t)dict_cnt * (size_t)w > un) FAIL("values: dictionary page holds %zu bytes, %lld values of %d bytes declared", un, (long long)dict_cnt, w); dict = ub; dict_n = un; }
                    (void)dict_n;
                } else if (h.type == 0 || h.type == 3) {
                    seen_data = true;
                    int64_t pn = h.type == 0 ? h.dph.num_values : h.v2.num_values; int enc = h.type == 0 ? h.dph.encoding : h.v2.encoding;
                    if ((h.type == 0 && !h.has_dph) || (h.type == 3 && !h.has_v2)) FAIL("required-field: data page without its header struct");
                    if (pn < 0) FAIL("num-values: negative page num_values");
                    bool listed = false; for (int i = 0; i < cm->n_enc; i++) if (cm->encodings[i] == enc) listed = true;
                    if (!listed) FAIL("encodings-list: row group %d column %d uses encoding %d which ColumnMetaData.encodings does not list", g, l, enc);
                    const uint8_t* p; size_t rem;
                    int16_t* dl = ref_alloc(a, sizeof(int16_t) * (size_t)(pn + 1)); int16_t* rl = ref_alloc(a, sizeof(int16_t) * (size_t)(pn + 1));
                    if (h.type == 0) {
                        if (ref_decompress(cm->codec, img + body, (size_t)h.compressed_size, ub, (size_t)h.uncompressed_size, &un)) FAIL("codec: row group %d column %d page at %zu does not decompress with codec %d", g, l, pos, cm->codec);
                        if (un != (size_t)h.uncompressed_size) FAIL("uncompressed-size: page at %zu declares %d, decompresses to %zu", pos, h.uncompressed_size, un);
                        p = ub; rem = un;
                        if (get_levels(f, &p, &rem, cd->max_rep, h.dph.rep_enc, pn, rl, true, 0)) return -1;
                        if (get_levels(f, &p, &rem, cd->max_def, h.dph.def_enc, pn, dl, true, 0)) return -1;
                    } else {
                        size_t lv = (size_t)h.v2.rep_len + (size_t)h.v2.def_len; if (h.v2.rep_len < 0 || h.v2.def_len < 0 || lv > (size_t)h.compressed_size) FAIL("levels: v2 level lengths exceed the page");
                        p = img + body; rem = lv;
                        if (get_levels(f, &p, &rem, cd->max_rep, ENC_RLE, pn, rl, false, h.v2.rep_len)) return -1;
                        if (get_levels(f, &p, &rem, cd->max_def, ENC_RLE, pn, dl, false, h.v2.def_len)) return -1;
                        size_t vcap = (size_t)h.uncompressed_size >= lv ? (size_t)h.uncompressed_size - lv : 0;
                        bool comp = h.v2.has_compressed ? h.v2.compressed : true;
                        if (ref_decompress(comp ? cm->codec : CODEC_NONE, img + body + lv, (size_t)h.compressed_size - lv, ub, vcap, &un)) FAIL("codec: v2 page values do not decompress");
                        if (un != vcap) FAIL("uncompressed-size: v2 page declares %d, levels %zu + values %zu", h.uncompressed_size, lv, un);
                        p = ub; rem = un;
                    }
                    int64_t pv = 0; for (int64_t i = 0; i < pn; i++) if (dl[i] == cd->max_def) pv++;
                    gput(a, &gd, dl, sizeof(int16_t) * (size_t)pn); gput(a, &gr, rl, sizeof(int16_t) * (size_t)pn);
                    /* values */
                    if (enc == ENC_PLAIN) {
                        if (cd->ptype == PT_BOOLEAN) { if ((size_t)(pv + 7) / 8 > rem) FAIL("values: PLAIN boolean page truncated"); uint8_t* t = ref_alloc(a, (size_t)pv + 1); ref_plain_bool_decode(p, pv, t); gput(a, &gv, t, (size_t)pv); }
                        else if (cd->ptype == PT_BYTE_ARRAY) { ref_str* t = ref_alloc(a, sizeof(ref_str) * (size_t)(pv + 1)); size_t u2; if (ref_plain_ba_decode(p, rem, t, pv, &u2)) FAIL("values: PLAIN byte-array page truncated (row group %d column %d page at %zu)", g, l, pos); gput(a, &gs, t, sizeof(ref_str) * (size_t)pv); }
                        else { if ((size_t)pv * (size_t)w > rem) FAIL("values: PLAIN page at %zu holds %zu value bytes, needs %lld x %d", pos, rem, (long long)pv, w); gput(a, &gv, p, (size_t)pv * (size_t)w); }
                    } else if (enc == ENC_PLAIN_DICT || enc == ENC_RLE_DICT) {
                        if (dict_cnt < 0) FAIL("values: dictionary-encoded page without dictionary page");
                        if (rem < 1 && pv > 0) FAIL("values: missing index bit width"); int bw = rem ? p[0] : 0; if (bw > 32) FAIL("values: index bit width %d", bw);
                        uint32_t* ix = malloc(((size_t)pv + 1) * 4); int64_t got = rem ? ref_hybrid_decode(p + 1, rem - 1, bw, ix, pv, NULL) : 0;
                        if (got != pv) { free(ix); FAIL("values: %lld of %lld dictionary indices decode", (long long)got, (long long)pv); }
                        for (int64_t i = 0; i < pv; i++) { if ((int64_t)ix[i] >= dict_cnt) { free(ix); FAIL("values: dictionary index %u out of range %lld", ix[i], (long long)dict_cnt); }
                            if (cd->ptype == PT_BYTE_ARRAY) gput(a, &gs, &dict_s[ix[i]], sizeof(ref_str)); else gput(a, &gv, dict + (size_t)ix[i] * (size_t)w, (size_t)w); }
                        free(ix);
                    } else if (enc == ENC_DELTA_BINARY && (cd->ptype == PT_INT32 || cd->ptype == PT_INT64)) {
                        int64_t* t = malloc(((size_t)pv + 1) * 8); if (ref_delta_decode(p, rem, t, pv, NULL, NULL)) { free(t); FAIL("values: DELTA_BINARY_PACKED page does not decode"); }
                        for (int64_t i = 0; i < pv; i++) { if (cd->ptype == PT_INT32) { int32_t x = (int32_t)t[i]; gput(a, &gv, &x, 4); } else gput(a, &gv, &t[i], 8); } free(t);
                    } else if (enc == ENC_DELTA_LENGTH && cd->ptype == PT_BYTE_ARRAY) { ref_str* t = ref_alloc(a, sizeof(ref_str) * (size_t)(pv + 1)); if (ref_dlba_decode(p, rem, t, pv, NULL)) FAIL("values: DELTA_LENGTH_BYTE_ARRAY page does not decode"); gput(a, &gs, t, sizeof(ref_str) * (size_t)pv);
                    } else if (enc == ENC_DELTA_BYTE_ARRAY && cd->ptype == PT_BYTE_ARRAY) { ref_str* t = ref_alloc(a, sizeof(ref_str) * (size_t)(pv + 1)); uint8_t* wk = ref_alloc(a, rem * 64 + 64); if (ref_dba_decode(p, rem, t, pv, wk, rem * 64 + 64, NULL)) FAIL("values: DELTA_BYTE_ARRAY page does not decode"); gput(a, &gs, t, sizeof(ref_str) * (size_t)pv);
                    } else if (enc == ENC_BSS && w > 0 && cd->ptype != PT_BOOLEAN) { if ((size_t)pv * (size_t)w > rem) FAIL("values: BYTE_STREAM_SPLIT page truncated"); uint8_t* t = ref_alloc(a, (size_t)pv * (size_t)w + 1); ref_bss_decode(p, pv, w, t); gput(a, &gv, t, (size_t)pv * (size_t)w);
                    } else FAIL("encodings: encoding %d is not defined for type %d", enc, cd->ptype);
                    nvals += pn; cd->nvalues += pv; pi.nlevels = pn;
                } else if (h.type != 1) FAIL("page-chain: unknown page type %d at %zu", h.type, pos);
                f->pages[f->npages++] = pi;
                pos = body + (size_t)h.compressed_size;
            }
            if (pos != end) FAIL("page-chain: row group %d column %d pages end at %zu, chunk ends at %zu", g, l, pos, end);
            if (nvals != cm->num_values) FAIL("num-values: row group %d column %d pages hold %lld values, chunk metadata says %lld", g, l, (long long)nvals, (long long)cm->num_values);
            cd->nlevels = nvals; cd->def = (int16_t*)gd.p; cd->rep = (int16_t*)gr.p; cd->fixed = gv.p; cd->strs = (ref_str*)gs.p;
            int64_t r0 = 0; for (int64_t i = 0; i < nvals; i++) if (cd->max_rep == 0 || cd->rep[i] == 0) r0++;
            if (r0 != rg->num_rows) FAIL("row-count: row group %d column %d holds %lld rows, row group metadata says %lld", g, l, (long long)r0, (long long)rg->num_rows);
            if ((flags & REF_RD_CHECK_TOTALS) && cm->total_uncompressed != hdr_unc) FAIL("totals: row group %d column %d total_uncompressed_size %lld, headers + uncompressed pages = %lld", g, l, (long long)cm->total_uncompressed, (long long)hdr_unc);
            sum_unc += hdr_unc; sum_comp += cm->total_compressed;
        }
        if ((flags & REF_RD_CHECK_TOTALS) && rg->total_byte_size != sum_unc) FAIL("totals: row group %d total_byte_size %lld, sum of uncompressed chunk sizes %lld", g, (long long)rg->total_byte_size, (long long)sum_unc);
        if ((flags & REF_RD_CHECK_TOTALS) && rg->has_total_compressed && rg->total_compressed != sum_comp) FAIL("totals: row group %d total_compressed_size %lld, sum of chunks %lld", g, (long long)rg->total_compressed, (long long)sum_comp);
    }
    if (rows != m->num_rows) FAIL("row-count: row groups hold %lld rows, file metadata says %lld", (long long)rows, (long long)m->num_rows);
    if (expect != fstart) FAIL("tiling: column chunks end at %zu, footer starts at %zu", expect, fstart);
    return 0;
}
