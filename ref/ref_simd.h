/* ref_simd.h — scalar definitions of carquet's vectorised kernels (property
 * C15).  Written from the semantics of the scalar_* fallbacks in
 * src/simd/dispatch.c and the kernel comments, one element at a time, no
 * carquet header, no intrinsics.  All arithmetic that can overflow is done on
 * unsigned types (two's-complement wrap-around, which is what the vector
 * instructions do).  Floats/doubles are handled as 32/64-bit patterns so that
 * NaN payloads are preserved and compared bitwise. */
#ifndef REF_SIMD_H
#define REF_SIMD_H
#include <stdint.h>
#include <stddef.h>

/* values[i] = initial + values[0] + ... + values[i]  (mod 2^32 / 2^64), in place */
void ref_simd_prefix_sum_u32(uint32_t* values, int64_t count, uint32_t initial);
void ref_simd_prefix_sum_u64(uint64_t* values, int64_t count, uint64_t initial);

/* out[i] = dict[idx[i]]; domain: idx[i] < dictionary size */
void ref_simd_gather32(const uint32_t* dict, const uint32_t* idx, int64_t count, uint32_t* out);
void ref_simd_gather64(const uint64_t* dict, const uint32_t* idx, int64_t count, uint64_t* out);

/* BYTE_STREAM_SPLIT of `count` elements of `width` bytes:
 * encode: out[b*count + i] = in[i*width + b];  decode is the inverse */
void ref_simd_bss_encode(const uint8_t* in, int64_t count, int width, uint8_t* out);
void ref_simd_bss_decode(const uint8_t* in, int64_t count, int width, uint8_t* out);

/* bit i of the LSB-first packed input -> out[i] in {0,1}; reads ceil(count/8) bytes */
void ref_simd_unpack_bools(const uint8_t* in, uint8_t* out, int64_t count);
/* domain: in[i] in {0,1}; writes ceil(count/8) whole bytes, unused high bits of the last byte 0 */
void ref_simd_pack_bools(const uint8_t* in, uint8_t* out, int64_t count);

/* number of leading elements equal to v[0]; 0 for count == 0 */
int64_t ref_simd_find_run_length_u32(const uint32_t* v, int64_t count);

/* CRC-32C (Castagnoli, reflected 0x82F63B78), init = ~crc, result inverted:
 * ref_simd_crc32c(0, "123456789", 9) == 0xE3069283 */
uint32_t ref_simd_crc32c(uint32_t crc, const uint8_t* data, size_t len);

/* LZ77 match copy: dst[i] = src[i] for i = 0..len-1 in increasing order
 * (src == dst - offset, offset >= 1, so the copy may overlap itself) */
void ref_simd_match_copy(uint8_t* dst, const uint8_t* src, size_t len, size_t offset);
/* number of leading bytes in [p, limit) equal to the bytes at match */
size_t ref_simd_match_length(const uint8_t* p, const uint8_t* match, const uint8_t* limit);

/* number of i with lv[i] == max_def */
int64_t ref_simd_count_non_nulls(const int16_t* lv, int64_t count, int16_t max_def);
/* bit i (LSB-first) of a ceil(count/8)-byte bitmap = (lv[i] < max_def); the
 * whole bitmap is produced (destination of the kernel must be pre-zeroed: the
 * scalar definition ORs the bits of a trailing partial byte into it) */
void ref_simd_build_null_bitmap(const int16_t* lv, int64_t count, int16_t max_def, uint8_t* bitmap);
void ref_simd_fill_i16(int16_t* lv, int64_t count, int16_t value);

/* n values of `bw` bits, LSB-first bit-packed -> 32-bit values; reads n*bw/8 bytes */
void ref_simd_bitunpack(const uint8_t* in, int n, int bw, uint32_t* out);

void ref_simd_memset(uint8_t* d, uint8_t v, size_t n);
void ref_simd_memcpy(uint8_t* d, const uint8_t* s, size_t n);

#endif
