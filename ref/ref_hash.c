/* ref_hash.c — CRC-32 (IEEE 802.3), CRC-32C, XXH64, split-block Bloom filter,
 * written from their published definitions. */
#include "ref.h"
#include <string.h>

static uint32_t crc_bits(uint32_t crc, const uint8_t* p, size_t n, uint32_t poly) {
    for (size_t i = 0; i < n; i++) {
        crc ^= p[i];
        for (int k = 0; k < 8; k++) crc = (crc >> 1) ^ (poly & (0u - (crc & 1u)));
    }
    return crc;
}
uint32_t ref_crc32_ieee_update(uint32_t crc, const uint8_t* p, size_t n) { return ~crc_bits(~crc, p, n, 0xEDB88320u); }
uint32_t ref_crc32_ieee(const uint8_t* p, size_t n) { return ref_crc32_ieee_update(0, p, n); }
uint32_t ref_crc32c_raw(uint32_t state, const uint8_t* p, size_t n) { return crc_bits(state, p, n, 0x82F63B78u); }
uint32_t ref_crc32c(const uint8_t* p, size_t n) { return ~crc_bits(~0u, p, n, 0x82F63B78u); }

#define P1 11400714785074694791ull
#define P2 14029467366897019727ull
#define P3 1609587929392839161ull
#define P4 9650029242287828579ull
#define P5 2870177450012600261ull
static uint64_t rotl(uint64_t x, int r) { return (x << r) | (x >> (64 - r)); }
static uint64_t rd64(const uint8_t* p) { uint64_t v = 0; for (int i = 0; i < 8; i++) v |= (uint64_t)p[i] << (8 * i); return v; }
static uint32_t rd32(const uint8_t* p) { return (uint32_t)p[0] | (uint32_t)p[1] << 8 | (uint32_t)p[2] << 16 | (uint32_t)p[3] << 24; }
static uint64_t rnd(uint64_t acc, uint64_t in) { acc += in * P2; acc = rotl(acc, 31); return acc * P1; }
static uint64_t mrg(uint64_t h, uint64_t v) { v = rnd(0, v); h ^= v; return h * P1 + P4; }
uint64_t ref_xxh64(const void* data, size_t n, uint64_t seed) {
    const uint8_t* p = data; const uint8_t* end = p + n; uint64_t h;
    if (n >= 32) {
        uint64_t v1 = seed + P1 + P2, v2 = seed + P2, v3 = seed, v4 = seed - P1;
        do { v1 = rnd(v1, rd64(p)); v2 = rnd(v2, rd64(p + 8)); v3 = rnd(v3, rd64(p + 16)); v4 = rnd(v4, rd64(p + 24)); p += 32; } while (p + 32 <= end);
        h = rotl(v1, 1) + rotl(v2, 7) + rotl(v3, 12) + rotl(v4, 18);
        h = mrg(h, v1); h = mrg(h, v2); h = mrg(h, v3); h = mrg(h, v4);
    } else h = seed + P5;
    h += (uint64_t)n;
    while (p + 8 <= end) { h ^= rnd(0, rd64(p)); h = rotl(h, 27) * P1 + P4; p += 8; }
    if (p + 4 <= end) { h ^= (uint64_t)rd32(p) * P1; h = rotl(h, 23) * P2 + P3; p += 4; }
    while (p < end) { h ^= (uint64_t)(*p) * P5; h = rotl(h, 11) * P1; p++; }
    h ^= h >> 33; h *= P2; h ^= h >> 29; h *= P3; h ^= h >> 32;
    return h;
}

static const uint32_t SALT[8] = { 0x47b6137bU, 0x44974d91U, 0x8824ad5bU, 0xa2b7289dU, 0x705495c7U, 0x2df1424bU, 0x9efc4947U, 0x5c6bfb31U };
static void sbbf_mask(uint32_t key, uint32_t m[8]) { for (int i = 0; i < 8; i++) m[i] = 1u << ((key * SALT[i]) >> 27); }
static uint32_t sbbf_block(uint64_t hash, uint32_t nblocks) { return (uint32_t)(((hash >> 32) * (uint64_t)nblocks) >> 32); }
void ref_sbbf_insert(uint8_t* bits, uint32_t nblocks, uint64_t hash) {
    uint32_t m[8]; sbbf_mask((uint32_t)hash, m);
    uint8_t* b = bits + (size_t)sbbf_block(hash, nblocks) * 32;
    for (int i = 0; i < 8; i++) { uint32_t w = rd32(b + 4 * i) | m[i]; b[4*i] = (uint8_t)w; b[4*i+1] = (uint8_t)(w >> 8); b[4*i+2] = (uint8_t)(w >> 16); b[4*i+3] = (uint8_t)(w >> 24); }
}
bool ref_sbbf_check(const uint8_t* bits, uint32_t nblocks, uint64_t hash) {
    uint32_t m[8]; sbbf_mask((uint32_t)hash, m);
    const uint8_t* b = bits + (size_t)sbbf_block(hash, nblocks) * 32;
    for (int i = 0; i < 8; i++) if ((rd32(b + 4 * i) & m[i]) == 0) return false;
    return true;
}
