/* ref.h — independent reference implementations written from the format
 * specifications (Parquet encodings, Thrift compact protocol, Snappy and LZ4
 * block formats, XXH64, split-block Bloom filter, CRC-32/CRC-32C).  No carquet
 * header is included by any file in ref/; all symbols are prefixed ref_. */
#ifndef REF_H
#define REF_H
#include <stdint.h>
#include <stddef.h>
#include <stdbool.h>

/* growable byte vector */
typedef struct { uint8_t* p; size_t n, cap; } ref_buf;
void ref_buf_init(ref_buf* b);
void ref_buf_free(ref_buf* b);
void ref_buf_put(ref_buf* b, const void* d, size_t n);
void ref_buf_u8(ref_buf* b, uint8_t v);
void ref_buf_u32le(ref_buf* b, uint32_t v);
void ref_buf_u64le(ref_buf* b, uint64_t v);
void ref_buf_uleb(ref_buf* b, uint64_t v);
void ref_buf_zz(ref_buf* b, int64_t v);           /* zigzag + uleb */
void ref_buf_clear(ref_buf* b);

/* ---- RLE / bit-packed hybrid ----------------------------------------- */
/* Decodes up to max values; returns number decoded (== max unless the stream
 * ends first), or -1 if the stream is malformed before max values are
 * produced (truncated header, value or group). *used = bytes consumed. */
int64_t ref_hybrid_decode(const uint8_t* in, size_t n, int bw, uint32_t* out, int64_t max, size_t* used);
enum { REF_H_RLE_ONLY = 0, REF_H_BP_ONLY, REF_H_MIXED, REF_H_SHORT_RLE, REF_H_ZERO_RUNS, REF_H_PADDED_ONES, REF_H_SINGLE_GROUPS, REF_H_NFORMS };
extern const char* const ref_hybrid_form_name[REF_H_NFORMS];
void ref_hybrid_encode(const uint32_t* v, int64_t n, int bw, int form, ref_buf* out);

/* ---- raw LSB-first bit packing ---------------------------------------- */
void ref_bitpack(const uint64_t* v, size_t n, int bw, ref_buf* out);     /* appends ceil(n*bw/8) bytes */
void ref_bitunpack(const uint8_t* in, size_t n, int bw, uint64_t* out);   /* reads ceil(n*bw/8) bytes */

/* ---- DELTA_BINARY_PACKED ---------------------------------------------- */
typedef struct {
    int block_size, miniblocks;      /* geometry (default 128 / 4) */
    int unused_width_byte;           /* width byte written for unneeded trailing miniblocks (spec: any) */
    int bits;                        /* 32 or 64: width of the wrapping arithmetic */
    int widen;                       /* add this many bits to each needed miniblock width (legal: any width >= required) */
} ref_delta_opts;
void ref_delta_encode(const int64_t* v, int64_t n, const ref_delta_opts* o, ref_buf* out);
/* returns 0 ok / -1 malformed; values are produced modulo 2^64 (caller truncates) */
int ref_delta_decode(const uint8_t* in, size_t n, int64_t* out, int64_t count, size_t* used, int64_t* total_in_header);

/* ---- byte arrays -------------------------------------------------------- */
typedef struct { const uint8_t* p; uint32_t n; } ref_str;
void ref_dlba_encode(const ref_str* v, int64_t n, ref_buf* out);
int  ref_dlba_decode(const uint8_t* in, size_t n, ref_str* out, int64_t count, size_t* used);
void ref_dba_encode(const ref_str* v, int64_t n, ref_buf* out);
/* out[i].p point into `work` (caller provides >= total size) */
int  ref_dba_decode(const uint8_t* in, size_t n, ref_str* out, int64_t count, uint8_t* work, size_t work_n, size_t* used);

/* ---- BYTE_STREAM_SPLIT --------------------------------------------------- */
void ref_bss_encode(const uint8_t* v, int64_t count, int width, uint8_t* out);
void ref_bss_decode(const uint8_t* in, int64_t count, int width, uint8_t* out);

/* ---- PLAIN ---------------------------------------------------------------- */
void ref_plain_bool_encode(const uint8_t* v, int64_t n, ref_buf* out);
void ref_plain_bool_decode(const uint8_t* in, int64_t n, uint8_t* out);
void ref_plain_ba_encode(const ref_str* v, int64_t n, ref_buf* out);
int  ref_plain_ba_decode(const uint8_t* in, size_t n, ref_str* out, int64_t count, size_t* used);

/* ---- checksums / hashes --------------------------------------------------- */
uint32_t ref_crc32_ieee(const uint8_t* p, size_t n);            /* bit-serial, poly 0xEDB88320, init/xorout ~0 */
uint32_t ref_crc32_ieee_update(uint32_t crc, const uint8_t* p, size_t n);
uint32_t ref_crc32c(const uint8_t* p, size_t n);                /* Castagnoli, same conventions */
uint32_t ref_crc32c_raw(uint32_t state, const uint8_t* p, size_t n); /* no pre/post inversion */
uint64_t ref_xxh64(const void* p, size_t n, uint64_t seed);

/* ---- split-block Bloom filter --------------------------------------------- */
void ref_sbbf_insert(uint8_t* bits, uint32_t nblocks, uint64_t hash);
bool ref_sbbf_check(const uint8_t* bits, uint32_t nblocks, uint64_t hash);

/* ---- Snappy / LZ4 block formats ------------------------------------------- */
/* strict decoders: 0 ok, <0 reason code */
int ref_snappy_decode(const uint8_t* in, size_t n, uint8_t* out, size_t cap, size_t* out_n);
int ref_lz4_decode(const uint8_t* in, size_t n, uint8_t* out, size_t cap, size_t* out_n, bool check_end_rules);
int ref_lz4_compress_greedy(const uint8_t* in, size_t n, ref_buf* out);      /* real matches: short distances 1..40 and hashed 4-grams */
int ref_snappy_compress_greedy(const uint8_t* in, size_t n, ref_buf* out);

#endif
