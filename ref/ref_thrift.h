/* ref_thrift.h — Thrift compact protocol (generic value tree) and the
 * parquet.thrift structures, written from thrift-compact-protocol.md and
 * parquet.thrift.  Independent of carquet. */
#ifndef REF_THRIFT_H
#define REF_THRIFT_H
#include "ref.h"

/* compact wire types */
enum { RT_STOP = 0, RT_TRUE = 1, RT_FALSE = 2, RT_BYTE = 3, RT_I16 = 4, RT_I32 = 5, RT_I64 = 6, RT_DOUBLE = 7,
       RT_BINARY = 8, RT_LIST = 9, RT_SET = 10, RT_MAP = 11, RT_STRUCT = 12, RT_UUID = 13 };

/* bump arena for trees and decoded structures (freed as a whole) */
typedef struct ref_arena { struct ref_chunk_* head; } ref_arena;
void* ref_alloc(ref_arena* a, size_t n);          /* zeroed */
void  ref_arena_free(ref_arena* a);

typedef struct ref_tval {
    int type;                 /* RT_*; booleans are RT_TRUE with .i = 0/1 */
    int64_t i;                /* bool / byte / i16 / i32 / i64 */
    uint8_t raw[16];          /* double (8 LE bytes) or uuid */
    const uint8_t* bin; size_t bin_n;
    int elem_type, key_type;  /* list/set: elem_type; map: key_type + elem_type (value type) */
    struct ref_tval* items; int nitems;   /* list/set elements; map: k,v,k,v..; struct: field values */
    int16_t* fids;            /* struct: field id of items[i] */
    bool has_lie; uint64_t lie; /* hostile-input generation: write this count/length instead of the true one */
} ref_tval;

typedef struct { bool long_field_headers, long_list_headers; } ref_tform;

/* struct value (root) -> bytes */
void ref_thrift_encode(const ref_tval* root, const ref_tform* f, ref_buf* out);
/* bytes -> struct value; returns 0 or negative error; *used = bytes consumed */
int  ref_thrift_decode(ref_arena* a, const uint8_t* in, size_t n, ref_tval* root, size_t* used);

/* tree construction helpers */
ref_tval ref_t_i(int type, int64_t v);
ref_tval ref_t_bool(bool v);
ref_tval ref_t_bin(const void* p, size_t n);
ref_tval ref_t_struct(ref_arena* a, int capacity);
void     ref_t_add(ref_arena* a, ref_tval* st, int16_t fid, ref_tval v);            /* append field */
void     ref_t_insert(ref_arena* a, ref_tval* st, int pos, int16_t fid, ref_tval v); /* insert at position */
ref_tval ref_t_list(ref_arena* a, int elem_type, int n);                              /* items zeroed, fill them */
const ref_tval* ref_t_get(const ref_tval* st, int16_t fid);                           /* first field with that id */
/* visit every struct node of the tree (pre-order); returns count */
int ref_t_structs(ref_tval* root, ref_tval** out, int cap);

/* ---- parquet.thrift ---------------------------------------------------- */
typedef struct { const uint8_t* p; int32_t n; bool present; } ref_bin;
typedef struct {
    ref_bin max, min, max_value, min_value;
    bool has_null_count; int64_t null_count; bool has_distinct; int64_t distinct;
    bool has_max_exact, max_exact, has_min_exact, min_exact;
} ref_stats;
typedef struct { int id; int32_t scale, precision; bool utc; int unit; int8_t bit_width; bool is_signed; } ref_logical;  /* id: LogicalType union field id, 0 = none */
typedef struct {
    bool has_type; int32_t type; bool has_type_length; int32_t type_length; bool has_rep; int32_t rep;
    ref_bin name; bool has_num_children; int32_t num_children; bool has_converted; int32_t converted;
    bool has_scale; int32_t scale; bool has_precision; int32_t precision; bool has_field_id; int32_t field_id;
    bool has_logical; ref_logical logical;
} ref_schema_elem;
typedef struct { ref_bin key, value; } ref_kv;
typedef struct { int32_t page_type, encoding, count; } ref_encstat;
typedef struct {
    int32_t type; int32_t* encodings; int n_enc; ref_bin* path; int n_path; int32_t codec;
    int64_t num_values, total_uncompressed, total_compressed;
    bool has_kv; ref_kv* kv; int n_kv;
    int64_t data_page_offset; bool has_index_page_offset; int64_t index_page_offset;
    bool has_dict_page_offset; int64_t dict_page_offset; bool has_stats; ref_stats stats;
    bool has_encstats; ref_encstat* encstats; int n_encstats;
    bool has_bloom_offset; int64_t bloom_offset; bool has_bloom_length; int32_t bloom_length;
} ref_col_meta;
typedef struct {
    ref_bin file_path; int64_t file_offset; bool has_meta; ref_col_meta meta;
    bool has_oi_offset; int64_t oi_offset; bool has_oi_length; int32_t oi_length;
    bool has_ci_offset; int64_t ci_offset; bool has_ci_length; int32_t ci_length;
} ref_chunk;
typedef struct {
    ref_chunk* cols; int ncols; int64_t total_byte_size, num_rows;
    bool has_file_offset; int64_t file_offset; bool has_total_compressed; int64_t total_compressed; bool has_ordinal; int16_t ordinal;
} ref_rg;
typedef struct {
    int32_t version; ref_schema_elem* schema; int nschema; int64_t num_rows; ref_rg* rgs; int nrg;
    bool has_kv; ref_kv* kv; int n_kv; ref_bin created_by;
} ref_file_meta;
typedef struct {
    int32_t type, uncompressed_size, compressed_size; bool has_crc; int32_t crc;
    bool has_dph; struct { int32_t num_values, encoding, def_enc, rep_enc; bool has_stats; ref_stats stats; } dph;
    bool has_dict; struct { int32_t num_values, encoding; bool has_sorted, sorted; } dict;
    bool has_v2; struct { int32_t num_values, num_nulls, num_rows, encoding, def_len, rep_len; bool has_compressed, compressed; bool has_stats; ref_stats stats; } v2;
    bool has_index;   /* index_page_header (empty struct) */
} ref_page_header;

ref_tval ref_meta_file_to_tree(ref_arena* a, const ref_file_meta* m);
int      ref_meta_file_from_tree(ref_arena* a, const ref_tval* t, ref_file_meta* m);   /* 0 ok; <0 wrong wire type / missing required */
ref_tval ref_meta_page_to_tree(ref_arena* a, const ref_page_header* h);
int      ref_meta_page_from_tree(ref_arena* a, const ref_tval* t, ref_page_header* h);
extern char ref_meta_err[200];    /* explanation of the last negative return */
#endif
