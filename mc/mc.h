/* mc.h — bounded-exhaustive exploration engine shared by all harnesses.
 *
 * A harness is a deterministic generator: nested loops that call mc_next()
 * once per case.  The engine
 *   - shards cases over worker processes (case index modulo shard count),
 *   - runs the generator in a child forked from a supervisor, so that a case
 *     that crashes (sanitizer abort, SIGSEGV, CPU-budget SIGPROF) is recorded
 *     under a finding key and exploration resumes with the next case,
 *   - keeps all counters in shared memory so they survive a child's death,
 *   - writes one JSON result per shard which bin/check merges into evidence.
 *
 * Determinism: the case index of a case depends only on the tier.  VERIF_SEED
 * is exposed through mc_seed() for salts only.
 */
#ifndef MC_H
#define MC_H
#include <stdint.h>
#include <stddef.h>
#include <stdbool.h>

#ifdef __cplusplus
extern "C" {
#endif

/* Harness entry: parses argv (--tier quick|thorough, --shard i/n, --only idx,
 * --deadline seconds, --out file, --mode name), runs `enumerate` under the
 * supervisor and writes the result.  Returns the process exit code. */
int mc_main(int argc, char** argv, const char* harness, void (*enumerate)(void));

int  mc_tier(void);             /* 0 quick, 1 thorough */
bool mc_thorough(void);
uint64_t mc_seed(void);
const char* mc_mode(void);      /* value of --mode, "" if absent */
bool mc_replaying(void);        /* true under --only */

/* Stages: an enumeration is a sequence of named stages (iterated bounds).
 * A stage is complete when every shard ran through it before the deadline. */
void mc_stage(const char* name);

/* Advance to the next case.  Returns true iff this process must execute it.
 * When the deadline has expired it returns false for all remaining cases and
 * the current stage is recorded as incomplete. */
bool mc_next(void);
/* Describe the current case (printf style).  Must be called before any code
 * that can crash, because the supervisor reads it after a crash. */
void mc_desc(const char* fmt, ...) __attribute__((format(printf, 1, 2)));
/* Bracket code that runs in every shard before the first case; a crash there is recorded as a finding. */
void mc_prologue(const char* what);
void mc_prologue_end(void);
/* Narrow feature appended to crash keys of the current case (optional). */
void mc_feature(const char* fmt, ...) __attribute__((format(printf, 1, 2)));
/* Mark the current case as non-trivial by the harness's stated rule. */
void mc_nontrivial(void);
/* 64-bit identity of the current case for the distinctness count. */
void mc_case_key(uint64_t h);
/* Record a violation for the current case.  `key` is the finding key. */
void mc_fail(const char* key, const char* fmt, ...) __attribute__((format(printf, 2, 3)));
/* Named counters (summed over shards). */
void mc_count(const char* name, uint64_t add);
/* Outcome classes: counts distinct class names seen (vacuity guard). */
void mc_outcome(const char* cls);
/* CPU-time budget for the current case (ITIMER_PROF).  0 disables. */
void mc_budget_ms(unsigned ms);
bool mc_expired(void);
/* Print only when replaying a single case (observation log). */
void mc_log(const char* fmt, ...) __attribute__((format(printf, 1, 2)));
/* Free text that lands in the evidence file (rule, assumptions). */
void mc_rule(const char* text);
void mc_assume(const char* text);
/* An unrecoverable error of the harness itself (not a property verdict). */
void mc_harness_error(const char* fmt, ...) __attribute__((format(printf, 1, 2), noreturn));

/* ---- helpers ---------------------------------------------------------- */
uint64_t mc_hash(const void* p, size_t n, uint64_t seed);
static inline uint64_t mc_mix(uint64_t h, uint64_t v) {
    h ^= v + 0x9e3779b97f4a7c15ull + (h << 6) + (h >> 2);
    h *= 0xff51afd7ed558ccdull; h ^= h >> 33; return h;
}
/* hex dump of at most `max` bytes into a static buffer (4 rotating buffers) */
const char* mc_hex(const void* p, size_t n, size_t max);

/* Guard-page allocator: returns a block of n bytes whose END abuts a
 * PROT_NONE page (tail=1) or whose START follows one (tail=0).  The other
 * side is filled with canaries checked by mc_guard_check(). */
typedef struct { uint8_t* base; size_t map_len; uint8_t* p; size_t n; int tail; } mc_guard_t;
uint8_t* mc_guard_alloc(mc_guard_t* g, size_t n, int tail, size_t align_off);
bool mc_guard_check(const mc_guard_t* g);   /* canaries intact? */
void mc_guard_free(mc_guard_t* g);

/* Reusable guard arena: a region of `cap` bytes fenced by PROT_NONE pages on
 * both sides, mapped ONCE (page faults are very expensive in this sandbox, so
 * per-case mmap must be avoided).  mc_arena_tail(n) returns a block whose end
 * abuts the upper guard page; mc_arena_head(n) one whose start follows the
 * lower guard page.  The 64 bytes on the unguarded side are canaries. */
typedef struct { uint8_t* lo; uint8_t* hi; uint8_t* cur; size_t cur_n; int cur_tail; } mc_arena_t;
void mc_arena_init(mc_arena_t* a, size_t cap);
uint8_t* mc_arena_tail(mc_arena_t* a, size_t n);
uint8_t* mc_arena_head(mc_arena_t* a, size_t n);
bool mc_arena_check(const mc_arena_t* a);      /* canaries next to the last block intact? */

/* Exact-size heap copy (ASan sees overreads) */
void* mc_exact(const void* src, size_t n);

/* Compositions of n into positive parts: iterate with mask in [0, 2^(n-1));
 * bit i set = boundary after element i+1.  Fills parts[], returns count. */
int mc_composition(int n, uint32_t mask, int* parts);

/* Deviation-bounded enumeration: nd dimensions with alphabet sizes[i] (choice 0 =
 * default).  Every choice vector with at most maxdev non-default entries is
 * visited, one stage per deviation count (completed in order); fn is called for
 * the vectors this shard owns, after mc_desc/mc_case_key/mc_nontrivial. */
typedef void (*mc_dev_fn)(const int* choice, int ndev, void* ctx);
void mc_deviations(const int* sizes, int nd, int maxdev, const char* tag, const char* const* names, mc_dev_fn fn, void* ctx);

#ifdef __cplusplus
}
#endif
#endif
