/* sched.h — E3: serialising thread scheduler + own OpenMP runtime + happens-before
 * race detector behind the gcc ThreadSanitizer instrumentation ABI.  Used by the
 * C07 harness only.  One process executes ONE schedule: the harness forks a
 * child per execution, the child calls sch_begin(), runs the scenario body and
 * sch_end(); the trace lands in a MAP_SHARED block the parent reads. */
#ifndef MC_SCHED_H
#define MC_SCHED_H
#include <stdint.h>
#include <stddef.h>
#include <stdbool.h>

#define SCH_MAXPT   6000      /* choice points per execution */
#define SCH_MAXT    20        /* logical threads per execution */
#define SCH_MAXRACY 192       /* promoted instructions */

enum { SCH_K_FORK = 1, SCH_K_GRAB, SCH_K_IO, SCH_K_ZSTD, SCH_K_ATOMIC, SCH_K_RACY, SCH_K_LOCK, SCH_K_BLOCK, SCH_K_SPAWN, SCH_K_EXIT, SCH_K_NKINDS };
enum { SCH_OK = 0, SCH_DEADLOCK, SCH_DIVERGED, SCH_TOO_MANY_POINTS, SCH_MONITOR, SCH_CHILD_DIED, SCH_TIMEOUT };

typedef struct { uint8_t n_enabled, cur_enabled, chosen, kind, tid; } sch_point;
typedef struct { uint32_t pc_a, pc_b; uint8_t write_a, write_b; } sch_race;    /* pc_a: earlier access, pc_b: later access */
typedef struct {
    /* in */
    int nprefix; uint8_t prefix[SCH_MAXPT];
    int nracy_in; uint32_t racy_in[SCH_MAXRACY];      /* instructions that are scheduling points */
    int omp_max_threads; int detect;
    /* out */
    int status; char msg[300];
    int npoints; sch_point pt[SCH_MAXPT];
    int nraces; sch_race races[64];                    /* distinct (pc_a, pc_b) pairs found in this execution */
    int nthreads; int nswitches; int interleaved;      /* interleaved: some thread was preempted or ran between two steps of another */
    long naccesses, nshadow; int shadow_full;
    int points_by_kind[SCH_K_NKINDS];                  /* all scheduling points passed (including those with a single enabled thread) */
    uint64_t outcome; char detail[600];                /* set by the scenario body */
    int done;
} sch_trace;

void sch_begin(sch_trace* shared);          /* calling thread becomes logical thread 0 */
void sch_end(void);                         /* marks the trace complete */
int  sch_spawn(void (*fn)(void*), void* arg);   /* user thread (scenario B); returns its id */
void sch_join(int tid);
const char* sch_kind_name(int k);
#endif
