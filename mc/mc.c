/* mc.c — supervisor, case sharding, shared counters, evidence writer. */
#define _GNU_SOURCE
#include "mc.h"
#include <stdio.h>
#include <stdlib.h>
#include <string.h>
#include <stdarg.h>
#include <errno.h>
#include <signal.h>
#include <time.h>
#include <unistd.h>
#include <fcntl.h>
#include <execinfo.h>
#include <sys/mman.h>
#include <sys/wait.h>
#include <sys/time.h>
#include <sys/resource.h>
#include <malloc.h>

#define MAX_KEYS     256
#define MAX_COUNTERS 160
#define MAX_STAGES   96
#define MAX_SAMPLES  10
#define MAX_OUTCOMES 96
#define DESC_LEN     768
#define DETAIL_LEN   1536
#define KEY_LEN      192
#define SET_BITS     22
#define CRASH_CAP    400

typedef struct {
    char key[KEY_LEN];
    uint64_t count, first_idx;
    int first_tier;
    char desc[DESC_LEN];
    char detail[DETAIL_LEN];
} fail_t;

typedef struct {
    /* live case */
    uint64_t idx_cur; int in_case; int in_prologue; int cur_nontrivial; uint64_t cur_key; int cur_has_key;
    char desc[DESC_LEN]; char feature[128];
    unsigned cur_budget_ms;
    /* resume protocol */
    uint64_t resume; uint64_t retry_idx; int retry_active;
    /* results */
    uint64_t evaluations, nontrivial, distinct, dup_keys, crashes, slow_cases;
    int set_saturated;
    fail_t fails[MAX_KEYS]; int nfails; uint64_t fail_overflow;
    struct { char name[64]; uint64_t v; } counters[MAX_COUNTERS]; int ncounters;
    struct { char name[96]; int started, complete; uint64_t cases; } stages[MAX_STAGES]; int nstages; int cur_stage;
    struct { char name[64]; uint64_t v; } outcomes[MAX_OUTCOMES]; int noutcomes;
    char samples[MAX_SAMPLES][DESC_LEN]; int nsamples; uint64_t sample_next;
    char rule[2048]; char assume[8][512]; int nassume;
    int finished, deadline_hit, crash_cap_hit;
    char harness_error[1024];
    uint64_t set[1u << SET_BITS]; uint64_t set_count;
} shared_t;

static shared_t* S;
static const char* g_harness = "?";
static int g_tier = 0;
static int g_shard = 0, g_nshards = 1;
static int g_only_active = 0; static uint64_t g_only = 0;
static double g_deadline_s = 0; static struct timespec g_t0;
static const char* g_out = NULL; static const char* g_mode = "";
static uint64_t g_seed = 0;
static uint64_t g_idx = 0;          /* next case index (per process, recomputed on re-fork) */
static int g_in_child = 0;
static int g_deadline_latched = 0;

const char* __asan_default_options(void);
const char* __asan_default_options(void) {
    return "abort_on_error=1:detect_leaks=0:allocator_may_return_null=1:"
           "max_allocation_size_mb=48:handle_abort=0:symbolize=1:"
           "detect_stack_use_after_return=0:malloc_context_size=8:print_legend=0:"
           "quarantine_size_mb=4:thread_local_quarantine_size_kb=64:allocator_release_to_os_interval_ms=-1";
}

static double now_s(void) {
    struct timespec t; clock_gettime(CLOCK_MONOTONIC, &t);
    return (double)(t.tv_sec - g_t0.tv_sec) + (t.tv_nsec - g_t0.tv_nsec) / 1e9;
}

int mc_tier(void) { return g_tier; }
bool mc_thorough(void) { return g_tier == 1; }
uint64_t mc_seed(void) { return g_seed; }
const char* mc_mode(void) { return g_mode; }
bool mc_replaying(void) { return g_only_active; }

bool mc_expired(void) {
    if (g_deadline_latched) return true;
    if (g_deadline_s > 0 && now_s() > g_deadline_s) { g_deadline_latched = 1; S->deadline_hit = 1; return true; }
    return false;
}

void mc_harness_error(const char* fmt, ...) {
    char buf[1024]; va_list ap; va_start(ap, fmt); vsnprintf(buf, sizeof buf, fmt, ap); va_end(ap);
    if (S) snprintf(S->harness_error, sizeof S->harness_error, "%s (case %llu: %s)", buf,
                    (unsigned long long)S->idx_cur, S->desc);
    fprintf(stderr, "HARNESS-ERROR %s: %s\n", g_harness, buf);
    _exit(3);
}

static void close_case(void) {
    if (!S->in_case) return;
    S->in_case = 0;
    S->evaluations++;
    if (S->cur_stage >= 0) S->stages[S->cur_stage].cases++;
    if (S->cur_nontrivial) {
        int fresh = 1;
        if (S->cur_has_key) {
            if (S->set_count * 10 > (7ull << SET_BITS)) { S->set_saturated = 1; }
            else {
                uint64_t k = S->cur_key ? S->cur_key : 1;
                uint64_t m = (1u << SET_BITS) - 1, i = (k * 0x9e3779b97f4a7c15ull) >> (64 - SET_BITS);
                for (;;) {
                    if (S->set[i] == 0) { S->set[i] = k; S->set_count++; break; }
                    if (S->set[i] == k) { fresh = 0; S->dup_keys++; break; }
                    i = (i + 1) & m;
                }
            }
        }
        if (fresh) {
            S->nontrivial++;
            if (S->nontrivial >= S->sample_next && S->nsamples < MAX_SAMPLES) {
                snprintf(S->samples[S->nsamples++], DESC_LEN, "%s", S->desc);
                S->sample_next = S->sample_next ? S->sample_next * 4 : 1;
            }
        }
    }
    if (S->cur_budget_ms) { struct itimerval z = {{0,0},{0,0}}; setitimer(ITIMER_PROF, &z, NULL); S->cur_budget_ms = 0; }
}

void mc_stage(const char* name) {
    close_case();
    /* previous stage complete if we got here without deadline */
    if (S->cur_stage >= 0 && !mc_expired()) S->stages[S->cur_stage].complete = 1;
    int i;
    for (i = 0; i < S->nstages; i++) if (!strcmp(S->stages[i].name, name)) break;
    if (i == S->nstages) {
        if (S->nstages >= MAX_STAGES) mc_harness_error("too many stages");
        snprintf(S->stages[i].name, sizeof S->stages[i].name, "%s", name);
        S->nstages++;
    }
    S->stages[i].started = 1;
    S->cur_stage = i;
}

bool mc_next(void) {
    close_case();
    uint64_t idx = g_idx++;
    if (g_only_active) {
        if (idx != g_only) return false;
    } else {
        if ((idx % (uint64_t)g_nshards) != (uint64_t)g_shard) return false;
        if (idx < S->resume) return false;
        if (mc_expired()) return false;
    }
    S->idx_cur = idx; S->in_case = 1; S->cur_nontrivial = 0; S->cur_has_key = 0; S->cur_key = 0;
    S->desc[0] = 0; S->feature[0] = 0;
    return true;
}

void mc_desc(const char* fmt, ...) {
    va_list ap; va_start(ap, fmt); vsnprintf(S->desc, DESC_LEN, fmt, ap); va_end(ap);
    if (g_only_active) printf("CASE idx=%llu %s\n", (unsigned long long)S->idx_cur, S->desc);
}
/* Code that every shard runs before its first case (warm-up of caches, building shared seeds).  A crash of the code under
 * test there is a finding (key <crash key>.in-prologue) that ends the shard, not an error of the harness. */
void mc_prologue(const char* what) { snprintf(S->desc, DESC_LEN, "prologue: %s", what); S->in_prologue = 1; }
void mc_prologue_end(void) { S->in_prologue = 0; }
void mc_feature(const char* fmt, ...) {
    va_list ap; va_start(ap, fmt); vsnprintf(S->feature, sizeof S->feature, fmt, ap); va_end(ap);
}
void mc_nontrivial(void) { S->cur_nontrivial = 1; }
void mc_case_key(uint64_t h) { S->cur_key = h; S->cur_has_key = 1; }

static fail_t* fail_slot(const char* key) {
    for (int i = 0; i < S->nfails; i++) if (!strcmp(S->fails[i].key, key)) return &S->fails[i];
    if (S->nfails >= MAX_KEYS) { S->fail_overflow++; return NULL; }
    fail_t* f = &S->fails[S->nfails++];
    memset(f, 0, sizeof *f);
    snprintf(f->key, KEY_LEN, "%s", key);
    return f;
}
static void record_fail(const char* key, const char* detail) {
    fail_t* f = fail_slot(key);
    if (!f) return;
    if (f->count++ == 0) {
        f->first_idx = S->idx_cur; f->first_tier = g_tier;
        snprintf(f->desc, DESC_LEN, "%s", S->desc);
        snprintf(f->detail, DETAIL_LEN, "%s", detail);
    }
}
void mc_fail(const char* key, const char* fmt, ...) {
    char buf[DETAIL_LEN]; va_list ap; va_start(ap, fmt); vsnprintf(buf, sizeof buf, fmt, ap); va_end(ap);
    record_fail(key, buf);
    if (g_only_active) printf("FAIL key=%s :: %s\n", key, buf);
}
void mc_count(const char* name, uint64_t add) {
    int i;
    for (i = 0; i < S->ncounters; i++) if (!strcmp(S->counters[i].name, name)) { S->counters[i].v += add; return; }
    if (i >= MAX_COUNTERS) mc_harness_error("too many counters");
    snprintf(S->counters[i].name, 64, "%s", name); S->counters[i].v = add; S->ncounters++;
}
void mc_outcome(const char* cls) {
    int i;
    for (i = 0; i < S->noutcomes; i++) if (!strcmp(S->outcomes[i].name, cls)) { S->outcomes[i].v++; return; }
    if (i >= MAX_OUTCOMES) return;
    snprintf(S->outcomes[i].name, 64, "%s", cls); S->outcomes[i].v = 1; S->noutcomes++;
}
void mc_budget_ms(unsigned ms) {
    unsigned mult = (S->retry_active && S->retry_idx == S->idx_cur) ? 20 : 1;
    if (g_only_active) mult = 20;
    S->cur_budget_ms = ms;
    struct itimerval it = {{0,0},{0,0}};
    uint64_t us = (uint64_t)ms * 1000ull * mult;
    it.it_value.tv_sec = us / 1000000; it.it_value.tv_usec = us % 1000000;
    setitimer(ITIMER_PROF, &it, NULL);
}
void mc_log(const char* fmt, ...) {
    if (!g_only_active) return;
    va_list ap; va_start(ap, fmt); vprintf(fmt, ap); va_end(ap); putchar('\n');
}
void mc_rule(const char* t) { snprintf(S->rule, sizeof S->rule, "%s", t); }
void mc_assume(const char* t) {
    for (int i = 0; i < S->nassume; i++) if (!strcmp(S->assume[i], t)) return;
    if (S->nassume < 8) snprintf(S->assume[S->nassume++], 512, "%s", t);
}

uint64_t mc_hash(const void* p, size_t n, uint64_t seed) {
    const uint8_t* b = p; uint64_t h = 0xcbf29ce484222325ull ^ seed;
    for (size_t i = 0; i < n; i++) { h ^= b[i]; h *= 0x100000001b3ull; }
    h ^= h >> 29; h *= 0xbf58476d1ce4e5b9ull; h ^= h >> 32;
    return h;
}
const char* mc_hex(const void* p, size_t n, size_t max) {
    static char bufs[4][600]; static int r = 0;
    char* o = bufs[r++ & 3]; size_t m = n < max ? n : max; if (m > 280) m = 280;
    const uint8_t* b = p; size_t k = 0;
    for (size_t i = 0; i < m; i++) k += (size_t)sprintf(o + k, "%02x", b[i]);
    if (m < n) sprintf(o + k, "..(%zu)", n); else o[k] = 0;
    return o;
}

/* ---- guard pages ------------------------------------------------------- */
#define PG 4096u
uint8_t* mc_guard_alloc(mc_guard_t* g, size_t n, int tail, size_t align_off) {
    size_t body = ((n + align_off + PG - 1) / PG + 1) * PG;
    g->map_len = body + 2 * PG;
    g->base = mmap(NULL, g->map_len, PROT_READ | PROT_WRITE, MAP_PRIVATE | MAP_ANONYMOUS, -1, 0);
    if (g->base == MAP_FAILED) mc_harness_error("mmap failed");
    mprotect(g->base, PG, PROT_NONE);
    mprotect(g->base + PG + body, PG, PROT_NONE);
    memset(g->base + PG, 0xCA, body);
    g->n = n; g->tail = tail;
    if (tail) g->p = g->base + PG + body - n;          /* block ends at the guard page */
    else      g->p = g->base + PG;                       /* block starts after the guard page */
    (void)align_off;
    return g->p;
}
bool mc_guard_check(const mc_guard_t* g) {
    size_t body = g->map_len - 2 * PG;
    const uint8_t* lo = g->base + PG; const uint8_t* hi = lo + body;
    for (const uint8_t* q = lo; q < g->p; q++) if (*q != 0xCA) return false;
    for (const uint8_t* q = g->p + g->n; q < hi; q++) if (*q != 0xCA) return false;
    return true;
}
void mc_guard_free(mc_guard_t* g) { if (g->base) munmap(g->base, g->map_len); g->base = NULL; }

void mc_arena_init(mc_arena_t* a, size_t cap) {
    size_t body = ((cap + 128 + PG - 1) / PG) * PG;
    uint8_t* base = mmap(NULL, body + 2 * PG, PROT_READ | PROT_WRITE, MAP_PRIVATE | MAP_ANONYMOUS, -1, 0);
    if (base == MAP_FAILED) mc_harness_error("mmap failed");
    mprotect(base, PG, PROT_NONE); mprotect(base + PG + body, PG, PROT_NONE);
    a->lo = base + PG; a->hi = base + PG + body; a->cur = NULL; a->cur_n = 0; a->cur_tail = 0;
}
uint8_t* mc_arena_tail(mc_arena_t* a, size_t n) {
    if (n + 64 > (size_t)(a->hi - a->lo)) mc_harness_error("arena too small for %zu", n);
    a->cur = a->hi - n; a->cur_n = n; a->cur_tail = 1;
    memset(a->cur - 64, 0xCA, 64);
    return a->cur;
}
uint8_t* mc_arena_head(mc_arena_t* a, size_t n) {
    if (n + 64 > (size_t)(a->hi - a->lo)) mc_harness_error("arena too small for %zu", n);
    a->cur = a->lo; a->cur_n = n; a->cur_tail = 0;
    memset(a->cur + n, 0xCA, 64);
    return a->cur;
}
bool mc_arena_check(const mc_arena_t* a) {
    const uint8_t* c = a->cur_tail ? a->cur - 64 : a->cur + a->cur_n;
    for (int i = 0; i < 64; i++) if (c[i] != 0xCA) return false;
    return true;
}

void* mc_exact(const void* src, size_t n) {
    void* p = malloc(n ? n : 1);
    if (!p) mc_harness_error("oom");
    if (n && src) memcpy(p, src, n);
    return p;
}

int mc_composition(int n, uint32_t mask, int* parts) {
    int k = 0, run = 0;
    for (int i = 0; i < n; i++) {
        run++;
        if (i == n - 1 || (mask >> i) & 1) { parts[k++] = run; run = 0; }
    }
    return k;
}

void mc_deviations(const int* sizes, int nd, int maxdev, const char* tag, const char* const* names, mc_dev_fn fn, void* ctx) {
    int ch[64];
    if (nd > 64) mc_harness_error("too many dimensions");
    for (int ndev = 0; ndev <= maxdev && ndev <= nd; ndev++) {
        char st[96]; snprintf(st, sizeof st, "%s.deviation-%d", tag, ndev); mc_stage(st);
        int idx[6] = { 0, 1, 2, 3, 4, 5 };
        if (ndev > 6) mc_harness_error("deviation bound above 6");
        for (;;) {
            int val[6] = { 1, 1, 1, 1, 1, 1 };
            for (;;) {
                if (mc_next()) {
                    memset(ch, 0, sizeof ch); char d[300]; int k = 0; d[0] = 0;
                    for (int i = 0; i < ndev; i++) { ch[idx[i]] = val[i]; if (names) k += snprintf(d + k, sizeof d - (size_t)k, "%s%s=%d", i ? "," : "", names[idx[i]], val[i]); else k += snprintf(d + k, sizeof d - (size_t)k, "%sd%d=%d", i ? "," : "", idx[i], val[i]); }
                    mc_desc("%s:dev=%d;{%s}", tag, ndev, d);
                    mc_case_key(mc_hash(ch, sizeof(int) * (size_t)nd, (uint64_t)tag[0] * 131 + (uint64_t)tag[1])); mc_nontrivial();
                    fn(ch, ndev, ctx);
                }
                int i = ndev - 1;
                while (i >= 0 && ++val[i] >= sizes[idx[i]]) { val[i] = 1; i--; }
                if (i < 0) break;
            }
            int i = ndev - 1;
            while (i >= 0 && idx[i] == nd - ndev + i) i--;
            if (i < 0) break;
            idx[i]++; for (int j = i + 1; j < ndev; j++) idx[j] = idx[j - 1] + 1;
        }
    }
}

/* ---- crash classification --------------------------------------------- */
static void fault_handler(int sig) {
    static const char m[] = "MCFAULT backtrace:\n";
    ssize_t w = write(2, m, sizeof m - 1); (void)w;
    void* bt[32]; int n = backtrace(bt, 32);
    backtrace_symbols_fd(bt, n, 2);
    signal(sig, SIG_DFL); raise(sig);
}
static void install_fault_handlers(void) {
#if defined(__SANITIZE_ADDRESS__)
    return;
#else
    static uint8_t altstack[65536];
    stack_t ss = { .ss_sp = altstack, .ss_size = sizeof altstack, .ss_flags = 0 };
    sigaltstack(&ss, NULL);
    struct sigaction sa; memset(&sa, 0, sizeof sa);
    sa.sa_handler = fault_handler; sa.sa_flags = SA_ONSTACK | SA_RESETHAND;
    sigaction(SIGSEGV, &sa, NULL); sigaction(SIGBUS, &sa, NULL);
    sigaction(SIGFPE, &sa, NULL); sigaction(SIGILL, &sa, NULL); sigaction(SIGABRT, &sa, NULL);
#endif
}

static void sanitize(char* s) {
    for (; *s; s++) if (!((*s >= 'a' && *s <= 'z') || (*s >= 'A' && *s <= 'Z') || (*s >= '0' && *s <= '9') || *s == '_' || *s == '-' || *s == '.')) *s = '_';
}

/* Build a finding key and detail from the child's captured stderr. */
static void classify_crash(const char* errpath, int status, char* key, size_t keyn, char* detail, size_t detn) {
    char* txt = calloc(1, 65536);
    FILE* f = fopen(errpath, "r");
    size_t n = 0; if (f) { if (fseek(f, 0, SEEK_END) == 0) { long sz = ftell(f); fseek(f, sz > 65535 ? sz - 65535 : 0, SEEK_SET); } n = fread(txt, 1, 65535, f); fclose(f); } txt[n] = 0;      /* the tail: the report of the crash is the last thing written */
    char kind[96] = "", acc[16] = "", fn[128] = "";
    char* e = strstr(txt, "ERROR: AddressSanitizer: ");
    if (e) {
        e += strlen("ERROR: AddressSanitizer: ");
        size_t k = strcspn(e, " \n"); if (k > 90) k = 90; memcpy(kind, e, k); kind[k] = 0;
        if (strstr(e, "\nREAD of size") || strstr(e, "caused by a READ")) strcpy(acc, "READ");
        else if (strstr(e, "\nWRITE of size") || strstr(e, "caused by a WRITE")) strcpy(acc, "WRITE");
        /* first frame in the library's sources */
        char* p = e;
        char firstfn[128] = "";
        while ((p = strstr(p, "\n    #")) != NULL) {
            p++;
            char* eol = strchr(p, '\n'); if (!eol) eol = p + strlen(p);
            char line[512]; size_t L = (size_t)(eol - p); if (L > 511) L = 511; memcpy(line, p, L); line[L] = 0;
            if (line[5] == '0' && firstfn[0] && !strstr(line, "#0 ")) { /* keep scanning */ }
            if (strncmp(line, "    #0 ", 7) == 0 && firstfn[0]) break;   /* second stack (alloc site) */
            char* in = strstr(line, " in ");
            if (in) {
                in += 4; size_t k2 = strcspn(in, " \n"); if (k2 > 120) k2 = 120;
                char name[128]; memcpy(name, in, k2); name[k2] = 0;
                if (!firstfn[0]) snprintf(firstfn, sizeof firstfn, "%s", name);
                if (strstr(line, "/src/") && !strstr(line, "/verif/")) { snprintf(fn, sizeof fn, "%s", name); break; }
            }
            p = eol;
        }
        if (!fn[0]) snprintf(fn, sizeof fn, "%s", firstfn[0] ? firstfn : "unknown");
        snprintf(key, keyn, "asan.%s%s%s.%s", kind, acc[0] ? "." : "", acc, fn);
        if (S->feature[0] && !strcmp(fn, "unknown")) { strncat(key, ".", keyn - strlen(key) - 1); strncat(key, S->feature, keyn - strlen(key) - 1); }
    } else if ((e = strstr(txt, "runtime error: ")) != NULL) {
        /* UBSan (bounds): "<file>:<line>:<col>: runtime error: index 32 out of bounds for type 'int16_t [32]'" */
        char* ls = e; while (ls > txt && ls[-1] != '\n') ls--;
        char file[96] = "unknown"; { char* sl = ls; for (char* q = ls; q < e && *q != ':'; q++) if (*q == '/') sl = q + 1; size_t k = strcspn(sl, ":\n"); if (k > 90) k = 90; memcpy(file, sl, k); file[k] = 0; }
        snprintf(key, keyn, "ubsan.%s.%s", strstr(e, "out of bounds") ? "index-out-of-bounds" : "runtime-error", file);
        e = ls + strlen("ERROR: AddressSanitizer: ");      /* detail starts at the report line (see below) */
    } else {
        int sig = WIFSIGNALED(status) ? WTERMSIG(status) : 0;
        const char* sn = sig == SIGSEGV ? "SIGSEGV" : sig == SIGBUS ? "SIGBUS" : sig == SIGABRT ? "SIGABRT" :
                         sig == SIGFPE ? "SIGFPE" : sig == SIGILL ? "SIGILL" : sig == SIGKILL ? "SIGKILL" : "EXIT";
        char* b = strstr(txt, "MCFAULT backtrace:");
        if (b) {
            /* frames look like: ./bin(carquet_xxx+0x12)[0x...] */
            char* p = b;
            while ((p = strchr(p, '(')) != NULL) {
                p++;
                if (!strncmp(p, "carquet_", 8) || !strncmp(p, "parquet_", 8) || !strncmp(p, "thrift_", 7)) {
                    size_t k2 = strcspn(p, "+)"); if (k2 > 120) k2 = 120; memcpy(fn, p, k2); fn[k2] = 0; break;
                }
            }
        }
        if (WIFSIGNALED(status)) snprintf(key, keyn, "crash.%s%s%s", sn, fn[0] ? "." : "", fn);
        else snprintf(key, keyn, "crash.exit%d", WEXITSTATUS(status));
        if (S->feature[0]) { strncat(key, ".", keyn - strlen(key) - 1); strncat(key, S->feature, keyn - strlen(key) - 1); }
    }
    sanitize(key);
    /* detail: first ~900 chars of the report */
    size_t m = n < detn - 1 ? n : detn - 1; if (m > 1100) m = 1100;
    const char* src = e ? (e - strlen("ERROR: AddressSanitizer: ")) : txt;
    size_t avail = strlen(src); if (m > avail) m = avail;
    memcpy(detail, src, m); detail[m] = 0;
    free(txt);
}

/* ---- JSON -------------------------------------------------------------- */
static void jstr(FILE* o, const char* s) {
    fputc('"', o);
    for (; *s; s++) {
        unsigned char c = (unsigned char)*s;
        if (c == '"' || c == '\\') { fputc('\\', o); fputc(c, o); }
        else if (c == '\n') fputs("\\n", o);
        else if (c == '\t') fputs("\\t", o);
        else if (c < 0x20 || c >= 0x7f) fprintf(o, "\\u%04x", c);
        else fputc(c, o);
    }
    fputc('"', o);
}

static void write_result(void) {
    FILE* o = g_out ? fopen(g_out, "w") : stdout;
    if (!o) { perror("open --out"); exit(3); }
    fprintf(o, "{\"harness\":"); jstr(o, g_harness);
    fprintf(o, ",\"mode\":"); jstr(o, g_mode);
    fprintf(o, ",\"tier\":\"%s\",\"shard\":%d,\"nshards\":%d,\"seed\":%llu", g_tier ? "thorough" : "quick", g_shard, g_nshards, (unsigned long long)g_seed);
    fprintf(o, ",\"evaluations\":%llu,\"nontrivial\":%llu,\"dup_keys\":%llu,\"set_saturated\":%d,\"crashes\":%llu,\"slow_cases\":%llu",
            (unsigned long long)S->evaluations, (unsigned long long)S->nontrivial, (unsigned long long)S->dup_keys, S->set_saturated,
            (unsigned long long)S->crashes, (unsigned long long)S->slow_cases);
    fprintf(o, ",\"finished\":%d,\"deadline_hit\":%d,\"crash_cap_hit\":%d,\"fail_overflow\":%llu,\"wall_s\":%.3f",
            S->finished, S->deadline_hit, S->crash_cap_hit, (unsigned long long)S->fail_overflow, now_s());
    fprintf(o, ",\"harness_error\":"); jstr(o, S->harness_error);
    fprintf(o, ",\"rule\":"); jstr(o, S->rule);
    fprintf(o, ",\"assumptions\":[");
    for (int i = 0; i < S->nassume; i++) { if (i) fputc(',', o); jstr(o, S->assume[i]); }
    fprintf(o, "],\"counters\":{");
    for (int i = 0; i < S->ncounters; i++) { if (i) fputc(',', o); jstr(o, S->counters[i].name); fprintf(o, ":%llu", (unsigned long long)S->counters[i].v); }
    fprintf(o, "},\"outcomes\":{");
    for (int i = 0; i < S->noutcomes; i++) { if (i) fputc(',', o); jstr(o, S->outcomes[i].name); fprintf(o, ":%llu", (unsigned long long)S->outcomes[i].v); }
    fprintf(o, "},\"stages\":[");
    for (int i = 0; i < S->nstages; i++) {
        if (i) fputc(',', o);
        fprintf(o, "{\"name\":"); jstr(o, S->stages[i].name);
        fprintf(o, ",\"complete\":%d,\"cases\":%llu}", S->stages[i].complete, (unsigned long long)S->stages[i].cases);
    }
    fprintf(o, "],\"samples\":[");
    for (int i = 0; i < S->nsamples; i++) { if (i) fputc(',', o); jstr(o, S->samples[i]); }
    fprintf(o, "],\"failures\":[");
    for (int i = 0; i < S->nfails; i++) {
        fail_t* f = &S->fails[i];
        if (i) fputc(',', o);
        fprintf(o, "{\"key\":"); jstr(o, f->key);
        fprintf(o, ",\"count\":%llu,\"idx\":%llu,\"desc\":", (unsigned long long)f->count, (unsigned long long)f->first_idx); jstr(o, f->desc);
        fprintf(o, ",\"detail\":"); jstr(o, f->detail); fputc('}', o);
    }
    fprintf(o, "]}\n");
    if (o != stdout) fclose(o);
}

/* ---- main -------------------------------------------------------------- */
static void run_child(void (*enumerate)(void)) {
    g_in_child = 1; g_idx = 0; S->cur_stage = -1; S->in_case = 0;
    install_fault_handlers();
    enumerate();
    close_case();
    if (S->cur_stage >= 0 && !mc_expired()) S->stages[S->cur_stage].complete = 1;
    S->finished = 1;
}

int mc_main(int argc, char** argv, const char* harness, void (*enumerate)(void)) {
    g_harness = harness;
    clock_gettime(CLOCK_MONOTONIC, &g_t0);
    const char* e;
    if ((e = getenv("VERIF_TIER")) && !strcmp(e, "thorough")) g_tier = 1;
    if ((e = getenv("VERIF_SEED"))) g_seed = strtoull(e, NULL, 10);
    for (int i = 1; i < argc; i++) {
        if (!strcmp(argv[i], "--tier") && i + 1 < argc) g_tier = !strcmp(argv[++i], "thorough");
        else if (!strcmp(argv[i], "--shard") && i + 1 < argc) { sscanf(argv[++i], "%d/%d", &g_shard, &g_nshards); }
        else if (!strcmp(argv[i], "--only") && i + 1 < argc) { g_only_active = 1; g_only = strtoull(argv[++i], NULL, 10); }
        else if (!strcmp(argv[i], "--deadline") && i + 1 < argc) g_deadline_s = atof(argv[++i]);
        else if (!strcmp(argv[i], "--out") && i + 1 < argc) g_out = argv[++i];
        else if (!strcmp(argv[i], "--mode") && i + 1 < argc) g_mode = argv[++i];
        else if (!strcmp(argv[i], "--seed") && i + 1 < argc) g_seed = strtoull(argv[++i], NULL, 10);
        else { fprintf(stderr, "unknown arg %s\n", argv[i]); return 3; }
    }
    if (g_nshards < 1 || g_shard < 0 || g_shard >= g_nshards) { fprintf(stderr, "bad shard\n"); return 3; }
    S = mmap(NULL, sizeof(shared_t), PROT_READ | PROT_WRITE, MAP_SHARED | MAP_ANONYMOUS, -1, 0);
    if (S == MAP_FAILED) { perror("mmap"); return 3; }
    S->cur_stage = -1; S->sample_next = 1;
    setvbuf(stdout, NULL, _IOLBF, 0);
#if !defined(__SANITIZE_ADDRESS__)
    /* keep big blocks (zlib/zstd states) in the heap: mmap per allocation means page faults per case */
    mallopt(M_MMAP_THRESHOLD, 1 << 30); mallopt(M_TRIM_THRESHOLD, 1 << 30); mallopt(M_TOP_PAD, 64 << 20);
#endif

    if (g_only_active) {
        /* replay exactly one case, in-process, printing observations */
        g_deadline_s = 0;
        run_child(enumerate);
        for (int i = 0; i < S->nfails; i++)
            printf("REPLAY-FAIL key=%s count=%llu\n", S->fails[i].key, (unsigned long long)S->fails[i].count);
        if (S->evaluations == 0) { printf("REPLAY: case index %llu not found in this tier\n", (unsigned long long)g_only); return 3; }
        printf("REPLAY: %s\n", S->nfails ? "violation reproduced" : "no violation");
        return S->nfails ? 1 : 0;
    }

    char errpath[128];
    snprintf(errpath, sizeof errpath, "/dev/shm/mc_err_%d_%d", (int)getpid(), g_shard);
    for (;;) {
        int efd = open(errpath, O_CREAT | O_TRUNC | O_RDWR, 0600);
        if (efd < 0) { snprintf(errpath, sizeof errpath, "/tmp/mc_err_%d_%d", (int)getpid(), g_shard); efd = open(errpath, O_CREAT | O_TRUNC | O_RDWR, 0600); }
        fflush(stdout); fflush(stderr);
        pid_t pid = fork();
        if (pid < 0) { perror("fork"); return 3; }
        if (pid == 0) {
            dup2(efd, 2); close(efd);
            run_child(enumerate);
            fflush(stdout);
            _exit(0);
        }
        close(efd);
        int status = 0;
        /* wall-clock watchdog: deadline + grace */
        double grace = g_deadline_s > 0 ? g_deadline_s + 90.0 : 0;
        for (;;) {
            pid_t r = waitpid(pid, &status, grace > 0 ? WNOHANG : 0);
            if (r == pid) break;
            if (r < 0 && errno != EINTR) { perror("waitpid"); return 3; }
            if (grace > 0) {
                if (now_s() > grace) { kill(pid, SIGKILL); waitpid(pid, &status, 0); S->deadline_hit = 1; status = -1; break; }
                struct timespec ts = {0, 5000000}; nanosleep(&ts, NULL);
            }
        }
        if (status == -1) break;                              /* killed by watchdog: stop, not a verdict */
        if (WIFEXITED(status) && WEXITSTATUS(status) == 0 && S->finished) break;
        if (WIFEXITED(status) && WEXITSTATUS(status) == 3) {    /* harness error */
            FILE* f = fopen(errpath, "r"); if (f) { char b[512]; while (fgets(b, sizeof b, f)) fputs(b, stderr); fclose(f); }
            unlink(errpath); write_result(); return 3;
        }
        /* abnormal termination inside (or outside) a case */
        if (!S->in_case && S->in_prologue) {
            char key[KEY_LEN], det[DETAIL_LEN]; classify_crash(errpath, status, key, sizeof key, det, sizeof det);
            size_t kl = strlen(key); snprintf(key + kl, sizeof key - kl, ".in-prologue"); record_fail(key, det); S->crashes++; S->crash_cap_hit = 1;
            if (S->cur_stage >= 0) S->stages[S->cur_stage].complete = 0;
            break;
        }
        if (!S->in_case) {
            FILE* f = fopen(errpath, "r"); if (f) { char b[512]; while (fgets(b, sizeof b, f)) fputs(b, stderr); fclose(f); }
            snprintf(S->harness_error, sizeof S->harness_error, "child died outside a case (status %d) after case %llu", status, (unsigned long long)S->idx_cur);
            unlink(errpath); write_result(); return 3;
        }
        uint64_t idx = S->idx_cur;
        if (WIFSIGNALED(status) && WTERMSIG(status) == SIGPROF) {
            if (!(S->retry_active && S->retry_idx == idx)) {
                /* re-run this case alone with 20x budget before calling it a hang */
                S->retry_active = 1; S->retry_idx = idx; S->resume = idx; S->in_case = 0;
                continue;
            }
            char key[KEY_LEN]; snprintf(key, sizeof key, "hang.cpu-budget%s%s", S->feature[0] ? "." : "", S->feature); sanitize(key);
            char det[256]; snprintf(det, sizeof det, "CPU budget of %u ms (x20 on retry) exceeded", S->cur_budget_ms);
            record_fail(key, det);
        } else {
            char key[KEY_LEN], det[DETAIL_LEN];
            classify_crash(errpath, status, key, sizeof key, det, sizeof det);
            record_fail(key, det);
        }
        S->crashes++;
        S->in_case = 0; S->evaluations++;
        if (S->cur_stage >= 0) S->stages[S->cur_stage].cases++;
        S->resume = idx + 1;
        if (S->crashes >= CRASH_CAP) { S->crash_cap_hit = 1; break; }
    }
    unlink(errpath);
    write_result();
    return S->harness_error[0] ? 3 : 0;
}
