/* fault.h — allocator fault injection / live-allocation accounting and failing sinks. */
#ifndef MC_FAULT_H
#define MC_FAULT_H
#include <stdio.h>
#include <stddef.h>
#include <sys/types.h>
void mcf_reset(void);              /* clear table, counters, faults, poison; tracking off */
void mcf_on(void);                 /* allocation requests are counted/tracked/faulted from here */
void mcf_off(void);
long mcf_requests(void);           /* allocation requests seen while on (since reset/restart) */
void mcf_restart_count(void);      /* request counter back to 0 (table kept) */
void mcf_fail_at(long k1, long k2);/* the k1-th and k2-th request return NULL (0 = none) */
long mcf_hits(void);
const char* mcf_fail_site(void); /* function containing the first allocation that was made to fail (ASan builds) */
void mcf_trace(int on);         /* print a stack trace at every injected failure (replay aid) */               /* how many injected failures were actually hit */
long mcf_live(void);               /* tracked blocks still allocated */
size_t mcf_live_bytes(void);
void mcf_poison(int byte);         /* fill fresh malloc/realloc-growth bytes with this value (-1 off) */
long mcf_live_since(long seq, char* out, size_t outn);

typedef struct {
    unsigned char* data; size_t len, cap;
    long fail_off;      /* byte offset at which the sink runs out of space (-1 never) */
    long fail_call;     /* 1-based write invocation that fails (0 never) */
    int fail_close;     /* close() of the sink reports failure */
    long calls; int failed; int closed;
    int transient;      /* the failing invocation fails once; later writes succeed again (set after mcf_sink_open) */
    char tiny[16];
} mcf_sink_t;
/* bufmode: 0 default stdio buffering, 1 unbuffered, 2 16-byte full buffering */
FILE* mcf_sink_open(mcf_sink_t* s, long fail_off, long fail_call, int fail_close, int bufmode);
void mcf_sink_free(mcf_sink_t* s);
#endif
