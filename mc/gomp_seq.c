/* gomp_seq.c — single-threaded implementation of the five libgomp entry
 * points carquet uses.  Linked instead of libgomp in every check except C07,
 * so that those checks are single-threaded and deterministic whatever
 * num_threads says, and so that fork() is safe (no libgomp thread pool). */
#include <stdbool.h>
static __thread long g_next, g_end, g_incr, g_chunk;
void GOMP_parallel(void (*fn)(void*), void* data, unsigned num_threads, unsigned flags) {
    (void)num_threads; (void)flags; fn(data);
}
static bool grab(long* istart, long* iend) {
    if (g_incr > 0 ? g_next >= g_end : g_next <= g_end) return false;
    long s = g_next, e = s + g_chunk * g_incr;
    if (g_incr > 0 ? e > g_end : e < g_end) e = g_end;
    g_next = e; *istart = s; *iend = e; return true;
}
bool GOMP_loop_nonmonotonic_dynamic_start(long start, long end, long incr, long chunk, long* istart, long* iend) {
    g_next = start; g_end = end; g_incr = incr; g_chunk = chunk > 0 ? chunk : 1; return grab(istart, iend);
}
bool GOMP_loop_nonmonotonic_dynamic_next(long* istart, long* iend) { return grab(istart, iend); }
bool GOMP_loop_dynamic_start(long start, long end, long incr, long chunk, long* istart, long* iend) {
    return GOMP_loop_nonmonotonic_dynamic_start(start, end, incr, chunk, istart, iend);
}
bool GOMP_loop_dynamic_next(long* istart, long* iend) { return grab(istart, iend); }
void GOMP_loop_end_nowait(void) {}
void GOMP_loop_end(void) {}
void GOMP_barrier(void) {}
void GOMP_critical_start(void) {}
void GOMP_critical_end(void) {}
void GOMP_critical_name_start(void** p) { (void)p; }
void GOMP_critical_name_end(void** p) { (void)p; }
void GOMP_atomic_start(void) {}
void GOMP_atomic_end(void) {}
bool GOMP_single_start(void) { return true; }
int omp_get_max_threads(void) { return 1; }
int omp_get_num_threads(void) { return 1; }
int omp_get_thread_num(void) { return 0; }
int omp_in_parallel(void) { return 0; }
void omp_set_num_threads(int n) { (void)n; }
int omp_get_num_procs(void) { return 1; }
