/* sched.c — see sched.h.  Never compiled with -fsanitize=thread. */
#define _GNU_SOURCE
#include "sched.h"
#include <pthread.h>
#include <stdio.h>
#include <stdlib.h>
#include <string.h>
#include <unistd.h>
#include <malloc.h>
#include <sys/syscall.h>
#include <linux/futex.h>

/* ---- threads and the token ------------------------------------------------------------------ */
enum { ST_UNUSED = 0, ST_RUNNABLE, ST_BLOCKED, ST_IDLE, ST_DONE };
typedef struct { long next, end, incr, chunk; int inited; } ws_t;
typedef struct team { int n, active, master; ws_t ws[8]; } team_t;
typedef struct lockrec { void* key; int held, owner, depth; uint32_t vc[SCH_MAXT]; } lockrec;
typedef struct {
    int state; int wake; pthread_t th; int is_worker, master, slot;
    void (*fn)(void*); void* arg; team_t* team; int team_id; int ws_seq; ws_t* cur_ws; ws_t solo_ws;
    int wait_thread; lockrec* wait_lock; team_t* wait_team;
    uint32_t vc[SCH_MAXT];
    int depth; uint32_t act[512]; uint32_t act_serial;
    int had_step;       /* executed at least one point since it became runnable in this region (interleaving evidence) */
} thr_t;
static thr_t T[SCH_MAXT]; static int NT; static __thread int me = 0;
static sch_trace* TR; static int g_on; static int g_pos;
static int g_workers_of[SCH_MAXT][SCH_MAXT];    /* [master][slot] -> tid (0 = none) */


static void fwait(int* a) { while (__atomic_load_n(a, __ATOMIC_ACQUIRE) == 0) syscall(SYS_futex, a, FUTEX_WAIT, 0, NULL, NULL, 0); __atomic_store_n(a, 0, __ATOMIC_RELAXED); }
static void fwake(int* a) { __atomic_store_n(a, 1, __ATOMIC_RELEASE); syscall(SYS_futex, a, FUTEX_WAKE, 1, NULL, NULL, 0); }
static void die(int status, const char* fmt, const char* a, long b) __attribute__((noreturn));
static void die(int status, const char* fmt, const char* a, long b) { TR->status = status; snprintf(TR->msg, sizeof TR->msg, fmt, a, b); TR->nthreads = NT; TR->done = 1; _exit(0); }
const char* sch_kind_name(int k) { static const char* N[] = { "?", "fork", "grab", "io", "zstd", "atomic", "racy", "lock", "block", "spawn", "exit" }; return k > 0 && k < SCH_K_NKINDS ? N[k] : "?"; }

/* The scheduling point.  The running thread is first in the canonical order if it is still enabled. */
static void sp(int kind) {
    if (!g_on) return;
    int en[SCH_MAXT], n = 0; int cur_en = T[me].state == ST_RUNNABLE;
    if (cur_en) en[n++] = me;
    for (int t = 0; t < NT; t++) if (t != me && T[t].state == ST_RUNNABLE) en[n++] = t;
    TR->points_by_kind[kind]++;
    if (n == 0) die(SCH_DEADLOCK, "no enabled thread at a %s point of thread %ld", sch_kind_name(kind), me);
    int c = 0;
    if (n > 1) {
        if (TR->npoints >= SCH_MAXPT) die(SCH_TOO_MANY_POINTS, "more than %s%ld choice points", "", SCH_MAXPT);
        if (g_pos < TR->nprefix) { c = TR->prefix[g_pos]; if (c >= n) die(SCH_DIVERGED, "prefix choice out of range at %s point #%ld", sch_kind_name(kind), g_pos); }
        sch_point* p = &TR->pt[TR->npoints++]; p->n_enabled = (uint8_t)n; p->cur_enabled = (uint8_t)cur_en; p->chosen = (uint8_t)c; p->kind = (uint8_t)kind; p->tid = (uint8_t)me; g_pos++;
    }
    int next = en[c];
    if (cur_en && next != me) { for (int t = 0; t < NT; t++) if (t != me && T[t].had_step && T[t].state == ST_RUNNABLE) TR->interleaved = 1; if (T[me].had_step) TR->interleaved = 1; }
    T[me].had_step = 1;
    if (next != me) { TR->nswitches++; int self = me; fwake(&T[next].wake); if (T[self].state != ST_DONE) fwait(&T[self].wake); }
}

/* ---- vector clocks and the detector ------------------------------------------------------------ */
static void vc_join(uint32_t* a, const uint32_t* b) { for (int i = 0; i < SCH_MAXT; i++) if (b[i] > a[i]) a[i] = b[i]; }
#define SH_BITS 15
#define SH_N (1u << SH_BITS)
#define DET_T 8      /* the detector tracks reads of the first DET_T logical threads; beyond that it is switched off */
typedef struct { uintptr_t key; uint32_t wclk, wpc; uint8_t wtid, used; uint32_t rclk[DET_T], rpc[DET_T]; } cell_t;
static cell_t* SH; static long g_nshadow;
static uint32_t g_racy[SCH_MAXRACY * 2]; static int g_nracy; static uint32_t g_racy_act[SCH_MAXRACY * 2][2]; static uint8_t g_racy_cnt[SCH_MAXRACY * 2][SCH_MAXT];
#define RACY_ACTIVATIONS 3     /* a promoted instruction is a scheduling point in at most this many function activations per thread */

static int racy_slot(uint32_t pc) { if (!g_nracy) return -1; uint32_t h = (pc * 2654435761u) % (SCH_MAXRACY * 2); for (int i = 0; i < SCH_MAXRACY * 2; i++) { uint32_t s = (h + (uint32_t)i) % (SCH_MAXRACY * 2); if (!g_racy[s]) return -1; if (g_racy[s] == pc) return (int)s; } return -1; }
static void racy_add_table(uint32_t pc) { uint32_t h = (pc * 2654435761u) % (SCH_MAXRACY * 2); for (int i = 0; i < SCH_MAXRACY * 2; i++) { uint32_t s = (h + (uint32_t)i) % (SCH_MAXRACY * 2); if (g_racy[s] == pc) return; if (!g_racy[s]) { g_racy[s] = pc; g_nracy++; return; } } }
static void report_race(uint32_t pa, int wa, uint32_t pb, int wb) {
    for (int i = 0; i < TR->nraces; i++) if (TR->races[i].pc_a == pa && TR->races[i].pc_b == pb) return;
    if (TR->nraces < 64) { sch_race* r = &TR->races[TR->nraces++]; r->pc_a = pa; r->pc_b = pb; r->write_a = (uint8_t)wa; r->write_b = (uint8_t)wb; }
}
static cell_t* cell_find(uintptr_t key, int create) {
    uint32_t h = (uint32_t)(key ^ (key >> SH_BITS) * 0x9E3779B1u) & (SH_N - 1);     /* low address bits index directly: neighbouring cells share pages (page faults are the dominant cost here) */
    for (uint32_t i = 0; i < 64; i++) { cell_t* c = &SH[(h + i) & (SH_N - 1)]; if (c->used && c->key == key) return c; if (!c->used) { if (!create) return NULL; if (g_nshadow > (long)(SH_N * 3 / 4)) { TR->shadow_full = 1; return NULL; } c->used = 1; c->key = key; g_nshadow++; return c; } }
    if (create) TR->shadow_full = 1;
    return NULL;
}
static void det_cell(uintptr_t key, int iswrite, uint32_t pc) {
    cell_t* c = cell_find(key, 1); if (!c) return; thr_t* t = &T[me];
    if (c->wclk && c->wtid != me && c->wclk > t->vc[c->wtid]) { report_race(c->wpc, 1, pc, iswrite); if (getenv("SCH_DEBUG")) fprintf(stderr, "race addr=%lx w by t%d clk %u pc %x ; now t%d %s pc %x knows clk %u of t%d (NT=%d)\n", (unsigned long)key << 3, c->wtid, c->wclk, c->wpc, me, iswrite ? "w" : "r", pc, t->vc[c->wtid], c->wtid, NT); }
    if (iswrite) { for (int u = 0; u < DET_T; u++) if (u != me && c->rclk[u] > t->vc[u]) report_race(c->rpc[u], 0, pc, 1);
        c->wclk = t->vc[me]; c->wtid = (uint8_t)me; c->wpc = pc; memset(c->rclk, 0, sizeof c->rclk); }
    else { c->rclk[me] = t->vc[me]; c->rpc[me] = pc; }
}
static inline void access_hook(const void* addr, size_t size, int iswrite, uint32_t pc) {
    if (!g_on) return;
    if (g_nracy) { int s = racy_slot(pc); if (s >= 0) { thr_t* t = &T[me]; uint32_t act = t->act[t->depth & 511]; if ((g_racy_act[s][0] != (uint32_t)me + 1 || g_racy_act[s][1] != act) && g_racy_cnt[s][me] < RACY_ACTIVATIONS) { g_racy_act[s][0] = (uint32_t)me + 1; g_racy_act[s][1] = act; g_racy_cnt[s][me]++; sp(SCH_K_RACY); } } }
    if (!TR->detect || NT < 2 || NT > DET_T) return;
    TR->naccesses++;
    uintptr_t a = (uintptr_t)addr >> 3, b = ((uintptr_t)addr + (size ? size - 1 : 0)) >> 3;
    for (uintptr_t k = a; k <= b; k++) det_cell(k, iswrite, pc);
}
static void shadow_clear(const void* p, size_t n) {
    if (!g_on || !TR->detect || !g_nshadow || !n) return;
    uintptr_t a = (uintptr_t)p >> 3, b = ((uintptr_t)p + n - 1) >> 3;
    for (uintptr_t k = a; k <= b; k++) { cell_t* c = cell_find(k, 0); if (c) { c->wclk = 0; memset(c->rclk, 0, sizeof c->rclk); } }
}
#define PC() ((uint32_t)(uintptr_t)__builtin_return_address(0))
void __tsan_init(void) {}
void __tsan_func_entry(void* pc) { (void)pc; if (!g_on) return; thr_t* t = &T[me]; t->depth++; t->act[t->depth & 511] = ++t->act_serial; }
void __tsan_func_exit(void) { if (!g_on) return; thr_t* t = &T[me]; if (t->depth > 0) t->depth--; }
void __tsan_read1(void* a) { access_hook(a, 1, 0, PC()); }   void __tsan_write1(void* a) { access_hook(a, 1, 1, PC()); }
void __tsan_read2(void* a) { access_hook(a, 2, 0, PC()); }   void __tsan_write2(void* a) { access_hook(a, 2, 1, PC()); }
void __tsan_read4(void* a) { access_hook(a, 4, 0, PC()); }   void __tsan_write4(void* a) { access_hook(a, 4, 1, PC()); }
void __tsan_read8(void* a) { access_hook(a, 8, 0, PC()); }   void __tsan_write8(void* a) { access_hook(a, 8, 1, PC()); }
void __tsan_read16(void* a) { access_hook(a, 16, 0, PC()); } void __tsan_write16(void* a) { access_hook(a, 16, 1, PC()); }
void __tsan_unaligned_read2(void* a) { access_hook(a, 2, 0, PC()); }  void __tsan_unaligned_write2(void* a) { access_hook(a, 2, 1, PC()); }
void __tsan_unaligned_read4(void* a) { access_hook(a, 4, 0, PC()); }  void __tsan_unaligned_write4(void* a) { access_hook(a, 4, 1, PC()); }
void __tsan_unaligned_read8(void* a) { access_hook(a, 8, 0, PC()); }  void __tsan_unaligned_write8(void* a) { access_hook(a, 8, 1, PC()); }
void __tsan_unaligned_read16(void* a) { access_hook(a, 16, 0, PC()); } void __tsan_unaligned_write16(void* a) { access_hook(a, 16, 1, PC()); }
void __tsan_volatile_read1(void* a) { access_hook(a, 1, 0, PC()); } void __tsan_volatile_write1(void* a) { access_hook(a, 1, 1, PC()); }
void __tsan_volatile_read2(void* a) { access_hook(a, 2, 0, PC()); } void __tsan_volatile_write2(void* a) { access_hook(a, 2, 1, PC()); }
void __tsan_volatile_read4(void* a) { access_hook(a, 4, 0, PC()); } void __tsan_volatile_write4(void* a) { access_hook(a, 4, 1, PC()); }
void __tsan_volatile_read8(void* a) { access_hook(a, 8, 0, PC()); } void __tsan_volatile_write8(void* a) { access_hook(a, 8, 1, PC()); }
void __tsan_read_range(void* a, long n) { if (n > 0) access_hook(a, (size_t)n, 0, PC()); }
void __tsan_write_range(void* a, long n) { if (n > 0) access_hook(a, (size_t)n, 1, PC()); }
void __tsan_vptr_update(void** a, void* b) { (void)a; (void)b; } void __tsan_vptr_read(void** a) { (void)a; }

/* atomics: sequentially consistent steps that synchronise through a per-address clock */
typedef struct { void* addr; uint32_t vc[SCH_MAXT]; } syncvar; static syncvar SV[64]; static int NSV;
static syncvar* sv_get(void* a) { for (int i = 0; i < NSV; i++) if (SV[i].addr == a) return &SV[i]; if (NSV < 64) { SV[NSV].addr = a; return &SV[NSV++]; } return &SV[63]; }
static void at_release(void* a) { if (!g_on) return; syncvar* s = sv_get(a); vc_join(s->vc, T[me].vc); T[me].vc[me]++; }
static void at_acquire(void* a) { if (!g_on) return; syncvar* s = sv_get(a); vc_join(T[me].vc, s->vc); }
#define ATOMICS(N, TY) \
    void __tsan_atomic##N##_store(volatile TY* a, TY v, int mo) { (void)mo; sp(SCH_K_ATOMIC); at_release((void*)a); __atomic_store_n(a, v, __ATOMIC_SEQ_CST); } \
    TY __tsan_atomic##N##_load(const volatile TY* a, int mo) { (void)mo; sp(SCH_K_ATOMIC); TY v = __atomic_load_n(a, __ATOMIC_SEQ_CST); at_acquire((void*)a); return v; } \
    TY __tsan_atomic##N##_exchange(volatile TY* a, TY v, int mo) { (void)mo; sp(SCH_K_ATOMIC); at_acquire((void*)a); at_release((void*)a); return __atomic_exchange_n(a, v, __ATOMIC_SEQ_CST); } \
    TY __tsan_atomic##N##_fetch_add(volatile TY* a, TY v, int mo) { (void)mo; sp(SCH_K_ATOMIC); at_acquire((void*)a); at_release((void*)a); return __atomic_fetch_add(a, v, __ATOMIC_SEQ_CST); } \
    TY __tsan_atomic##N##_fetch_sub(volatile TY* a, TY v, int mo) { (void)mo; sp(SCH_K_ATOMIC); at_acquire((void*)a); at_release((void*)a); return __atomic_fetch_sub(a, v, __ATOMIC_SEQ_CST); } \
    TY __tsan_atomic##N##_fetch_or(volatile TY* a, TY v, int mo) { (void)mo; sp(SCH_K_ATOMIC); at_acquire((void*)a); at_release((void*)a); return __atomic_fetch_or(a, v, __ATOMIC_SEQ_CST); } \
    TY __tsan_atomic##N##_fetch_and(volatile TY* a, TY v, int mo) { (void)mo; sp(SCH_K_ATOMIC); at_acquire((void*)a); at_release((void*)a); return __atomic_fetch_and(a, v, __ATOMIC_SEQ_CST); } \
    int __tsan_atomic##N##_compare_exchange_strong(volatile TY* a, TY* e, TY v, int mo, int fmo) { (void)mo; (void)fmo; sp(SCH_K_ATOMIC); at_acquire((void*)a); at_release((void*)a); return __atomic_compare_exchange_n(a, e, v, 0, __ATOMIC_SEQ_CST, __ATOMIC_SEQ_CST); } \
    int __tsan_atomic##N##_compare_exchange_weak(volatile TY* a, TY* e, TY v, int mo, int fmo) { (void)mo; (void)fmo; sp(SCH_K_ATOMIC); at_acquire((void*)a); at_release((void*)a); return __atomic_compare_exchange_n(a, e, v, 0, __ATOMIC_SEQ_CST, __ATOMIC_SEQ_CST); }
ATOMICS(8, uint8_t) ATOMICS(16, uint16_t) ATOMICS(32, uint32_t) ATOMICS(64, uint64_t)
void __tsan_atomic_thread_fence(int mo) { (void)mo; sp(SCH_K_ATOMIC); }
void __tsan_atomic_signal_fence(int mo) { (void)mo; }

/* ---- run-time entry points ----------------------------------------------------------------------- */
static void* thread_main(void* arg);
static int new_thread(int is_worker, int master, int slot) {
    if (NT >= SCH_MAXT) die(SCH_TOO_MANY_POINTS, "more than %s%ld logical threads", "", SCH_MAXT);
    int t = NT++; memset(&T[t], 0, sizeof T[t]); T[t].is_worker = is_worker; T[t].master = master; T[t].slot = slot; T[t].state = ST_IDLE; T[t].vc[t] = 1;
    /* every logical thread gets its own stack for the whole execution: a stack recycled by libpthread from a finished thread
     * would make the detector compare two unrelated lives of the same addresses */
    static char STACKS[SCH_MAXT][256 << 10] __attribute__((aligned(4096)));
    pthread_attr_t at; pthread_attr_init(&at); pthread_attr_setstack(&at, STACKS[t], sizeof STACKS[t]); pthread_attr_setdetachstate(&at, PTHREAD_CREATE_DETACHED);
    if (pthread_create(&T[t].th, &at, thread_main, (void*)(intptr_t)t)) die(SCH_CHILD_DIED, "pthread_create failed%s%ld", "", 0);
    return t;
}
static void thread_exit_step(void) {            /* the running thread stops being enabled for good (user thread) or until the next region (worker) */
    sp(SCH_K_EXIT);
}
static void* thread_main(void* arg) {
    me = (int)(intptr_t)arg;
    fwait(&T[me].wake);                           /* scheduled for the first time */
    for (;;) {                                    /* later activations resume from the wait inside the exit step */
        thr_t* t = &T[me];
        t->fn(t->arg);
        t->vc[me]++;
        if (t->is_worker) { team_t* tm = t->team; tm->active--; if (tm->active == 0 && T[tm->master].state == ST_BLOCKED && T[tm->master].wait_team == tm) T[tm->master].state = ST_RUNNABLE; t->state = ST_IDLE; t->had_step = 0; thread_exit_step(); }
        else { t->state = ST_DONE; for (int u = 0; u < NT; u++) if (T[u].state == ST_BLOCKED && T[u].wait_thread == me) T[u].state = ST_RUNNABLE; thread_exit_step(); return NULL; }
    }
}
void sch_begin(sch_trace* shared) {
    TR = shared; NT = 1; me = 0; memset(&T[0], 0, sizeof T[0]); T[0].state = ST_RUNNABLE; T[0].vc[0] = 1; g_pos = 0;
    TR->status = 0; TR->npoints = 0; TR->nraces = 0; TR->done = 0; TR->nswitches = 0; TR->interleaved = 0; TR->naccesses = 0; TR->shadow_full = 0; memset(TR->points_by_kind, 0, sizeof TR->points_by_kind);
    for (int i = 0; i < TR->nracy_in; i++) racy_add_table(TR->racy_in[i]);
    if (TR->detect) { SH = calloc(SH_N, sizeof(cell_t)); if (!SH) TR->detect = 0; }
    g_on = 1;
}
void sch_end(void) { g_on = 0; TR->nthreads = NT; TR->nshadow = g_nshadow; TR->done = 1; }
int sch_spawn(void (*fn)(void*), void* arg) {
    int t = new_thread(0, me, 0); T[t].fn = fn; T[t].arg = arg; vc_join(T[t].vc, T[me].vc); T[me].vc[me]++; T[t].state = ST_RUNNABLE; sp(SCH_K_SPAWN); return t;
}
void sch_join(int t) {
    while (T[t].state != ST_DONE) { T[me].state = ST_BLOCKED; T[me].wait_thread = t; sp(SCH_K_BLOCK); }
    T[me].wait_thread = -1; vc_join(T[me].vc, T[t].vc);
}

/* OpenMP */

int omp_get_max_threads(void) { return TR && TR->omp_max_threads > 0 ? TR->omp_max_threads : 1; }
int omp_get_num_threads(void) { return T[me].team ? T[me].team->n : 1; }
int omp_get_thread_num(void) { return T[me].team ? T[me].team_id : 0; }
int omp_in_parallel(void) { return T[me].team && T[me].team->n > 1; }
void omp_set_num_threads(int n) { (void)n; }
int omp_get_num_procs(void) { return 16; }
void GOMP_parallel(void (*fn)(void*), void* data, unsigned num_threads, unsigned flags) {
    (void)flags;
    if (!g_on) { fn(data); return; }
    int n = num_threads ? (int)num_threads : omp_get_max_threads();
    if (T[me].team && T[me].team->n > 1) n = 1;                    /* nested regions are serialised, as in libgomp's default */
    if (n > SCH_MAXT - 4) n = SCH_MAXT - 4;
    team_t team; memset(&team, 0, sizeof team); team.n = n; team.master = me; team.active = n - 1;
    team_t* saved = T[me].team; int saved_id = T[me].team_id, saved_seq = T[me].ws_seq;
    for (int i = 1; i < n; i++) {
        int w = g_workers_of[me][i]; if (!w) { w = new_thread(1, me, i); g_workers_of[me][i] = w; }
        T[w].fn = fn; T[w].arg = data; T[w].team = &team; T[w].team_id = i; T[w].ws_seq = 0; T[w].had_step = 0;
        vc_join(T[w].vc, T[me].vc); T[w].state = ST_RUNNABLE;
    }
    T[me].vc[me]++; T[me].team = &team; T[me].team_id = 0; T[me].ws_seq = 0; T[me].had_step = 0;
    if (n > 1) sp(SCH_K_FORK);
    fn(data);
    while (team.active > 0) { T[me].state = ST_BLOCKED; T[me].wait_team = &team; sp(SCH_K_BLOCK); }
    T[me].wait_team = NULL;
    for (int i = 1; i < n; i++) vc_join(T[me].vc, T[g_workers_of[me][i]].vc);
    T[me].team = saved; T[me].team_id = saved_id; T[me].ws_seq = saved_seq;
}
static bool grab(ws_t* w, long* istart, long* iend) {
    if (w->incr > 0 ? w->next >= w->end : w->next <= w->end) return false;
    long s = w->next, e = s + w->chunk * w->incr; if (w->incr > 0 ? e > w->end : e < w->end) e = w->end;
    w->next = e; *istart = s; *iend = e; return true;
}
bool GOMP_loop_nonmonotonic_dynamic_start(long start, long end, long incr, long chunk, long* istart, long* iend) {
    thr_t* t = &T[me]; ws_t* w = t->team ? &t->team->ws[t->ws_seq & 7] : &t->solo_ws;
    if (g_on && t->team && t->team->n > 1) sp(SCH_K_GRAB);
    if (!t->team) w->inited = 0;
    if (!w->inited) { w->next = start; w->end = end; w->incr = incr; w->chunk = chunk > 0 ? chunk : 1; w->inited = 1; }
    t->cur_ws = w; return grab(w, istart, iend);
}
bool GOMP_loop_nonmonotonic_dynamic_next(long* istart, long* iend) { thr_t* t = &T[me]; if (g_on && t->team && t->team->n > 1) sp(SCH_K_GRAB); return grab(t->cur_ws, istart, iend); }
bool GOMP_loop_dynamic_start(long a, long b, long c, long d, long* e, long* f) { return GOMP_loop_nonmonotonic_dynamic_start(a, b, c, d, e, f); }
bool GOMP_loop_dynamic_next(long* e, long* f) { return GOMP_loop_nonmonotonic_dynamic_next(e, f); }
void GOMP_loop_end_nowait(void) { T[me].ws_seq++; }
static void team_barrier(void) { /* only single-team barriers at loop ends would need this; carquet's loops are nowait-combined */ }
void GOMP_loop_end(void) { T[me].ws_seq++; team_barrier(); }
void GOMP_barrier(void) { team_barrier(); }
static lockrec LK[16]; static int NLK;
static lockrec* lk_get(void* key) { for (int i = 0; i < NLK; i++) if (LK[i].key == key) return &LK[i]; if (NLK < 16) { LK[NLK].key = key; return &LK[NLK++]; } return &LK[15]; }
static void lock_acquire(void* key) {
    if (!g_on) return; lockrec* l = lk_get(key); sp(SCH_K_LOCK);
    while (l->held) { T[me].state = ST_BLOCKED; T[me].wait_lock = l; sp(SCH_K_BLOCK); }
    T[me].wait_lock = NULL; l->held = 1; l->owner = me; vc_join(T[me].vc, l->vc);
}
static void lock_release(void* key) {
    if (!g_on) return; lockrec* l = lk_get(key); vc_join(l->vc, T[me].vc); T[me].vc[me]++; l->held = 0;
    for (int u = 0; u < NT; u++) if (T[u].state == ST_BLOCKED && T[u].wait_lock == l) T[u].state = ST_RUNNABLE;
}
/* the lock every stdio call takes on its stream (recursive, as flockfile is): the calls of the library on a shared FILE* are ordered by it, and a thread that holds it
 * through flockfile() keeps every other thread's fseek / fread on that stream waiting */
static void stream_lock(FILE* f, int with_sp) {
    if (!g_on) return; lockrec* l = lk_get(f); if (l->held && l->owner == me) { l->depth++; return; } if (with_sp) sp(SCH_K_LOCK);
    while (l->held) { T[me].state = ST_BLOCKED; T[me].wait_lock = l; sp(SCH_K_BLOCK); }
    T[me].wait_lock = NULL; l->held = 1; l->owner = me; l->depth = 1; vc_join(T[me].vc, l->vc);
}
static void stream_unlock(FILE* f) { if (!g_on) return; lockrec* l = lk_get(f); if (!l->held || l->owner != me) return; if (--l->depth > 0) return; lock_release(f); }
static int g_unnamed_lock, g_atomic_lock;
void GOMP_critical_start(void) { lock_acquire(&g_unnamed_lock); }
void GOMP_critical_end(void) { lock_release(&g_unnamed_lock); }
void GOMP_critical_name_start(void** p) { lock_acquire(p); }
void GOMP_critical_name_end(void** p) { lock_release(p); }
void GOMP_atomic_start(void) { lock_acquire(&g_atomic_lock); }
void GOMP_atomic_end(void) { lock_release(&g_atomic_lock); }
bool GOMP_single_start(void) { return T[me].team_id == 0; }
/* omp locks, in case a repair uses them */
void omp_init_lock(void** l) { *l = NULL; } void omp_destroy_lock(void** l) { (void)l; }
void omp_set_lock(void** l) { lock_acquire(l); } void omp_unset_lock(void** l) { lock_release(l); }

/* ---- interposed library references (objcopy --redefine-syms=mc/sched.syms on the library objects) ------- */
int mcs_fseek(FILE* f, long off, int wh) { if (g_on) { sp(SCH_K_IO); stream_lock(f, 0); access_hook(f, 8, 1, PC()); } int r = fseek(f, off, wh); stream_unlock(f); return r; }
/* stream state queries and the other positioning calls: steps on the shared FILE like fseek / fread */
int mcs_feof(FILE* f) { if (g_on) { sp(SCH_K_IO); stream_lock(f, 0); access_hook(f, 8, 0, PC()); } int r = feof(f); stream_unlock(f); return r; }
int mcs_ferror(FILE* f) { if (g_on) { sp(SCH_K_IO); access_hook(f, 8, 0, PC()); } return ferror(f); }
void mcs_clearerr(FILE* f) { if (g_on) { sp(SCH_K_IO); access_hook(f, 8, 1, PC()); } clearerr(f); }
void mcs_rewind(FILE* f) { if (g_on) { sp(SCH_K_IO); access_hook(f, 8, 1, PC()); } rewind(f); }
int mcs_fseeko(FILE* f, off_t off, int wh) { if (g_on) { sp(SCH_K_IO); stream_lock(f, 0); access_hook(f, 8, 1, PC()); } int r = fseeko(f, off, wh); stream_unlock(f); return r; }
off_t mcs_ftello(FILE* f) { if (g_on) { sp(SCH_K_IO); access_hook(f, 8, 0, PC()); } return ftello(f); }
int mcs_fgetc(FILE* f) { if (g_on) { sp(SCH_K_IO); access_hook(f, 8, 1, PC()); } return fgetc(f); }
int mcs_fgetpos(FILE* f, fpos_t* p) { if (g_on) { sp(SCH_K_IO); access_hook(f, 8, 0, PC()); } return fgetpos(f, p); }
int mcs_fsetpos(FILE* f, const fpos_t* p) { if (g_on) { sp(SCH_K_IO); access_hook(f, 8, 1, PC()); } return fsetpos(f, p); }
long mcs_ftell(FILE* f) { if (g_on) { sp(SCH_K_IO); stream_lock(f, 0); access_hook(f, 8, 0, PC()); } long r = ftell(f); stream_unlock(f); return r; }
size_t mcs_fread(void* p, size_t sz, size_t n, FILE* f) {
    if (g_on) { sp(SCH_K_IO); stream_lock(f, 0); access_hook(f, 8, 1, PC()); }
    size_t r = fread(p, sz, n, f); if (g_on && r) access_hook(p, r * sz, 1, PC()); stream_unlock(f); return r;
}
/* pthread mutexes / flockfile, in case a repair uses them */
int mcs_pthread_mutex_lock(pthread_mutex_t* m) { if (!g_on) return pthread_mutex_lock(m); lock_acquire(m); return 0; }
int mcs_pthread_mutex_unlock(pthread_mutex_t* m) { if (!g_on) return pthread_mutex_unlock(m); lock_release(m); return 0; }
void mcs_flockfile(FILE* f) { if (!g_on) { flockfile(f); return; } stream_lock(f, 1); }
void mcs_funlockfile(FILE* f) { if (!g_on) { funlockfile(f); return; } stream_unlock(f); }
/* A ZSTD_DCtx must not be used by two threads at once.  The serialised scheduler executes each libzstd call as one step,
 * so overlapping use is detected with a begin / end pair around the real call. */
/* zlib inflate: a step on the caller's z_stream (its own accesses to the stream state are not instrumented: report them as one write of the struct) */
struct z_stream_s; int inflate(struct z_stream_s*, int); int inflateReset(struct z_stream_s*); int inflateEnd(struct z_stream_s*); int inflateInit2_(struct z_stream_s*, int, const char*, int);
int mcs_inflate(struct z_stream_s* z, int f) { if (g_on) { sp(SCH_K_ZSTD); access_hook(z, 112, 1, PC()); } return inflate(z, f); }
int mcs_inflateReset(struct z_stream_s* z) { if (g_on) { sp(SCH_K_ZSTD); access_hook(z, 112, 1, PC()); } return inflateReset(z); }
int mcs_inflateEnd(struct z_stream_s* z) { if (g_on) { sp(SCH_K_ZSTD); access_hook(z, 112, 1, PC()); } return inflateEnd(z); }
int mcs_inflateInit2_(struct z_stream_s* z, int wb, const char* ver, int sz) { if (g_on) { sp(SCH_K_ZSTD); access_hook(z, 112, 1, PC()); } return inflateInit2_(z, wb, ver, sz); }
typedef struct ZSTD_DCtx_s ZSTD_DCtx; size_t ZSTD_decompressDCtx(ZSTD_DCtx*, void*, size_t, const void*, size_t);
static void* g_busy_ctx[SCH_MAXT];
size_t mcs_ZSTD_decompressDCtx(ZSTD_DCtx* c, void* dst, size_t cap, const void* src, size_t n) {
    if (g_on) {
        for (int u = 0; u < NT; u++) if (u != me && g_busy_ctx[u] == (void*)c && c) die(SCH_MONITOR, "one ZSTD_DCtx used by two threads at once (thread %ld%s)", "", me);
        g_busy_ctx[me] = c; sp(SCH_K_ZSTD);
        for (int u = 0; u < NT; u++) if (u != me && g_busy_ctx[u] == (void*)c && c) die(SCH_MONITOR, "one ZSTD_DCtx used by two threads at once (thread %ld%s)", "", me);
        access_hook(src, n, 0, PC());
    }
    size_t r = ZSTD_decompressDCtx(c, dst, cap, src, n);
    if (g_on) { g_busy_ctx[me] = NULL; if (r <= cap) access_hook(dst, r, 1, PC()); }
    return r;
}
int mcs_fclose(FILE* f) { shadow_clear(f, 8); return fclose(f); }      /* the FILE object is recycled by libc */
void* mcs_malloc(size_t n) { return malloc(n); }
void* mcs_calloc(size_t a, size_t b) { return calloc(a, b); }
void mcs_free(void* p) { if (p) shadow_clear(p, malloc_usable_size(p)); free(p); }
void* mcs_realloc(void* p, size_t n) { if (p) shadow_clear(p, malloc_usable_size(p)); return realloc(p, n); }
char* mcs_strdup(const char* s) { return strdup(s); }
void* mcs_memcpy(void* d, const void* s, size_t n) { if (g_on && n) { access_hook(s, n, 0, PC()); access_hook(d, n, 1, PC()); } return memcpy(d, s, n); }
void* mcs_memmove(void* d, const void* s, size_t n) { if (g_on && n) { access_hook(s, n, 0, PC()); access_hook(d, n, 1, PC()); } return memmove(d, s, n); }
void* mcs_memset(void* d, int c, size_t n) { if (g_on && n) access_hook(d, n, 1, PC()); return memset(d, c, n); }
int mcs_memcmp(const void* a, const void* b, size_t n) { if (g_on && n) { access_hook(a, n, 0, PC()); access_hook(b, n, 0, PC()); } return memcmp(a, b, n); }
