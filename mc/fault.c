/* fault.c — E4 fault enumerators: allocator interposition and failing stdio
 * sinks (fopencookie).  Only linked into harnesses that ask.
 *
 * Interposition is by symbol renaming, not --wrap: the Makefile makes copies of
 * the library's objects (and of libz.a / libzstd.a) in which malloc, calloc,
 * realloc, free, strdup and strndup are renamed to mcf_* (objcopy
 * --redefine-syms mc/wrap.syms).  Only allocations made BY THE LIBRARY (and by
 * zlib/zstd on its behalf) are counted, tracked and faulted; the harness and the
 * reference stack keep the real allocator. */
#define _GNU_SOURCE
#include "fault.h"
#include <stdio.h>
#include <stdlib.h>
#include <string.h>
#include <errno.h>
#include <stdint.h>

#define __real_malloc malloc
#define __real_calloc calloc
#define __real_realloc realloc
#define __real_free free
void* mcf_malloc(size_t); void* mcf_calloc(size_t, size_t); void* mcf_realloc(void*, size_t); void mcf_free(void*); char* mcf_strdup(const char*); char* mcf_strndup(const char*, size_t);

#define TB 17
typedef struct { void* p; size_t n; long seq; } ent_t;
static ent_t g_tab[1u << TB];
static long g_live, g_seq, g_fail1, g_fail2, g_hits;
static size_t g_live_bytes;
static int g_on, g_poison = -1;
static long g_last_fail_seq;

static size_t slot(void* p) { return (size_t)(((uintptr_t)p >> 4) * 0x9e3779b97f4a7c15ull >> (64 - TB)); }
static void track(void* p, size_t n) {
    if (!p) return;
    size_t i = slot(p), m = (1u << TB) - 1;
    for (size_t k = 0; k <= m; k++, i = (i + 1) & m)
        if (g_tab[i].p == NULL || g_tab[i].p == (void*)1) { g_tab[i].p = p; g_tab[i].n = n; g_tab[i].seq = g_seq; g_live++; g_live_bytes += n; return; }
}
static ent_t* find(void* p) {
    size_t i = slot(p), m = (1u << TB) - 1;
    for (size_t k = 0; k <= m; k++, i = (i + 1) & m) {
        if (g_tab[i].p == p) return &g_tab[i];
        if (g_tab[i].p == NULL) return NULL;
    }
    return NULL;
}
static size_t untrack(void* p) {
    ent_t* e = find(p); if (!e) return (size_t)-1;
    size_t n = e->n; e->p = (void*)1; g_live--; g_live_bytes -= n; return n;
}
#if defined(__SANITIZE_ADDRESS__)
void __sanitizer_print_stack_trace(void);
#endif
#if defined(__SANITIZE_ADDRESS__)
void __sanitizer_symbolize_pc(void* pc, const char* fmt, char* out, size_t n);
#endif
static int g_trace; static char g_site[96];
void mcf_trace(int on) { g_trace = on; }
const char* mcf_fail_site(void) { return g_site; }
static void* g_ra;
static int should_fail(void) {
    g_seq++;
    if (g_seq == g_fail1 || g_seq == g_fail2) {
        g_hits++; g_last_fail_seq = g_seq; errno = ENOMEM;
#if defined(__SANITIZE_ADDRESS__)
        if (!g_site[0] && g_ra) { __sanitizer_symbolize_pc(g_ra, "%f", g_site, sizeof g_site); for (char* q = g_site; *q; q++) if (!((*q >= 'a' && *q <= 'z') || (*q >= 'A' && *q <= 'Z') || (*q >= '0' && *q <= '9') || *q == '_')) *q = '_'; }
#endif
        if (g_trace) { fprintf(stderr, "MCF: allocation request #%ld fails here:\n", g_seq);
#if defined(__SANITIZE_ADDRESS__)
            __sanitizer_print_stack_trace();
#endif
        }
        return 1;
    }
    return 0;
}

static void* do_malloc(size_t n) {
    if (!g_on) return __real_malloc(n);
    if (should_fail()) return NULL;
    void* p = __real_malloc(n);
    if (p && g_poison >= 0) memset(p, g_poison, n);
    track(p, n); return p;
}
void* mcf_malloc(size_t n) { g_ra = __builtin_return_address(0); return do_malloc(n); }
void* mcf_calloc(size_t a, size_t b) {
    g_ra = __builtin_return_address(0);
    if (!g_on) return __real_calloc(a, b);
    if (should_fail()) return NULL;
    void* p = __real_calloc(a, b); track(p, a * b); return p;
}
void* mcf_realloc(void* q, size_t n) {
    g_ra = __builtin_return_address(0);
    if (!g_on) { if (q) untrack(q); return __real_realloc(q, n); }
    if (should_fail()) return NULL;
    size_t old = q ? untrack(q) : 0;
    void* p = __real_realloc(q, n);
    if (!p && n) { if (q && old != (size_t)-1) track(q, old); return NULL; }
    if (p && g_poison >= 0 && old != (size_t)-1 && n > old) memset((char*)p + old, g_poison, n - old);
    if (n) track(p, n);
    return p;
}
void mcf_free(void* p) {
    if (p) untrack(p);
    __real_free(p);
}
char* mcf_strdup(const char* s) {
    g_ra = __builtin_return_address(0);
    size_t n = strlen(s) + 1; char* p = do_malloc(n); if (p) memcpy(p, s, n); return p;
}
char* mcf_strndup(const char* s, size_t m) {
    g_ra = __builtin_return_address(0);
    size_t n = strnlen(s, m); char* p = do_malloc(n + 1); if (p) { memcpy(p, s, n); p[n] = 0; } return p;
}

void mcf_reset(void) { g_site[0] = 0; memset(g_tab, 0, sizeof g_tab); g_live = 0; g_live_bytes = 0; g_seq = 0; g_fail1 = g_fail2 = 0; g_hits = 0; g_on = 0; g_poison = -1; }
void mcf_on(void) { g_on = 1; }
void mcf_off(void) { g_on = 0; }
long mcf_requests(void) { return g_seq; }
void mcf_restart_count(void) { g_seq = 0; g_hits = 0; g_site[0] = 0; }
void mcf_fail_at(long k1, long k2) { g_fail1 = k1; g_fail2 = k2; }
long mcf_hits(void) { return g_hits; }
long mcf_live(void) { return g_live; }
size_t mcf_live_bytes(void) { return g_live_bytes; }
void mcf_poison(int byte) { g_poison = byte; }
long mcf_live_since(long seq, char* out, size_t outn) {
    long c = 0; size_t k = 0; if (out && outn) out[0] = 0;
    for (size_t i = 0; i < (1u << TB); i++)
        if (g_tab[i].p && g_tab[i].p != (void*)1 && g_tab[i].seq > seq) {
            c++;
            if (out && k + 32 < outn) k += (size_t)snprintf(out + k, outn - k, "#%ld(%zuB) ", g_tab[i].seq, g_tab[i].n);
        }
    return c;
}

/* ---- failing sink ------------------------------------------------------ */
static ssize_t sink_write(void* c, const char* buf, size_t n) {
    mcf_sink_t* s = c;
    s->calls++;
    if (s->failed) { errno = ENOSPC; return 0; }
    size_t room = n;
    int fail_now = 0;
    if (s->fail_call > 0 && s->calls == s->fail_call) { room = 0; fail_now = 1; }
    if (s->fail_off >= 0 && s->len + n > (size_t)s->fail_off) {
        size_t r = (size_t)s->fail_off > s->len ? (size_t)s->fail_off - s->len : 0;
        if (r < room) room = r;
        fail_now = 1;
    }
    if (s->len + room > s->cap) {
        size_t nc = (s->len + room) * 2 + 256; s->data = __real_realloc(s->data, nc); s->cap = nc;
    }
    memcpy(s->data + s->len, buf, room); s->len += room;
    if (fail_now) { if (!s->transient) s->failed = 1; errno = ENOSPC; }
    return (ssize_t)room;      /* fopencookie: 0 signals error, short count also sets the error flag */
}
static int sink_close(void* c) {
    mcf_sink_t* s = c; s->closed = 1;
    if (s->fail_close) { errno = EIO; return -1; }
    return 0;
}
FILE* mcf_sink_open(mcf_sink_t* s, long fail_off, long fail_call, int fail_close, int bufmode) {
    memset(s, 0, sizeof *s);
    s->fail_off = fail_off; s->fail_call = fail_call; s->fail_close = fail_close;
    cookie_io_functions_t io = { .read = NULL, .write = sink_write, .seek = NULL, .close = sink_close };
    FILE* f = fopencookie(s, "w", io);
    if (!f) return NULL;
    if (bufmode == 1) setvbuf(f, NULL, _IONBF, 0);
    else if (bufmode == 2) setvbuf(f, s->tiny, _IOFBF, sizeof s->tiny);
    return f;
}
void mcf_sink_free(mcf_sink_t* s) { free(s->data); s->data = NULL; }
