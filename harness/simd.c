/* simd.c — property C15: every SIMD kernel equals its scalar definition at
 * every ISA level.
 *
 *   --mode direct    every exported carquet_{sse,avx2,avx512}_* kernel is called
 *                    directly (the host must have AVX-512F/BW/VL).
 *   --mode dispatch  every carquet_dispatch_* wrapper, in a process whose
 *                    detected CPU features were capped by CARQUET_VERIF_CPU_CAP
 *                    (hook in src/simd/detect.c, compiled with -DCARQUET_VERIF).
 *
 * Oracle: the scalar definitions in ref/ref_simd.c (written from the scalar_*
 * fallbacks of src/simd/dispatch.c; no carquet code) + guard pages + canaries.
 *
 * Buffer placement.  Every array handed to a kernel lives in its own guard
 * arena [lo,hi) (lo, hi page aligned, PROT_NONE pages on both sides, mapped
 * once).  For an array of n bytes and a parameter m in 0..63:
 *   T(m): array = [hi-m-n, hi-m).  m == 0: the array END abuts the guard page,
 *         every access past the end faults.  m > 0: the m bytes behind the
 *         array are a canary (writes detected), accesses more than m bytes past
 *         the end fault.  Start misalignment = (-(n+m)) mod 64, i.e. for m == 0
 *         it is fixed by the byte length (all multiples of the element size are
 *         reached as count varies); m sweeps the remaining residues.
 *         64 canary bytes in front of the array detect under-writes.
 *   H(m): array = [lo+m, lo+m+n).  m == 0: the array START follows the guard
 *         page, every access before the start faults.  m > 0: start
 *         misalignment m, the m bytes in front are a canary, accesses more than
 *         m bytes before the start fault.  64 canary bytes behind the array
 *         detect over-writes; over-READS in H placement are not detected
 *         (they are in T(0)).
 * Every kernel x count x pattern is run in T and H placement of every buffer
 * (all 2^nbuf combinations) and with m from the tier's misalignment set for
 * every buffer: full cross product of (m0,m1) for count <= 70 (thorough: 140), axis-wise
 * ((m,0),(0,m),(m,m)) above.  A third buffer (gather dictionary) gets both
 * sides and an m derived from the other parameters (all 64 values occur).
 *
 * One mc case = (kernel, count, pattern, sides, m0); the inner loop runs over
 * m1 (over m0 for single-buffer kernels); the descriptor is refreshed before
 * every kernel call, so a crash descriptor names the exact call.
 */
#define _GNU_SOURCE
#include "mc/mc.h"
#include "ref/ref_simd.h"
#include <carquet/carquet.h>
#include <stdio.h>
#include <stdarg.h>
#include <stdlib.h>
#include <string.h>
#include <fcntl.h>
#include <unistd.h>
#include <elf.h>
#include <sys/mman.h>
#include <sys/stat.h>
#include <sys/wait.h>

/* ---- kernels under test (no header exists; signatures read from the sources) */
#define DECL_COMMON(P) \
    void P##prefix_sum_i32(int32_t*, int64_t, int32_t); \
    void P##prefix_sum_i64(int64_t*, int64_t, int64_t); \
    void P##gather_i32(const int32_t*, const uint32_t*, int64_t, int32_t*); \
    void P##gather_i64(const int64_t*, const uint32_t*, int64_t, int64_t*); \
    void P##gather_float(const float*, const uint32_t*, int64_t, float*); \
    void P##gather_double(const double*, const uint32_t*, int64_t, double*); \
    void P##unpack_bools(const uint8_t*, uint8_t*, int64_t); \
    void P##pack_bools(const uint8_t*, uint8_t*, int64_t); \
    int64_t P##find_run_length_i32(const int32_t*, int64_t);
#define DECL_BSS(P, S) \
    void P##S##_encode_float(const float*, int64_t, uint8_t*); \
    void P##S##_decode_float(const uint8_t*, int64_t, float*);
#define DECL_BSSD(P, S) \
    void P##S##_encode_double(const double*, int64_t, uint8_t*); \
    void P##S##_decode_double(const uint8_t*, int64_t, double*);
#define DECL_MISC(P) \
    uint32_t P##crc32c(uint32_t, const uint8_t*, size_t); \
    void P##match_copy(uint8_t*, const uint8_t*, size_t, size_t); \
    size_t P##match_length(const uint8_t*, const uint8_t*, const uint8_t*); \
    int64_t P##count_non_nulls(const int16_t*, int64_t, int16_t); \
    void P##build_null_bitmap(const int16_t*, int64_t, int16_t, uint8_t*); \
    void P##fill_def_levels(int16_t*, int64_t, int16_t);

DECL_COMMON(carquet_sse_) DECL_COMMON(carquet_avx2_) DECL_COMMON(carquet_avx512_) DECL_COMMON(carquet_dispatch_)
DECL_BSS(carquet_sse_, byte_stream_split) DECL_BSS(carquet_avx2_, byte_stream_split) DECL_BSS(carquet_avx512_, byte_stream_split)
DECL_BSS(carquet_dispatch_, byte_split)
DECL_BSSD(carquet_sse_, byte_stream_split) DECL_BSSD(carquet_avx2_, byte_stream_split) DECL_BSSD(carquet_dispatch_, byte_split)
DECL_MISC(carquet_sse_) DECL_MISC(carquet_dispatch_)
void carquet_sse_bitunpack32_1bit(const uint8_t*, uint32_t*);
void carquet_sse_bitunpack8_4bit(const uint8_t*, uint32_t*);
void carquet_sse_bitunpack8_8bit(const uint8_t*, uint32_t*);
void carquet_avx2_bitunpack64_1bit(const uint8_t*, uint32_t*);
void carquet_avx2_bitunpack16_4bit(const uint8_t*, uint32_t*);
void carquet_avx2_bitunpack16_8bit(const uint8_t*, uint32_t*);
void carquet_avx2_bitunpack8_16bit(const uint8_t*, uint32_t*);
void carquet_avx512_bitunpack32_8bit(const uint8_t*, uint32_t*);
void carquet_avx512_bitunpack16_16bit(const uint8_t*, uint32_t*);
void carquet_avx512_bitunpack32_4bit(const uint8_t*, uint32_t*);
void carquet_sse_memset_small(void*, uint8_t, size_t);
void carquet_sse_memcpy_small(void*, const void*, size_t);
void carquet_avx2_memset(void*, uint8_t, size_t);
void carquet_avx2_memcpy(void*, const void*, size_t);
void carquet_avx512_memset(void*, uint8_t, size_t);
void carquet_avx512_memcpy(void*, const void*, size_t);

/* ---- kernel table ----------------------------------------------------------- */
enum { F_PSUM32, F_PSUM64, F_GATHER32, F_GATHER64, F_BSS_ENC, F_BSS_DEC, F_UNPACK_BOOLS, F_PACK_BOOLS,
       F_RUNLEN, F_CRC, F_MATCH_COPY, F_MATCH_LEN_SAME, F_MATCH_LEN_SEP, F_COUNT_NN, F_NULL_BITMAP, F_FILL,
       F_BITUNPACK, F_MEMSET, F_MEMCPY, F_NFAM };

typedef struct {
    const char* isa;     /* sse | avx2 | avx512 | dispatch */
    const char* name;    /* kernel stem used in keys */
    const char* sym;     /* linker symbol */
    int fam;
    void (*fn)(void);
    int nmax;            /* counts 0..nmax (bit unpackers: fixed count a) */
    int a, b;            /* bss: a = element width; bitunpack: a = values, b = bit width */
    int secondary;       /* second configuration of a kernel already listed */
} kern_t;

#define K(isa, stem, fam, nmax, a, b) { #isa, #stem, "carquet_" #isa "_" #stem, fam, (void (*)(void))carquet_##isa##_##stem, nmax, a, b, 0 }
#define K2(isa, stem, fam, nmax, a, b) { #isa, #stem, "carquet_" #isa "_" #stem, fam, (void (*)(void))carquet_##isa##_##stem, nmax, a, b, 1 }
#define COMMON(isa) \
    K(isa, prefix_sum_i32, F_PSUM32, 70, 0, 0), K(isa, prefix_sum_i64, F_PSUM64, 70, 0, 0), \
    K(isa, gather_i32, F_GATHER32, 70, 0, 0), K(isa, gather_float, F_GATHER32, 70, 0, 0), \
    K(isa, gather_i64, F_GATHER64, 70, 0, 0), K(isa, gather_double, F_GATHER64, 70, 0, 0), \
    K(isa, unpack_bools, F_UNPACK_BOOLS, 140, 0, 0), K(isa, pack_bools, F_PACK_BOOLS, 140, 0, 0), \
    K(isa, find_run_length_i32, F_RUNLEN, 70, 0, 0)
#define MISC(isa) \
    K(isa, crc32c, F_CRC, 70, 0, 0), K(isa, match_copy, F_MATCH_COPY, 70, 0, 0), \
    K(isa, match_length, F_MATCH_LEN_SAME, 70, 0, 0), K2(isa, match_length, F_MATCH_LEN_SEP, 70, 0, 0), \
    K(isa, count_non_nulls, F_COUNT_NN, 70, 0, 0), K(isa, build_null_bitmap, F_NULL_BITMAP, 70, 0, 0), \
    K(isa, fill_def_levels, F_FILL, 70, 0, 0)

static const kern_t KERNELS[] = {
    /* SSE4.2: 24 exported */
    COMMON(sse), MISC(sse),
    K(sse, byte_stream_split_encode_float, F_BSS_ENC, 70, 4, 0), K(sse, byte_stream_split_decode_float, F_BSS_DEC, 70, 4, 0),
    K(sse, byte_stream_split_encode_double, F_BSS_ENC, 70, 8, 0), K(sse, byte_stream_split_decode_double, F_BSS_DEC, 70, 8, 0),
    K(sse, bitunpack32_1bit, F_BITUNPACK, 0, 32, 1), K(sse, bitunpack8_4bit, F_BITUNPACK, 0, 8, 4), K(sse, bitunpack8_8bit, F_BITUNPACK, 0, 8, 8),
    K(sse, memset_small, F_MEMSET, 530, 0, 0), K(sse, memcpy_small, F_MEMCPY, 530, 0, 0),
    /* AVX2: 19 exported */
    COMMON(avx2),
    K(avx2, byte_stream_split_encode_float, F_BSS_ENC, 70, 4, 0), K(avx2, byte_stream_split_decode_float, F_BSS_DEC, 70, 4, 0),
    K(avx2, byte_stream_split_encode_double, F_BSS_ENC, 70, 8, 0), K(avx2, byte_stream_split_decode_double, F_BSS_DEC, 70, 8, 0),
    K(avx2, bitunpack64_1bit, F_BITUNPACK, 0, 64, 1), K(avx2, bitunpack16_4bit, F_BITUNPACK, 0, 16, 4),
    K(avx2, bitunpack16_8bit, F_BITUNPACK, 0, 16, 8), K(avx2, bitunpack8_16bit, F_BITUNPACK, 0, 8, 16),
    K(avx2, memset, F_MEMSET, 530, 0, 0), K(avx2, memcpy, F_MEMCPY, 530, 0, 0),
    /* AVX-512: 16 exported */
    COMMON(avx512),
    K(avx512, byte_stream_split_encode_float, F_BSS_ENC, 70, 4, 0), K(avx512, byte_stream_split_decode_float, F_BSS_DEC, 70, 4, 0),
    K(avx512, bitunpack32_8bit, F_BITUNPACK, 0, 32, 8), K(avx512, bitunpack16_16bit, F_BITUNPACK, 0, 16, 16), K(avx512, bitunpack32_4bit, F_BITUNPACK, 0, 32, 4),
    K(avx512, memset, F_MEMSET, 530, 0, 0), K(avx512, memcpy, F_MEMCPY, 530, 0, 0),
    /* dispatcher: 19 wrappers */
    COMMON(dispatch), MISC(dispatch),
    K(dispatch, byte_split_encode_float, F_BSS_ENC, 70, 4, 0), K(dispatch, byte_split_decode_float, F_BSS_DEC, 70, 4, 0),
    K(dispatch, byte_split_encode_double, F_BSS_ENC, 70, 8, 0), K(dispatch, byte_split_decode_double, F_BSS_DEC, 70, 8, 0),
};
enum { NKERN = (int)(sizeof KERNELS / sizeof KERNELS[0]) };
#define EXPECT_DIRECT   59      /* nm on sse_ops.o (24) + avx2_ops.o (19) + avx512_ops.o (16) at the time of writing */
#define EXPECT_DISPATCH 19

/* ---- harness-owned shared state (survives a crashing child) ------------------ */
typedef struct { int pending; int crashes[NKERN]; } hshared_t;
static hshared_t* HS;
#define CRASH_SKIP 12           /* after this many guard-page crashes of one kernel in one shard its remaining cases are skipped (and counted) */

/* ---- guard arenas ------------------------------------------------------------ */
#define BUFMAX ((size_t)(8u << 20) + 4096)      /* large counts: up to 2^20 8-byte elements */
static mc_arena_t AR[3];
typedef struct { uint8_t* p; uint8_t* slack; size_t slack_n; int ai; } slot_t;
#define SLACK_BYTE 0xC5

static uint8_t* place(slot_t* s, int ai, int tail, int m, size_t n) {
    s->ai = ai; s->slack_n = (size_t)m;
    if (tail) { uint8_t* b = mc_arena_tail(&AR[ai], n + (size_t)m); s->p = b; s->slack = b + n; }
    else      { uint8_t* b = mc_arena_head(&AR[ai], n + (size_t)m); s->p = b + m; s->slack = b; }
    memset(s->slack, SLACK_BYTE, s->slack_n);
    return s->p;
}
static bool slot_ok(const slot_t* s) {
    if (!mc_arena_check(&AR[s->ai])) return false;
    for (size_t i = 0; i < s->slack_n; i++) if (s->slack[i] != SLACK_BYTE) return false;
    return true;
}

/* ---- prepared case: contents of every buffer before / expected after the call - */
typedef struct {
    size_t n;            /* bytes */
    size_t in_prefix;    /* the first in_prefix bytes are pure input (n: whole buffer is input) */
    uint8_t init[BUFMAX];
    uint8_t exp[BUFMAX];
} pbuf_t;
static struct {
    int nbuf;
    pbuf_t b[3];
    int has_ret; uint64_t exp_ret; const char* ret_symptom;
    int64_t count;       /* element count argument */
    int64_t s0, s1;      /* scalar arguments (initial / max_def / value / offset / crc) */
    char what[160];      /* pattern description */
} P;

static inline uint32_t tag32(uint32_t i) { return (i + 1u) * 0x9E3779B1u; }
static inline uint64_t tag64(uint64_t i) { return (i + 1u) * 0x9E3779B97F4A7C15ull; }
static inline uint8_t  tagb(size_t i)    { return (uint8_t)(i * 131u + (i >> 8) * 71u + 17u); }   /* distinct inside every aligned 256-window */

static void pb_in(int bi, const void* data, size_t n) {       /* pure input buffer */
    if (n > BUFMAX) mc_harness_error("buffer too large");
    P.b[bi].n = n; P.b[bi].in_prefix = n; memcpy(P.b[bi].init, data, n); memcpy(P.b[bi].exp, data, n);
}
static uint8_t* pb_out(int bi, size_t n, int fill) {          /* pure output buffer; returns exp for the caller to fill */
    if (n > BUFMAX) mc_harness_error("buffer too large");
    P.b[bi].n = n; P.b[bi].in_prefix = 0; memset(P.b[bi].init, fill, n); memset(P.b[bi].exp, fill, n);
    return P.b[bi].exp;
}

/* ======================================================================== */
/* families: number of patterns, preparation (inputs + expected), call        */
/* ======================================================================== */
static const int MC_OFFS[] = { 1, 2, 3, 4, 5, 7, 8, 9, 15, 16, 17, 31, 32, 33, 40 };     /* match_copy offsets */
static const int ML_OFFS[] = { 1, 2, 4, 8, 15, 16, 17, 33 };                              /* match_length distances (same buffer) */
static const struct { int D; int idx; } GPAT[] = {                                          /* gather: dictionary size x index pattern */
    {1, 2}, {2, 0}, {2, 4}, {17, 0}, {17, 1}, {17, 3}, {300, 0}, {300, 1}, {300, 2}, {300, 4} };
static const int16_t FILLV[] = { 0, 1, 3, -1, 0x7FFF, 0x1234 };
static const uint8_t MSETV[] = { 0x00, 0xFF, 0xA5 };

static int fam_nbuf(int fam) {
    switch (fam) {
    case F_GATHER32: case F_GATHER64: return 3;
    case F_BSS_ENC: case F_BSS_DEC: case F_UNPACK_BOOLS: case F_PACK_BOOLS: case F_MATCH_LEN_SEP:
    case F_NULL_BITMAP: case F_BITUNPACK: case F_MEMCPY: return 2;
    default: return 1;
    }
}
static int fam_npat(const kern_t* k, int count) {
    switch (k->fam) {
    case F_PSUM32: case F_PSUM64: return 8;
    case F_GATHER32: case F_GATHER64: return (int)(sizeof GPAT / sizeof GPAT[0]);
    case F_BSS_ENC: case F_BSS_DEC: return 3;
    case F_UNPACK_BOOLS: case F_PACK_BOOLS: return 6;
    case F_RUNLEN: return count == 0 ? 1 : count * 4;
    case F_CRC: return 12 + (count == 9);
    case F_MATCH_COPY: return 15 * 2 * 2;
    case F_MATCH_LEN_SAME: return (count + 1) * 2 * 8;
    case F_MATCH_LEN_SEP: return (count + 1) * 2;
    case F_COUNT_NN: case F_NULL_BITMAP: return 4 * 5;
    case F_FILL: return 6;
    case F_BITUNPACK: return 6;
    case F_MEMSET: return 3;
    case F_MEMCPY: return 2;
    }
    return 0;
}

static void gen_bytes(uint8_t* d, size_t n, int kind) {   /* 0 tagged 1 complement 2 zeros 3 0xFF 4 0x55 5 0xAA */
    for (size_t i = 0; i < n; i++)
        d[i] = kind == 0 ? tagb(i) : kind == 1 ? (uint8_t)~tagb(i) : kind == 2 ? 0 : kind == 3 ? 0xFF : kind == 4 ? 0x55 : 0xAA;
}
static const char* BYTEKIND[] = { "tagged", "complement", "zeros", "ff", "55", "aa" };

static void gen_levels(int16_t* lv, int count, int max_def, int alpha) {
    for (int i = 0; i < count; i++) {
        int v;
        switch (alpha) {
        case 0: v = (i * 7 + i / 3) % (max_def + 1); break;                 /* cycling over the whole alphabet 0..max_def */
        case 1: v = max_def; break;                                         /* no nulls */
        case 2: v = 0; break;                                               /* all null (unless max_def == 0) */
        case 3: v = (i & 1) ? max_def : (max_def ? max_def - 1 : 0); break; /* alternating */
        default: v = (int16_t)(tag32((uint32_t)i) >> 9); break;             /* any int16 incl. negative and > max_def: the scalar definition is total */
        }
        lv[i] = (int16_t)v;
    }
}
static const char* ALPHA[] = { "cycle", "all-max", "all-0", "alternating", "any-int16" };

static void prepare(const kern_t* k, int count, int pat) {
    static uint8_t  t8[BUFMAX], u8[BUFMAX];
    static uint32_t t32[BUFMAX / 4], idx[BUFMAX / 4];
    static uint64_t t64[BUFMAX / 8];
    static int16_t  t16[BUFMAX / 2];
    P.nbuf = fam_nbuf(k->fam); P.has_ret = 0; P.exp_ret = 0; P.ret_symptom = "return"; P.count = count; P.s0 = P.s1 = 0; P.what[0] = 0;
    switch (k->fam) {
    case F_PSUM32: {
        static const uint32_t INIT[8] = { 0, 0x7FFFFFFFu, 5, 0xFFFFFFFFu, 0, 1, 0x7FFFFFFFu, 0x80000000u };
        static const char* NM[8] = { "tagged", "complement", "zeros", "ones", "all-minus1", "alt-max-min", "all-max(wraps)", "all-min(wraps)" };
        for (int i = 0; i < count; i++)
            t32[i] = pat == 0 ? tag32(i) : pat == 1 ? ~tag32(i) : pat == 2 ? 0 : pat == 3 ? 1 : pat == 4 ? 0xFFFFFFFFu :
                     pat == 5 ? ((i & 1) ? 0x80000000u : 0x7FFFFFFFu) : pat == 6 ? 0x7FFFFFFFu : 0x80000000u;
        P.s0 = (int32_t)INIT[pat];
        P.b[0].n = (size_t)count * 4; P.b[0].in_prefix = 0; memcpy(P.b[0].init, t32, P.b[0].n);
        ref_simd_prefix_sum_u32(t32, count, INIT[pat]); memcpy(P.b[0].exp, t32, P.b[0].n);
        snprintf(P.what, sizeof P.what, "%s;initial=0x%x", NM[pat], INIT[pat]);
        break; }
    case F_PSUM64: {
        static const uint64_t INIT[8] = { 0, 0x7FFFFFFFFFFFFFFFull, 5, ~0ull, 0, 1, 0x7FFFFFFFFFFFFFFFull, 0x8000000000000000ull };
        static const char* NM[8] = { "tagged", "complement", "zeros", "ones", "all-minus1", "alt-max-min", "all-max(wraps)", "all-min(wraps)" };
        for (int i = 0; i < count; i++)
            t64[i] = pat == 0 ? tag64(i) : pat == 1 ? ~tag64(i) : pat == 2 ? 0 : pat == 3 ? 1 : pat == 4 ? ~0ull :
                     pat == 5 ? ((i & 1) ? 0x8000000000000000ull : 0x7FFFFFFFFFFFFFFFull) : pat == 6 ? 0x7FFFFFFFFFFFFFFFull : 0x8000000000000000ull;
        P.s0 = (int64_t)INIT[pat];
        P.b[0].n = (size_t)count * 8; P.b[0].in_prefix = 0; memcpy(P.b[0].init, t64, P.b[0].n);
        ref_simd_prefix_sum_u64(t64, count, INIT[pat]); memcpy(P.b[0].exp, t64, P.b[0].n);
        snprintf(P.what, sizeof P.what, "%s;initial=0x%llx", NM[pat], (unsigned long long)INIT[pat]);
        break; }
    case F_GATHER32: case F_GATHER64: {
        /* buffers: 0 indices, 1 output, 2 dictionary */
        int D = GPAT[pat].D, ip = GPAT[pat].idx; int w = k->fam == F_GATHER32 ? 4 : 8;
        static const char* IN[] = { "tagged", "reversed", "all-0", "all-last", "alt-0-last" };
        for (int i = 0; i < count; i++)
            idx[i] = ip == 0 ? (uint32_t)((i * 7 + 3) % D) : ip == 1 ? (uint32_t)(D - 1 - i % D) : ip == 2 ? 0 : ip == 3 ? (uint32_t)(D - 1) : ((i & 1) ? (uint32_t)(D - 1) : 0);
        pb_in(0, idx, (size_t)count * 4);
        if (w == 4) {   /* every entry distinct; odd entries are NaN bit patterns (quiet and signalling) with distinct payloads */
            for (int j = 0; j < D; j++) t32[j] = (j & 1) ? (((j & 2) ? 0x7FC00000u : 0xFF800000u) | (uint32_t)(j + 1)) : tag32((uint32_t)j);
            pb_in(2, t32, (size_t)D * 4);
            ref_simd_gather32(t32, idx, count, (uint32_t*)pb_out(1, (size_t)count * 4, 0xEE));
        } else {
            for (int j = 0; j < D; j++) t64[j] = (j & 1) ? (((j & 2) ? 0x7FF8000000000000ull : 0xFFF0000000000000ull) | (uint64_t)(j + 1)) : tag64((uint64_t)j);
            pb_in(2, t64, (size_t)D * 8);
            ref_simd_gather64(t64, idx, count, (uint64_t*)pb_out(1, (size_t)count * 8, 0xEE));
        }
        snprintf(P.what, sizeof P.what, "dict=%d(tagged+NaN);idx=%s", D, IN[ip]);
        break; }
    case F_BSS_ENC: case F_BSS_DEC: {
        int w = k->a; size_t nb = (size_t)count * (size_t)w;
        if (pat < 2) gen_bytes(t8, nb, pat);
        else for (int i = 0; i < count; i++) {   /* NaNs with distinct payloads, quiet and signalling, both signs */
            if (w == 4) { uint32_t x = ((i & 1) ? 0x7FC00000u : 0xFF800000u) | (uint32_t)(i * 2 + 1); memcpy(t8 + i * 4, &x, 4); }
            else { uint64_t x = ((i & 1) ? 0x7FF8000000000000ull : 0xFFF0000000000000ull) | (tag64((uint64_t)i) >> 13) | 1; memcpy(t8 + i * 8, &x, 8); }
        }
        if (k->fam == F_BSS_ENC) { pb_in(0, t8, nb); ref_simd_bss_encode(t8, count, w, pb_out(1, nb, 0xEE)); }
        else { ref_simd_bss_encode(t8, count, w, u8); pb_in(0, u8, nb); ref_simd_bss_decode(u8, count, w, pb_out(1, nb, 0xEE)); }
        snprintf(P.what, sizeof P.what, "%s", pat == 0 ? "tagged" : pat == 1 ? "complement" : "nan-payloads");
        break; }
    case F_UNPACK_BOOLS: {
        size_t nb = ((size_t)count + 7) / 8;
        gen_bytes(t8, nb, pat); pb_in(0, t8, nb);
        ref_simd_unpack_bools(t8, pb_out(1, (size_t)count, 0xEE), count);
        snprintf(P.what, sizeof P.what, "%s", BYTEKIND[pat]);
        break; }
    case F_PACK_BOOLS: {
        static const char* NM[] = { "tagged", "complement", "zeros", "ones", "alt01", "alt10" };
        for (int i = 0; i < count; i++) {
            int bit = (int)((tag32((uint32_t)i) >> 13) & 1);
            t8[i] = (uint8_t)(pat == 0 ? bit : pat == 1 ? !bit : pat == 2 ? 0 : pat == 3 ? 1 : pat == 4 ? (i & 1) : !(i & 1));
        }
        pb_in(0, t8, (size_t)count);
        ref_simd_pack_bools(t8, pb_out(1, ((size_t)count + 7) / 8, 0xEE), count);
        snprintf(P.what, sizeof P.what, "%s", NM[pat]);
        break; }
    case F_RUNLEN: {
        int r = count ? pat / 4 + 1 : 0, v = pat % 4;
        uint32_t X = v == 0 ? 0 : v == 1 ? 0xFFFFFFFFu : v == 2 ? tag32((uint32_t)r) : 0x80000000u;
        uint32_t Y = v == 0 ? 1 : v == 1 ? 0x7FFFFFFFu : v == 2 ? (X ^ 0x00010000u) : 0;
        for (int i = 0; i < count; i++)
            t32[i] = i < r ? X : i == r ? Y : (v == 0 || v == 2) ? X : v == 1 ? (tag32((uint32_t)i) | 1u) ^ 0x40000000u : Y;
        pb_in(0, t32, (size_t)count * 4);
        P.has_ret = 1; P.exp_ret = (uint64_t)ref_simd_find_run_length_u32(t32, count);
        if ((int64_t)P.exp_ret != r) mc_harness_error("runlen pattern construction: r=%d ref=%lld", r, (long long)P.exp_ret);
        snprintf(P.what, sizeof P.what, "run=%d;X=0x%x;Y=0x%x;after=%s", r, X, Y, (v == 0 || v == 2) ? "X-again" : v == 1 ? "tagged" : "Y");
        break; }
    case F_CRC: {
        static const uint32_t CI[3] = { 0, 0xFFFFFFFFu, 0x12345678u };
        uint32_t crc0;
        if (pat == 12) { memcpy(t8, "123456789", 9); crc0 = 0; snprintf(P.what, sizeof P.what, "check-vector-123456789;crc=0"); }
        else { gen_bytes(t8, (size_t)count, pat / 3); crc0 = CI[pat % 3]; snprintf(P.what, sizeof P.what, "%s;crc=0x%x", BYTEKIND[pat / 3], crc0); }
        pb_in(0, t8, (size_t)count);
        P.s0 = crc0; P.has_ret = 1; P.exp_ret = ref_simd_crc32c(crc0, t8, (size_t)count); P.ret_symptom = "values";   /* the checksum is the kernel's output value */
        if (pat == 12 && P.exp_ret != 0xE3069283u) mc_harness_error("reference CRC-32C check value wrong");
        break; }
    case F_MATCH_COPY: {
        /* one buffer: hist bytes of history (pure input) followed by `count` output bytes; src = dst - offset */
        int off = MC_OFFS[pat % 15], extra = ((pat / 15) & 1) ? 5 : 0, kind = pat / 30; size_t hist = (size_t)(off + extra);
        gen_bytes(t8, hist, kind); memset(t8 + hist, 0xEE, (size_t)count);
        P.b[0].n = hist + (size_t)count; P.b[0].in_prefix = hist; memcpy(P.b[0].init, t8, P.b[0].n);
        ref_simd_match_copy(t8 + hist, t8 + hist - off, (size_t)count, (size_t)off); memcpy(P.b[0].exp, t8, P.b[0].n);
        P.s0 = off; P.s1 = (int64_t)hist;
        snprintf(P.what, sizeof P.what, "offset=%d;history=%zu;%s", off, hist, BYTEKIND[kind]);
        break; }
    case F_MATCH_LEN_SAME: {
        /* one buffer: match = buf, p = buf + dist, limit = p + count; the first L bytes match, byte L differs */
        int dist = ML_OFFS[pat % 8], again = (pat / 8) & 1, L = pat / 16;
        gen_bytes(t8, (size_t)dist, 0);
        for (int i = 0; i < count; i++) t8[dist + i] = (uint8_t)(i < L ? t8[i] : i == L ? t8[i] ^ ((L & 1) ? 0x01 : 0x80) : again ? t8[i] : t8[i] ^ 0x55);
        pb_in(0, t8, (size_t)(dist + count));
        P.s0 = dist; P.has_ret = 1; P.exp_ret = ref_simd_match_length(t8 + dist, t8, t8 + dist + count);
        if ((int)P.exp_ret != L) mc_harness_error("match_length pattern construction: L=%d ref=%llu", L, (unsigned long long)P.exp_ret);
        snprintf(P.what, sizeof P.what, "same-buffer;dist=%d;L=%d;after=%s", dist, L, again ? "matching" : "differing");
        break; }
    case F_MATCH_LEN_SEP: {
        /* two buffers of exactly `count` bytes: 0 = p, 1 = match */
        int again = pat & 1, L = pat / 2;
        gen_bytes(u8, (size_t)count, 0);
        for (int i = 0; i < count; i++) t8[i] = (uint8_t)(i < L ? u8[i] : i == L ? u8[i] ^ ((L & 1) ? 0x01 : 0x80) : again ? u8[i] : u8[i] ^ 0x55);
        pb_in(0, t8, (size_t)count); pb_in(1, u8, (size_t)count);
        P.has_ret = 1; P.exp_ret = ref_simd_match_length(t8, u8, t8 + count);
        if ((int)P.exp_ret != L) mc_harness_error("match_length pattern construction");
        snprintf(P.what, sizeof P.what, "separate-buffers;L=%d;after=%s", L, again ? "matching" : "differing");
        break; }
    case F_COUNT_NN: case F_NULL_BITMAP: {
        int max_def = pat / 5, alpha = pat % 5;
        gen_levels(t16, count, max_def, alpha); pb_in(0, t16, (size_t)count * 2); P.s0 = max_def;
        if (k->fam == F_COUNT_NN) { P.has_ret = 1; P.exp_ret = (uint64_t)ref_simd_count_non_nulls(t16, count, (int16_t)max_def); }
        else ref_simd_build_null_bitmap(t16, count, (int16_t)max_def, pb_out(1, ((size_t)count + 7) / 8, 0x00));   /* domain: destination pre-zeroed */
        snprintf(P.what, sizeof P.what, "max_def=%d;levels=%s", max_def, ALPHA[alpha]);
        break; }
    case F_FILL: {
        P.s0 = FILLV[pat];
        ref_simd_fill_i16((int16_t*)pb_out(0, (size_t)count * 2, 0xEE), count, FILLV[pat]);
        snprintf(P.what, sizeof P.what, "value=%d", FILLV[pat]);
        break; }
    case F_BITUNPACK: {
        size_t nb = (size_t)k->a * (size_t)k->b / 8;
        gen_bytes(t8, nb, pat); pb_in(0, t8, nb);
        ref_simd_bitunpack(t8, k->a, k->b, (uint32_t*)pb_out(1, (size_t)k->a * 4, 0xEE));
        snprintf(P.what, sizeof P.what, "%s", BYTEKIND[pat]);
        break; }
    case F_MEMSET: {
        P.s0 = MSETV[pat];
        ref_simd_memset(pb_out(0, (size_t)count, 0xEE), MSETV[pat], (size_t)count);
        snprintf(P.what, sizeof P.what, "value=0x%02x", MSETV[pat]);
        break; }
    case F_MEMCPY: {
        gen_bytes(t8, (size_t)count, pat); pb_in(1, t8, (size_t)count);          /* buffers: 0 dest, 1 src */
        ref_simd_memcpy(pb_out(0, (size_t)count, 0xEE), t8, (size_t)count);
        snprintf(P.what, sizeof P.what, "%s", BYTEKIND[pat]);
        break; }
    }
}

static uint64_t call_kernel(const kern_t* k, uint8_t* const p[3]) {
    void (*f)(void) = k->fn;
    switch (k->fam) {
    case F_PSUM32: ((void (*)(int32_t*, int64_t, int32_t))f)((int32_t*)p[0], P.count, (int32_t)P.s0); return 0;
    case F_PSUM64: ((void (*)(int64_t*, int64_t, int64_t))f)((int64_t*)p[0], P.count, P.s0); return 0;
    case F_GATHER32: ((void (*)(const int32_t*, const uint32_t*, int64_t, int32_t*))f)((const int32_t*)p[2], (const uint32_t*)p[0], P.count, (int32_t*)p[1]); return 0;
    case F_GATHER64: ((void (*)(const int64_t*, const uint32_t*, int64_t, int64_t*))f)((const int64_t*)p[2], (const uint32_t*)p[0], P.count, (int64_t*)p[1]); return 0;
    case F_BSS_ENC: case F_BSS_DEC: ((void (*)(const void*, int64_t, void*))f)(p[0], P.count, p[1]); return 0;
    case F_UNPACK_BOOLS: case F_PACK_BOOLS: ((void (*)(const uint8_t*, uint8_t*, int64_t))f)(p[0], p[1], P.count); return 0;
    case F_RUNLEN: return (uint64_t)((int64_t (*)(const int32_t*, int64_t))f)((const int32_t*)p[0], P.count);
    case F_CRC: return ((uint32_t (*)(uint32_t, const uint8_t*, size_t))f)((uint32_t)P.s0, p[0], (size_t)P.count);
    case F_MATCH_COPY: ((void (*)(uint8_t*, const uint8_t*, size_t, size_t))f)(p[0] + P.s1, p[0] + P.s1 - P.s0, (size_t)P.count, (size_t)P.s0); return 0;
    case F_MATCH_LEN_SAME: return ((size_t (*)(const uint8_t*, const uint8_t*, const uint8_t*))f)(p[0] + P.s0, p[0], p[0] + P.s0 + P.count);
    case F_MATCH_LEN_SEP: return ((size_t (*)(const uint8_t*, const uint8_t*, const uint8_t*))f)(p[0], p[1], p[0] + P.count);
    case F_COUNT_NN: return (uint64_t)((int64_t (*)(const int16_t*, int64_t, int16_t))f)((const int16_t*)p[0], P.count, (int16_t)P.s0);
    case F_NULL_BITMAP: ((void (*)(const int16_t*, int64_t, int16_t, uint8_t*))f)((const int16_t*)p[0], P.count, (int16_t)P.s0, p[1]); return 0;
    case F_FILL: ((void (*)(int16_t*, int64_t, int16_t))f)((int16_t*)p[0], P.count, (int16_t)P.s0); return 0;
    case F_BITUNPACK: ((void (*)(const uint8_t*, uint32_t*))f)(p[0], (uint32_t*)p[1]); return 0;
    case F_MEMSET: ((void (*)(void*, uint8_t, size_t))f)(p[0], (uint8_t)P.s0, (size_t)P.count); return 0;
    case F_MEMCPY: ((void (*)(void*, const void*, size_t))f)(p[0], p[1], (size_t)P.count); return 0;
    }
    return 0;
}

/* ======================================================================== */
/* one kernel call in one placement, with all checks                          */
/* ======================================================================== */
static int DISPATCH;                 /* 0 direct, 1 dispatch */
static const char* CAP = "";         /* CARQUET_VERIF_CPU_CAP in dispatch mode */
static uint64_t g_calls;

static size_t first_diff(const uint8_t* a, const uint8_t* b, size_t lo, size_t hi) {
    for (size_t i = lo; i < hi; i++) if (a[i] != b[i]) return i;
    return hi;
}
static void failk(const kern_t* k, const char* symptom, const char* fmt, ...) __attribute__((format(printf, 3, 4)));
static void failk(const kern_t* k, const char* symptom, const char* fmt, ...) {
    char key[160], buf[1200]; va_list ap;
    snprintf(key, sizeof key, "%s.%s.%s", k->isa, k->name, symptom);
    va_start(ap, fmt); vsnprintf(buf, sizeof buf, fmt, ap); va_end(ap);
    mc_fail(key, "%s", buf);
}

static void exec_one(int ki, const kern_t* k, int pat, const int side[3], const int mis[3]) {
    slot_t sl[3]; uint8_t* p[3] = { NULL, NULL, NULL };
    for (int b = 0; b < P.nbuf; b++) { p[b] = place(&sl[b], b, side[b], mis[b], P.b[b].n); memcpy(p[b], P.b[b].init, P.b[b].n); }
    char pl[48]; int o = 0;
    for (int b = 0; b < P.nbuf; b++) o += snprintf(pl + o, sizeof pl - (size_t)o, "%s%c%d@%d", b ? "," : "", side[b] ? 'T' : 'H', mis[b], (int)((uintptr_t)p[b] & 63));
    mc_desc("%s%s%s.%s;n=%lld;pat=%d(%s);place=%s", DISPATCH ? "cap=" : "", DISPATCH ? CAP : "", DISPATCH ? ";dispatch" : k->isa, k->name,
            (long long)P.count, pat, P.what, pl);
    HS->pending = ki;
    uint64_t ret = call_kernel(k, p);
    HS->pending = -1;
    g_calls++;
    for (int b = 0; b < P.nbuf; b++) {
        const pbuf_t* pb = &P.b[b];
        if (memcmp(p[b], pb->exp, pb->n)) {
            size_t d = first_diff(p[b], pb->exp, 0, pb->in_prefix);
            if (d < pb->in_prefix)
                failk(k, "input-modified", "input buffer %d modified at byte %zu: was %02x now %02x (%s)", b, d, pb->exp[d], p[b][d], P.what);
            d = first_diff(p[b], pb->exp, pb->in_prefix, pb->n);
            if (d < pb->n) {
                size_t lo = d >= 8 ? d - 8 : 0, w = pb->n - lo < 40 ? pb->n - lo : 40;
                failk(k, "values", "output buffer %d (%zu bytes) first differs at byte %zu; bytes[%zu..]: expected %s got %s; input0=%s (%s)",
                      b, pb->n, d - pb->in_prefix, lo, mc_hex(pb->exp + lo, w, 40), mc_hex(p[b] + lo, w, 40), mc_hex(P.b[0].init, P.b[0].n, 48), P.what);
            }
        }
        if (!slot_ok(&sl[b]))
            failk(k, "canary", "bytes outside buffer %d ([%p,+%zu), %s placement m=%d) were written (%s)", b, (void*)p[b], pb->n, side[b] ? "tail" : "head", mis[b], P.what);
    }
    if (P.has_ret && ret != P.exp_ret)
        failk(k, P.ret_symptom, "returned 0x%llx (%lld), scalar definition gives 0x%llx (%lld); input0=%s (%s)", (unsigned long long)ret, (long long)ret,
              (unsigned long long)P.exp_ret, (long long)P.exp_ret, mc_hex(P.b[0].init, P.b[0].n, 72), P.what);
}

/* ======================================================================== */
/* enumeration                                                                */
/* ======================================================================== */
static const int MIS_Q[] = { 0, 1, 2, 3, 4, 5, 7, 8, 9, 15, 16, 17, 31, 32, 33, 47, 48, 63 };
static int MIS[64], NMIS;
#define FULL_CROSS_MAX (mc_thorough() ? 140 : 70)

static void run_kernel(int ki) {
    const kern_t* k = &KERNELS[ki];
    int nbuf = fam_nbuf(k->fam);
    int cmin = 0, cmax = k->nmax;
    if (k->fam == F_BITUNPACK) cmin = cmax = k->a;
    char st[96]; snprintf(st, sizeof st, "%s.%s%s", k->isa, k->name, k->fam == F_MATCH_LEN_SEP ? "#separate-buffers" : "");
    mc_stage(st);
    bool first = true;
    /* after the contiguous small counts: counts around 2^16, 2^18 (and 2^20 for the byte kernels / thorough), where accumulators, tiles and
     * size-gated fast paths change; fewer patterns, placements and misalignments there */
    static const int LC[] = { 65535, 65536, 65537, 262143, 262144, 262145, 1048575, 1048576, 1048577, 1048699 };
    int nlarge = k->fam == F_BITUNPACK ? 0 : (k->fam == F_MEMCPY || k->fam == F_MEMSET || mc_thorough()) ? 10 : 6;
    for (int cidx = 0; cidx <= cmax - cmin + nlarge; cidx++) {
        bool large = cidx > cmax - cmin; int count = large ? LC[cidx - (cmax - cmin) - 1] : cmin + cidx;
        int np = fam_npat(k, count); if (large && np > 2) np = 2;
        for (int pat = 0; pat < np; pat++)
            for (int sides = 0; sides < (1 << nbuf); sides++)
                for (int oi = 0; oi < (nbuf == 1 ? 1 : NMIS); oi++) {
                    if (large && ((sides != 0 && sides != (1 << nbuf) - 1) || (oi != 0 && MIS[oi] != 5 && MIS[oi] != 48))) continue;
                    bool mine = mc_next();
                    bool was_first = first; first = false;
                    if (!mine) continue;
                    int side[3] = { sides & 1, (sides >> 1) & 1, (sides >> 2) & 1 }, mis[3] = { 0, 0, 0 };
                    mc_feature("%s.%s", k->isa, k->name);
                    mc_desc("%s%s%s.%s;n=%d;pat=%d;sides=%d;outer=%d", DISPATCH ? "cap=" : "", DISPATCH ? CAP : "", DISPATCH ? ";dispatch" : k->isa, k->name, count, pat, sides, oi);
                    mc_case_key(mc_mix(mc_mix(mc_mix(0xC15 + (uint64_t)DISPATCH, (uint64_t)ki << 32 | (uint32_t)count), (uint64_t)pat << 8 | (uint64_t)sides), (uint64_t)oi));
                    if (count > 0) mc_nontrivial();
                    if (was_first && !k->secondary) mc_count(DISPATCH ? "dispatch.wrappers.checked" : "kernels.checked", 1);
                    if (HS->crashes[ki] >= CRASH_SKIP) { mc_count("cases.skipped-after-repeated-crashes", 1); continue; }
                    prepare(k, count, pat);
                    g_calls = 0;
                    if (nbuf == 1) {
                        for (int i = 0; i < NMIS; i++) { if (large && MIS[i] != 0 && MIS[i] != 5 && MIS[i] != 48) continue; mis[0] = MIS[i]; exec_one(ki, k, pat, side, mis); }
                    } else {
                        mis[0] = MIS[oi];
                        for (int i = 0; i < NMIS; i++) {
                            mis[1] = MIS[i]; if (large && MIS[i] != 0 && MIS[i] != 5 && MIS[i] != 48) continue;
                            if (count > FULL_CROSS_MAX && mis[0] != 0 && mis[1] != 0 && mis[1] != mis[0]) continue;   /* axis-wise above the full-cross bound */
                            mis[2] = (mis[0] * 5 + mis[1] * 3 + count + pat) & 63;
                            exec_one(ki, k, pat, side, mis);
                        }
                    }
                    mc_count("kernel.calls", g_calls);
                }
    }
}

/* ---- inventory: exported kernels found in this executable's symbol table ---- */
static void inventory(void) {
    mc_stage("inventory");
    if (!mc_next()) return;
    mc_desc("inventory:symbols of /proc/self/exe with prefix carquet_%s", DISPATCH ? "dispatch_" : "{sse,avx2,avx512}_");
    mc_feature("inventory"); mc_case_key(0x1A7E); mc_nontrivial();
    int fd = open("/proc/self/exe", O_RDONLY); struct stat sb;
    if (fd < 0 || fstat(fd, &sb) < 0) mc_harness_error("cannot open /proc/self/exe");
    const uint8_t* m = mmap(NULL, (size_t)sb.st_size, PROT_READ, MAP_PRIVATE, fd, 0);
    if (m == MAP_FAILED) mc_harness_error("cannot map /proc/self/exe");
    const Elf64_Ehdr* eh = (const Elf64_Ehdr*)m; const Elf64_Shdr* sh = (const Elf64_Shdr*)(m + eh->e_shoff);
    int found = 0, listed = 0, symtabs = 0;
    for (int s = 0; s < eh->e_shnum; s++) {
        if (sh[s].sh_type != SHT_SYMTAB) continue;
        symtabs++;
        const Elf64_Sym* sy = (const Elf64_Sym*)(m + sh[s].sh_offset); size_t ns = sh[s].sh_size / sizeof *sy;
        const char* str = (const char*)(m + sh[sh[s].sh_link].sh_offset);
        for (size_t i = 0; i < ns; i++) {
            if (ELF64_ST_TYPE(sy[i].st_info) != STT_FUNC || ELF64_ST_BIND(sy[i].st_info) == STB_LOCAL || sy[i].st_shndx == SHN_UNDEF) continue;
            const char* nm = str + sy[i].st_name;
            bool want = DISPATCH ? !strncmp(nm, "carquet_dispatch_", 17)
                                 : (!strncmp(nm, "carquet_sse_", 12) || !strncmp(nm, "carquet_avx2_", 13) || !strncmp(nm, "carquet_avx512_", 15));
            if (!want) continue;
            found++;
            bool known = false;
            for (int j = 0; j < NKERN; j++) if (!strcmp(KERNELS[j].sym, nm)) known = true;
            if (known) listed++;
            else { char key[160]; snprintf(key, sizeof key, "unchecked.%s", nm); mc_fail(key, "exported kernel %s is not in the harness table: it is NOT checked", nm); }
        }
    }
    if (!symtabs) mc_harness_error("executable has no .symtab (stripped?): cannot list exported kernels");
    mc_count(DISPATCH ? "dispatch.wrappers.exported" : "kernels.exported", (uint64_t)found);
    mc_log("inventory: %d exported, %d of them in the table", found, listed);
    munmap((void*)m, (size_t)sb.st_size); close(fd);
}

/* ---- dispatch mode: the capability cap must be visible in carquet_get_cpu_info */
static int cap_level(const char* c) { return !strcmp(c, "scalar") ? 0 : !strcmp(c, "sse42") ? 1 : !strcmp(c, "avx2") ? 2 : !strcmp(c, "avx512") ? 3 : -1; }
static void cap_check(void) {
    mc_stage("dispatch.capability-cap");
    int lv = cap_level(CAP);
    if (lv < 0) mc_harness_error("mode dispatch needs CARQUET_VERIF_CPU_CAP=scalar|sse42|avx2|avx512 (got '%s')", CAP);
    const carquet_cpu_info_t* ci = carquet_get_cpu_info();
    /* the run is only meaningful if the host really has the level it claims to test */
    if ((lv >= 1 && !ci->has_sse42) || (lv >= 2 && !ci->has_avx2) || (lv >= 3 && !(ci->has_avx512f && ci->has_avx512bw && ci->has_avx512vl)))
        mc_harness_error("host CPU lacks the features of capability level %s", CAP);
    if (!mc_next()) return;
    mc_desc("cap=%s;cpu_info: sse41=%d sse42=%d avx=%d avx2=%d avx512f=%d bw=%d vl=%d vbmi=%d", CAP, ci->has_sse41, ci->has_sse42, ci->has_avx, ci->has_avx2,
            ci->has_avx512f, ci->has_avx512bw, ci->has_avx512vl, ci->has_avx512vbmi);
    mc_feature("dispatch.cap"); mc_case_key(0xCA9 + (uint64_t)lv); mc_nontrivial();
    bool bad = (lv < 3 && (ci->has_avx512f || ci->has_avx512bw || ci->has_avx512vl || ci->has_avx512vbmi)) ||
               (lv < 2 && (ci->has_avx2 || ci->has_avx)) || (lv < 1 && (ci->has_sse42 || ci->has_sse41));
    if (bad) mc_fail("dispatch.cap-not-applied", "CARQUET_VERIF_CPU_CAP=%s but carquet_get_cpu_info() reports sse41=%d sse42=%d avx=%d avx2=%d avx512f=%d bw=%d vl=%d vbmi=%d",
                     CAP, ci->has_sse41, ci->has_sse42, ci->has_avx, ci->has_avx2, ci->has_avx512f, ci->has_avx512bw, ci->has_avx512vl, ci->has_avx512vbmi);
}

/* ---- in-place dictionary gather: output == indices for the 4-byte gathers (the scalar definition output[i] = dict[indices[i]] reads each index before it writes that slot and never looks back) */
static void inplace_gather(int dispatch) {
    mc_stage("gather.in-place.output-aliases-indices");
    typedef void (*g32)(const int32_t*, const uint32_t*, int64_t, int32_t*);
    static const struct { const char* n; g32 f; int disp; } G[] = { { "carquet_sse_gather_i32", carquet_sse_gather_i32, 0 }, { "carquet_avx2_gather_i32", carquet_avx2_gather_i32, 0 }, { "carquet_avx512_gather_i32", carquet_avx512_gather_i32, 0 },
        { "carquet_sse_gather_float", (g32)carquet_sse_gather_float, 0 }, { "carquet_avx2_gather_float", (g32)carquet_avx2_gather_float, 0 }, { "carquet_avx512_gather_float", (g32)carquet_avx512_gather_float, 0 },
        { "carquet_dispatch_gather_i32", carquet_dispatch_gather_i32, 1 }, { "carquet_dispatch_gather_float", (g32)carquet_dispatch_gather_float, 1 } };
    for (int k = 0; k < 8; k++) { if (G[k].disp != dispatch) continue; for (int count = 0; count <= 130; count++) for (int pat = 0; pat < 2; pat++) {
        if (!mc_next()) continue;
        mc_desc("%s;n=%d;in-place;pat=%d", G[k].n, count, pat); mc_feature("gather-in-place"); mc_case_key(mc_mix(0x1a9, ((uint64_t)k << 16) | ((uint64_t)count << 1) | (uint64_t)pat)); if (count) mc_nontrivial();
        int32_t dict[64]; for (int i = 0; i < 64; i++) dict[i] = pat ? (i * 37 + 11) % 64 : 1000 + i * 3; uint32_t* buf = (uint32_t*)mc_arena_tail(&AR[0], (size_t)(count ? count : 1) * 4); int32_t want[140];
        for (int i = 0; i < count; i++) { buf[i] = (uint32_t)((i * 7 + 9) % 64); want[i] = dict[buf[i]]; }
        G[k].f(dict, buf, count, (int32_t*)buf);
        for (int i = 0; i < count; i++) if ((int32_t)buf[i] != want[i]) { char key[96]; snprintf(key, sizeof key, "%s.in-place.values", G[k].n + 8); mc_fail(key, "count %d, output == indices: output[%d] = %d, the scalar definition gives %d", count, i, (int32_t)buf[i], want[i]); break; }
    } }
}

/* ---- first use: each dispatch wrapper as the FIRST library call of a fresh process, with and without carquet_init() before it (the table is built lazily by whichever
 * wrapper runs first); the harness re-executes itself (`simd --firstuse <wrapper> <init>`), which makes exactly that one call and prints a digest of its output */
static int firstuse_child(int w, int init) {
    if (init) (void)carquet_init();
    static int32_t a32[40]; static int64_t a64[40]; static uint32_t idx[40]; static float af[40]; static double ad[40]; static uint8_t b8[512], o8[512]; static int16_t l16[40]; uint64_t h = 1469598103934665603ull; int64_t r = 0;
    for (int i = 0; i < 40; i++) { a32[i] = i * 7 - 3; a64[i] = (int64_t)i * 100003 - 5; idx[i] = (uint32_t)(i * 3 % 40); af[i] = (float)i * 0.5f; ad[i] = (double)i * -1.25; l16[i] = (int16_t)(i % 3); } for (int i = 0; i < 512; i++) b8[i] = (uint8_t)(i * 13 + 1);
    const void* out = o8; size_t on = 0; static int32_t o32[40]; static int64_t o64[40]; static float of[40]; static double od[40]; memset(o8, 0, sizeof o8);
    switch (w) {
    case 0: carquet_dispatch_prefix_sum_i32(a32, 37, 5); out = a32; on = 37 * 4; break;
    case 1: carquet_dispatch_prefix_sum_i64(a64, 37, 5); out = a64; on = 37 * 8; break;
    case 2: carquet_dispatch_gather_i32(a32, idx, 37, o32); out = o32; on = 37 * 4; break;
    case 3: carquet_dispatch_gather_i64(a64, idx, 37, o64); out = o64; on = 37 * 8; break;
    case 4: carquet_dispatch_gather_float(af, idx, 37, of); out = of; on = 37 * 4; break;
    case 5: carquet_dispatch_gather_double(ad, idx, 37, od); out = od; on = 37 * 8; break;
    case 6: carquet_dispatch_byte_split_encode_float(af, 37, o8); on = 37 * 4; break;
    case 7: carquet_dispatch_byte_split_decode_float(b8, 37, of); out = of; on = 37 * 4; break;
    case 8: carquet_dispatch_byte_split_encode_double(ad, 37, o8); on = 37 * 8; break;
    case 9: carquet_dispatch_byte_split_decode_double(b8, 37, od); out = od; on = 37 * 8; break;
    case 10: carquet_dispatch_unpack_bools(b8, o8, 37); on = 37; break;
    case 11: { uint8_t in[40]; for (int i = 0; i < 40; i++) in[i] = (uint8_t)((i * 5 >> 1) & 1); carquet_dispatch_pack_bools(in, o8, 37); on = 5; break; }
    case 12: { int32_t v[40]; for (int i = 0; i < 40; i++) v[i] = i < 21 ? 9 : 4; r = carquet_dispatch_find_run_length_i32(v, 37); break; }
    case 13: r = (int64_t)carquet_dispatch_crc32c(0, b8, 37); break;
    case 14: { memcpy(o8, b8, 64); carquet_dispatch_match_copy(o8 + 16, o8 + 16 - 5, 30, 5); on = 64; break; }
    case 15: { uint8_t m[64]; memcpy(m, b8, 64); memcpy(m + 32, m, 20); r = (int64_t)carquet_dispatch_match_length(m + 32, m, m + 64); break; }
    case 16: r = carquet_dispatch_count_non_nulls(l16, 37, 2); break;
    case 17: carquet_dispatch_build_null_bitmap(l16, 37, 2, o8); on = 5; break;
    default: { int16_t o16[40]; carquet_dispatch_fill_def_levels(o16, 37, 3); memcpy(o8, o16, 74); on = 74; break; }
    }
    for (size_t i = 0; i < on; i++) h = (h ^ ((const uint8_t*)out)[i]) * 1099511628211ull;
    printf("%016llx %lld\n", (unsigned long long)h, (long long)r); return 0;
}
static char g_self[512];
static void firstuse_mode(void) {
    static const char* EN[] = { "prefix_sum_i32", "prefix_sum_i64", "gather_i32", "gather_i64", "gather_float", "gather_double", "byte_split_encode_float", "byte_split_decode_float", "byte_split_encode_double", "byte_split_decode_double",
                                "unpack_bools", "pack_bools", "find_run_length_i32", "crc32c", "match_copy", "match_length", "count_non_nulls", "build_null_bitmap", "fill_def_levels" };
    mc_rule("C15 (first use): each of the 19 carquet_dispatch_* wrappers is the first library call of a fresh process (the harness re-executes itself), with and without carquet_init() before it; "
            "its output must equal the output of the same call made later in a long-running process (whose equality with the scalar definition is the subject of the dispatch mode).");
    mc_stage("first-use.every-dispatch-wrapper");
    for (int w = 0; w < 19; w++) for (int init = 0; init < 2; init++) {
        if (!mc_next()) continue;
        mc_desc("firstuse:carquet_dispatch_%s;carquet_init-before=%d", EN[w], init); mc_case_key(mc_mix(0xf1a6, ((uint64_t)w << 1) | (uint64_t)init)); mc_nontrivial(); mc_feature("first-use");
        char cmd[600]; snprintf(cmd, sizeof cmd, "%s --firstuse %d %d 2>&1", g_self, w, init); FILE* p = popen(cmd, "r"); char fresh[120] = ""; size_t k = p ? fread(fresh, 1, sizeof fresh - 1, p) : 0; fresh[k] = 0; int rc = p ? pclose(p) : -1;
        char warm[120]; { int pfd[2]; if (pipe(pfd)) mc_harness_error("pipe"); fflush(stdout); int so = dup(1); dup2(pfd[1], 1); firstuse_child(w, 1); fflush(stdout); dup2(so, 1); close(so); close(pfd[1]); ssize_t n = read(pfd[0], warm, sizeof warm - 1); close(pfd[0]); warm[n > 0 ? n : 0] = 0; }
        if (rc != 0 || strcmp(fresh, warm)) mc_fail("first-use.dispatch-wrapper", "carquet_dispatch_%s as the first library call of a process (carquet_init before it: %d) gives [%s] (exit status 0x%x); later in a process [%s]", EN[w], init, fresh, rc, warm);
    }
}

/* ---- select mode: the kernel the dispatcher selects for EVERY capability set (all 256 subsets of the 8 x86 feature flags), identified by address, never executed:
 * a kernel of the SSE tier needs sse4.2, one of the AVX2 tier avx2 (the objects are compiled with -mavx2), one of the AVX-512 tier avx512f AND bw AND vl
 * (compiled with -mavx512f -mavx512bw -mavx512vl); a CPU or hypervisor may report any subset */
const void* carquet_verif_dispatch_entry(int i);
static void select_mode(void) {
    static const char* EN[] = { "prefix_sum_i32", "prefix_sum_i64", "gather_i32", "gather_i64", "gather_float", "gather_double", "byte_split_encode_float", "byte_split_decode_float", "byte_split_encode_double", "byte_split_decode_double",
                                "unpack_bools", "pack_bools", "find_run_length_i32", "crc32c", "match_copy", "match_length", "count_non_nulls", "build_null_bitmap", "fill_def_levels" };
    mc_rule("C15 (selection): for each of the 256 subsets of {sse4.1, sse4.2, avx, avx2, avx512f, avx512bw, avx512vl, avx512vbmi} reported by carquet_get_cpu_info (verification hook CARQUET_VERIF_CPU_MASK, one fresh process per subset), "
            "every entry of the dispatch table is identified by address among the exported kernels; a selected kernel must belong to a tier whose instruction sets are all in the subset. "
            "The kernels are not executed here (the host has every feature); their results are checked in the direct and dispatch modes.");
    mc_stage("select.every-capability-subset");
    for (int mask = 0; mask < 256; mask++) {
        if (!mc_next()) continue;
        mc_desc("select:mask=0x%02x (sse41=%d sse42=%d avx=%d avx2=%d avx512f=%d bw=%d vl=%d vbmi=%d)", mask, mask & 1, (mask >> 1) & 1, (mask >> 2) & 1, (mask >> 3) & 1, (mask >> 4) & 1, (mask >> 5) & 1, (mask >> 6) & 1, (mask >> 7) & 1);
        mc_case_key(mc_mix(0x5e1, (uint64_t)mask)); mc_nontrivial(); mc_feature("dispatch.select");
        int pfd[2]; if (pipe(pfd)) mc_harness_error("pipe"); pid_t pid = fork(); if (pid < 0) mc_harness_error("fork");
        if (pid == 0) { close(pfd[0]); char mv[16]; snprintf(mv, sizeof mv, "%x", mask); setenv("CARQUET_VERIF_CPU_MASK", mv, 1); unsetenv("CARQUET_VERIF_CPU_CAP");
            const carquet_cpu_info_t* ci = carquet_get_cpu_info(); unsigned char rep[32]; memset(rep, 0, sizeof rep);
            rep[0] = (unsigned char)((ci->has_sse41 ? 1 : 0) | (ci->has_sse42 ? 2 : 0) | (ci->has_avx ? 4 : 0) | (ci->has_avx2 ? 8 : 0) | (ci->has_avx512f ? 16 : 0) | (ci->has_avx512bw ? 32 : 0) | (ci->has_avx512vl ? 64 : 0) | (ci->has_avx512vbmi ? 128 : 0));
            for (int e = 0; e < 19; e++) { const void* p = carquet_verif_dispatch_entry(e); int tier = p ? 0 : 9; for (int k = 0; p && k < NKERN; k++) if ((const void*)KERNELS[k].fn == p) { tier = !strcmp(KERNELS[k].isa, "sse") ? 1 : !strcmp(KERNELS[k].isa, "avx2") ? 2 : !strcmp(KERNELS[k].isa, "avx512") ? 3 : 0; break; } rep[1 + e] = (unsigned char)tier; }
            if (write(pfd[1], rep, 32) != 32) _exit(3); _exit(0); }
        close(pfd[1]); unsigned char rep[32]; ssize_t got = read(pfd[0], rep, 32); close(pfd[0]); int st = 0; waitpid(pid, &st, 0);
        if (got != 32 || !WIFEXITED(st) || WEXITSTATUS(st)) { mc_fail("select.child-died", "mask 0x%02x: the process that initialises the dispatcher died (status 0x%x)", mask, st); continue; }
        if (rep[0] != (unsigned char)mask) mc_harness_error("CARQUET_VERIF_CPU_MASK=%x not applied: carquet_get_cpu_info reports 0x%02x (the host lacks a feature, or the hook is missing)", mask, rep[0]);
        for (int e = 0; e < 19; e++) { int tier = rep[1 + e]; bool ok = tier == 0 || (tier == 1 && (mask & 2)) || (tier == 2 && (mask & 8)) || (tier == 3 && (mask & 16) && (mask & 32) && (mask & 64));
            if (tier == 9) mc_fail("select.null-entry", "mask 0x%02x: dispatch entry %s is NULL", mask, EN[e]);
            else if (!ok) { char key[96]; snprintf(key, sizeof key, "select.kernel-needs-features-the-cpu-lacks.%s-tier", tier == 1 ? "sse" : tier == 2 ? "avx2" : "avx512");
                mc_fail(key, "capability set 0x%02x (sse42=%d avx=%d avx2=%d avx512f=%d bw=%d vl=%d): entry %s is the %s kernel, whose object is compiled for %s", mask, (mask >> 1) & 1, (mask >> 2) & 1, (mask >> 3) & 1, (mask >> 4) & 1, (mask >> 5) & 1, (mask >> 6) & 1, EN[e],
                        tier == 1 ? "SSE" : tier == 2 ? "AVX2" : "AVX-512", tier == 1 ? "sse4.2" : tier == 2 ? "avx2" : "avx512f+avx512bw+avx512vl"); break; } }
        mc_count("select.entries-identified", 19);
    }
}

static void enumerate(void) {
    if (!strcmp(mc_mode(), "select")) { select_mode(); firstuse_mode(); return; }
    /* a previous child of this shard died inside a kernel: remember which one */
    if (HS->pending >= 0) { HS->crashes[HS->pending]++; HS->pending = -1; }
    static int inited;
    if (!inited) { for (int i = 0; i < 3; i++) mc_arena_init(&AR[i], 2 * BUFMAX); inited = 1; }
    DISPATCH = !strcmp(mc_mode(), "dispatch");
    if (!DISPATCH && strcmp(mc_mode(), "direct")) mc_harness_error("--mode direct|dispatch required");
    NMIS = 0;
    if (mc_thorough()) for (int i = 0; i < 64; i++) MIS[NMIS++] = i;
    else for (size_t i = 0; i < sizeof MIS_Q / sizeof MIS_Q[0]; i++) MIS[NMIS++] = MIS_Q[i];
    mc_rule("C15. One case = (kernel, element count, input pattern, T/H placement of every buffer, misalignment parameter m0 of buffer 0); inside a case the "
            "misalignment m1 of buffer 1 runs over the tier's set (for single-buffer kernels m0 does), a third buffer (gather dictionary) gets a derived m. "
            "Counts 0..70 (bool pack/unpack 0..140, memcpy/memset 0..530, bit unpackers: their fixed count); m in {0,1,2,3,4,5,7,8,9,15,16,17,31,32,33,47,48,63} (quick) / 0..63 (thorough); "
            "(m0,m1) full cross product for count <= 70 (thorough 140), axis-wise (m,0),(0,m),(m,m) above. Placement T(m): array ends m bytes before a PROT_NONE page "
            "(m = 0: exactly at it), H(m): array starts m bytes after one; the other side and the m slack bytes are canaries. Every call is compared with the scalar "
            "definition in ref/ref_simd.c (outputs bytewise, NaN payloads included; return values; inputs unmodified; canaries intact); an access beyond the guard "
            "is a SIGSEGV recorded as crash.SIGSEGV.<symbol>.<isa>.<kernel>. Mode direct: all 59 exported carquet_{sse,avx2,avx512}_* kernels (24+19+16; the "
            "inventory case lists the executable's symbol table and reports any exported kernel missing from the table as unchecked.<symbol>; counters "
            "kernels.exported / kernels.checked). Mode dispatch: the 19 carquet_dispatch_* wrappers under CARQUET_VERIF_CPU_CAP = scalar, sse42, avx2, avx512 "
            "(one process set each; dispatch.wrappers.exported / .checked are summed over the 4 caps = 76). Non-trivial = element count > 0 (bit unpackers always); "
            "distinctness by (mode, kernel, count, pattern, sides, m0) key. kernel.calls counts individual kernel invocations.");
    mc_assume("domains: pack_bools inputs in {0,1}; gather indices < dictionary size (< 2^31); build_null_bitmap destination pre-zeroed (as its only caller does with calloc); "
              "match_copy is called with src == dst - offset, offset >= 1, inside one buffer; match_length may read match[0 .. limit-p) completely; memcpy buffers do not overlap");
    mc_assume("the host CPU executes SSE4.2, AVX2+BMI2 and AVX-512F/BW/VL natively, so every variant is run directly; which variant the dispatcher installs for a capability set this host does not have is checked by address in mode select");
    if (DISPATCH) {
        const char* c = getenv("CARQUET_VERIF_CPU_CAP"); CAP = c ? c : "";
        cap_check();
    } else {
        if (!(__builtin_cpu_supports("sse4.2") && __builtin_cpu_supports("avx2") && __builtin_cpu_supports("bmi2") && __builtin_cpu_supports("avx512f") &&
              __builtin_cpu_supports("avx512bw") && __builtin_cpu_supports("avx512vl")))
            mc_harness_error("host CPU cannot execute all ISA variants (needs SSE4.2, AVX2, BMI2, AVX-512F/BW/VL)");
    }
    inventory();
    inplace_gather(DISPATCH);
    for (int ki = 0; ki < NKERN; ki++)
        if ((strcmp(KERNELS[ki].isa, "dispatch") == 0) == (DISPATCH != 0)) run_kernel(ki);
}

int main(int argc, char** argv) {
    HS = mmap(NULL, sizeof *HS, PROT_READ | PROT_WRITE, MAP_SHARED | MAP_ANONYMOUS, -1, 0);
    if (HS == MAP_FAILED) { perror("mmap"); return 3; }
    memset(HS, 0, sizeof *HS); HS->pending = -1;
    if (argc == 4 && !strcmp(argv[1], "--firstuse")) return firstuse_child(atoi(argv[2]), atoi(argv[3]));
    if (readlink("/proc/self/exe", g_self, sizeof g_self - 1) <= 0) snprintf(g_self, sizeof g_self, "%s", argv[0]);
    return mc_main(argc, argv, "simd", enumerate);
}
