/* reftbl.h — builds small Parquet files with the reference writer (ref_pq) for
 * the reader-side harnesses (C02, C03, C06, C14, C16, C17, C18, C19, C04). */
#ifndef REFTBL_H
#define REFTBL_H
#include "ref/ref.h"
#include "ref/ref_pq.h"
#define RF_MAXC 4
typedef struct {
    int ncols;
    struct { int ptype, tlen, opt; const char* name; } col[RF_MAXC];
    int N;                               /* rows per row group */
    int nrg;                             /* row groups (same shape each; rows offset by rg*N) */
    uint64_t mask[RF_MAXC];              /* bit r set => row r null (opt columns) */
    int npages[RF_MAXC]; int page_levels[RF_MAXC][8];   /* 0 pages => single page */
    int enc[RF_MAXC];                    /* ENC_PLAIN / ENC_PLAIN_DICT / ENC_RLE_DICT / ... */
    int codec; bool crc; int level_form, index_form, index_bw_extra; int pattern;
    bool dict_offset_present; bool data_offset_at_dict; bool v2; int level_encoding;
    ref_file_layout fl;
} rfile_t;
void rf_value(int ptype, int tlen, int ci, int row, int pattern, uint8_t* out, ref_str* s);
void rf_column(ref_arena* a, const rfile_t* f, int ci, int rg, ref_coldata* out);
/* returns 0 and fills img/pages; cols_out[rg*ncols+ci] = expected column data */
int rf_build(ref_arena* a, const rfile_t* f, ref_buf* img, ref_pageinfo* pages, int maxpages, int* npages, ref_coldata* cols_out);
const char* rf_desc(const rfile_t* f);
#endif
