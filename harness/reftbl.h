/* reftbl.h — builds small Parquet files with the reference writer (ref_pq) for
 * the reader-side harnesses (C02, C03, C06, C14, C16, C17, C18, C19, C04). */
#ifndef REFTBL_H
#define REFTBL_H
#include "ref/ref.h"
#include "ref/ref_pq.h"
#define RF_MAXC 4
typedef struct {
    int ncols;
    struct { int ptype, tlen, opt; const char* name; } col[RF_MAXC];
    int N;                               /* rows per row group */
    int nrg;                             /* row groups (same shape each; rows offset by rg*N); -1 = a file without row groups (footer right after the magic) */
    uint64_t mask[RF_MAXC];              /* bit r set => row r null (opt columns) */
    int npages[RF_MAXC]; int page_levels[RF_MAXC][8];   /* 0 pages => single page */
    int uniform_page[RF_MAXC];           /* > 0: pages of this many level entries each (any number of pages) */
    unsigned plain_pages[RF_MAXC];       /* dictionary chunks: bit p => page p is PLAIN */
    int enc[RF_MAXC];                    /* ENC_PLAIN / ENC_PLAIN_DICT / ENC_RLE_DICT / ... */
    int ctx[RF_MAXC];                    /* nesting context of the leaf (RF_CTX_*); 0 = flat, repetition from .opt */
    const int16_t* defs[RF_MAXC]; const int16_t* reps[RF_MAXC];   /* explicit levels (N entries) for nested contexts */
    const ref_stats* chunk_stats[RF_MAXC]; const ref_stats* page_stats[RF_MAXC];
    int codec; bool crc; int level_form, index_form, index_bw_extra; int pattern;
    bool dict_offset_present; bool data_offset_at_dict; bool v2; int level_encoding; bool absent_levels_bit_packed;
    int logical[RF_MAXC];               /* 0 none; k >= 1: the k-th logical-type annotation that fits the column's physical type (see rf_logical) */
    ref_file_layout fl;
} rfile_t;
/* nesting contexts: chain of groups above the leaf */
enum { RF_CTX_FLAT = 0, RF_CTX_OPTGROUP_REQ, RF_CTX_OPTGROUP_OPT, RF_CTX_REPEATED_LEAF, RF_CTX_LIST3, RF_CTX_REP_REP, RF_CTX_REQGROUP_OPTGROUP_REP, RF_NCTX };
void rf_ctx_levels(int ctx, int opt, int* max_def, int* max_rep, int thresholds[3]);   /* thresholds[k-1] = def level at which repeated node k is non-empty */
void rf_value(int ptype, int tlen, int ci, int row, int pattern, uint8_t* out, ref_str* s);
void rf_column(ref_arena* a, const rfile_t* f, int ci, int rg, ref_coldata* out);
/* returns 0 and fills img/pages; cols_out[rg*ncols+ci] = expected column data */
int rf_build(ref_arena* a, const rfile_t* f, ref_buf* img, ref_pageinfo* pages, int maxpages, int* npages, ref_coldata* cols_out);
const char* rf_desc(const rfile_t* f);
#endif
