/* c16.c — C16: statistics are true bounds and pruning never discards matching
 * data.  (a) statistics builder, (b) page-header statistics carquet writes,
 * (c) row-group pruning on reference-written files whose statistics are true
 * bounds, (d) compare / range-overlap / page-might-match helpers. */
#define _GNU_SOURCE
#include "tbl.h"
#include "reftbl.h"
#include "thrift/parquet_types.h"
#include <math.h>

static ref_arena RA;

/* exported by the library, no header */
typedef struct carquet_statistics_builder carquet_statistics_builder_t;
carquet_statistics_builder_t* carquet_statistics_builder_create(carquet_physical_type_t type, int32_t type_length);
void carquet_statistics_builder_destroy(carquet_statistics_builder_t* b);
void carquet_statistics_add_nulls(carquet_statistics_builder_t* b, int64_t count);
carquet_status_t carquet_statistics_add_values(carquet_statistics_builder_t* b, const void* values, int64_t n);
carquet_status_t carquet_statistics_add_byte_arrays(carquet_statistics_builder_t* b, const carquet_byte_array_t* values, int64_t n);
carquet_status_t carquet_statistics_build(const carquet_statistics_builder_t* b, carquet_arena_t* arena, parquet_statistics_t* stats);
carquet_status_t carquet_statistics_compare(const parquet_statistics_t* stats, carquet_physical_type_t type, const void* value, size_t value_len, int* result);
carquet_status_t carquet_statistics_range_overlaps(const parquet_statistics_t* stats, carquet_physical_type_t type, const void* min_value, const void* max_value, size_t value_len, bool* overlaps);
typedef struct carquet_column_index_builder carquet_column_index_builder_t;
carquet_column_index_builder_t* carquet_column_index_builder_create(carquet_physical_type_t type, int32_t type_length);
void carquet_column_index_builder_destroy(carquet_column_index_builder_t* b);
carquet_status_t carquet_column_index_add_page(carquet_column_index_builder_t* b, int64_t null_count, const void* min_value, int32_t min_len, const void* max_value, int32_t max_len, bool is_null_page);
carquet_status_t carquet_column_index_page_might_match(const carquet_column_index_builder_t* b, int32_t page, const void* min_value, const void* max_value, int32_t value_len, bool* might);

/* ---- reference order --------------------------------------------------------------------- */
typedef struct { uint8_t b[304]; int n; } val_t;       /* a value in PLAIN form (byte arrays: raw bytes) */
static bool is_nan(int pt, const val_t* v) { if (pt == PT_FLOAT) { float f; memcpy(&f, v->b, 4); return isnan(f); } if (pt == PT_DOUBLE) { double d; memcpy(&d, v->b, 8); return isnan(d); } return false; }
static int ref_cmp(int pt, const val_t* a, const val_t* b) {
    switch (pt) {
    case PT_BOOLEAN: return (a->b[0] > b->b[0]) - (a->b[0] < b->b[0]);
    case PT_INT32: { int32_t x, y; memcpy(&x, a->b, 4); memcpy(&y, b->b, 4); return (x > y) - (x < y); }
    case PT_INT64: { int64_t x, y; memcpy(&x, a->b, 8); memcpy(&y, b->b, 8); return (x > y) - (x < y); }
    case PT_FLOAT: { float x, y; memcpy(&x, a->b, 4); memcpy(&y, b->b, 4); return (x > y) - (x < y); }
    case PT_DOUBLE: { double x, y; memcpy(&x, a->b, 8); memcpy(&y, b->b, 8); return (x > y) - (x < y); }
    case PT_INT96: { for (int w = 2; w >= 0; w--) { uint32_t x, y; memcpy(&x, a->b + 4 * w, 4); memcpy(&y, b->b + 4 * w, 4); if (x != y) return x > y ? 1 : -1; } return 0; }      /* the order carquet documents for its INT96 statistics: (day, nanoseconds) as three unsigned words, high to low */
    default: { int m = a->n < b->n ? a->n : b->n; int c = memcmp(a->b, b->b, (size_t)m); if (c) return c < 0 ? -1 : 1; return (a->n > b->n) - (a->n < b->n); }
    }
}
static int pool_of(int pt, int tlen, val_t* out) {
    int n = 0; memset(out, 0, sizeof(val_t) * 12);
    switch (pt) {
    case PT_BOOLEAN: out[0].b[0] = 0; out[1].b[0] = 1; out[0].n = out[1].n = 1; return 2;
    case PT_INT32: { static const int32_t P[] = { 0, 1, -1, INT32_MIN, INT32_MAX, 256, 255 }; for (n = 0; n < 7; n++) { memcpy(out[n].b, &P[n], 4); out[n].n = 4; } return 7; }
    case PT_INT64: { static const int64_t P[] = { 0, 1, -1, INT64_MIN, INT64_MAX, 4294967296LL, 255 }; for (n = 0; n < 7; n++) { memcpy(out[n].b, &P[n], 8); out[n].n = 8; } return 7; }
    case PT_INT96: for (n = 0; n < 4; n++) { out[n].n = 12; out[n].b[n == 0 ? 0 : n == 1 ? 4 : n == 2 ? 8 : 11] = (uint8_t)(n + 1); }
        out[4].n = 12; out[4].b[0] = 9; out[5].n = 12; out[5].b[3] = 0x80; out[6].n = 12; out[6].b[4] = 2; out[6].b[0] = 7; return 7;      /* 4, 5: differ from value 0 in the low word only; 6: same middle word as value 1, other low word */
    case PT_FLOAT: { static const uint32_t P[] = { 0x00000000u, 0x80000000u, 0x3f800000u, 0xbf800000u, 0x7f800000u, 0xff800000u, 0x7fc00000u }; for (n = 0; n < 7; n++) { memcpy(out[n].b, &P[n], 4); out[n].n = 4; } return 7; }
    case PT_DOUBLE: { static const uint64_t P[] = { 0, 0x8000000000000000ull, 0x3ff0000000000000ull, 0xbff0000000000000ull, 0x7ff0000000000000ull, 0xfff0000000000000ull, 0x7ff8000000000000ull }; for (n = 0; n < 7; n++) { memcpy(out[n].b, &P[n], 8); out[n].n = 8; } return 7; }
    case PT_FLBA: if (tlen == 8) { static const char* S8[] = { "AB000001", "BA000000", "AB000002", "zzzzzzzz", "\x01\x00\x00\x00\x00\x00\x00\x02" }; for (n = 0; n < 5; n++) { out[n].n = 8; memcpy(out[n].b, S8[n], 8); } return 5; }
        for (n = 0; n < 5; n++) { out[n].n = tlen; memset(out[n].b, n == 0 ? 0x00 : n == 1 ? 0xff : n == 2 ? 0x7f : n == 3 ? 0x80 : 0x01, (size_t)tlen); if (n == 4 && tlen > 1) out[n].b[tlen - 1] = 0xfe; } return 5;
    default: { static const char* S[] = { "", "a", "ab", "b", "\xff", "\x80z", "AB000001", "BA000000", "AB000001x" }; for (n = 0; n < 9; n++) { out[n].n = (int)strlen(S[n]); memcpy(out[n].b, S[n], (size_t)out[n].n); } out[9].n = 257; memset(out[9].b, 'z', 257); return 10; }     /* 8+ byte values whose first 8 bytes order differently as little-endian integers */
    }
}

/* ---- (a) builder ---------------------------------------------------------------------------- */
static void check_bounds(int pt, const val_t* vals, int nv, int64_t nulls, const uint8_t* mn, int mnl, const uint8_t* mx, int mxl, bool has_nc, int64_t nc, const char* ctx, const char* area) {
    char key[160];
    if (has_nc && nc != nulls) { snprintf(key, sizeof key, "%s.null-count", area); mc_fail(key, "%s: null_count %lld, %lld nulls were added", ctx, (long long)nc, (long long)nulls); }
    val_t lo, hi; int all_nan = 1; for (int i = 0; i < nv; i++) if (!is_nan(pt, &vals[i])) all_nan = 0;
    if (mn && mnl > 0) { memset(&lo, 0, sizeof lo); lo.n = mnl; memcpy(lo.b, mn, (size_t)(mnl > 304 ? 304 : mnl));
        if (is_nan(pt, &lo) && !all_nan && nv) { snprintf(key, sizeof key, "%s.min-is-nan", area); mc_fail(key, "%s: min is NaN although non-NaN values were added", ctx); }
        else for (int i = 0; i < nv; i++) if (!is_nan(pt, &vals[i]) && !is_nan(pt, &lo) && ref_cmp(pt, &lo, &vals[i]) > 0) { snprintf(key, sizeof key, "%s.min-not-a-lower-bound.%s", area, pt == PT_BYTE_ARRAY && vals[i].n > 256 ? "value-longer-than-256" : pt == PT_FLBA ? "flba" : "value"); mc_fail(key, "%s: min %s exceeds value %s", ctx, mc_hex(mn, (size_t)mnl, 12), mc_hex(vals[i].b, (size_t)vals[i].n, 12)); break; } }
    if (mx && mxl > 0) { memset(&hi, 0, sizeof hi); hi.n = mxl; memcpy(hi.b, mx, (size_t)(mxl > 304 ? 304 : mxl));
        if (!is_nan(pt, &hi)) for (int i = 0; i < nv; i++) if (!is_nan(pt, &vals[i]) && ref_cmp(pt, &hi, &vals[i]) < 0) { snprintf(key, sizeof key, "%s.max-not-an-upper-bound.%s", area, pt == PT_BYTE_ARRAY && vals[i].n > 256 ? "value-longer-than-256" : pt == PT_FLBA ? "flba" : "value"); mc_fail(key, "%s: max %s is below value %s", ctx, mc_hex(mx, (size_t)mxl, 12), mc_hex(vals[i].b, (size_t)vals[i].n, 12)); break; } }
}
static void stage_builder(void) {
    mc_stage("a.statistics-builder.all-short-sequences.all-compositions");
    static const struct { int pt, tl; } TY[] = { { PT_BOOLEAN, 0 }, { PT_INT32, 0 }, { PT_INT64, 0 }, { PT_INT96, 0 }, { PT_FLOAT, 0 }, { PT_DOUBLE, 0 }, { PT_BYTE_ARRAY, 0 }, { PT_FLBA, 3 }, { PT_FLBA, 300 }, { PT_FLBA, 8 } };
    int L = mc_thorough() ? 6 : 5; val_t pool[12];
    for (int t = 0; t < 10; t++) { int np = pool_of(TY[t].pt, TY[t].tl, pool);
        for (int n = 0; n <= (np > 8 && L > 4 && !mc_thorough() ? 4 : L); n++) { long tot = 1; for (int i = 0; i < n; i++) tot *= np;
            for (long code = 0; code < tot; code++) for (uint32_t comp = 0; comp < (n > 0 ? (1u << (n - 1)) : 1); comp++) for (int nullmode = 0; nullmode < 3; nullmode++) {
                if (!mc_next()) continue;
                val_t vals[8]; long v = code; for (int i = 0; i < n; i++) { vals[i] = pool[v % np]; v /= np; }
                char ctx[200]; snprintf(ctx, sizeof ctx, "type=%d/%d n=%d code=%ld comp=0x%x nulls=%d", TY[t].pt, TY[t].tl, n, code, comp, nullmode);
                mc_desc("c16a:%s", ctx); mc_case_key(mc_mix(0x16a, ((uint64_t)t << 56) | ((uint64_t)n << 48) | ((uint64_t)code << 16) | ((uint64_t)comp << 4) | (uint64_t)nullmode)); if (n >= 2) mc_nontrivial();
                carquet_statistics_builder_t* b = carquet_statistics_builder_create((carquet_physical_type_t)TY[t].pt, TY[t].tl); if (!b) { mc_fail("builder.create-null", "%s", ctx); continue; }
                int parts[8]; int npart = n ? mc_composition(n, comp, parts) : 0; int pos = 0; int64_t nulls = 0; bool refused = false;
                if (nullmode == 1) { carquet_statistics_add_nulls(b, 2); nulls += 2; }
                for (int p = 0; p < npart; p++) {
                    if (TY[t].pt == PT_BYTE_ARRAY) { carquet_byte_array_t* ba = mc_exact(NULL, sizeof(carquet_byte_array_t) * (size_t)parts[p]); uint8_t* own[8]; for (int i = 0; i < parts[p]; i++) { own[i] = mc_exact(vals[pos + i].b, (size_t)vals[pos + i].n); ba[i].data = own[i]; ba[i].length = vals[pos + i].n; }
                        if (carquet_statistics_add_byte_arrays(b, ba, parts[p]) != CARQUET_OK) refused = true; for (int i = 0; i < parts[p]; i++) free(own[i]); free(ba); }
                    else { int w = vals[0].n; uint8_t* buf = mc_exact(NULL, (size_t)w * (size_t)parts[p]); for (int i = 0; i < parts[p]; i++) memcpy(buf + i * w, vals[pos + i].b, (size_t)w); if (carquet_statistics_add_values(b, buf, parts[p]) != CARQUET_OK) refused = true; free(buf); }
                    pos += parts[p]; if (nullmode == 2) { carquet_statistics_add_nulls(b, 1); nulls++; }
                }
                parquet_statistics_t st; carquet_arena_t ar; carquet_arena_init(&ar);
                if (refused) mc_count("builder.add-refused", 1);
                else if (carquet_statistics_build(b, &ar, &st) != CARQUET_OK) mc_count("builder.build-refused", 1);
                else check_bounds(TY[t].pt, vals, n, nulls, st.min_value, st.min_value_len, st.max_value, st.max_value_len, st.has_null_count, st.null_count, ctx, "builder");
                carquet_arena_destroy(&ar); carquet_statistics_builder_destroy(b);
            } } }
}

/* ---- (b) page-header statistics written by carquet ------------------------------------------- */
static void stage_page_stats(void) {
    mc_stage("b.page-header-statistics.carquet-writer");
    static const int KIND[] = { 0, 1, 6, 7, 8, 9, 10, 11 }; int N = 5;
    for (int ki = 0; ki < 8; ki++) for (uint64_t m = 0; m < (TBL_KINDS[KIND[ki]].opt ? (1u << N) : 1); m++) for (uint32_t comp = 0; comp < (1u << (N - 1)); comp++) for (int ps = 0; ps < 3; ps += 2) for (int pat = 0; pat < 3; pat++) {
        if (!mc_next()) continue;
        hist_t h; memset(&h, 0, sizeof h); h.ncols = 1; h.cols[0] = TBL_KINDS[KIND[ki]]; h.N = N; h.mask[0] = m; h.comp[0] = comp; h.nrg = 1; h.rg_rows[0] = N; h.page_sel = ps; h.pattern = pat;
        mc_desc("c16b:%s", tbl_desc(&h)); mc_case_key(mc_mix(0x16b, ((uint64_t)ki << 40) | (m << 16) | ((uint64_t)comp << 8) | ((uint64_t)ps << 4) | (uint64_t)pat)); mc_nontrivial();
        uint8_t* img; size_t len; carquet_status_t st; const char* where; if (tbl_write(&h, &img, &len, &st, &where)) { mc_count("writer-refused", 1); continue; }
        ref_file rf; if (ref_pq_read(&RA, img, len, &rf, 0)) { mc_fail("page-stats.ref-reader-rejects-file", "%s", rf.err); free(img); ref_arena_free(&RA); continue; }
        const ref_coldata* c = &rf.cols[0]; int w = ref_type_width(c->ptype, 0);
        for (int p = 0; p < rf.npages; p++) {
            ref_tval pt; ref_page_header ph; if (ref_thrift_decode(&RA, img + rf.pages[p].header_off, rf.pages[p].body_off - rf.pages[p].header_off, &pt, NULL) || ref_meta_page_from_tree(&RA, &pt, &ph) || !ph.has_dph) continue;
            if (!ph.dph.has_stats) { mc_count("pages.without-statistics", 1); continue; }
            mc_count("pages.with-statistics", 1);
            val_t vals[8]; int nv = 0; int64_t nulls = 0, v0 = 0; for (int64_t r = 0; r < rf.pages[p].first_level; r++) if (!c->max_def || c->def[r] == c->max_def) v0++;
            for (int64_t r = 0; r < rf.pages[p].nlevels; r++) { if (c->max_def && c->def[rf.pages[p].first_level + r] != c->max_def) { nulls++; continue; } memset(&vals[nv], 0, sizeof(val_t)); vals[nv].n = w; memcpy(vals[nv].b, c->fixed + (v0 + nv) * w, (size_t)w); nv++; }
            char ctx[300]; snprintf(ctx, sizeof ctx, "%s page#%d", tbl_desc(&h), p); const ref_stats* s = &ph.dph.stats;
            const ref_bin* mn = s->min_value.present ? &s->min_value : &s->min; const ref_bin* mx = s->max_value.present ? &s->max_value : &s->max;
            check_bounds(c->ptype, vals, nv, nulls, mn->present ? mn->p : NULL, mn->present ? mn->n : 0, mx->present ? mx->p : NULL, mx->present ? mx->n : 0, s->has_null_count, s->null_count, ctx, "page-stats");
        }
        free(img); ref_arena_free(&RA);
    }
}

/* ---- (c) pruning ------------------------------------------------------------------------------- */
static bool row_matches(int pt, const val_t* x, int op, const val_t* probe) {
    if (is_nan(pt, probe) || is_nan(pt, x)) return op == 1;        /* comparisons with NaN are false, != is true */
    int c = ref_cmp(pt, x, probe);
    switch (op) { case 0: return c == 0; case 1: return c != 0; case 2: return c < 0; case 3: return c <= 0; case 4: return c > 0; default: return c >= 0; }
}
static void widen(int pt, val_t* v, int dir) {      /* make a bound looser (still a bound) */
    switch (pt) {
    case PT_INT32: { int32_t x; memcpy(&x, v->b, 4); if (dir < 0 && x > INT32_MIN) x--; if (dir > 0 && x < INT32_MAX) x++; memcpy(v->b, &x, 4); break; }
    case PT_INT64: { int64_t x; memcpy(&x, v->b, 8); if (dir < 0 && x > INT64_MIN) x--; if (dir > 0 && x < INT64_MAX) x++; memcpy(v->b, &x, 8); break; }
    case PT_FLOAT: { float x; memcpy(&x, v->b, 4); x = dir < 0 ? nextafterf(x, -INFINITY) : nextafterf(x, INFINITY); memcpy(v->b, &x, 4); break; }
    case PT_DOUBLE: { double x; memcpy(&x, v->b, 8); x = dir < 0 ? nextafter(x, -INFINITY) : nextafter(x, INFINITY); memcpy(v->b, &x, 8); break; }
    case PT_BYTE_ARRAY: if (dir < 0) { if (v->n > 0) v->n--; } else { v->b[v->n++] = 0x00; } break;
    default: { bool all0 = true, allf = true; for (int i = 0; i < v->n; i++) { if (v->b[i]) all0 = false; if (v->b[i] != 0xff) allf = false; }      /* saturating big-endian +-1 */
        if (dir < 0 && !all0) { for (int i = v->n - 1; i >= 0; i--) { if (v->b[i] > 0) { v->b[i]--; break; } v->b[i] = 0xff; } }
        if (dir > 0 && !allf) { for (int i = v->n - 1; i >= 0; i--) { if (v->b[i] < 0xff) { v->b[i]++; break; } v->b[i] = 0; } } break; }
    }
}
static void stage_pruning(void) {
    mc_stage("c.row-group-pruning.reference-files.all-operators.all-probes");
    static const struct { int pt, tl; } TY[] = { { PT_INT32, 0 }, { PT_INT64, 0 }, { PT_FLOAT, 0 }, { PT_DOUBLE, 0 }, { PT_BYTE_ARRAY, 0 }, { PT_FLBA, 2 } };
    for (int nested = 0; nested < 2; nested++) for (int t = 0; t < 6; t++) for (int G = 1; G <= 4; G++) for (int layout = 0; layout < (G == 1 && !nested ? 6 + 729 : 6); layout++) for (int statmode = 0; statmode < 5; statmode++) for (int opt = 0; opt < 2; opt++) {
        /* nested: root { optional group g { required int32 pad; <the column> } }: the queried column is leaf 1, schema element 3 */
        /* statmode: 0 exact new fields, 1 widened, 2 deprecated fields (byte arrays: bounds in the unsigned byte order carquet compares in), 3 absent, 4 absent with NaN data (float types) */
        int pt = TY[t].pt; if (statmode == 4 && pt != PT_FLOAT && pt != PT_DOUBLE) continue;
        if (!mc_next()) continue;
        mc_desc("c16c:type=%d;groups=%d;layout=%d;stats=%d;opt=%d;nested=%d", pt, G, layout, statmode, opt, nested); mc_case_key(mc_mix(0x16c, ((uint64_t)nested << 48) | ((uint64_t)t << 40) | ((uint64_t)G << 32) | ((uint64_t)layout << 12) | ((uint64_t)statmode << 4) | (uint64_t)opt)); mc_nontrivial();
        const int QC = nested ? 1 : 0;      /* index of the queried column */
        /* data: 3 rows per group from a per-type ordered pool of 9 values; layout decides which values each group holds */
        val_t pool[16]; int np = 0; memset(pool, 0, sizeof pool);
        for (int i = 0; i < 9; i++) { val_t* v = &pool[np++];
            switch (pt) { case PT_INT32: { static const int32_t P[] = { INT32_MIN, -5, -1, 0, 1, 255, 256, 70000, INT32_MAX }; memcpy(v->b, &P[i], 4); v->n = 4; break; }
                          case PT_INT64: { static const int64_t P[] = { INT64_MIN, -5, -1, 0, 1, 255, 256, 4294967296LL, INT64_MAX }; memcpy(v->b, &P[i], 8); v->n = 8; break; }
                          case PT_FLOAT: { static const float P[] = { -INFINITY, -2.5f, -0.0f, 0.0f, 1e-30f, 1.0f, 256.0f, 3e38f, INFINITY }; memcpy(v->b, &P[i], 4); v->n = 4; break; }
                          case PT_DOUBLE: { static const double P[] = { -INFINITY, -2.5, -0.0, 0.0, 1e-300, 1.0, 256.0, 1e308, INFINITY }; memcpy(v->b, &P[i], 8); v->n = 8; break; }
                          case PT_BYTE_ARRAY: { static const char* P[] = { "", "a", "aa", "ab", "b", "ba", "\x7f", "\x80", "\xff\xff" }; v->n = (int)strlen(P[i]); memcpy(v->b, P[i], (size_t)v->n); break; }
                          default: { static const uint8_t P[][2] = { {0,0},{0,1},{0,255},{1,0},{0x7f,0xff},{0x80,0},{0x80,1},{0xff,0},{0xff,0xff} }; memcpy(v->b, P[i], 2); v->n = 2; break; } } }
        int pick[4][3];
        for (int g = 0; g < G; g++) for (int r = 0; r < 3; r++) { int i;
            if (layout >= 6) { int c = layout - 6; pick[g][r] = r == 0 ? c % 9 : r == 1 ? (c / 9) % 9 : c / 81; continue; }      /* G == 1: every 3-row content over the pool */
            switch (layout) { case 0: i = (g * 2 + r) % 9; break; case 1: i = (g * 3 + r * 2) % 9; break; case 2: i = (8 - g * 2 - r + 9) % 9; break; case 3: i = (g * 4) % 9; break; case 4: i = r == 1 ? 8 - g : g; break; default: i = (r * 4 + g) % 9; break; } pick[g][r] = i; }
        rfile_t f; memset(&f, 0, sizeof f); f.ncols = 1; f.col[0].ptype = pt; f.col[0].tlen = TY[t].tl; f.col[0].opt = opt; f.N = 3; f.nrg = 1; f.crc = true;
        /* build the file group by group through ref_pq_write directly (rfile_t has one shape per group) */
        ref_schema_elem sc[4]; memset(sc, 0, sizeof sc); int ns = 0; sc[ns].name = (ref_bin){ (const uint8_t*)"schema", 6, true }; sc[ns].has_num_children = true; sc[ns].num_children = 1; ns++;
        if (nested) { sc[ns].name = (ref_bin){ (const uint8_t*)"g", 1, true }; sc[ns].has_num_children = true; sc[ns].num_children = 2; sc[ns].has_rep = true; sc[ns].rep = 1; ns++; sc[ns].name = (ref_bin){ (const uint8_t*)"pad", 3, true }; sc[ns].has_type = true; sc[ns].type = PT_INT32; sc[ns].has_rep = true; sc[ns].rep = 0; ns++; }
        sc[ns].name = (ref_bin){ (const uint8_t*)"v", 1, true }; sc[ns].has_type = true; sc[ns].type = pt; sc[ns].has_rep = true; sc[ns].rep = opt; if (pt == PT_FLBA) { sc[ns].has_type_length = true; sc[ns].type_length = 2; } ns++;
        const int NLF = nested ? 2 : 1, MD = opt + nested; static int16_t paddef[4] = { 1, 1, 1, 1 }, padrep[4]; static uint8_t padval[16] = { 9 };
        ref_coldata colsall[8]; ref_chunk_layout Lall[8]; memset(colsall, 0, sizeof colsall); memset(Lall, 0, sizeof Lall); ref_coldata* cols[4]; ref_chunk_layout* L[4];
        ref_stats st[4]; int64_t rows[4]; memset(st, 0, sizeof st); static val_t lo[4], hi[4]; bool nan_row[4][3]; memset(nan_row, 0, sizeof nan_row);
        for (int g = 0; g < G; g++) {
            cols[g] = &colsall[g * NLF + QC]; L[g] = &Lall[g * NLF + QC];
            if (nested) { ref_coldata* pc = &colsall[g * NLF]; pc->ptype = PT_INT32; pc->max_def = 1; pc->nlevels = 3; pc->def = paddef; pc->rep = padrep; pc->nvalues = 3; pc->fixed = padval; Lall[g * NLF].crc = true; }
            ref_coldata* c = cols[g]; c->ptype = pt; c->type_length = TY[t].tl; c->max_def = MD; c->nlevels = 3; c->def = ref_alloc(&RA, 8); c->rep = ref_alloc(&RA, 8); c->fixed = ref_alloc(&RA, 64); c->strs = ref_alloc(&RA, sizeof(ref_str) * 4); rows[g] = 3;
            bool first = true;
            for (int r = 0; r < 3; r++) { bool null = opt && r == (g % 3); c->def[r] = (int16_t)(null ? MD - 1 : MD); if (null) continue; val_t v = pool[pick[g][r]];
                if (statmode == 4 && r == 2) { if (pt == PT_FLOAT) { float q = NAN; memcpy(v.b, &q, 4); } else { double q = NAN; memcpy(v.b, &q, 8); } nan_row[g][r] = true; }
                if (pt == PT_BYTE_ARRAY) { uint8_t* cp = ref_alloc(&RA, (size_t)v.n + 1); memcpy(cp, v.b, (size_t)v.n); c->strs[c->nvalues].p = cp; c->strs[c->nvalues].n = (uint32_t)v.n; } else memcpy(c->fixed + c->nvalues * v.n, v.b, (size_t)v.n);
                c->nvalues++;
                if (!is_nan(pt, &v)) { if (first || ref_cmp(pt, &v, &lo[g]) < 0) lo[g] = v; if (first || ref_cmp(pt, &v, &hi[g]) > 0) hi[g] = v; first = false; } }
            L[g]->crc = true;
            if (statmode <= 2 && !first) { if (statmode == 1) { widen(pt, &lo[g], -1); widen(pt, &hi[g], +1); }
                if (statmode == 2) { st[g].min = (ref_bin){ lo[g].b, lo[g].n, true }; st[g].max = (ref_bin){ hi[g].b, hi[g].n, true }; } else { st[g].min_value = (ref_bin){ lo[g].b, lo[g].n, true }; st[g].max_value = (ref_bin){ hi[g].b, hi[g].n, true }; }
                st[g].has_null_count = true; st[g].null_count = 3 - c->nvalues; L[g]->chunk_stats = &st[g]; }
        }
        ref_write_req rq; memset(&rq, 0, sizeof rq); rq.schema = sc; rq.nschema = ns; rq.nleaves = NLF; rq.nrg = G; rq.rg_rows = rows; rq.cols = colsall; rq.layouts = Lall; ref_buf img; ref_buf_init(&img);
        if (ref_pq_write(&RA, &rq, &img, NULL, 0, NULL)) mc_harness_error("reference writer failed");
        /* the file is opened from memory, through stdio or mapped, in turn (the stdio path parses the footer from a scratch block it frees: statistics must not point into it) */
        static unsigned g_open_turn; int omode = (int)(g_open_turn++ % 3); static char g_p16[300]; if (!g_p16[0]) { const char* sd = getenv("VERIF_SCRATCH"); snprintf(g_p16, sizeof g_p16, "%s/c16_%d.parquet", sd ? sd : "/dev/shm", (int)getpid()); }
        uint8_t* x = mc_exact(img.p, img.n); carquet_error_t err = CARQUET_ERROR_INIT; carquet_reader_t* rd;
        if (omode == 0) rd = carquet_reader_open_buffer(x, img.n, NULL, &err);
        else { FILE* pf = fopen(g_p16, "wb"); if (!pf || fwrite(img.p, 1, img.n, pf) != img.n) mc_harness_error("scratch write failed"); fclose(pf); carquet_reader_options_t ro; carquet_reader_options_init(&ro); ro.use_mmap = omode == 2; rd = carquet_reader_open(g_p16, &ro, &err); unlink(g_p16);
            { void* churn[8]; for (int q = 0; q < 8; q++) { churn[q] = malloc(64 + (size_t)q * 200); if (churn[q]) memset(churn[q], 0xC3, 64 + (size_t)q * 200); } for (int q = 0; q < 8; q++) free(churn[q]); } }      /* recycle freed blocks of footer size */
        if (!rd) { mc_fail("pruning.open-failed", "code %d %s", err.code, err.message); free(x); ref_buf_free(&img); ref_arena_free(&RA); continue; }
        /* probes: every pool value, its neighbours, beyond both extremes, NaN */
        val_t probes[40]; int npr = 0; for (int i = 0; i < 9; i++) { probes[npr++] = pool[i]; val_t a = pool[i]; widen(pt, &a, -1); probes[npr++] = a; a = pool[i]; widen(pt, &a, +1); probes[npr++] = a; }
        if (pt == PT_FLOAT) { float q = NAN; memset(&probes[npr], 0, sizeof(val_t)); memcpy(probes[npr].b, &q, 4); probes[npr++].n = 4; } if (pt == PT_DOUBLE) { double q = NAN; memset(&probes[npr], 0, sizeof(val_t)); memcpy(probes[npr].b, &q, 8); probes[npr++].n = 8; }
        for (int pi = 0; pi < npr; pi++) for (int op = 0; op < 6; op++) {
            bool truth[4], says[4]; int kept[4], nk = 0; uint8_t* pv = mc_exact(probes[pi].b, (size_t)probes[pi].n);
            for (int g = 0; g < G; g++) { truth[g] = false; int vi = 0; for (int r = 0; r < 3; r++) { if (opt && r == (g % 3)) continue; val_t xv; memset(&xv, 0, sizeof xv); if (pt == PT_BYTE_ARRAY) { xv.n = (int)cols[g]->strs[vi].n; memcpy(xv.b, cols[g]->strs[vi].p, (size_t)xv.n); } else { xv.n = probes[pi].n > 0 && pt != PT_BYTE_ARRAY ? ref_type_width(pt, TY[t].tl) : 0; memcpy(xv.b, cols[g]->fixed + vi * xv.n, (size_t)xv.n); } vi++; if (row_matches(pt, &xv, op, &probes[pi])) truth[g] = true; }
                bool mm = true; carquet_status_t s2 = carquet_reader_row_group_matches(rd, g, QC, (carquet_compare_op_t)op, pv, probes[pi].n, &mm); says[g] = s2 != CARQUET_OK ? true : mm; if (says[g]) kept[nk++] = g; mc_count(says[g] ? (truth[g] ? "groups.kept.matching" : "groups.kept.not-matching") : "groups.pruned", 1);
                if (truth[g] && !says[g]) { char key[160]; static const char* ON[] = { "eq", "ne", "lt", "le", "gt", "ge" }; static const char* SN[] = { "exact", "widened", "deprecated-fields", "absent", "absent-nan-data" };
                    snprintf(key, sizeof key, "pruning.false-negative.%s.%s.%s", ON[op], is_nan(pt, &probes[pi]) ? "nan-probe" : "probe", SN[statmode]); mc_fail(key, "type=%d group %d of %d: a row matches (x %s %s) but row_group_matches says no match; stats [%s, %s]", pt, g, G, ON[op], mc_hex(probes[pi].b, (size_t)probes[pi].n, 10), mc_hex(lo[g].b, (size_t)lo[g].n, 10), mc_hex(hi[g].b, (size_t)hi[g].n, 10)); }
                if (statmode >= 3 && !says[g]) mc_fail("pruning.absent-statistics-pruned", "type=%d group %d: no statistics, yet row_group_matches says no match", pt, g); }
            for (int cap = 1; cap <= G + 1; cap++) { int32_t* out = mc_exact(NULL, sizeof(int32_t) * (size_t)cap); int32_t n = carquet_reader_filter_row_groups(rd, QC, (carquet_compare_op_t)op, pv, probes[pi].n, out, cap); int want = nk < cap ? nk : cap; bool ok = n == want; for (int i = 0; ok && i < want; i++) ok = out[i] == kept[i];
                if (!ok) mc_fail("pruning.filter-row-groups-list", "type=%d op=%d cap=%d: returned %d groups, row_group_matches keeps %d", pt, op, cap, n, nk); free(out); }
            free(pv); mc_count("predicates.checked", 1);
        }
        carquet_reader_close(rd); free(x); ref_buf_free(&img); ref_arena_free(&RA);
    }
}

/* ---- (d) helpers -------------------------------------------------------------------------------- */
static void stage_helpers(void) {
    mc_stage("d.compare.range-overlap.page-might-match.all-range-pairs");
    static const struct { int pt, tl; } TY[] = { { PT_INT32, 0 }, { PT_INT64, 0 }, { PT_FLOAT, 0 }, { PT_DOUBLE, 0 }, { PT_BYTE_ARRAY, 0 }, { PT_FLBA, 2 } };
    for (int t = 0; t < 6; t++) { int pt = TY[t].pt; val_t pool[8]; int np = 0; memset(pool, 0, sizeof pool);
        for (int i = 0; i < 6; i++) { val_t* v = &pool[np++];
            switch (pt) { case PT_INT32: { static const int32_t P[] = { INT32_MIN, -1, 0, 255, 256, INT32_MAX }; memcpy(v->b, &P[i], 4); v->n = 4; break; } case PT_INT64: { static const int64_t P[] = { INT64_MIN, -1, 0, 255, 256, INT64_MAX }; memcpy(v->b, &P[i], 8); v->n = 8; break; }
                          case PT_FLOAT: { static const float P[] = { -INFINITY, -1.5f, -0.0f, 0.0f, 2.0f, INFINITY }; memcpy(v->b, &P[i], 4); v->n = 4; break; } case PT_DOUBLE: { static const double P[] = { -INFINITY, -1.5, -0.0, 0.0, 2.0, INFINITY }; memcpy(v->b, &P[i], 8); v->n = 8; break; }
                          case PT_BYTE_ARRAY: { static const char* P[] = { "", "a", "ab", "b", "\x80", "\xff\xff" }; v->n = (int)strlen(P[i]); memcpy(v->b, P[i], (size_t)v->n); break; } default: { static const uint8_t P[][2] = { {0,0},{0,255},{1,0},{0x7f,0xff},{0x80,0},{0xff,0xff} }; memcpy(v->b, P[i], 2); v->n = 2; break; } } }
        for (int a = 0; a < 6; a++) for (int b = a; b < 6; b++) {               /* page / chunk range [pool[a], pool[b]] */
            if (ref_cmp(pt, &pool[a], &pool[b]) > 0) continue;
            if (!mc_next()) continue;
            mc_desc("c16d:type=%d;range=[%d,%d]", pt, a, b); mc_case_key(mc_mix(0x16d, ((uint64_t)t << 16) | ((uint64_t)a << 8) | (uint64_t)b)); mc_nontrivial();
            parquet_statistics_t st; memset(&st, 0, sizeof st); uint8_t* mn = mc_exact(pool[a].b, (size_t)pool[a].n); uint8_t* mx = mc_exact(pool[b].b, (size_t)pool[b].n);
            st.min_value = mn; st.min_value_len = pool[a].n; st.max_value = mx; st.max_value_len = pool[b].n;
            carquet_column_index_builder_t* cib = carquet_column_index_builder_create((carquet_physical_type_t)pt, TY[t].tl);
            bool cib_ok = cib && pool[a].n > 0 && pool[b].n > 0 && carquet_column_index_add_page(cib, 0, mn, pool[a].n, mx, pool[b].n, false) == CARQUET_OK;
            for (int q = 0; q < 6; q++) {                                          /* point probes */
                int res = 9; uint8_t* pv = mc_exact(pool[q].b, (size_t)pool[q].n); bool inside = ref_cmp(pt, &pool[q], &pool[a]) >= 0 && ref_cmp(pt, &pool[q], &pool[b]) <= 0;
                if (pool[a].n > 0 && pool[b].n > 0 && carquet_statistics_compare(&st, (carquet_physical_type_t)pt, pv, (size_t)pool[q].n, &res) == CARQUET_OK && inside && res != 0) mc_fail("helpers.statistics-compare.inside-reported-outside", "type=%d value %s in [%s,%s]: result %d", pt, mc_hex(pool[q].b, (size_t)pool[q].n, 10), mc_hex(mn, (size_t)pool[a].n, 10), mc_hex(mx, (size_t)pool[b].n, 10), res);
                free(pv);
                if (pool[a].n > 0 && pool[b].n > 0) {                              /* half-open queries: one end NULL */
                    uint8_t* qv = mc_exact(pool[q].b, (size_t)pool[q].n); bool ov = true, mm = true;
                    bool t_lo = ref_cmp(pt, &pool[q], &pool[b]) <= 0, t_hi = ref_cmp(pt, &pool[q], &pool[a]) >= 0;   /* [q, +inf) and (-inf, q] */
                    if (carquet_statistics_range_overlaps(&st, (carquet_physical_type_t)pt, qv, NULL, (size_t)pool[q].n, &ov) == CARQUET_OK && t_lo && !ov) mc_fail("helpers.range-overlaps.false-negative.open-above", "type=%d query [%s,inf)", pt, mc_hex(qv, (size_t)pool[q].n, 10));
                    if (carquet_statistics_range_overlaps(&st, (carquet_physical_type_t)pt, NULL, qv, (size_t)pool[q].n, &ov) == CARQUET_OK && t_hi && !ov) mc_fail("helpers.range-overlaps.false-negative.open-below", "type=%d query (-inf,%s]", pt, mc_hex(qv, (size_t)pool[q].n, 10));
                    if (cib_ok && carquet_column_index_page_might_match(cib, 0, qv, NULL, pool[q].n, &mm) == CARQUET_OK && t_lo && !mm) mc_fail("helpers.page-might-match.false-negative.open-above", "type=%d query [%s,inf)", pt, mc_hex(qv, (size_t)pool[q].n, 10));
                    if (cib_ok && carquet_column_index_page_might_match(cib, 0, NULL, qv, pool[q].n, &mm) == CARQUET_OK && t_hi && !mm) mc_fail("helpers.page-might-match.false-negative.open-below", "type=%d query (-inf,%s]", pt, mc_hex(qv, (size_t)pool[q].n, 10));
                    free(qv); mc_count("helper-queries.checked", 4);
                }
                for (int r = q; r < 6; r++) {                                      /* query ranges [pool[q], pool[r]] */
                    if (ref_cmp(pt, &pool[q], &pool[r]) > 0 || pool[q].n != pool[r].n) continue;   /* the helpers take one value_len for both ends */
                    bool truth = ref_cmp(pt, &pool[q], &pool[b]) <= 0 && ref_cmp(pt, &pool[r], &pool[a]) >= 0;
                    uint8_t* qa = mc_exact(pool[q].b, (size_t)pool[q].n); uint8_t* qb = mc_exact(pool[r].b, (size_t)pool[r].n); bool ov = true, mm = true;
                    if (pool[a].n > 0 && pool[b].n > 0 && carquet_statistics_range_overlaps(&st, (carquet_physical_type_t)pt, qa, qb, (size_t)pool[q].n, &ov) == CARQUET_OK && truth && !ov) mc_fail("helpers.range-overlaps.false-negative", "type=%d query [%s,%s] vs stats [%s,%s]", pt, mc_hex(qa, (size_t)pool[q].n, 10), mc_hex(qb, (size_t)pool[r].n, 10), mc_hex(mn, (size_t)pool[a].n, 10), mc_hex(mx, (size_t)pool[b].n, 10));
                    if (cib_ok && carquet_column_index_page_might_match(cib, 0, qa, qb, pool[q].n, &mm) == CARQUET_OK && truth && !mm) { char key[96]; snprintf(key, sizeof key, "helpers.page-might-match.false-negative.%s", pt == PT_BYTE_ARRAY || pt == PT_FLBA ? "bytes" : "numeric"); mc_fail(key, "type=%d query [%s,%s] vs page [%s,%s]", pt, mc_hex(qa, (size_t)pool[q].n, 10), mc_hex(qb, (size_t)pool[r].n, 10), mc_hex(mn, (size_t)pool[a].n, 10), mc_hex(mx, (size_t)pool[b].n, 10)); }
                    free(qa); free(qb); mc_count("helper-queries.checked", 1);
                }
            }
            if (cib) carquet_column_index_builder_destroy(cib); free(mn); free(mx);
        } }
}

static void enumerate(void) {
    mc_rule("C16: (a) statistics builder: every sequence of up to 5/6 values from per-type pools (all 8 physical types, FLBA of 3 and 300 bytes, byte strings up to 257 bytes, NaN, +-0, +-inf, signed extremes) x every composition into add calls x 3 null-interleaving modes; "
            "(b) page-header statistics of carquet-written files: INT32/INT64/FLOAT/DOUBLE columns, 5 rows, all null masks x all batch compositions x 2 page sizes x 3 value patterns, headers parsed by the reference Thrift decoder; bound oracle: min <= v <= max for "
            "every non-NaN non-null value in the type's order, min not NaN unless all values are, null_count exact; (c) pruning: reference-written files with 1-4 row groups, 6 value layouts (single-group files: additionally every 3-row content over the 9-value pool), statistics exact / widened / in deprecated fields / absent / absent with NaN "
            "data, REQUIRED and OPTIONAL, 6 types: every operator x 27-28 probes (every pool value, its neighbours, NaN), ground truth by brute force over the rows: no false negative of row_group_matches, filter_row_groups = ascending kept list truncated at every "
            "max_indices 1..G+1, absent statistics never prune; (d) statistics_compare / range_overlaps / page_might_match over all (stored range, query range) pairs of a 6-value pool per type. Non-trivial = >= 2 values / every file; distinct by case key.");
    stage_builder(); stage_page_stats(); stage_pruning(); stage_helpers();
}
int main(int argc, char** argv) { return mc_main(argc, argv, "c16", enumerate); }
