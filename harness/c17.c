/* c17.c — C17: schema trees map to the right leaf columns and def/rep levels.
 * All ordered rooted trees up to 6/7 nodes x all labelings of the non-root
 * nodes by {REQUIRED, OPTIONAL, REPEATED}, written by the reference writer with
 * rows whose levels are at their maxima; carquet's schema accessors and the
 * levels it actually uses are compared with the textbook definition.  Builder
 * API: add_column sequences of boundary lengths. */
#define _GNU_SOURCE
#include "mc/mc.h"
#include "ref/ref.h"
#include "ref/ref_pq.h"
#include <carquet/carquet.h>
#include <stdio.h>
#include <stdlib.h>
#include <string.h>

static ref_arena RA;
static const int TY[8] = { PT_INT32, PT_BOOLEAN, PT_BYTE_ARRAY, PT_INT64, PT_INT96, PT_FLOAT, PT_DOUBLE, PT_FLBA };

static void fill_col(ref_coldata* c, int ptype, int tlen, int D, int R, int leaf) {
    memset(c, 0, sizeof *c); c->ptype = ptype; c->type_length = tlen; c->max_def = D; c->max_rep = R;
    int n = 0; c->def = ref_alloc(&RA, 16); c->rep = ref_alloc(&RA, 16);
    c->def[n] = (int16_t)D; c->rep[n] = 0; n++;
    if (R > 0) { c->def[n] = (int16_t)D; c->rep[n] = (int16_t)R; n++; }
    c->def[n] = 0; c->rep[n] = 0; n++;                 /* second row: nothing defined (equals D when D == 0) */
    c->nlevels = n; int w = ref_type_width(ptype, tlen); c->fixed = ref_alloc(&RA, (size_t)(w ? w : 1) * 4); c->strs = ref_alloc(&RA, sizeof(ref_str) * 4);
    for (int i = 0; i < n; i++) if (c->def[i] == D) {
        if (ptype == PT_BYTE_ARRAY) { char* s = ref_alloc(&RA, 16); c->strs[c->nvalues].n = (uint32_t)sprintf(s, "L%d_%d", leaf, i); c->strs[c->nvalues].p = (const uint8_t*)s; }
        else for (int b = 0; b < w; b++) c->fixed[c->nvalues * w + b] = ptype == PT_BOOLEAN ? (uint8_t)((leaf + i) & 1) : (uint8_t)(leaf * 16 + i * 5 + b + 1);
        c->nvalues++;
    }
}

static void check_tree(const int* nchild, const int* rep, int n, int naming, const char* desc) {
    bool collide = naming == 1;      /* naming: 0 unique, 1 all leaves share one name, 2 every leaf name is a proper prefix of the names of the leaves before it */
    /* textbook: DFS, leaf = node without children (root excluded), def = #optional+repeated on the path, rep = #repeated */
    ref_schema_elem* sc = ref_alloc(&RA, sizeof(ref_schema_elem) * (size_t)n); int leaf_of[16], nleaf = 0, D[16], R[16], ltype[16];
    int stack_rem[16], stack_d[16], stack_r[16], sp = 0; char key[160];
    for (int i = 0; i < n; i++) {
        ref_schema_elem* e = &sc[i]; char* nm = ref_alloc(&RA, 16);
        int d = sp ? stack_d[sp - 1] : 0, r = sp ? stack_r[sp - 1] : 0;
        if (i > 0) { e->has_rep = true; e->rep = rep[i]; if (rep[i] == 1) d++; else if (rep[i] == 2) { d++; r++; } }
        if (sp) stack_rem[sp - 1]--;
        if (nchild[i] > 0 || i == 0) { sprintf(nm, collide && i ? "g" : "g%d", i); if (i == 0) strcpy(nm, "schema"); e->has_num_children = nchild[i] > 0 || i == 0; e->num_children = nchild[i]; }
        else { if (naming == 2) { int L = 10 - nleaf; if (L < 1) L = 1; memset(nm, 'q', (size_t)L); nm[0] = 'p'; nm[L] = 0; } else sprintf(nm, collide ? "x" : "n%d", i); e->has_type = true; e->type = TY[nleaf % 8]; if (e->type == PT_FLBA) { e->has_type_length = true; e->type_length = 2; } leaf_of[nleaf] = i; D[nleaf] = d; R[nleaf] = r; ltype[nleaf] = e->type; nleaf++; }
        e->name = (ref_bin){ (const uint8_t*)nm, (int32_t)strlen(nm), true };
        if (nchild[i] > 0) { stack_rem[sp] = nchild[i]; stack_d[sp] = d; stack_r[sp] = r; sp++; }
        while (sp && stack_rem[sp - 1] == 0) sp--;
    }
    if (nleaf == 0) { mc_count("trees.without-leaves", 1); return; }
    ref_coldata* cols = ref_alloc(&RA, sizeof(ref_coldata) * (size_t)nleaf); ref_chunk_layout* L = ref_alloc(&RA, sizeof(ref_chunk_layout) * (size_t)nleaf);
    for (int l = 0; l < nleaf; l++) { fill_col(&cols[l], ltype[l], ltype[l] == PT_FLBA ? 2 : 0, D[l], R[l], l); L[l].crc = true; L[l].level_form = REF_H_MIXED; }
    int64_t rows = 2; ref_write_req rq; memset(&rq, 0, sizeof rq); rq.schema = sc; rq.nschema = n; rq.nleaves = nleaf; rq.nrg = 1; rq.rg_rows = &rows; rq.cols = cols; rq.layouts = L; rq.fl.created_by = "ref_pq";
    ref_buf img; ref_buf_init(&img); if (ref_pq_write(&RA, &rq, &img, NULL, 0, NULL)) mc_harness_error("reference writer failed (%s)", desc);
    ref_file rf; if (ref_pq_read(&RA, img.p, img.n, &rf, REF_RD_CHECK_TOTALS)) mc_harness_error("reference reader rejects the reference file: %s (%s)", rf.err, desc);
    uint8_t* x = mc_exact(img.p, img.n); carquet_error_t err = CARQUET_ERROR_INIT; carquet_reader_t* rd = carquet_reader_open_buffer(x, img.n, NULL, &err);
    if (!rd) { mc_fail("open-failed", "%s: code %d %s", desc, err.code, err.message); free(x); ref_buf_free(&img); return; }
    const carquet_schema_t* s = carquet_reader_schema(rd);
    if (carquet_reader_num_columns(rd) != nleaf || carquet_schema_num_columns(s) != nleaf) mc_fail("leaf-count", "%s: %d columns, tree has %d leaves", desc, carquet_reader_num_columns(rd), nleaf);
    else {
        if (carquet_schema_num_elements(s) != n) mc_fail("element-count", "%s: %d elements, file has %d", desc, carquet_schema_num_elements(s), n);
        for (int i = 0; i < n && i < carquet_schema_num_elements(s); i++) {
            const carquet_schema_node_t* nd = carquet_schema_get_element(s, i); const ref_schema_elem* e = &sc[i];
            if (!nd) { mc_fail("element-missing", "%s: element %d", desc, i); continue; }
            if (strlen(carquet_schema_node_name(nd)) != (size_t)e->name.n || memcmp(carquet_schema_node_name(nd), e->name.p, (size_t)e->name.n)) mc_fail("element.name", "%s: element %d name %s", desc, i, carquet_schema_node_name(nd));
            if (carquet_schema_node_is_leaf(nd) != e->has_type) mc_fail("element.is-leaf", "%s: element %d is_leaf %d", desc, i, carquet_schema_node_is_leaf(nd));
            if (e->has_type && (int)carquet_schema_node_physical_type(nd) != e->type) mc_fail("element.type", "%s: element %d type %d, file says %d", desc, i, (int)carquet_schema_node_physical_type(nd), e->type);
            if (i > 0 && (int)carquet_schema_node_repetition(nd) != e->rep) mc_fail("element.repetition", "%s: element %d repetition %d, file says %d", desc, i, (int)carquet_schema_node_repetition(nd), e->rep);
            if (e->has_type_length && carquet_schema_node_type_length(nd) != e->type_length) mc_fail("element.type-length", "%s: element %d", desc, i);
            if (carquet_schema_node_logical_type(nd) != NULL) mc_fail("element.logical-type", "%s: element %d reports a logical type the file does not have", desc, i);
        }
        for (int l = 0; l < nleaf; l++) {
            const carquet_schema_node_t* nd = carquet_schema_get_element(s, leaf_of[l]);
            if (nd) {
                int rd_d = carquet_schema_node_max_def_level(nd), rd_r = carquet_schema_node_max_rep_level(nd);
                if (rd_d != D[l]) { snprintf(key, sizeof key, "reported.max-def-level.%s", D[l] > 1 || (D[l] == 1 && rep[leaf_of[l]] != 1) ? "nested-or-repeated" : "flat"); mc_fail(key, "%s: leaf %d (element %d): max_def_level() = %d, path has %d optional/repeated nodes", desc, l, leaf_of[l], rd_d, D[l]); }
                if (rd_r != R[l]) { snprintf(key, sizeof key, "reported.max-rep-level.%s", R[l] > 1 || (R[l] == 1 && rep[leaf_of[l]] != 2) ? "nested" : "flat"); mc_fail(key, "%s: leaf %d (element %d): max_rep_level() = %d, path has %d repeated nodes", desc, l, leaf_of[l], rd_r, R[l]); }
            }
            /* levels actually used: decode the column */
            carquet_column_reader_t* cr = carquet_reader_get_column(rd, 0, l, &err);
            if (!cr) { mc_fail("column.open-failed", "%s: leaf %d code %d %s", desc, l, err.code, err.message); continue; }
            const ref_coldata* c = &cols[l]; int w = ref_type_width(c->ptype, c->type_length); size_t vs = c->ptype == PT_BYTE_ARRAY ? sizeof(carquet_byte_array_t) : (size_t)w;
            uint8_t* vb = mc_exact(NULL, vs * 5); int16_t* db = mc_exact(NULL, 10); int16_t* rb = mc_exact(NULL, 10); memset(vb, 0xEE, vs * 5);
            int64_t got = carquet_column_read_batch(cr, vb, 5, db, rb); bool ok = got == c->nlevels;
            for (int64_t i = 0; ok && i < got; i++) ok = db[i] == c->def[i] && rb[i] == c->rep[i];
            if (ok) { if (c->ptype == PT_BYTE_ARRAY) { carquet_byte_array_t* ba = (carquet_byte_array_t*)vb; for (int64_t i = 0; ok && i < c->nvalues; i++) ok = (uint32_t)ba[i].length == c->strs[i].n && !memcmp(ba[i].data, c->strs[i].p, c->strs[i].n); } else ok = !memcmp(vb, c->fixed, (size_t)c->nvalues * (size_t)w); }
            if (!ok) { snprintf(key, sizeof key, "used-levels.leaf-decodes-wrong.def%d-rep%d", D[l] > 3 ? 3 : D[l], R[l] > 2 ? 2 : R[l]); mc_fail(key, "%s: leaf %d (type %d, max_def %d, max_rep %d): read_batch = %lld of %lld, first def/rep %d/%d", desc, l, c->ptype, D[l], R[l], (long long)got, (long long)c->nlevels, got > 0 ? db[0] : -1, got > 0 ? rb[0] : -1); }
            free(vb); free(db); free(rb); carquet_column_reader_free(cr);
            /* lookup by name */
            char nmz[16]; memcpy(nmz, sc[leaf_of[l]].name.p, (size_t)sc[leaf_of[l]].name.n); nmz[sc[leaf_of[l]].name.n] = 0;
            int want = collide ? 0 : l; int gotix = carquet_schema_find_column(s, nmz);
            if (gotix != want) mc_fail(collide ? "find-column.colliding-names" : naming == 2 ? "find-column.prefix-names" : "find-column.unique-names", "%s: find_column(%s) = %d, expected %d", desc, nmz, gotix, want);
        }
        if (carquet_schema_find_column(s, "no_such_column") != -1) mc_fail("find-column.missing", "%s: find_column of an absent name is not -1", desc);
        if (naming == 0 && carquet_schema_find_column(s, "g1") != -1 && nchild[1 < n ? 1 : 0] > 0) mc_fail("find-column.group-name", "%s: find_column(group name) returned a column", desc);
    }
    carquet_reader_close(rd); free(x); ref_buf_free(&img);
}

/* enumerate ordered rooted trees with n nodes as DFS child-count sequences */
static int g_nc[16];
static void trees(int n, int pos, int open, int remaining, void (*fn)(int n, void* ctx), void* ctx) {
    /* open = number of child slots still to be filled; remaining = nodes not yet placed (excluding pos) */
    if (pos == n) { if (open == 0) fn(n, ctx); return; }
    int nodes_left_after = n - pos - 1;
    for (int c = 0; c <= nodes_left_after; c++) {
        int nopen = (pos == 0 ? 0 : open - 1) + c;
        if (nopen > nodes_left_after) break;
        if (pos > 0 && open == 0) break;
        if (nopen == 0 && nodes_left_after > 0) continue;
        g_nc[pos] = c; trees(n, pos + 1, nopen, remaining, fn, ctx);
    }
}
static void on_tree(int n, void* ctx) {
    (void)ctx; int rep[16]; long total = 1; for (int i = 1; i < n; i++) total *= 3;
    for (long code = 0; code < total; code++) for (int collide = 0; collide < 3; collide++) {
        if (!mc_next()) continue;
        long v = code; rep[0] = 0; for (int i = 1; i < n; i++) { rep[i] = (int)(v % 3); v /= 3; }
        char d[200]; int k = 0; k += snprintf(d + k, sizeof d - (size_t)k, "tree=["); for (int i = 0; i < n; i++) k += snprintf(d + k, sizeof d - (size_t)k, "%d", g_nc[i]);
        k += snprintf(d + k, sizeof d - (size_t)k, "];rep=["); for (int i = 1; i < n; i++) k += snprintf(d + k, sizeof d - (size_t)k, "%c", "ROP"[rep[i] == 0 ? 0 : rep[i] == 1 ? 1 : 2]); snprintf(d + k, sizeof d - (size_t)k, "];names=%s", collide == 1 ? "colliding" : collide == 2 ? "prefixes" : "unique");
        mc_desc("c17:%s", d); uint64_t h = 0x17; for (int i = 0; i < n; i++) h = mc_mix(h, (uint64_t)g_nc[i] * 4 + (uint64_t)rep[i]); mc_case_key(mc_mix(h, (uint64_t)collide + 2 * (uint64_t)n)); mc_nontrivial();
        int rr[16]; for (int i = 0; i < n; i++) rr[i] = rep[i] == 0 ? 0 : rep[i] == 1 ? 1 : 2;
        /* R O P letters: R=required(0) O=optional(1) P=repeated(2) */
        check_tree(g_nc, rr, n, collide, d); ref_arena_free(&RA);
    }
}

static void builder_case(int ncols, int repmode, int tymode) {
    carquet_error_t err = CARQUET_ERROR_INIT; carquet_schema_t* s = carquet_schema_create(&err); char key[128];
    if (!s) { mc_fail("builder.create-failed", "code %d", err.code); return; }
    char nm[32];
    for (int i = 0; i < ncols; i++) {
        int rep = repmode == 3 ? i % 2 : repmode; int ty = tymode == 8 ? TY[i % 8] : TY[tymode]; if (ty == PT_INT96) ty = PT_INT64;
        snprintf(nm, sizeof nm, "col_%d", i);
        carquet_status_t st = carquet_schema_add_column(s, nm, (carquet_physical_type_t)ty, NULL, (carquet_field_repetition_t)rep, ty == PT_FLBA ? 7 : 0);
        if (st != CARQUET_OK) { mc_fail("builder.add-column-refused", "column %d of %d: status %d", i, ncols, st); carquet_schema_free(s); return; }
    }
    if (carquet_schema_num_columns(s) != ncols) mc_fail("builder.num-columns", "%d columns after %d add_column calls", carquet_schema_num_columns(s), ncols);
    if (carquet_schema_num_elements(s) != ncols + 1) mc_fail("builder.num-elements", "%d elements after %d add_column calls", carquet_schema_num_elements(s), ncols);
    for (int i = 0; i < ncols && i < carquet_schema_num_columns(s); i++) {
        int rep = repmode == 3 ? i % 2 : repmode; int ty = tymode == 8 ? TY[i % 8] : TY[tymode]; if (ty == PT_INT96) ty = PT_INT64;
        const carquet_schema_node_t* nd = carquet_schema_get_element(s, i + 1); snprintf(nm, sizeof nm, "col_%d", i);
        if (!nd) { mc_fail("builder.element-missing", "element %d", i + 1); break; }
        snprintf(key, sizeof key, "builder.element.%s", i >= 63 ? "beyond-initial-capacity" : "within-initial-capacity");
        if (strcmp(carquet_schema_node_name(nd), nm) || (int)carquet_schema_node_physical_type(nd) != ty || (int)carquet_schema_node_repetition(nd) != rep || !carquet_schema_node_is_leaf(nd) || (ty == PT_FLBA && carquet_schema_node_type_length(nd) != 7))
            { mc_fail(key, "column %d of %d: name %s type %d repetition %d", i, ncols, carquet_schema_node_name(nd), (int)carquet_schema_node_physical_type(nd), (int)carquet_schema_node_repetition(nd)); break; }
        int wd = rep == 1 ? 1 : rep == 2 ? 1 : 0, wr = rep == 2 ? 1 : 0;
        if (carquet_schema_node_max_def_level(nd) != wd || carquet_schema_node_max_rep_level(nd) != wr) { mc_fail(rep == 2 ? "builder.levels.repeated" : "builder.levels", "column %d (repetition %d): levels %d/%d, expected %d/%d", i, rep, carquet_schema_node_max_def_level(nd), carquet_schema_node_max_rep_level(nd), wd, wr); break; }
        if (carquet_schema_find_column(s, nm) != i) { mc_fail("builder.find-column", "find_column(%s) = %d", nm, carquet_schema_find_column(s, nm)); break; }
    }
    /* the file the writer produces from this schema: one row, read back with the reference reader */
    if (ncols > 0 && repmode != 2) {
        char* mem = NULL; size_t mlen = 0; FILE* f = open_memstream(&mem, &mlen); carquet_writer_t* w = carquet_writer_create_file(f, s, NULL, &err);
        if (!w) mc_fail("builder.writer-create-failed", "code %d %s", err.code, err.message);
        else {
            carquet_status_t st = CARQUET_OK;
            for (int i = 0; i < ncols && st == CARQUET_OK; i++) {
                int ty = tymode == 8 ? TY[i % 8] : TY[tymode]; if (ty == PT_INT96) ty = PT_INT64; uint8_t v[16]; memset(v, (i % 250) + 1, sizeof v); if (ty == PT_BOOLEAN) v[0] = (uint8_t)(i & 1); carquet_byte_array_t ba = { v, 3 }; int16_t one = 1;
                int rep = repmode == 3 ? i % 2 : repmode;
                st = carquet_writer_write_batch(w, i, ty == PT_BYTE_ARRAY ? (void*)&ba : (void*)v, 1, rep == 1 ? &one : NULL, NULL);
            }
            if (st != CARQUET_OK) { mc_count("builder.write-refused", 1); carquet_writer_abort(w); fclose(f); }
            else if ((st = carquet_writer_close(w)) != CARQUET_OK) { mc_count("builder.close-refused", 1); fclose(f); }
            else {
                fclose(f); ref_file rf;
                if (ref_pq_read(&RA, (const uint8_t*)mem, mlen, &rf, REF_RD_CHECK_TOTALS)) mc_fail("builder.file.ref-reader-rejects", "%d columns: %s", ncols, rf.err);
                else if (rf.leaves.nleaves != ncols) mc_fail("builder.file.leaf-count", "%d leaves in the file, %d columns added", rf.leaves.nleaves, ncols);
                else for (int i = 0; i < ncols; i++) { const ref_schema_elem* e = &rf.meta.schema[rf.leaves.leaf_schema_idx[i]]; int rep = repmode == 3 ? i % 2 : repmode; int ty = tymode == 8 ? TY[i % 8] : TY[tymode]; if (ty == PT_INT96) ty = PT_INT64; snprintf(nm, sizeof nm, "col_%d", i);
                    if ((size_t)e->name.n != strlen(nm) || memcmp(e->name.p, nm, strlen(nm)) || e->type != ty || e->rep != rep || rf.cols[i].nlevels != 1) { mc_fail("builder.file.schema", "column %d of %d differs in the written file", i, ncols); break; } }
            }
            free(mem);
        }
        if (!w) { fclose(f); free(mem); }
    }
    carquet_schema_free(s);
}


/* ---- logical types ------------------------------------------------------------------------ */
typedef struct { int thrift_id, carquet_id; int unit /* 1..3 */, utc, precision, scale, bit_width, is_signed; int ptype, tlen; const char* name; } lt_t;
static const lt_t LT[] = {
    { 1, CARQUET_LOGICAL_STRING, 0,0,0,0,0,0, PT_BYTE_ARRAY, 0, "string" }, { 4, CARQUET_LOGICAL_ENUM, 0,0,0,0,0,0, PT_BYTE_ARRAY, 0, "enum" }, { 6, CARQUET_LOGICAL_DATE, 0,0,0,0,0,0, PT_INT32, 0, "date" },
    { 5, CARQUET_LOGICAL_DECIMAL, 0,0,9,2,0,0, PT_INT32, 0, "decimal9_2" }, { 5, CARQUET_LOGICAL_DECIMAL, 0,0,38,0,0,0, PT_FLBA, 16, "decimal38_0" },
    { 7, CARQUET_LOGICAL_TIME, 1,1,0,0,0,0, PT_INT32, 0, "time_ms_utc" }, { 7, CARQUET_LOGICAL_TIME, 2,0,0,0,0,0, PT_INT64, 0, "time_us" }, { 7, CARQUET_LOGICAL_TIME, 3,1,0,0,0,0, PT_INT64, 0, "time_ns_utc" },
    { 8, CARQUET_LOGICAL_TIMESTAMP, 1,0,0,0,0,0, PT_INT64, 0, "ts_ms" }, { 8, CARQUET_LOGICAL_TIMESTAMP, 2,1,0,0,0,0, PT_INT64, 0, "ts_us_utc" }, { 8, CARQUET_LOGICAL_TIMESTAMP, 3,0,0,0,0,0, PT_INT64, 0, "ts_ns" },
    { 10, CARQUET_LOGICAL_INTEGER, 0,0,0,0,8,1, PT_INT32, 0, "int8" }, { 10, CARQUET_LOGICAL_INTEGER, 0,0,0,0,16,0, PT_INT32, 0, "uint16" }, { 10, CARQUET_LOGICAL_INTEGER, 0,0,0,0,32,0, PT_INT32, 0, "uint32" }, { 10, CARQUET_LOGICAL_INTEGER, 0,0,0,0,64,1, PT_INT64, 0, "int64" },
    { 12, CARQUET_LOGICAL_JSON, 0,0,0,0,0,0, PT_BYTE_ARRAY, 0, "json" }, { 13, CARQUET_LOGICAL_BSON, 0,0,0,0,0,0, PT_BYTE_ARRAY, 0, "bson" }, { 14, CARQUET_LOGICAL_UUID, 0,0,0,0,0,0, PT_FLBA, 16, "uuid" }, { 15, CARQUET_LOGICAL_FLOAT16, 0,0,0,0,0,0, PT_FLBA, 2, "float16" },
};
#define NLT ((int)(sizeof LT / sizeof LT[0]))
static void check_logical(const carquet_logical_type_t* g, const lt_t* w, const char* where, const char* desc) {
    char key[96]; snprintf(key, sizeof key, "logical-type.%s.%s", where, w->thrift_id == 7 || w->thrift_id == 8 ? "time-unit-or-utc" : w->thrift_id == 5 ? "decimal" : w->thrift_id == 10 ? "integer" : "id");
    if (!g) { snprintf(key, sizeof key, "logical-type.%s.missing", where); mc_fail(key, "%s: column %s has no logical type", desc, w->name); return; }
    bool ok = (int)g->id == w->carquet_id;
    if (ok && w->thrift_id == 5) ok = g->params.decimal.precision == w->precision && g->params.decimal.scale == w->scale;
    if (ok && w->thrift_id == 7) ok = (int)g->params.time.unit == w->unit - 1 && g->params.time.is_adjusted_to_utc == (w->utc != 0);
    if (ok && w->thrift_id == 8) ok = (int)g->params.timestamp.unit == w->unit - 1 && g->params.timestamp.is_adjusted_to_utc == (w->utc != 0);
    if (ok && w->thrift_id == 10) ok = g->params.integer.bit_width == w->bit_width && g->params.integer.is_signed == (w->is_signed != 0);
    if (!ok) mc_fail(key, "%s: column %s: logical type id %d (unit %d utc %d / precision %d scale %d / width %d signed %d), stored %s", desc, w->name, (int)g->id, (int)g->params.time.unit, (int)g->params.time.is_adjusted_to_utc, g->params.decimal.precision, g->params.decimal.scale, g->params.integer.bit_width, g->params.integer.is_signed, w->name);
}
static void logical_case(int first, int count, int nested) {
    /* (i) a reference-written footer with these logical types, flat or inside an optional group, read through the schema accessors */
    char desc[96]; snprintf(desc, sizeof desc, "c17:logical;first=%d;count=%d;nested=%d", first, count, nested);
    ref_schema_elem sc[40]; memset(sc, 0, sizeof sc); int ns = 0;
    sc[ns].name = (ref_bin){ (const uint8_t*)"schema", 6, true }; sc[ns].has_num_children = true; sc[ns].num_children = nested ? 1 : count; ns++;
    if (nested) { sc[ns].name = (ref_bin){ (const uint8_t*)"grp", 3, true }; sc[ns].has_num_children = true; sc[ns].num_children = count; sc[ns].has_rep = true; sc[ns].rep = 1; ns++; }
    ref_coldata cols[24]; ref_chunk_layout L[24]; memset(cols, 0, sizeof cols); memset(L, 0, sizeof L); int64_t rows = 1;
    for (int i = 0; i < count; i++) { const lt_t* w = &LT[(first + i) % NLT]; ref_schema_elem* e = &sc[ns++];
        e->name = (ref_bin){ (const uint8_t*)w->name, (int32_t)strlen(w->name), true }; e->has_type = true; e->type = w->ptype; if (w->ptype == PT_FLBA) { e->has_type_length = true; e->type_length = w->tlen; } e->has_rep = true; e->rep = 0;
        e->has_logical = true; e->logical.id = w->thrift_id; e->logical.unit = w->unit; e->logical.utc = w->utc != 0; e->logical.precision = w->precision; e->logical.scale = w->scale; e->logical.bit_width = (int8_t)w->bit_width; e->logical.is_signed = w->is_signed != 0;
        if (w->thrift_id == 5) { e->has_precision = true; e->precision = w->precision; e->has_scale = true; e->scale = w->scale; }
        ref_coldata* c = &cols[i]; c->ptype = w->ptype; c->type_length = w->tlen; c->max_def = nested ? 1 : 0; c->nlevels = 1; c->def = ref_alloc(&RA, 4); c->rep = ref_alloc(&RA, 4); c->def[0] = (int16_t)c->max_def; c->nvalues = 1; c->fixed = ref_alloc(&RA, 32); c->strs = ref_alloc(&RA, sizeof(ref_str)); c->strs[0].p = (const uint8_t*)"v"; c->strs[0].n = 1; L[i].crc = true; }
    ref_write_req rq; memset(&rq, 0, sizeof rq); rq.schema = sc; rq.nschema = ns; rq.nleaves = count; rq.nrg = 1; rq.rg_rows = &rows; rq.cols = cols; rq.layouts = L; ref_buf img; ref_buf_init(&img);
    if (ref_pq_write(&RA, &rq, &img, NULL, 0, NULL)) mc_harness_error("reference writer failed (logical types)");
    uint8_t* x = mc_exact(img.p, img.n); carquet_error_t err = CARQUET_ERROR_INIT; carquet_reader_t* rd = carquet_reader_open_buffer(x, img.n, NULL, &err);
    if (!rd) mc_fail("logical-type.file.open-failed", "%s: code %d %s", desc, err.code, err.message);
    else { const carquet_schema_t* s = carquet_reader_schema(rd);
        for (int i = 0; i < count; i++) { const carquet_schema_node_t* nd = carquet_schema_get_element(s, (nested ? 2 : 1) + i); if (!nd) { mc_fail("logical-type.file.element-missing", "%s: element %d", desc, i); continue; } check_logical(carquet_schema_node_logical_type(nd), &LT[(first + i) % NLT], "file", desc); }
        carquet_reader_close(rd); }
    free(x); ref_buf_free(&img);
    /* (ii) the builder: add_column with the logical type, accessor, and the footer the writer produces (parsed by the reference) */
    if (nested) return;
    carquet_schema_t* s = carquet_schema_create(&err); if (!s) return;
    for (int i = 0; i < count; i++) { const lt_t* w = &LT[(first + i) % NLT]; carquet_logical_type_t lt; memset(&lt, 0, sizeof lt); lt.id = (carquet_logical_type_id_t)w->carquet_id;
        if (w->thrift_id == 5) { lt.params.decimal.precision = w->precision; lt.params.decimal.scale = w->scale; } else if (w->thrift_id == 7) { lt.params.time.unit = (carquet_time_unit_t)(w->unit - 1); lt.params.time.is_adjusted_to_utc = w->utc != 0; }
        else if (w->thrift_id == 8) { lt.params.timestamp.unit = (carquet_time_unit_t)(w->unit - 1); lt.params.timestamp.is_adjusted_to_utc = w->utc != 0; } else if (w->thrift_id == 10) { lt.params.integer.bit_width = (int8_t)w->bit_width; lt.params.integer.is_signed = w->is_signed != 0; }
        if (carquet_schema_add_column(s, w->name, (carquet_physical_type_t)w->ptype, &lt, CARQUET_REPETITION_REQUIRED, w->tlen) != CARQUET_OK) { mc_fail("logical-type.builder.add-column-refused", "%s: %s", desc, w->name); carquet_schema_free(s); return; } }
    for (int i = 0; i < count; i++) { const carquet_schema_node_t* nd = carquet_schema_get_element(s, 1 + i); if (nd) check_logical(carquet_schema_node_logical_type(nd), &LT[(first + i) % NLT], "builder", desc); }
    char* mem = NULL; size_t mlen = 0; FILE* f = open_memstream(&mem, &mlen); carquet_writer_t* wtr = f ? carquet_writer_create_file(f, s, NULL, &err) : NULL;
    if (wtr) { if (carquet_writer_close(wtr) == CARQUET_OK) { fflush(f); ref_file rf; if (ref_pq_read(&RA, (const uint8_t*)mem, mlen, &rf, 0)) mc_fail("logical-type.written-file.ref-reader-rejects", "%s: %s", desc, rf.err);
            else for (int i = 0; i < count && i + 1 < rf.meta.nschema; i++) { const ref_schema_elem* e = &rf.meta.schema[i + 1]; const lt_t* w = &LT[(first + i) % NLT];
                bool ok = e->has_logical && e->logical.id == w->thrift_id && (w->thrift_id != 7 && w->thrift_id != 8 ? true : e->logical.unit == w->unit && e->logical.utc == (w->utc != 0)) && (w->thrift_id != 5 || (e->logical.precision == w->precision && e->logical.scale == w->scale)) && (w->thrift_id != 10 || (e->logical.bit_width == w->bit_width && e->logical.is_signed == (w->is_signed != 0)));
                if (!ok) mc_fail("logical-type.written-file.differs", "%s: column %s: footer has logical id %d unit %d utc %d precision %d scale %d width %d signed %d", desc, w->name, e->has_logical ? e->logical.id : -1, e->logical.unit, e->logical.utc, e->logical.precision, e->logical.scale, e->logical.bit_width, e->logical.is_signed); } }
        fclose(f); } else if (f) fclose(f);
    free(mem); carquet_schema_free(s);
}
/* a group added when the element array is exactly full (the array is reallocated while the group is being added) */
static void builder_group_case(int pos, int rep) {
    carquet_error_t err = CARQUET_ERROR_INIT; carquet_schema_t* s = carquet_schema_create(&err); if (!s) return; char nm[32];
    for (int i = 1; i < pos; i++) { snprintf(nm, sizeof nm, "col_%d", i); if (carquet_schema_add_column(s, nm, CARQUET_PHYSICAL_INT32, NULL, CARQUET_REPETITION_REQUIRED, 0) != CARQUET_OK) { mc_fail("builder.add-column-refused", "column %d", i); carquet_schema_free(s); return; } }
    snprintf(nm, sizeof nm, "grp_%d", pos); int32_t gi = carquet_schema_add_group(s, nm, (carquet_field_repetition_t)rep, 0);
    if (gi != pos) mc_fail("builder.group.index", "add_group as element %d returned %d", pos, gi);
    for (int i = 0; i < 3; i++) { snprintf(nm, sizeof nm, "tail_%d", i); if (carquet_schema_add_column(s, nm, CARQUET_PHYSICAL_INT64, NULL, CARQUET_REPETITION_OPTIONAL, 0) != CARQUET_OK) mc_fail("builder.add-column-refused", "tail column %d after the group", i); }
    if (carquet_schema_num_elements(s) != pos + 4) mc_fail("builder.group.num-elements", "%d elements, built %d", carquet_schema_num_elements(s), pos + 4);
    if (carquet_schema_num_columns(s) != pos - 1 + 3) mc_fail("builder.group.num-columns", "%d columns, built %d", carquet_schema_num_columns(s), pos + 2);
    const carquet_schema_node_t* nd = carquet_schema_get_element(s, pos); snprintf(nm, sizeof nm, "grp_%d", pos);
    if (!nd) mc_fail("builder.group.element-missing", "element %d", pos);
    else { const char* gn = carquet_schema_node_name(nd); int wd = rep ? 1 : 0, wr = rep == 2 ? 1 : 0;
        if (!gn || strcmp(gn, nm) || carquet_schema_node_is_leaf(nd) || (int)carquet_schema_node_repetition(nd) != rep || carquet_schema_node_max_def_level(nd) != wd || carquet_schema_node_max_rep_level(nd) != wr)
            mc_fail(pos >= 64 ? "builder.group.element.at-capacity-growth" : "builder.group.element", "group added as element %d (repetition %d): name %s leaf %d repetition %d levels %d/%d", pos, rep, gn ? gn : "(null)", (int)carquet_schema_node_is_leaf(nd), (int)carquet_schema_node_repetition(nd), carquet_schema_node_max_def_level(nd), carquet_schema_node_max_rep_level(nd)); }
    for (int i = 1; i < pos + 4; i++) { if (i == pos) continue; const carquet_schema_node_t* e = carquet_schema_get_element(s, i); if (i < pos) snprintf(nm, sizeof nm, "col_%d", i); else snprintf(nm, sizeof nm, "tail_%d", i - pos - 1);
        if (!e || !carquet_schema_node_name(e) || strcmp(carquet_schema_node_name(e), nm) || !carquet_schema_node_is_leaf(e)) { mc_fail("builder.group.neighbours", "element %d next to a group at %d is not %s", i, pos, nm); break; }
        int want = i < pos ? i - 1 : i - 2; if (carquet_schema_find_column(s, nm) != want) { mc_fail("builder.group.find-column", "find_column(%s) = %d, expected %d (group at element %d)", nm, carquet_schema_find_column(s, nm), want, pos); break; } }
    carquet_schema_free(s);
}


/* FIXED_LEN_BYTE_ARRAY widths beyond 8/15/16 bits, and a root element that carries a repetition type (legacy writers emit "repeated group schema") */
static void widths_and_root_case(int rootrep, int nested) {
    static const int TL[] = { 1, 255, 256, 32767, 32768, 40000, 65535, 65536, 100000, 1 << 20 }; enum { NTL = 10 };
    char desc[96]; snprintf(desc, sizeof desc, "c17:flba-widths;root-repetition=%d;nested=%d", rootrep, nested);
    static ref_schema_elem sc[NTL + 3]; memset(sc, 0, sizeof sc); int ns = 0; static char names[NTL][16];
    sc[ns].name = (ref_bin){ (const uint8_t*)"schema", 6, true }; sc[ns].has_num_children = true; sc[ns].num_children = nested ? 1 : NTL; if (rootrep >= 0) { sc[ns].has_rep = true; sc[ns].rep = rootrep; } ns++;
    if (nested) { sc[ns].name = (ref_bin){ (const uint8_t*)"g", 1, true }; sc[ns].has_num_children = true; sc[ns].num_children = NTL; sc[ns].has_rep = true; sc[ns].rep = 2; ns++; }
    static ref_coldata cols[NTL]; static ref_chunk_layout L[NTL]; memset(cols, 0, sizeof cols); memset(L, 0, sizeof L); static uint8_t* vals[NTL]; static int16_t d1[2], r0[2]; int md = nested ? 1 : 0, mr = nested ? 1 : 0; d1[0] = (int16_t)md;
    for (int i = 0; i < NTL; i++) { snprintf(names[i], 16, "w%d", TL[i]); ref_schema_elem* e = &sc[ns++]; e->name = (ref_bin){ (const uint8_t*)names[i], (int32_t)strlen(names[i]), true }; e->has_type = true; e->type = PT_FLBA; e->has_type_length = true; e->type_length = TL[i]; e->has_rep = true; e->rep = 0;
        if (!vals[i]) { vals[i] = malloc((size_t)TL[i]); for (int b = 0; b < TL[i]; b++) vals[i][b] = (uint8_t)(b * 31 + i); }
        cols[i].ptype = PT_FLBA; cols[i].type_length = TL[i]; cols[i].max_def = md; cols[i].max_rep = mr; cols[i].nlevels = 1; cols[i].def = d1; cols[i].rep = r0; cols[i].nvalues = 1; cols[i].fixed = vals[i]; L[i].crc = true; }
    int64_t rows = 1; ref_write_req rq; memset(&rq, 0, sizeof rq); rq.schema = sc; rq.nschema = ns; rq.nleaves = NTL; rq.nrg = 1; rq.rg_rows = &rows; rq.cols = cols; rq.layouts = L; ref_buf img; ref_buf_init(&img);
    if (ref_pq_write(&RA, &rq, &img, NULL, 0, NULL)) mc_harness_error("reference writer failed (flba widths)");
    uint8_t* x = mc_exact(img.p, img.n); carquet_error_t err = CARQUET_ERROR_INIT; carquet_reader_t* rd = carquet_reader_open_buffer(x, img.n, NULL, &err);
    if (!rd) { mc_fail(rootrep > 0 ? "widths.open-failed.root-with-repetition" : "widths.open-failed", "%s: code %d %s", desc, err.code, err.message); free(x); ref_buf_free(&img); return; }
    const carquet_schema_t* s = carquet_reader_schema(rd);
    if (carquet_schema_num_columns(s) != NTL) mc_fail("widths.num-columns", "%s: %d columns, stored %d", desc, carquet_schema_num_columns(s), NTL);
    for (int i = 0; i < NTL && i < carquet_schema_num_columns(s); i++) { const carquet_schema_node_t* nd = carquet_schema_get_element(s, (nested ? 2 : 1) + i); if (!nd) { mc_fail("widths.element-missing", "%s: element %d", desc, i); continue; }
        if (carquet_schema_node_type_length(nd) != TL[i]) mc_fail(TL[i] >= 32768 ? "widths.type-length.beyond-15-bits" : "widths.type-length", "%s: leaf %s reports type_length %d", desc, names[i], carquet_schema_node_type_length(nd));
        if (carquet_schema_node_max_def_level(nd) != md || carquet_schema_node_max_rep_level(nd) != mr) mc_fail(rootrep > 0 ? "widths.levels.root-with-repetition" : "widths.levels", "%s: leaf %s reports levels %d/%d, textbook %d/%d (the root never counts)", desc, names[i], carquet_schema_node_max_def_level(nd), carquet_schema_node_max_rep_level(nd), md, mr);
        if (carquet_schema_find_column(s, names[i]) != i) mc_fail("widths.find-column", "%s: find_column(%s) = %d", desc, names[i], carquet_schema_find_column(s, names[i]));
        carquet_column_reader_t* cr = carquet_reader_get_column(rd, 0, i, &err); if (!cr) { mc_fail(TL[i] >= 32768 ? "widths.column-open-failed.beyond-15-bits" : rootrep > 0 ? "widths.column-open-failed.root-with-repetition" : "widths.column-open-failed", "%s: leaf %s code %d %s", desc, names[i], err.code, err.message); continue; }
        uint8_t* vb = mc_exact(NULL, (size_t)TL[i] * 2); int16_t db[2] = { -1, -1 }, rb[2] = { -1, -1 }; int64_t got = carquet_column_read_batch(cr, vb, 2, db, rb);
        if (got != 1 || db[0] != md || rb[0] != 0 || memcmp(vb, vals[i], (size_t)TL[i])) mc_fail(TL[i] >= 32768 ? "widths.value.beyond-15-bits" : rootrep > 0 ? "widths.value.root-with-repetition" : "widths.value", "%s: leaf %s: read_batch = %lld, levels %d/%d", desc, names[i], (long long)got, db[0], rb[0]);
        free(vb); carquet_column_reader_free(cr); }
    carquet_reader_close(rd); free(x); ref_buf_free(&img);
}

/* one leaf below a chain of depth-1 groups (plus a sibling leaf next to the deepest group): column paths of 1..100 parts, levels up to 100 */
static void chain_case(int depth, int cyc, int tail) {
    char desc[96]; snprintf(desc, sizeof desc, "c17:chain;depth=%d;labels=%d;sibling=%d", depth, cyc, tail); char key[96];
    int n = 1 + depth + (tail && depth > 1 ? 1 : 0); ref_schema_elem* sc = ref_alloc(&RA, sizeof(ref_schema_elem) * (size_t)n); memset(sc, 0, sizeof(ref_schema_elem) * (size_t)n);
    static char names[128][8]; int D = 0, R = 0, Dt = 0, Rt = 0, ns = 0; bool sib = tail && depth > 1;
    sc[ns].name = (ref_bin){ (const uint8_t*)"schema", 6, true }; sc[ns].has_num_children = true; sc[ns].num_children = 1; ns++;
    for (int i = 1; i <= depth; i++) {
        ref_schema_elem* e = &sc[ns++]; snprintf(names[i], 8, i == depth ? "v%d" : "g%d", i); e->name = (ref_bin){ (const uint8_t*)names[i], (int32_t)strlen(names[i]), true };
        int rep = cyc == 0 ? 1 : cyc == 1 ? (i % 3 == 1 ? 1 : i % 3 == 2 ? 2 : 0) : cyc == 2 ? 0 : 2; e->has_rep = true; e->rep = rep; if (rep == 1) D++; else if (rep == 2) { D++; R++; }
        if (i < depth) { e->has_num_children = true; e->num_children = (i == depth - 1 && sib) ? 2 : 1; if (i == depth - 1) { Dt = D; Rt = R; } } else { e->has_type = true; e->type = PT_INT32; }
    }
    if (sib) { ref_schema_elem* e = &sc[ns++]; e->name = (ref_bin){ (const uint8_t*)"t", 1, true }; e->has_rep = true; e->rep = 1; e->has_type = true; e->type = PT_INT64; Dt++; }
    int nleaf = sib ? 2 : 1; ref_coldata* cols = ref_alloc(&RA, sizeof(ref_coldata) * 2); ref_chunk_layout* L = ref_alloc(&RA, sizeof(ref_chunk_layout) * 2); memset(L, 0, sizeof(ref_chunk_layout) * 2);
    fill_col(&cols[0], PT_INT32, 0, D, R, 0); if (sib) fill_col(&cols[1], PT_INT64, 0, Dt, Rt, 1); for (int l = 0; l < nleaf; l++) { L[l].crc = true; L[l].level_form = REF_H_MIXED; }
    int64_t rows = 2; ref_write_req rq; memset(&rq, 0, sizeof rq); rq.schema = sc; rq.nschema = ns; rq.nleaves = nleaf; rq.nrg = 1; rq.rg_rows = &rows; rq.cols = cols; rq.layouts = L; rq.fl.created_by = "ref_pq";
    ref_buf img; ref_buf_init(&img); if (ref_pq_write(&RA, &rq, &img, NULL, 0, NULL)) mc_harness_error("reference writer failed (%s)", desc);
    ref_file rf; if (ref_pq_read(&RA, img.p, img.n, &rf, REF_RD_CHECK_TOTALS)) mc_harness_error("reference reader rejects the reference file: %s (%s)", rf.err, desc);
    uint8_t* x = mc_exact(img.p, img.n); carquet_error_t err = CARQUET_ERROR_INIT; carquet_reader_t* rd = carquet_reader_open_buffer(x, img.n, NULL, &err);
    if (!rd) { snprintf(key, sizeof key, "chain.open-failed.%s", depth >= 64 ? "depth-64-to-100" : "depth-below-64"); mc_fail(key, "%s: code %d %s", desc, err.code, err.message); free(x); ref_buf_free(&img); return; }
    const carquet_schema_t* s = carquet_reader_schema(rd);
    if (carquet_schema_num_columns(s) != nleaf || carquet_schema_num_elements(s) != ns) mc_fail("chain.counts", "%s: %d columns / %d elements, file has %d / %d", desc, carquet_schema_num_columns(s), carquet_schema_num_elements(s), nleaf, ns);
    else {
        int d = 0, r = 0;
        for (int i = 1; i < ns; i++) { const carquet_schema_node_t* nd = carquet_schema_get_element(s, i); if (!nd) { mc_fail("chain.element-missing", "%s: element %d", desc, i); continue; }
            bool isleaf = sc[i].has_type; int wd, wr; if (i <= depth) { if (sc[i].rep == 1) d++; else if (sc[i].rep == 2) { d++; r++; } wd = d; wr = r; } else { wd = Dt; wr = Rt; }
            if (strcmp(carquet_schema_node_name(nd), (const char*)sc[i].name.p) || carquet_schema_node_is_leaf(nd) != isleaf || (int)carquet_schema_node_repetition(nd) != sc[i].rep) mc_fail("chain.element", "%s: element %d: name %s leaf %d repetition %d", desc, i, carquet_schema_node_name(nd), carquet_schema_node_is_leaf(nd), (int)carquet_schema_node_repetition(nd));
            if (carquet_schema_node_max_def_level(nd) != wd || carquet_schema_node_max_rep_level(nd) != wr) { snprintf(key, sizeof key, "chain.levels.%s", isleaf ? "leaf" : "group"); mc_fail(key, "%s: element %d reports levels %d/%d, the path has %d/%d", desc, i, carquet_schema_node_max_def_level(nd), carquet_schema_node_max_rep_level(nd), wd, wr); } }
        for (int l = 0; l < nleaf; l++) {
            const char* nm = l ? "t" : names[depth]; if (carquet_schema_find_column(s, nm) != l) mc_fail("chain.find-column", "%s: find_column(%s) = %d", desc, nm, carquet_schema_find_column(s, nm));
            carquet_column_reader_t* cr = carquet_reader_get_column(rd, 0, l, &err); if (!cr) { mc_fail("chain.column-open-failed", "%s: leaf %d code %d %s", desc, l, err.code, err.message); continue; }
            const ref_coldata* c = &cols[l]; int w = l ? 8 : 4; uint8_t* vb = mc_exact(NULL, (size_t)w * 5); int16_t* db = mc_exact(NULL, 10); int16_t* rb = mc_exact(NULL, 10);
            int64_t got = carquet_column_read_batch(cr, vb, 5, db, rb); bool ok = got == c->nlevels; for (int64_t i = 0; ok && i < got; i++) ok = db[i] == c->def[i] && rb[i] == c->rep[i]; if (ok) ok = !memcmp(vb, c->fixed, (size_t)c->nvalues * (size_t)w);
            if (!ok) { snprintf(key, sizeof key, "chain.leaf-decodes-wrong.%s", c->max_def >= 64 ? "levels-64-to-100" : c->max_def >= 16 ? "levels-16-to-63" : "levels-below-16"); mc_fail(key, "%s: leaf %d (max_def %d, max_rep %d): read_batch = %lld of %lld, first def/rep %d/%d", desc, l, c->max_def, c->max_rep, (long long)got, (long long)c->nlevels, got > 0 ? db[0] : -1, got > 0 ? rb[0] : -1); }
            free(vb); free(db); free(rb); carquet_column_reader_free(cr);
        }
    }
    carquet_reader_close(rd); free(x); ref_buf_free(&img);
}

static void enumerate(void) {
    mc_rule("C17: every ordered rooted tree with up to 6 (quick) / 7 (thorough) nodes x every labeling of the non-root nodes by {REQUIRED, OPTIONAL, REPEATED} x {unique, colliding, prefix-of-an-earlier-leaf} names, written by the reference writer with rows whose levels are at "
            "their maxima (leaf types cycle through the 8 physical types). Oracle = textbook definition computed on the tree: leaves in DFS order, max_def = optional+repeated nodes on the path, max_rep = repeated nodes; element accessors; "
            "find_column; the levels carquet reports AND the levels it uses (read_batch must return the stored levels and values). Builder: a group added as element {1,2,7,31,62..66,100,126..130,254..258,510..514,1023..1025} (the element array grows at 64,128,...) x 3 repetitions; 19 logical types (every TIME/TIMESTAMP unit x UTC flag, decimals, integers) through reference-written footers (flat and nested) and through the builder + writer; add_column sequences of length {0,1,2,63,64,65,127,128,129,1000} x 4 repetition modes x 9 type modes, "
            "accessors compared; one leaf below a chain of 0..99 groups (column paths of 1..100 parts, the parser's cap; 4 labelings, with and without a sibling leaf); and the file the writer produces from the schema read back by the reference reader. Non-trivial = every case; distinct by (tree, labeling, naming) key.");
    int NT = mc_thorough() ? 8 : 7;
    mc_stage("trees.all-shapes.all-labelings");
    for (int n = 1; n <= NT; n++) trees(n, 0, 0, 0, on_tree, NULL);
    mc_stage("builder.add-column-sequences");
    static const int LEN[] = { 0, 1, 2, 63, 64, 65, 127, 128, 129, 1000 };
    for (int li = 0; li < 10; li++) for (int rm = 0; rm < 4; rm++) for (int tm = 0; tm < 9; tm++) {
        if (!mc_next()) continue;
        mc_desc("c17:builder;ncols=%d;repmode=%d;typemode=%d", LEN[li], rm, tm); mc_case_key(mc_mix(0x17b, ((uint64_t)li << 16) | ((uint64_t)rm << 8) | (uint64_t)tm)); mc_nontrivial();
        builder_case(LEN[li], rm, tm); ref_arena_free(&RA);
    }
    mc_stage("builder.group-at-every-capacity-boundary");
    static const int POS[] = { 1, 2, 7, 31, 62, 63, 64, 65, 66, 100, 126, 127, 128, 129, 130, 254, 255, 256, 257, 258, 510, 511, 512, 513, 514, 1023, 1024, 1025 };
    for (int pi = 0; pi < 28; pi++) for (int rep = 0; rep < 3; rep++) {
        if (!mc_next()) continue;
        mc_desc("c17:builder-group;element=%d;repetition=%d", POS[pi], rep); mc_case_key(mc_mix(0x17c, ((uint64_t)pi << 8) | (uint64_t)rep)); mc_nontrivial();
        builder_group_case(POS[pi], rep);
    }
    mc_stage("file.flba-widths.root-repetition");
    for (int rootrep = -1; rootrep <= 2; rootrep++) for (int nested = 0; nested < 2; nested++) {
        if (!mc_next()) continue;
        mc_desc("c17:flba-widths;root-repetition=%d;nested=%d", rootrep, nested); mc_case_key(mc_mix(0x17e, ((uint64_t)(rootrep + 1) << 4) | (uint64_t)nested)); mc_nontrivial();
        widths_and_root_case(rootrep, nested); ref_arena_free(&RA);
    }
    mc_stage("file.deep-chains.depth-1-to-100");
    for (int depth = 1; depth <= 100; depth++) for (int cyc = 0; cyc < 4; cyc++) for (int tail = 0; tail < 2; tail++) {
        if (!mc_next()) continue;
        mc_desc("c17:chain;depth=%d;labels=%d;sibling=%d", depth, cyc, tail); mc_case_key(mc_mix(0x17f, ((uint64_t)depth << 8) | ((uint64_t)cyc << 1) | (uint64_t)tail)); mc_nontrivial();
        chain_case(depth, cyc, tail); ref_arena_free(&RA);
    }
    mc_stage("logical-types.every-type.every-unit.flat-and-nested");
    for (int first = 0; first < NLT; first++) for (int count = 1; count <= (mc_thorough() ? NLT : 3); count += (count < 3 ? 1 : NLT - 3)) for (int nested = 0; nested < 2; nested++) {
        if (!mc_next()) continue;
        mc_desc("c17:logical;first=%d;count=%d;nested=%d", first, count, nested); mc_case_key(mc_mix(0x17d, ((uint64_t)first << 16) | ((uint64_t)count << 8) | (uint64_t)nested)); mc_nontrivial();
        logical_case(first, count, nested); ref_arena_free(&RA);
    }
}
int main(int argc, char** argv) { return mc_main(argc, argv, "c17", enumerate); }
