/* rt.c — C01 (mode c01: write-then-read round trip through carquet's own
 * reader) and C05 (mode c05: every file the writer reports complete is valid
 * Parquet for an independent reader, and byte-deterministic). */
#define _GNU_SOURCE
#include "tbl.h"
#include "mc/fault.h"
#include <unistd.h>

static int C05;
static ref_arena RA;
static char g_dir[256];

static const char* page_feature(const hist_t* h, int ci) {
    bool multi = false;
    for (int g = 0; g < h->nrg; g++) if (tbl_batches(h, g, ci) > 1) multi = true;
    const tcol_t* c = &h->cols[ci];
    static char b[96];
    snprintf(b, sizeof b, "%s.%s.%s", c->opt ? "nullable" : "required", c->ptype == PT_BOOLEAN ? "bool" : c->ptype == PT_BYTE_ARRAY ? "bytearray" : "fixed",
             (multi && h->page_sel != 0) ? "batches-share-page" : (multi ? "one-batch-per-page" : "single-batch"));
    return b;
}

static bool coldata_equal(const ref_coldata* got, const ref_coldata* exp, char* why, size_t wn) {
    int w = ref_type_width(exp->ptype, exp->type_length);
    if (got->nlevels != exp->nlevels) { snprintf(why, wn, "row count %lld, expected %lld", (long long)got->nlevels, (long long)exp->nlevels); return false; }
    if (exp->max_def > 0) for (int64_t i = 0; i < exp->nlevels; i++) if (got->def[i] != exp->def[i]) { snprintf(why, wn, "null position differs at row %lld (def %d, expected %d)", (long long)i, got->def[i], exp->def[i]); return false; }
    if (got->nvalues != exp->nvalues) { snprintf(why, wn, "%lld non-null values, expected %lld", (long long)got->nvalues, (long long)exp->nvalues); return false; }
    for (int64_t i = 0; i < exp->nvalues; i++) {
        if (exp->ptype == PT_BYTE_ARRAY) { if (got->strs[i].n != exp->strs[i].n || (exp->strs[i].n && memcmp(got->strs[i].p, exp->strs[i].p, exp->strs[i].n))) { snprintf(why, wn, "value %lld: %u bytes %s, expected %u bytes %s", (long long)i, got->strs[i].n, mc_hex(got->strs[i].p, got->strs[i].n, 8), exp->strs[i].n, mc_hex(exp->strs[i].p, exp->strs[i].n, 8)); return false; } }
        else if (memcmp(got->fixed + i * w, exp->fixed + i * w, (size_t)w)) { snprintf(why, wn, "value %lld: %s, expected %s", (long long)i, mc_hex(got->fixed + i * w, (size_t)w, 16), mc_hex(exp->fixed + i * w, (size_t)w, 16)); return false; }
    }
    return true;
}

/* ---- C01: carquet reader ------------------------------------------------------- */
static void verify_with_carquet(const hist_t* h, const uint8_t* img, size_t len, int iomode, const char* path) {
    char key[200], why[300];
    carquet_error_t err = CARQUET_ERROR_INIT; carquet_reader_options_t ro; carquet_reader_options_init(&ro);
    carquet_reader_t* rd;
    if (iomode == 0) rd = carquet_reader_open_buffer(img, len, &ro, &err);
    else { ro.use_mmap = iomode == 2; rd = carquet_reader_open(path, &ro, &err); }
    if (!rd) { mc_fail("reopen.failed", "mode=%d code=%d msg=%s", iomode, err.code, err.message); return; }
    if (carquet_reader_num_rows(rd) != h->N) mc_fail("rows.total", "num_rows %lld, wrote %d", (long long)carquet_reader_num_rows(rd), h->N);
    if (carquet_reader_num_columns(rd) != h->ncols) { mc_fail("schema.num-columns", "%d columns, wrote %d", carquet_reader_num_columns(rd), h->ncols); carquet_reader_close(rd); return; }
    const carquet_schema_t* sc = carquet_reader_schema(rd);
    for (int c = 0; c < h->ncols; c++) {
        /* element 0 is the root; leaves follow in order for flat schemas */
        const carquet_schema_node_t* nd = carquet_schema_get_element(sc, c + 1);
        if (!nd) { mc_fail("schema.element-missing", "element %d", c + 1); continue; }
        if (strcmp(carquet_schema_node_name(nd), h->cols[c].name)) mc_fail("schema.name", "column %d name %s, wrote %s", c, carquet_schema_node_name(nd), h->cols[c].name);
        if ((int)carquet_schema_node_physical_type(nd) != h->cols[c].ptype) mc_fail("schema.type", "column %d type %d, wrote %d", c, (int)carquet_schema_node_physical_type(nd), h->cols[c].ptype);
        if ((int)carquet_schema_node_repetition(nd) != (h->cols[c].opt ? 1 : 0)) mc_fail("schema.repetition", "column %d repetition %d", c, (int)carquet_schema_node_repetition(nd));
        if (h->cols[c].ptype == PT_FLBA && carquet_schema_node_type_length(nd) != h->cols[c].tlen) mc_fail("schema.type-length", "column %d type_length %d, wrote %d", c, carquet_schema_node_type_length(nd), h->cols[c].tlen);
        if (carquet_schema_find_column(sc, h->cols[c].name) != c && h->ncols == 1) mc_fail("schema.find-column", "find_column(%s) = %d", h->cols[c].name, carquet_schema_find_column(sc, h->cols[c].name));
    }
    /* partition into non-empty row groups */
    int exp_groups[20], neg = 0; for (int g = 0; g < h->nrg; g++) if (h->rg_rows[g] > 0) exp_groups[neg++] = g;
    int nrg = carquet_reader_num_row_groups(rd); int got_idx[64], ngot = 0;
    for (int g = 0; g < nrg && ngot < 64; g++) { carquet_row_group_metadata_t md; if (carquet_reader_row_group_metadata(rd, g, &md) != CARQUET_OK) { mc_fail("row-groups.metadata", "row group %d", g); continue; } if (md.num_rows > 0) got_idx[ngot++] = g; }
    bool part_ok = ngot == neg;
    for (int i = 0; part_ok && i < neg; i++) { carquet_row_group_metadata_t md; (void)carquet_reader_row_group_metadata(rd, got_idx[i], &md); if (md.num_rows != h->rg_rows[exp_groups[i]]) part_ok = false; }
    if (!part_ok) { mc_fail("row-groups.partition", "file has %d non-empty row groups (of %d), wrote %d", ngot, nrg, neg); carquet_reader_close(rd); return; }
    for (int i = 0; i < neg; i++)
        for (int c = 0; c < h->ncols; c++) {
            ref_coldata exp; tbl_expected(&RA, h, exp_groups[i], c, &exp);
            int w = tbl_width(&h->cols[c]); int64_t rows = exp.nlevels;
            for (int pass = 0; pass < (h->cols[c].ptype == PT_BYTE_ARRAY ? 2 : 1); pass++) {
                carquet_column_reader_t* cr = carquet_reader_get_column(rd, got_idx[i], c, &err);
                if (!cr) { mc_fail("column.open-failed", "rg %d col %d code=%d %s", got_idx[i], c, err.code, err.message); break; }
                ref_coldata got; memset(&got, 0, sizeof got); got.def = ref_alloc(&RA, sizeof(int16_t) * (size_t)(rows + 2)); got.fixed = ref_alloc(&RA, (size_t)(w ? w : 1) * (size_t)(rows + 2)); got.strs = ref_alloc(&RA, sizeof(ref_str) * (size_t)(rows + 2));
                /* pass 0: one call for the whole chunk (+2 to see over-delivery); pass 1 (byte arrays): two calls, pointers of call 1 dereferenced before call 2 */
                int64_t parts[2] = { pass == 0 ? rows + 2 : (rows + 1) / 2, rows + 2 }; int nparts = pass == 0 ? 1 : 2; int64_t done = 0; bool bad = false;
                for (int q = 0; q < nparts && !bad; q++) {
                    int64_t k = parts[q]; size_t vs = h->cols[c].ptype == PT_BYTE_ARRAY ? sizeof(carquet_byte_array_t) : (size_t)w;
                    void* vb = mc_exact(NULL, vs * (size_t)(k ? k : 1)); int16_t* db = mc_exact(NULL, sizeof(int16_t) * (size_t)(k ? k : 1));
                    memset(vb, 0xEE, vs * (size_t)(k ? k : 1)); memset(db, 0x7f, sizeof(int16_t) * (size_t)(k ? k : 1));
                    int64_t n = carquet_column_read_batch(cr, vb, k, db, NULL);
                    if (n < 0) { snprintf(key, sizeof key, "column.read-error.%s", page_feature(h, c)); mc_fail(key, "rg %d col %d read_batch(%lld) = %lld after %lld rows", got_idx[i], c, (long long)k, (long long)n, (long long)done); bad = true; }
                    else {
                        if (done + n > rows) { mc_fail("column.too-many-rows", "rg %d col %d delivered %lld rows of %lld", got_idx[i], c, (long long)(done + n), (long long)rows); n = rows - done; }
                        int64_t nn = 0;
                        for (int64_t r = 0; r < n; r++) { got.def[done + r] = h->cols[c].opt ? db[r] : 0; if (!h->cols[c].opt || db[r] == 1) nn++; }
                        if (h->cols[c].ptype == PT_BYTE_ARRAY) { carquet_byte_array_t* ba = vb; for (int64_t r = 0; r < nn; r++) { uint8_t* cp = ref_alloc(&RA, (size_t)(ba[r].length > 0 ? ba[r].length : 1)); if (ba[r].length > 0) memcpy(cp, ba[r].data, (size_t)ba[r].length); got.strs[got.nvalues + r].p = cp; got.strs[got.nvalues + r].n = (uint32_t)ba[r].length; } }
                        else memcpy(got.fixed + got.nvalues * w, vb, (size_t)nn * (size_t)w);
                        got.nvalues += nn; done += n;
                        if (n == 0) { free(vb); free(db); break; }
                    }
                    free(vb); free(db);
                }
                got.nlevels = done; got.ptype = exp.ptype; got.type_length = exp.type_length;
                if (!bad && !coldata_equal(&got, &exp, why, sizeof why)) {
                    snprintf(key, sizeof key, "column.%s.%s", strstr(why, "null position") ? "nulls" : strstr(why, "row count") ? "row-count" : "values", page_feature(h, c));
                    mc_fail(key, "mode=%d rg %d col %d pass %d: %s", iomode, got_idx[i], c, pass, why);
                }
                carquet_column_reader_free(cr);
            }
        }
    carquet_reader_close(rd);
}

/* ---- C05: reference reader + determinism ------------------------------------------ */
static void verify_with_reference(const hist_t* h, const uint8_t* img, size_t len) {
    char key[200], why[300]; ref_file f;
    if (ref_pq_read(&RA, img, len, &f, REF_RD_CHECK_TOTALS) != 0) {
        char cls[48]; size_t k = strcspn(f.err, ":"); if (k > 40) k = 40; memcpy(cls, f.err, k); cls[k] = 0;
        snprintf(key, sizeof key, "ref-reader.%s%s%s", cls, !strcmp(cls, "levels") || !strcmp(cls, "values") || !strcmp(cls, "num-values") ? "." : "", !strcmp(cls, "levels") || !strcmp(cls, "values") || !strcmp(cls, "num-values") ? page_feature(h, 0) : "");
        mc_fail(key, "%s", f.err); return;
    }
    if (f.meta.num_rows != h->N) mc_fail("ref-reader.table.rows", "num_rows %lld, wrote %d", (long long)f.meta.num_rows, h->N);
    if (f.leaves.nleaves != h->ncols) { mc_fail("ref-reader.table.columns", "%d leaves, wrote %d", f.leaves.nleaves, h->ncols); return; }
    for (int c = 0; c < h->ncols; c++) {
        const ref_schema_elem* e = &f.meta.schema[f.leaves.leaf_schema_idx[c]];
        if (e->name.n != (int32_t)strlen(h->cols[c].name) || memcmp(e->name.p, h->cols[c].name, (size_t)e->name.n) || e->type != h->cols[c].ptype || !e->has_rep || e->rep != (h->cols[c].opt ? 1 : 0) ||
            (h->cols[c].ptype == PT_FLBA && (!e->has_type_length || e->type_length != h->cols[c].tlen))) mc_fail("ref-reader.table.schema", "column %d schema element differs from what was declared", c);
        { carquet_logical_type_t lt; bool has = tbl_logical_of(h, c, &lt);      /* the annotation declared, in the footer's own terms (Thrift union member ids; units 1..3) */
          static const int TID[16] = { 0, 1, 2, 3, 4, 5, 6, 7, 8, 10, 11, 12, 13, 14, 15, 0 };
          bool ok = has == e->has_logical && (!has || (e->logical.id == TID[lt.id & 15] &&
                    (lt.id != CARQUET_LOGICAL_TIMESTAMP || (e->logical.unit == (int)lt.params.timestamp.unit + 1 && e->logical.utc == lt.params.timestamp.is_adjusted_to_utc)) &&
                    (lt.id != CARQUET_LOGICAL_TIME || (e->logical.unit == (int)lt.params.time.unit + 1 && e->logical.utc == lt.params.time.is_adjusted_to_utc)) &&
                    (lt.id != CARQUET_LOGICAL_INTEGER || (e->logical.bit_width == lt.params.integer.bit_width && e->logical.is_signed == lt.params.integer.is_signed))));
          if (!ok) mc_fail("ref-reader.table.schema.logical-type", "column %d: declared %s logical type id %d, the footer has %s id %d unit %d utc %d width %d", c, has ? "a" : "no", has ? (int)lt.id : -1, e->has_logical ? "thrift" : "no", e->has_logical ? e->logical.id : -1, e->logical.unit, (int)e->logical.utc, e->logical.bit_width); }
    }
    int gi = 0;
    for (int g = 0; g < h->nrg; g++) {
        if (h->rg_rows[g] == 0) continue;
        while (gi < f.meta.nrg && f.meta.rgs[gi].num_rows == 0) gi++;
        if (gi >= f.meta.nrg) { mc_fail("ref-reader.table.row-groups", "fewer non-empty row groups than written"); return; }
        for (int c = 0; c < h->ncols; c++) {
            ref_coldata exp; tbl_expected(&RA, h, g, c, &exp);
            if (!coldata_equal(&f.cols[gi * h->ncols + c], &exp, why, sizeof why)) { snprintf(key, sizeof key, "ref-reader.table.%s.%s", strstr(why, "null position") ? "nulls" : strstr(why, "row count") ? "row-count" : "values", page_feature(h, c)); mc_fail(key, "rg %d col %d: %s", g, c, why); }
        }
        gi++;
    }
    while (gi < f.meta.nrg && f.meta.rgs[gi].num_rows == 0) gi++;
    if (gi != f.meta.nrg) mc_fail("ref-reader.table.row-groups", "more non-empty row groups than written");
    mc_count("pages.validated", (uint64_t)f.npages);
    int multi = 0; for (int i = 1; i < f.npages; i++) if (f.pages[i].rg == f.pages[i - 1].rg && f.pages[i].leaf == f.pages[i - 1].leaf) multi = 1;
    if (multi) mc_count("files.with-multi-page-chunk", 1);
}

static ssize_t cookie_append(void* c, const char* b, size_t n) { struct { uint8_t* p; size_t n, cap; }* s = c; if (s->n + n > s->cap) { s->cap = (s->n + n) * 2 + 256; s->p = realloc(s->p, s->cap); } memcpy(s->p + s->n, b, n); s->n += n; return (ssize_t)n; }
static void run_case(const hist_t* h, bool io_modes) {
    uint8_t* img; size_t len; carquet_status_t st; const char* where;
    mcf_reset(); if (C05) { mcf_on(); mcf_poison(0xA5); }
    int rej = tbl_write(h, &img, &len, &st, &where);
    mcf_off();
    if (rej && !strncmp(where, "close returned OK", 16)) { mc_fail("writer.close-ok-but-bytes-not-flushed", "carquet_writer_close returned OK for a caller-owned stream whose buffer still held part of the file"); return; }
    if (rej) { char k[64]; snprintf(k, sizeof k, "rejected.%s.status%d", where, st); mc_count(k, 1); mc_outcome("writer-refused"); return; }
    mc_outcome("written");
    /* every 8th history also through two other kinds of destination; the bytes must be the ones of the memory stream:
     * (a) a stream that cannot seek or tell (a pipe, a socket: fopencookie without a seek function);
     * (b) a path at which a longer file already exists */
    { static unsigned turn; if ((turn++ & 7) == 0) {
        static struct { uint8_t* p; size_t n, cap; } sink; sink.n = 0;
        cookie_io_functions_t io = { NULL, cookie_append, NULL, NULL }; FILE* cf = fopencookie(&sink, "w", io);
        if (cf) { setvbuf(cf, NULL, _IOFBF, 512); tbl_result r; tbl_exec(h, cf, NULL, -1, &r); fclose(cf);
            if (r.status != CARQUET_OK) mc_fail("writer.non-seekable-stream.refused", "status %d at %s", r.status, r.where);
            else if (sink.n != len || memcmp(sink.p, img, len)) { size_t d = 0; while (d < len && d < sink.n && img[d] == sink.p[d]) d++; mc_fail("writer.non-seekable-stream.bytes-differ", "the file written to a stream without seek/tell differs from the one written to a memory stream at offset %zu (%zu vs %zu bytes)", d, sink.n, len); } }
        char path[300]; snprintf(path, sizeof path, "%s/rt_pre_%d.parquet", g_dir, (int)getpid()); FILE* pf = fopen(path, "wb");
        if (pf) { for (size_t i = 0; i < len + 1000; i++) fputc(0x5A, pf); fclose(pf); carquet_status_t st2; const char* w2;
            if (tbl_write_path(h, path, &st2, &w2) != 0) mc_fail("writer.existing-destination.refused", "status %d at %s", st2, w2);
            else { FILE* rf = fopen(path, "rb"); uint8_t* got = malloc(len + 2000); size_t gn = rf ? fread(got, 1, len + 2000, rf) : 0; if (rf) fclose(rf);
                if (gn != len || memcmp(got, img, len)) mc_fail("writer.existing-destination.bytes-differ", "writing to a path that held a longer file leaves %zu bytes there, the table is %zu bytes%s", gn, len, gn > len && !memcmp(got, img, len) ? " (the new file followed by the tail of the old one)" : ""); free(got); }
            unlink(path); } } }
    if (!C05) {
        verify_with_carquet(h, img, len, 0, NULL);
        if (io_modes) {
            char path[300]; snprintf(path, sizeof path, "%s/rt_%d.parquet", g_dir, (int)getpid());
            if (tbl_write_path(h, path, &st, &where) == 0) { verify_with_carquet(h, NULL, 0, 1, path); verify_with_carquet(h, NULL, 0, 2, path); } else mc_count("rejected.path-writer", 1);
            unlink(path);
        }
    } else {
        verify_with_reference(h, img, len);
        uint8_t* img2; size_t len2;
        mcf_reset(); mcf_on(); mcf_poison(0x5A);
        int rej2 = tbl_write(h, &img2, &len2, &st, &where); mcf_off();
        if (rej2) mc_fail("determinism.second-write-refused", "%s status %d", where, st);
        else {
            if (len != len2 || memcmp(img, img2, len)) { size_t d = 0; while (d < len && d < len2 && img[d] == img2[d]) d++; mc_fail("determinism.bytes-differ", "two writes of the same history differ at offset %zu of %zu/%zu (%02x vs %02x)", d, len, len2, d < len ? img[d] : 0, d < len2 ? img2[d] : 0); }
            free(img2);
        }
    }
    free(img);
}


/* ---- long single-column tables: sizes at the boundaries of internal representations ---------------------------------
 * (RLE run headers of 1/2/3 bytes: runs of 63/64, 8191/8192; level blocks and pages beyond 64 KiB; match distances of
 * 64 KiB; literal runs of 15+255k bytes; > 64 retired pages in one read; skip counts beyond the 1024-value scratch) */
typedef struct { int N, kind, maskkind, codec, batching, page_sel, pattern; } big_t;
static const char* big_desc(const big_t* b) { static char d[160]; snprintf(d, sizeof d, "big:col=%s;n=%d;mask=%d;codec=%d;batching=%d;ps=%d;vals=%d", TBL_KINDS[b->kind].name, b->N, b->maskkind, b->codec, b->batching, b->page_sel, b->pattern); return d; }
static bool big_null(const big_t* b, int r) {
    switch (b->maskkind) { case 0: return false; case 1: return r == 0; case 2: return r == b->N / 2; case 3: return r == b->N - 1; case 4: return (r & 1) != 0; case 5: return ((r >> 13) & 1) != 0;        /* blocks of 8192 */
        case 6: return ((uint32_t)r * 2654435761u >> 29) < 3; default: return r >= 5 && r < b->N - 5; }                                                                                                   /* 6: irregular (3/8 null), 7: all null but the ends */
}
static void big_value(const big_t* b, int r, uint8_t* out, ref_str* s, char* sbuf) {
    int pt = TBL_KINDS[b->kind].ptype; uint64_t x;
    switch (b->pattern) { case 0: x = (uint64_t)r * 0x9E3779B97F4A7C15ull; x ^= x >> 29; break;                         /* incompressible */
        case 1: { int q = r % 8192; x = (uint64_t)q * 0x9E3779B97F4A7C15ull; x ^= x >> 29; break; }                      /* repeats after 8192 values: a match distance of exactly 64 KiB for 8-byte values */
        case 2: { int q = r < 195 ? r : (r - 195) % 64; x = (uint64_t)q * 0xD1B54A32D192ED03ull; x ^= x >> 31; break; }  /* 195 literals (780 bytes of int32) then repeats: literal run 15+255*3 */
        default: x = (uint64_t)(r / 1000); break; }                                                                      /* long constant stretches */
    switch (pt) { case PT_BOOLEAN: out[0] = (uint8_t)(x & 1); break; case PT_INT32: case PT_FLOAT: { uint32_t v = (uint32_t)x; if (pt == PT_FLOAT && (v & 0x7f800000u) == 0x7f800000u) v &= 0xff7fffffu; memcpy(out, &v, 4); break; }
        case PT_INT64: case PT_DOUBLE: { if (pt == PT_DOUBLE && (x & 0x7ff0000000000000ull) == 0x7ff0000000000000ull) x &= 0xffefffffffffffffull; memcpy(out, &x, 8); break; }
        case PT_FLBA: for (int i = 0; i < TBL_KINDS[b->kind].tlen; i++) out[i] = (uint8_t)(x >> (8 * (i & 7))); break;
        default: { int L = b->pattern == 3 ? 3 : 5 + (int)(x % 11); snprintf(sbuf, 32, "%0*llx", L, (unsigned long long)(x & 0xfffffffffffull)); s->p = (const uint8_t*)sbuf; s->n = (uint32_t)strlen(sbuf); break; } }
}
static void big_case(const big_t* b) {
    const tcol_t* kc = &TBL_KINDS[b->kind]; int w = tbl_width(kc), N = b->N; carquet_error_t err = CARQUET_ERROR_INIT;
    /* expected content */
    int16_t* def = malloc(sizeof(int16_t) * (size_t)N + 2); uint8_t* fixed = malloc((size_t)(w ? w : 1) * (size_t)N + 16); ref_str* strs = malloc(sizeof(ref_str) * (size_t)N + 16); char* pool = malloc(32 * (size_t)N + 32); int64_t nv = 0;
    for (int r = 0; r < N; r++) { bool nul = kc->opt && big_null(b, r); def[r] = nul ? 0 : 1; if (nul) continue; big_value(b, r, fixed + (size_t)nv * (size_t)w, &strs[nv], pool + 32 * (size_t)nv); nv++; }
    /* write */
    carquet_schema_t* sch = carquet_schema_create(&err); (void)carquet_schema_add_column(sch, "v", (carquet_physical_type_t)kc->ptype, NULL, kc->opt ? CARQUET_REPETITION_OPTIONAL : CARQUET_REPETITION_REQUIRED, kc->tlen);
    carquet_writer_options_t wo; carquet_writer_options_init(&wo); wo.compression = (carquet_compression_t)b->codec; if (b->page_sel == 0) wo.page_size = 1; else if (b->page_sel == 1) wo.page_size = 96;
    char* mem = NULL; size_t mlen = 0; FILE* mf = open_memstream(&mem, &mlen); carquet_writer_t* wr = carquet_writer_create_file(mf, sch, &wo, &err);
    if (!wr) { mc_count("big.writer-create-refused", 1); fclose(mf); free(mem); goto out; }
    { int step = b->batching == 0 ? N : b->batching == 1 ? 1000 : 6; carquet_status_t st = CARQUET_OK; int64_t vpos = 0;
      for (int r0 = 0; r0 < N && st == CARQUET_OK; r0 += step) { int n = N - r0 < step ? N - r0 : step; int64_t nn = 0; for (int r = r0; r < r0 + n; r++) if (def[r]) nn++;
          const void* vals; carquet_byte_array_t* ba = NULL; if (kc->ptype == PT_BYTE_ARRAY) { ba = malloc(sizeof(*ba) * (size_t)(nn + 1)); for (int64_t k = 0; k < nn; k++) { ba[k].data = (uint8_t*)strs[vpos + k].p; ba[k].length = (int32_t)strs[vpos + k].n; } vals = ba; } else vals = fixed + (size_t)vpos * (size_t)w;
          st = carquet_writer_write_batch(wr, 0, vals, n, kc->opt ? def + r0 : NULL, NULL); free(ba); vpos += nn; }
      if (st != CARQUET_OK) { mc_count("big.write-refused", 1); carquet_writer_abort(wr); fclose(mf); free(mem); goto out; }
      if ((st = carquet_writer_close(wr)) != CARQUET_OK) { mc_count("big.close-refused", 1); fclose(mf); free(mem); goto out; } }
    fclose(mf);
    uint8_t* img = mc_exact(mem, mlen); free(mem); mc_outcome("written");
    if (C05) {   /* the independent reader recovers the table */
        ref_file rf; if (ref_pq_read(&RA, img, mlen, &rf, REF_RD_CHECK_TOTALS)) { char key[96]; char cls[32]; snprintf(cls, sizeof cls, "%.30s", rf.err); char* c = strchr(cls, ':'); if (c) *c = 0; snprintf(key, sizeof key, "big.ref-reader.%s", cls); mc_fail(key, "%s: %s", big_desc(b), rf.err); }
        else { const ref_coldata* c = &rf.cols[0]; bool ok = rf.meta.num_rows == N && c->nlevels == N && c->nvalues == nv; for (int r = 0; ok && r < N && kc->opt; r++) ok = c->def[r] == def[r];
            if (ok) { if (kc->ptype == PT_BYTE_ARRAY) { for (int64_t k = 0; ok && k < nv; k++) ok = c->strs[k].n == strs[k].n && !memcmp(c->strs[k].p, strs[k].p, strs[k].n); } else ok = !memcmp(c->fixed, fixed, (size_t)nv * (size_t)w); }
            if (!ok) mc_fail("big.ref-reader.table-differs", "%s: the independent reader recovers a different table (rows %lld levels %lld values %lld, written %d/%lld)", big_desc(b), (long long)rf.meta.num_rows, (long long)c->nlevels, (long long)c->nvalues, N, (long long)nv); }
        ref_arena_free(&RA);
    } else {     /* carquet reads it back: one read for everything; skip + read; chunks of 1000; three I/O modes */
        char path[300]; snprintf(path, sizeof path, "%s/rtbig_%d.parquet", g_dir, (int)getpid()); FILE* pf = fopen(path, "wb"); if (pf) { fwrite(img, 1, mlen, pf); fclose(pf); }
        for (int mode = 0; mode < 3; mode++) for (int hist = 0; hist < 3; hist++) {
            carquet_reader_options_t ro; carquet_reader_options_init(&ro); ro.use_mmap = mode == 2; carquet_reader_t* rd = mode == 0 ? carquet_reader_open_buffer(img, mlen, &ro, &err) : carquet_reader_open(path, &ro, &err);
            if (!rd) { mc_fail("big.reopen-failed", "%s mode %d: code %d %s", big_desc(b), mode, err.code, err.message); continue; }
            carquet_column_reader_t* cr = carquet_reader_get_column(rd, 0, 0, &err); if (!cr) { mc_fail("big.column-open-failed", "%s: code %d", big_desc(b), err.code); carquet_reader_close(rd); continue; }
            size_t vs = kc->ptype == PT_BYTE_ARRAY ? sizeof(carquet_byte_array_t) : (size_t)w; uint8_t* vb = mc_exact(NULL, vs * (size_t)N + 8); int16_t* db = mc_exact(NULL, 2 * (size_t)N + 2);
            int64_t row = 0, vpos = 0; bool ok = true; char why[160] = "";
            if (hist == 1) { int64_t k = N > 1500 ? 1500 : N / 2; int64_t sk = carquet_column_skip(cr, k); if (sk != k) { ok = false; snprintf(why, sizeof why, "skip(%lld) returned %lld", (long long)k, (long long)sk); } for (int64_t r = 0; r < k; r++) if (def[r]) vpos++; row = k; }
            while (ok && row < N) { int64_t want = hist == 2 ? 1000 : N - row; if (want > N - row) want = N - row; int64_t got = carquet_column_read_batch(cr, vb, want, db, NULL);
                if (got != want) { ok = false; snprintf(why, sizeof why, "read_batch(%lld) at row %lld returned %lld", (long long)want, (long long)row, (long long)got); break; }
                int64_t nn = 0; for (int64_t r = 0; r < got && ok; r++) { int dd = kc->opt ? db[r] : 1; if (dd != def[row + r]) { ok = false; snprintf(why, sizeof why, "definition level of row %lld is %d, written %d", (long long)(row + r), dd, def[row + r]); } if (dd) nn++; }
                if (ok) { if (kc->ptype == PT_BYTE_ARRAY) { const carquet_byte_array_t* ba = (const carquet_byte_array_t*)vb; for (int64_t k = 0; ok && k < nn; k++) if ((uint32_t)ba[k].length != strs[vpos + k].n || memcmp(ba[k].data, strs[vpos + k].p, strs[vpos + k].n)) { ok = false; snprintf(why, sizeof why, "value #%lld differs", (long long)(vpos + k)); } }
                    else if (memcmp(vb, fixed + (size_t)vpos * (size_t)w, (size_t)nn * (size_t)w)) { ok = false; int64_t k = 0; while (k < nn && !memcmp(vb + k * w, fixed + (size_t)(vpos + k) * (size_t)w, (size_t)w)) k++; snprintf(why, sizeof why, "value #%lld differs (%s, written %s)", (long long)(vpos + k), mc_hex(vb + k * w, (size_t)w, 8), mc_hex(fixed + (size_t)(vpos + k) * (size_t)w, (size_t)w, 8)); } }
                vpos += nn; row += got; }
            if (!ok) { char key[96]; snprintf(key, sizeof key, "big.readback.%s.%s", hist == 0 ? "one-read" : hist == 1 ? "skip-then-read" : "reads-of-1000", kc->opt ? "nullable" : "required"); mc_fail(key, "%s mode %d: %s", big_desc(b), mode, why); }
            free(vb); free(db); carquet_column_reader_free(cr); carquet_reader_close(rd);
        }
        unlink(path);
    }
    free(img);
out:
    carquet_schema_free(sch); free(def); free(fixed); free(strs); free(pool);
}

#define NEXT(h, key, nt) (mc_next() ? (mc_desc("rt:%s", tbl_desc(h)), mc_case_key(key), ((nt) ? mc_nontrivial() : (void)0), true) : false)
static bool nontrivial(const hist_t* h) {
    for (int c = 0; c < h->ncols; c++) { if (h->cols[c].opt && (h->mask[c] & ((1ull << h->N) - 1))) return true; for (int g = 0; g < h->nrg; g++) if (tbl_batches(h, g, c) > 1) return true; }
    return h->nrg > 1;
}
static uint64_t hkey(const hist_t* h, uint64_t salt) { return mc_hash(tbl_desc(h), strlen(tbl_desc(h)), salt); }

static void enumerate(void) {
    C05 = !strcmp(mc_mode(), "c05");
    const char* sd = getenv("VERIF_SCRATCH"); snprintf(g_dir, sizeof g_dir, "%s", sd ? sd : "/dev/shm");
    if (!C05) mc_rule("C01: write histories over carquet's public writer API (schema x rows x null mask x batch composition x row-group partition x page size x codec x value pattern), all of them within the stated bounds, each re-opened with carquet's "
                      "reader (buffer; path and mmap for a subset) and compared with the table model: row count, non-empty row-group partition, schema, null positions, bit-identical dense values; byte-array pointers are dereferenced "
                      "before the next call. Histories in which a writer call refuses are counted, not judged. Non-trivial = a null, >= 2 batches or >= 2 row groups; distinct by descriptor hash.");
    else mc_rule("C05: the same write histories; every image whose writer calls all returned OK is handed to the independent reference reader (magic, footer length, Thrift required fields and wire types, chunk tiling of [4, footer), "
                 "page-header chaining, sizes, value/row counts, encodings list, codec, CRC-32, size totals per parquet.thrift), the decoded table is compared with what was written, and the history is written twice under two "
                 "different heap poisons and compared byte for byte. Non-trivial as for C01.");
    mc_assume("tables are built from small pools of extreme values per type (3 index->value patterns); pure data movement does not depend on the values");
    hist_t h;
    int NMAX = mc_thorough() ? 8 : 6;
    static const int CODECS2[] = { 0, 1 };
    mc_stage("single-column.all-masks.all-compositions");
    for (int k = 0; k < 14; k++)
        for (int N = 0; N <= NMAX; N++) {
            uint64_t nmask = TBL_KINDS[k].opt ? (1ull << N) : 1, ncomp = N > 0 ? (1ull << (N - 1)) : 1;
            for (uint64_t m = 0; m < nmask; m++) for (uint64_t cp = 0; cp < ncomp; cp++) for (int ps = 0; ps < 3; ps++) for (int cd = 0; cd < 2; cd++) {
                memset(&h, 0, sizeof h); h.ncols = 1; h.cols[0] = TBL_KINDS[k]; h.N = N; h.mask[0] = m; h.comp[0] = cp; h.nrg = 1; h.rg_rows[0] = N; h.page_sel = ps; h.codec = CODECS2[cd];
                if (!NEXT(&h, hkey(&h, 1), nontrivial(&h))) continue;
                run_case(&h, false); ref_arena_free(&RA);
            }
        }
    mc_stage("single-column.long-level-runs.all-masks");
    { static const int KS[] = { 1, 3, 5 }; static const int NS[] = { 12, 13, 16, 17 };
      int nn = mc_thorough() ? 4 : 3;
      for (int ki = 0; ki < 3; ki++) for (int ni = 0; ni < nn; ni++) {
          int N = NS[ni];
          for (uint64_t m = 0; m < (1ull << N); m++) for (int split = 0; split < 2; split++) {
              memset(&h, 0, sizeof h); h.ncols = 1; h.cols[0] = TBL_KINDS[KS[ki]]; h.N = N; h.mask[0] = m; h.comp[0] = split ? (1ull << (N / 2)) : 0; h.nrg = 1; h.rg_rows[0] = N; h.page_sel = 2; h.codec = 0;
              if (!NEXT(&h, hkey(&h, 2), true)) continue;
              run_case(&h, false); ref_arena_free(&RA);
          } } }
    mc_stage("two-columns.row-groups.interleaving");
    { static const int CORE[] = { 0, 1, 3, 5 }; int N2 = mc_thorough() ? 5 : 4;
      for (int a = 0; a < 4; a++) for (int b = 0; b < 4; b++) for (int N = 1; N <= N2; N++)
          for (uint64_t ma = 0; ma < (TBL_KINDS[CORE[a]].opt ? (1ull << N) : 1); ma++) for (uint64_t mb = 0; mb < (TBL_KINDS[CORE[b]].opt ? (1ull << N) : 1); mb += (mc_thorough() ? 1 : 3))
              for (uint64_t cp = 0; cp < (1ull << (N - 1)); cp++) for (int cut = 0; cut <= N; cut++) for (int il = 0; il < 2; il++) for (int ps = 0; ps < 3; ps += 2) {
                  memset(&h, 0, sizeof h); h.ncols = 2; h.cols[0] = TBL_KINDS[CORE[a]]; h.cols[1] = TBL_KINDS[CORE[b]]; h.cols[0].name = "c0"; h.cols[1].name = "c1";
                  h.N = N; h.mask[0] = ma; h.mask[1] = mb; h.comp[0] = cp; h.comp[1] = (cp * 5 + 1) & ((1ull << (N - 1)) - 1);
                  if (cut == 0) { h.nrg = 1; h.rg_rows[0] = N; } else { h.nrg = 2; h.rg_rows[0] = cut; h.rg_rows[1] = N - cut; }
                  h.interleave = il; h.page_sel = ps;
                  if (!NEXT(&h, hkey(&h, 3), true)) continue;
                  run_case(&h, false); ref_arena_free(&RA);
              } }
    mc_stage("codecs.patterns.three-row-groups");
    { static const int CD[] = { 0, 1, 2, 5, 6 };
      for (int k = 0; k < 14; k++) for (int cd = 0; cd < 5; cd++) for (int pat = 0; pat < 3; pat++) for (int N = 3; N <= 9; N += 3)
          for (int mk = 0; mk < 4; mk++) for (int ps = 0; ps < 3; ps++) {
              memset(&h, 0, sizeof h); h.ncols = 1; h.cols[0] = TBL_KINDS[k]; h.N = N; h.codec = CD[cd]; h.pattern = pat; h.page_sel = ps;
              h.mask[0] = TBL_KINDS[k].opt ? (mk == 0 ? 0 : mk == 1 ? (1ull << N) - 1 : mk == 2 ? 0x155 : 0x0c6) & ((1ull << N) - 1) : 0; if (!TBL_KINDS[k].opt && mk) continue;
              h.nrg = 3; h.rg_rows[0] = N / 3; h.rg_rows[1] = N / 3; h.rg_rows[2] = N - 2 * (N / 3); h.comp[0] = 0x2a;
              if (!NEXT(&h, hkey(&h, 4), true)) continue;
              run_case(&h, false); ref_arena_free(&RA);
          } }
    mc_stage("edge.zero-rows.empty-groups.nodef.three-columns.io-modes");
    for (int k = 0; k < 14; k++) for (int v = 0; v < 8; v++) {
        memset(&h, 0, sizeof h); h.ncols = 1; h.cols[0] = TBL_KINDS[k]; h.page_sel = 2;
        switch (v) {
        case 0: h.N = 0; h.nrg = 0; break;                                           /* schema only, close at once */
        case 1: h.N = 0; h.nrg = 1; h.rg_rows[0] = 0; break;
        case 2: h.N = 3; h.nrg = 3; h.rg_rows[0] = 0; h.rg_rows[1] = 3; h.rg_rows[2] = 0; break;   /* empty row groups around a full one */
        case 3: h.N = 9; h.nrg = 1; h.rg_rows[0] = 9; h.nodef = 1; h.comp[0] = 0x24; break;           /* OPTIONAL written without def levels */
        case 4: h.N = 9; h.nrg = 1; h.rg_rows[0] = 9; h.nodef = 1; h.mask[0] = TBL_KINDS[k].opt ? 0x38 : 0; h.comp[0] = 0x24; break;  /* mixed: only some batches carry def levels */
        case 5: h.N = 20; h.nrg = 2; h.rg_rows[0] = 11; h.rg_rows[1] = 9; h.mask[0] = TBL_KINDS[k].opt ? 0x5a5a5 : 0; h.comp[0] = 0x11111; h.page_sel = 1; break;
        case 6: h.N = 33; h.nrg = 1; h.rg_rows[0] = 33; h.mask[0] = TBL_KINDS[k].opt ? 0x1fe00ff00ull : 0; h.comp[0] = 1ull << 15; h.page_sel = 1; h.codec = 1; break;
        default: h.N = 40; h.nrg = 1; h.rg_rows[0] = 40; h.mask[0] = TBL_KINDS[k].opt ? 0xf0f0f0f0f0ull : 0; h.comp[0] = 0x8080808080ull; h.page_sel = 0; h.codec = 6; break;
        }
        if (!NEXT(&h, hkey(&h, 5), true)) continue;
        run_case(&h, true); ref_arena_free(&RA);
    }
    for (int a = 0; a < 14; a += 3) for (int b = 1; b < 14; b += 4) for (int c = 2; c < 14; c += 5) for (int il = 0; il < 2; il++) {
        memset(&h, 0, sizeof h); h.ncols = 3; h.cols[0] = TBL_KINDS[a]; h.cols[1] = TBL_KINDS[b]; h.cols[2] = TBL_KINDS[c]; h.cols[0].name = "alpha"; h.cols[1].name = "beta"; h.cols[2].name = "gamma";
        h.N = 7; h.nrg = 2; h.rg_rows[0] = 4; h.rg_rows[1] = 3; for (int q = 0; q < 3; q++) { h.mask[q] = h.cols[q].opt ? (0x29u << q) & 0x7f : 0; h.comp[q] = 0x12u >> q; } h.interleave = il; h.page_sel = 1;
        if (!NEXT(&h, hkey(&h, 6), true)) continue;
        run_case(&h, true); ref_arena_free(&RA);
    }
    /* footer lists of 13..17 elements (the Thrift list header changes form at 15): columns, and row groups */
    mc_stage("wide.13-to-17-columns.13-to-17-row-groups");
    static const char* WN[] = { "w0", "w1", "w2", "w3", "w4", "w5", "w6", "w7", "w8", "w9", "w10", "w11", "w12", "w13", "w14", "w15", "w16", "w17" };
    for (int n = 13; n <= 17; n++) for (int v = 0; v < 4; v++) {
        memset(&h, 0, sizeof h);
        if (v < 2) { h.ncols = n; for (int c = 0; c < n; c++) { h.cols[c] = TBL_KINDS[v ? (c * 5 + 1) % 14 : 2]; h.cols[c].name = WN[c]; h.mask[c] = h.cols[c].opt ? 0x2 : 0; } h.N = 3; h.nrg = 1; h.rg_rows[0] = 3; }
        else { h.ncols = v - 1; for (int c = 0; c < h.ncols; c++) { h.cols[c] = TBL_KINDS[c ? 5 : 2]; h.cols[c].name = WN[c]; h.mask[c] = h.cols[c].opt ? 0x1249 : 0; } h.N = n; h.nrg = n; for (int g = 0; g < n; g++) h.rg_rows[g] = 1; }
        h.page_sel = 2;
        if (!NEXT(&h, hkey(&h, 7), true)) continue;
        run_case(&h, false); ref_arena_free(&RA);
    }
    mc_stage("long-columns.representation-boundaries");
    {   static const int NS[] = { 63, 64, 65, 1023, 1024, 1025, 8191, 8192, 8193, 16384, 16385, 70000 };
        static const int KK[] = { 1, 7, 0, 5, 3, 13, 11 };      /* i32?, i64?, i32, str?, bool?, flba1?, double? */
        static const int CDX[] = { 0, 1, 5, 6 };
        for (int ni = 0; ni < 12; ni++) for (int ki = 0; ki < 7; ki++) for (int mk = 0; mk < 8; mk++) for (int ci = 0; ci < 4; ci++) for (int bt = 0; bt < 2; bt++) for (int pat = 0; pat < 4; pat++) {
            big_t b = { NS[ni], KK[ki], mk, CDX[ci], bt, 2, pat };
            if (!TBL_KINDS[b.kind].opt && mk) continue;
            if (ki >= 2 && !(mk == 0 || mk == 6)) continue;                       /* the full mask alphabet on the two integer columns only */
            if (ci && !(pat == 1 || pat == 2) && !(ki < 2 && mk == 6)) continue;    /* codecs: on the patterns made for them */
            if (!ci && pat && pat != 3 && ki >= 2) continue;
            if (b.N == 70000 && !(mk == 0 || mk == 6) ) continue;
            if (bt == 1 && b.N < 8191) continue;
            if (!mc_next()) continue;
            mc_desc("rt:%s", big_desc(&b)); mc_case_key(mc_hash(big_desc(&b), strlen(big_desc(&b)), 0xb16)); mc_nontrivial(); mc_budget_ms(20000);
            big_case(&b);
        }
        /* many small pages consumed by one read (more than 64 page buffers alive), and one very large page (level block > 64 KiB) */
        for (int ki = 0; ki < 7; ki++) for (int v = 0; v < 3; v++) {
            big_t b = { v == 0 ? 600 : v == 1 ? 1600 : 400000, KK[ki], TBL_KINDS[KK[ki]].opt ? 6 : 0, v == 2 ? (ki & 1) : 0, v == 2 ? 0 : 2, v == 2 ? 2 : 0, 0 };
            if (v == 2 && !(ki < 2 || KK[ki] == 5)) continue; if (v == 2 && !mc_thorough() && ki > 1) continue;
            if (!mc_next()) continue;
            mc_desc("rt:%s", big_desc(&b)); mc_case_key(mc_hash(big_desc(&b), strlen(big_desc(&b)), 0xb17)); mc_nontrivial(); mc_budget_ms(60000);
            big_case(&b);
        }
    }
}
int main(int argc, char** argv) { tbl_logical_on = 1; return mc_main(argc, argv, "rt", enumerate); }
