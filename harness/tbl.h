/* tbl.h — the table model shared by the file-level harnesses: a write history
 * (schema, rows, null masks, batch compositions, row-group partition, options)
 * and its execution on carquet's public writer API. */
#ifndef TBL_H
#define TBL_H
#include "mc/mc.h"
#include "ref/ref.h"
#include "ref/ref_pq.h"
#include <carquet/carquet.h>
#include <stdio.h>
#include <stdlib.h>
#include <string.h>

typedef struct { int ptype, opt, tlen; const char* name; } tcol_t;
#define TBL_MAXC 18
#define TBL_MAXN 40
typedef struct {
    int ncols; tcol_t cols[TBL_MAXC];
    int N;                              /* total rows */
    uint64_t mask[TBL_MAXC];            /* bit r set => row r is null (OPTIONAL columns only) */
    int nrg; int rg_rows[20];            /* row-group partition, sums to N (entries may be 0) */
    uint64_t comp[TBL_MAXC];            /* bit r set => a batch boundary after row r (in addition to row-group boundaries) */
    int codec;                          /* carquet_compression_t */
    int page_sel;                       /* 0: page_size 1 (every batch its own page), 1: 96 bytes, 2: default */
    int pattern;                        /* value pattern 0..2 */
    int nodef;                          /* pass def_levels = NULL for batches without nulls */
    int interleave;                     /* 0: column-major within a row group, 1: batch-major (round robin) */
    int crc_off;                        /* unused by the public API; kept for descriptors */
} hist_t;

extern const tcol_t TBL_KINDS[14];
const char* tbl_desc(const hist_t* h);                    /* canonical descriptor */
int tbl_width(const tcol_t* c);
/* value of (column c, row r) under pattern p: writes width bytes to out (BOOLEAN: 1 byte), or a string */
void tbl_value(const tcol_t* c, int ci, int r, int p, uint8_t* out, ref_str* s);
/* expected per-row-group column data (levels + dense values) in reference form */
void tbl_expected(ref_arena* a, const hist_t* h, int rg, int ci, ref_coldata* out);
/* number of batches column ci is written in, inside row group rg */
int tbl_batches(const hist_t* h, int rg, int ci);

/* Runs the history on carquet's writer into a memory stream.  Returns 0 and the image (malloc'd) when every writer
 * call returned OK; 1 when some call refused (status in *st, call name in *where); image is NULL then. */
int tbl_write(const hist_t* h, uint8_t** img, size_t* len, carquet_status_t* st, const char** where);
/* same, into a path */
int tbl_write_path(const hist_t* h, const char* path, carquet_status_t* st, const char** where);
carquet_schema_t* tbl_schema(const hist_t* h);
/* logical-type annotations (opt-in, rt harness): when tbl_logical_on is set, half of the histories (chosen by row count, column count and codec) declare their INT32 / INT64 / BYTE_ARRAY
 * columns with DATE, TIME, INTEGER, TIMESTAMP (each unit, utc or not), STRING, JSON, ENUM.  tbl_logical_of returns false when column c carries none. */
extern int tbl_logical_on;
bool tbl_logical_of(const hist_t* h, int c, carquet_logical_type_t* lt);
/* General executor: writes to `f` (create_file) or to `path` (create).  Executes writer operations (each write_batch,
 * new_row_group and the final close counts as one) and, when stop_after >= 0, calls carquet_writer_abort instead of
 * operation number stop_after.  Reports the first non-OK status. */
typedef struct { carquet_status_t status; const char* where; int nops; int failed_op; bool aborted; bool created; bool closed; carquet_status_t close_status; int refused_batches; } tbl_result;      /* closed / close_status: carquet_writer_close was called and what it returned (whatever earlier calls reported); refused_batches: write_batch calls that reported a failure */
void tbl_exec(const hist_t* h, FILE* f, const char* path, int stop_after, tbl_result* r);
#endif
