/* thrift.c — C13: Thrift metadata round-trips and is genuine compact protocol.
 * Layer 1: primitives (integers, field headers, list headers, binary) against
 * ref_thrift in both directions.  Layer 2: FileMetaData / PageHeader values
 * built by bounded deviation from a minimal structure: (a) carquet write ->
 * carquet parse, (b) carquet write -> reference decode, (c) reference encode
 * in every form (+ unknown fields of every wire type) -> carquet parse. */
#include "mc/mc.h"
#include "ref/ref.h"
#include "ref/ref_thrift.h"
#include <carquet/carquet.h>
#include "thrift/parquet_types.h"
#include <stdio.h>
#include <stdlib.h>
#include <string.h>
#include <limits.h>

static ref_arena RA;
static char g_long[301];
static const char* g_diff;              /* first difference found by the comparators */
static char g_diffbuf[256];
#define DIFF(...) do { snprintf(g_diffbuf, sizeof g_diffbuf, __VA_ARGS__); g_diff = g_diffbuf; return false; } while (0)

/* ---------------------------------------------------------------------------
 * Layer 1
 * ------------------------------------------------------------------------- */
static const int64_t IV[] = { 0, 1, -1, 2, 63, 64, -64, -65, 127, 128, 255, 256, 8191, 8192, 32767, -32768, 32768, 65535, 65536,
                              2147483647LL, -2147483648LL, 2147483648LL, 4294967295LL, 4294967296LL, INT64_MAX, INT64_MIN, INT64_MIN + 1, INT64_MAX - 1 };
#define NIV ((int)(sizeof IV / sizeof IV[0]))

static void layer1(void) {
    mc_stage("l1.integers");
    for (int wt = RT_I16; wt <= RT_I64; wt++)
        for (int k = 0; k < NIV; k++) {
            int64_t v = IV[k];
            if (wt == RT_I16 && (v < -32768 || v > 32767)) continue;
            if (wt == RT_I32 && (v < INT32_MIN || v > INT32_MAX)) continue;
            if (!mc_next()) continue;
            mc_desc("l1:int;wt=%d;v=%lld", wt, (long long)v); mc_case_key(mc_mix(0x1301, ((uint64_t)wt << 8) ^ (uint64_t)v * 31)); mc_nontrivial();
            carquet_buffer_t b; carquet_buffer_init(&b); thrift_encoder_t e; thrift_encoder_init(&e, &b);
            thrift_write_struct_begin(&e); thrift_write_field_header(&e, wt, 1);
            if (wt == RT_I16) thrift_write_i16(&e, (int16_t)v); else if (wt == RT_I32) thrift_write_i32(&e, (int32_t)v); else thrift_write_i64(&e, v);
            thrift_write_struct_end(&e);
            ref_tval t; size_t used = 0; int rc = ref_thrift_decode(&RA, b.data, b.size, &t, &used);
            if (rc || used != b.size || t.nitems != 1 || t.fids[0] != 1 || t.items[0].type != wt || t.items[0].i != v)
                mc_fail("l1.int.carquet-encoded", "wt=%d v=%lld bytes=%s ref rc=%d", wt, (long long)v, mc_hex(b.data, b.size, 20), rc);
            /* reference bytes (short and long header) -> carquet */
            for (int lf = 0; lf < 2; lf++) {
                ref_tval s = ref_t_struct(&RA, 2); ref_t_add(&RA, &s, 1, ref_t_i(wt, v));
                ref_tform f = { lf, false }; ref_buf rb; ref_buf_init(&rb); ref_thrift_encode(&s, &f, &rb);
                uint8_t* x = mc_exact(rb.p, rb.n);
                thrift_decoder_t d; thrift_decoder_init(&d, x, rb.n); thrift_read_struct_begin(&d);
                thrift_type_t ty; int16_t fid; bool got = thrift_read_field_begin(&d, &ty, &fid);
                int64_t r = wt == RT_I16 ? thrift_read_i16(&d) : wt == RT_I32 ? thrift_read_i32(&d) : thrift_read_i64(&d);
                bool more = thrift_read_field_begin(&d, &ty, &fid);
                if (!got || r != v || more || thrift_decoder_has_error(&d) || d.reader.pos != rb.n)
                    mc_fail("l1.int.ref-encoded", "wt=%d v=%lld longhdr=%d bytes=%s got=%lld pos=%zu", wt, (long long)v, lf, mc_hex(x, rb.n, 20), (long long)r, d.reader.pos);
                free(x); ref_buf_free(&rb);
            }
            carquet_buffer_destroy(&b); ref_arena_free(&RA);
        }
    static const int FID[] = { 1, 2, 15, 16, 17, 18, 31, 32, 127, 128, 255, 256, 16383, 16384, 32767 };
    mc_stage("l1.field-id-pairs");
    for (int a = 0; a < 15; a++) for (int b2 = 0; b2 < 15; b2++) for (int ty = 0; ty < 3; ty++) {
        if (!mc_next()) continue;
        int f1 = FID[a], f2 = FID[b2];
        mc_desc("l1:fields;%d->%d;ty=%d", f1, f2, ty); mc_case_key(mc_mix(0x1302, ((uint64_t)a << 16) | ((uint64_t)b2 << 8) | (uint64_t)ty)); mc_nontrivial();
        /* ty 0: i32 fields, 1: bool fields (value in header), 2: nested struct with its own id stack */
        carquet_buffer_t b; carquet_buffer_init(&b); thrift_encoder_t e; thrift_encoder_init(&e, &b);
        thrift_write_struct_begin(&e);
        if (ty == 0) { thrift_write_field_header(&e, RT_I32, (int16_t)f1); thrift_write_i32(&e, 7); thrift_write_field_header(&e, RT_I32, (int16_t)f2); thrift_write_i32(&e, -9); }
        else if (ty == 1) { thrift_write_field_header(&e, RT_TRUE, (int16_t)f1); thrift_write_field_header(&e, RT_FALSE, (int16_t)f2); }
        else { thrift_write_field_header(&e, RT_STRUCT, (int16_t)f1); thrift_write_struct_begin(&e); thrift_write_field_header(&e, RT_I32, (int16_t)f2); thrift_write_i32(&e, 5); thrift_write_struct_end(&e);
               thrift_write_field_header(&e, RT_I32, (int16_t)f2); thrift_write_i32(&e, 6); }
        thrift_write_struct_end(&e);
        ref_tval t; size_t used = 0; int rc = ref_thrift_decode(&RA, b.data, b.size, &t, &used);
        bool ok = rc == 0 && used == b.size && t.nitems == 2 && t.fids[0] == f1 && t.fids[1] == f2;
        if (ok && ty == 0) ok = t.items[0].type == RT_I32 && t.items[0].i == 7 && t.items[1].i == -9;
        if (ok && ty == 1) ok = t.items[0].type == RT_TRUE && t.items[0].i == 1 && t.items[1].type == RT_TRUE && t.items[1].i == 0;
        if (ok && ty == 2) ok = t.items[0].type == RT_STRUCT && t.items[0].nitems == 1 && t.items[0].fids[0] == f2 && t.items[0].items[0].i == 5 && t.items[1].i == 6;
        if (!ok) mc_fail("l1.fields.carquet-encoded", "%d->%d ty=%d bytes=%s rc=%d", f1, f2, ty, mc_hex(b.data, b.size, 24), rc);
        for (int lf = 0; lf < 2; lf++) {
            ref_tform f = { lf, false }; ref_buf rb; ref_buf_init(&rb); ref_thrift_encode(&t, &f, &rb);
            uint8_t* x = mc_exact(rb.p, rb.n);
            thrift_decoder_t d; thrift_decoder_init(&d, x, rb.n); thrift_read_struct_begin(&d);
            thrift_type_t t1, t2; int16_t g1 = 0, g2 = 0; bool okc = thrift_read_field_begin(&d, &t1, &g1);
            if (ty == 0) { okc = okc && thrift_read_i32(&d) == 7; }
            else if (ty == 1) { okc = okc && thrift_read_bool(&d) == true; }
            else { thrift_skip(&d, t1); }
            okc = thrift_read_field_begin(&d, &t2, &g2) && okc;
            if (ty == 0) okc = okc && thrift_read_i32(&d) == -9; else if (ty == 1) okc = okc && thrift_read_bool(&d) == false; else okc = okc && thrift_read_i32(&d) == 6;
            thrift_type_t t3; int16_t g3; bool more = thrift_read_field_begin(&d, &t3, &g3);
            if (!okc || g1 != f1 || g2 != f2 || more || thrift_decoder_has_error(&d) || d.reader.pos != rb.n)
                mc_fail("l1.fields.ref-encoded", "%d->%d ty=%d longhdr=%d bytes=%s got ids %d,%d", f1, f2, ty, lf, mc_hex(x, rb.n, 24), g1, g2);
            free(x); ref_buf_free(&rb);
        }
        carquet_buffer_destroy(&b); ref_arena_free(&RA);
    }
    static const int LS[] = { 0, 1, 2, 14, 15, 16, 127, 128, 300 };
    mc_stage("l1.lists-and-binary");
    for (int li = 0; li < 9; li++) for (int et = 0; et < 4; et++) {
        if (!mc_next()) continue;
        int n = LS[li];
        mc_desc("l1:list;n=%d;et=%d", n, et); mc_case_key(mc_mix(0x1303, ((uint64_t)li << 8) | (uint64_t)et)); mc_nontrivial();
        /* et 0: list<i32>, 1: list<binary> of lengths cycling {0,1,127,128,300}, 2: list<struct{1:i32}>, 3: binary field of length n */
        static const int BL[] = { 0, 1, 127, 128, 300 };
        carquet_buffer_t b; carquet_buffer_init(&b); thrift_encoder_t e; thrift_encoder_init(&e, &b);
        thrift_write_struct_begin(&e);
        if (et == 3) { thrift_write_field_header(&e, RT_BINARY, 1); thrift_write_binary(&e, (const uint8_t*)g_long, n); }
        else {
            thrift_write_field_header(&e, RT_LIST, 1);
            thrift_write_list_begin(&e, et == 0 ? RT_I32 : et == 1 ? RT_BINARY : RT_STRUCT, n);
            for (int i = 0; i < n; i++) {
                if (et == 0) thrift_write_i32(&e, i * 1000 - 7);
                else if (et == 1) thrift_write_binary(&e, (const uint8_t*)g_long, BL[i % 5]);
                else { thrift_write_struct_begin(&e); thrift_write_field_header(&e, RT_I32, 1); thrift_write_i32(&e, i); thrift_write_struct_end(&e); }
            }
        }
        thrift_write_struct_end(&e);
        ref_tval t; size_t used = 0; int rc = ref_thrift_decode(&RA, b.data, b.size, &t, &used);
        bool ok = rc == 0 && used == b.size && t.nitems == 1 && t.fids[0] == 1;
        if (ok && et == 3) ok = t.items[0].type == RT_BINARY && (int)t.items[0].bin_n == n && !memcmp(t.items[0].bin, g_long, (size_t)n);
        if (ok && et != 3) {
            const ref_tval* l = &t.items[0]; ok = l->type == RT_LIST && l->nitems == n && l->elem_type == (et == 0 ? RT_I32 : et == 1 ? RT_BINARY : RT_STRUCT);
            for (int i = 0; ok && i < n; i++) {
                if (et == 0) ok = l->items[i].i == i * 1000 - 7;
                else if (et == 1) ok = (int)l->items[i].bin_n == BL[i % 5];
                else ok = l->items[i].nitems == 1 && l->items[i].items[0].i == i;
            }
        }
        if (!ok) mc_fail("l1.list.carquet-encoded", "n=%d et=%d bytes=%s rc=%d", n, et, mc_hex(b.data, b.size, 24), rc);
        else for (int form = 0; form < 4; form++) {
            ref_tform f = { form & 1, (form >> 1) & 1 }; ref_buf rb; ref_buf_init(&rb); ref_thrift_encode(&t, &f, &rb);
            uint8_t* x = mc_exact(rb.p, rb.n);
            thrift_decoder_t d; thrift_decoder_init(&d, x, rb.n); thrift_read_struct_begin(&d);
            thrift_type_t ty; int16_t fid; bool okc = thrift_read_field_begin(&d, &ty, &fid) && fid == 1;
            if (et == 3) { int32_t len = -1; const uint8_t* p = thrift_read_binary(&d, &len); okc = okc && len == n && (n == 0 || (p && !memcmp(p, g_long, (size_t)n))); }
            else {
                thrift_type_t ety; int32_t cnt = -1; thrift_read_list_begin(&d, &ety, &cnt); okc = okc && cnt == n;
                for (int i = 0; okc && i < n; i++) {
                    if (et == 0) okc = thrift_read_i32(&d) == i * 1000 - 7;
                    else if (et == 1) { int32_t len; thrift_read_binary(&d, &len); okc = len == BL[i % 5]; }
                    else { thrift_read_struct_begin(&d); thrift_type_t t2; int16_t f2; okc = thrift_read_field_begin(&d, &t2, &f2) && thrift_read_i32(&d) == i && !thrift_read_field_begin(&d, &t2, &f2); thrift_read_struct_end(&d); }
                }
            }
            bool more = thrift_read_field_begin(&d, &ty, &fid);
            if (!okc || more || thrift_decoder_has_error(&d) || d.reader.pos != rb.n) mc_fail("l1.list.ref-encoded", "n=%d et=%d form=%d bytes=%s", n, et, form, mc_hex(x, rb.n, 24));
            free(x); ref_buf_free(&rb);
        }
        carquet_buffer_destroy(&b); ref_arena_free(&RA);
    }
}

/* ---------------------------------------------------------------------------
 * Layer 2: structure generator (bounded deviation)
 * ------------------------------------------------------------------------- */
static ref_bin B(const char* s) { ref_bin b = { (const uint8_t*)s, (int32_t)strlen(s), true }; return b; }
static ref_bin Bn(const void* p, int n) { ref_bin b = { p, n, true }; return b; }
static const int64_t I64A[] = { 0, 1, -1, 2147483648LL, INT64_MAX, INT64_MIN };
static const int32_t I32A[] = { 0, 1, -1, 128, INT32_MAX, INT32_MIN };
static const uint8_t BIN_00FF[] = { 0x00, 0xff, 0x00, 0x80 };

enum { D_VERSION, D_NUMROWS, D_NSCHEMA, D_NAME, D_TYPE, D_REP, D_CONV, D_FIELDID, D_LOGICAL, D_NRG, D_NCOLS, D_CHUNK, D_CMINTS, D_NENC, D_NPATH,
       D_CODEC, D_OPTOFF, D_STATS, D_KV, D_CREATED, D_RGOPT, D_CHIDX, D_COLKV, D_ENCSTATS, NDIM };
static const int DSZ[NDIM] = { 6, 6, 5, 4, 5, 4, 5, 5, 20, 3, 3, 4, 6, 7, 7, 6, 4, 9, 5, 4, 5, 5, 3, 3 };
static const char* DNAME[NDIM] = { "version", "num_rows", "schema_size", "name", "type", "repetition", "converted", "field_id", "logical", "row_groups", "columns", "chunk",
                                   "colmeta_ints", "n_encodings", "n_path", "codec", "opt_offsets", "statistics", "key_value", "created_by", "rg_optional", "chunk_index", "col_kv", "encoding_stats" };

static void build_stats(int c, ref_stats* s) {
    memset(s, 0, sizeof *s);
    switch (c) {
    case 1: break;                                                             /* present but empty */
    case 2: s->max_value = Bn("\x07", 1); s->min_value = Bn("\x01", 1); break;
    case 3: s->max_value = Bn(BIN_00FF, 4); s->min_value = Bn(BIN_00FF + 1, 3); s->has_null_count = true; s->null_count = 0; break;
    case 4: s->max_value = Bn(g_long, 300); s->min_value = Bn(g_long, 299); s->has_null_count = true; s->null_count = INT64_MAX; s->has_distinct = true; s->distinct = INT64_MIN; break;
    case 5: s->max = Bn("\x09\x00\x00\x00", 4); s->min = Bn("\xff\xff\xff\xff", 4); break;            /* deprecated fields */
    case 6: s->max = Bn("z", 1); s->min = Bn("a", 1); s->max_value = Bn("z", 1); s->min_value = Bn("a", 1); s->has_null_count = true; s->null_count = 3; break;
    case 7: s->has_null_count = true; s->null_count = -1; s->has_distinct = true; s->distinct = 1; break;
    case 8: s->max_value = Bn("q", 1); s->min_value = Bn("b", 1); s->has_max_exact = true; s->max_exact = true; s->has_min_exact = true; s->min_exact = false; break;
    default: break;
    }
}
static void build_logical(int c, ref_logical* l) {
    memset(l, 0, sizeof *l);
    static const int simple[] = { 0, 1, 2, 3, 4, 6, 11, 12, 13, 14, 15 };
    if (c <= 10) { l->id = simple[c]; return; }
    switch (c) {
    case 11: l->id = 5; l->scale = 2; l->precision = 10; break;
    case 12: l->id = 5; l->scale = -1; l->precision = INT32_MAX; break;
    case 13: l->id = 7; l->utc = true; l->unit = 1; break;
    case 14: l->id = 7; l->utc = false; l->unit = 3; break;
    case 15: l->id = 8; l->utc = true; l->unit = 2; break;
    case 16: l->id = 8; l->utc = false; l->unit = 1; break;
    case 17: l->id = 10; l->bit_width = 8; l->is_signed = true; break;
    case 18: l->id = 10; l->bit_width = 64; l->is_signed = false; break;
    default: l->id = 10; l->bit_width = -128; l->is_signed = true; break;
    }
}
static void build_file(const int* ch, ref_file_meta* m) {
    memset(m, 0, sizeof *m);
    static const int32_t VER[] = { 1, 2, 0, -1, INT32_MAX, INT32_MIN };
    m->version = VER[ch[D_VERSION]]; m->num_rows = I64A[ch[D_NUMROWS]];
    static const int NS[] = { 2, 1, 15, 16, 17 };
    int ns = NS[ch[D_NSCHEMA]]; m->nschema = ns; m->schema = ref_alloc(&RA, sizeof(ref_schema_elem) * (size_t)ns);
    m->schema[0].name = B("schema"); m->schema[0].has_num_children = ns > 1; m->schema[0].num_children = ns - 1;
    for (int i = 1; i < ns; i++) {
        ref_schema_elem* e = &m->schema[i];
        static const char* NM[] = { "a", "", NULL, "\xc3\xa9\xff\x80" };
        const char* nm = NM[ch[D_NAME]]; if (!nm) nm = g_long;
        if (ch[D_NAME] == 0 && ns > 2) { char* u = ref_alloc(&RA, 16); sprintf(u, "c%d", i); nm = u; }
        e->name = B(nm);
        e->has_type = true;
        switch (ch[D_TYPE]) { case 0: e->type = 1; break; case 1: e->type = 0; break; case 2: e->type = 7; e->has_type_length = true; e->type_length = 16; break;
                              case 3: e->type = 7; e->has_type_length = true; e->type_length = INT32_MAX; break; default: e->type = 6; break; }
        if (ch[D_REP] < 3) { e->has_rep = true; e->rep = ch[D_REP]; }
        switch (ch[D_CONV]) { case 1: e->has_converted = true; e->converted = 0; break;
                              case 2: e->has_converted = true; e->converted = 5; e->has_scale = true; e->scale = 2; e->has_precision = true; e->precision = 9; break;
                              case 3: e->has_converted = true; e->converted = 5; e->has_scale = true; e->scale = -1; e->has_precision = true; e->precision = INT32_MAX; break;
                              case 4: e->has_converted = true; e->converted = 21; break; default: break; }
        if (ch[D_FIELDID]) { e->has_field_id = true; e->field_id = I32A[ch[D_FIELDID] == 1 ? 0 : ch[D_FIELDID] == 2 ? 1 : ch[D_FIELDID] == 3 ? 2 : 4]; }
        if (ch[D_LOGICAL]) { e->has_logical = true; build_logical(ch[D_LOGICAL], &e->logical); }
    }
    m->nrg = ch[D_NRG] == 0 ? 1 : ch[D_NRG] == 1 ? 0 : 2;
    m->rgs = ref_alloc(&RA, sizeof(ref_rg) * (size_t)(m->nrg + 1));
    static const int NC[] = { 1, 15, 16 };
    for (int g = 0; g < m->nrg; g++) {
        ref_rg* r = &m->rgs[g]; r->ncols = NC[ch[D_NCOLS]]; r->cols = ref_alloc(&RA, sizeof(ref_chunk) * (size_t)r->ncols);
        r->total_byte_size = I64A[ch[D_CMINTS]] + 100 * g; r->num_rows = I64A[(ch[D_CMINTS] + 1) % 6];
        switch (ch[D_RGOPT]) { case 1: r->has_file_offset = true; r->file_offset = 4; r->has_total_compressed = true; r->total_compressed = 77; r->has_ordinal = true; r->ordinal = (int16_t)g; break;
                               case 2: r->has_ordinal = true; r->ordinal = -1; break; case 3: r->has_ordinal = true; r->ordinal = 32767; r->has_file_offset = true; r->file_offset = INT64_MAX; break;
                               case 4: r->has_total_compressed = true; r->total_compressed = INT64_MIN; break; default: break; }
        for (int c = 0; c < r->ncols; c++) {
            ref_chunk* k = &r->cols[c];
            switch (ch[D_CHUNK]) { case 1: k->file_path = B("f"); k->file_offset = 4; break; case 2: k->file_offset = -1; break; case 3: k->file_offset = INT64_MAX; k->file_path = B(""); break; default: k->file_offset = 0; break; }
            if (ch[D_CHIDX] == 1) { k->has_oi_offset = true; k->oi_offset = 1000; k->has_oi_length = true; k->oi_length = 20; k->has_ci_offset = true; k->ci_offset = 2000; k->has_ci_length = true; k->ci_length = 30; }
            else if (ch[D_CHIDX] == 2) { k->has_oi_offset = true; k->oi_offset = INT64_MIN; k->has_ci_length = true; k->ci_length = INT32_MIN; }
            else if (ch[D_CHIDX] == 3) { k->has_oi_offset = true; k->oi_offset = (int64_t)1 << 31; k->has_oi_length = true; k->oi_length = INT32_MAX; k->has_ci_offset = true; k->ci_offset = ((int64_t)1 << 32) + 5; k->has_ci_length = true; k->ci_length = 1; }      /* page indexes of a file beyond 2 and 4 GiB */
            else if (ch[D_CHIDX] == 4) { k->has_oi_offset = true; k->oi_offset = -((int64_t)1 << 31) - 1; k->has_ci_offset = true; k->ci_offset = INT64_MAX; }
            k->has_meta = true; ref_col_meta* cm = &k->meta;
            cm->type = 1;
            static const int NL[] = { 1, 0, 14, 15, 16, 99, 100 };       /* 100 = the parser's documented maximum for these lists */
            cm->n_enc = NL[ch[D_NENC]]; cm->encodings = ref_alloc(&RA, 4 * (size_t)(cm->n_enc + 1)); for (int i = 0; i < cm->n_enc; i++) cm->encodings[i] = (i % 3 == 0) ? 0 : (i % 3 == 1) ? 3 : 8;
            cm->n_path = NL[ch[D_NPATH]]; cm->path = ref_alloc(&RA, sizeof(ref_bin) * (size_t)(cm->n_path + 1)); for (int i = 0; i < cm->n_path; i++) cm->path[i] = B(i % 2 ? "" : "p");
            static const int32_t CD[] = { 0, 1, 6, 7, -1, 100 };
            cm->codec = CD[ch[D_CODEC]];
            cm->num_values = I64A[ch[D_CMINTS]]; cm->total_uncompressed = I64A[(ch[D_CMINTS] + 2) % 6]; cm->total_compressed = I64A[(ch[D_CMINTS] + 3) % 6]; cm->data_page_offset = I64A[(ch[D_CMINTS] + 4) % 6];
            switch (ch[D_OPTOFF]) { case 1: cm->has_dict_page_offset = true; cm->dict_page_offset = 4; break;
                                    case 2: cm->has_index_page_offset = true; cm->index_page_offset = -1; cm->has_dict_page_offset = true; cm->dict_page_offset = INT64_MAX; break;
                                    case 3: cm->has_bloom_offset = true; cm->bloom_offset = INT64_MIN; cm->has_bloom_length = true; cm->bloom_length = INT32_MAX; break; default: break; }
            if (ch[D_STATS]) { cm->has_stats = true; build_stats(ch[D_STATS], &cm->stats); }
            if (ch[D_COLKV]) { cm->has_kv = true; cm->n_kv = ch[D_COLKV] == 1 ? 1 : 0; cm->kv = ref_alloc(&RA, sizeof(ref_kv) * 2); cm->kv[0].key = B("k"); cm->kv[0].value = B("v"); }
            if (ch[D_ENCSTATS]) { cm->has_encstats = true; cm->n_encstats = ch[D_ENCSTATS] == 1 ? 2 : 0; cm->encstats = ref_alloc(&RA, sizeof(ref_encstat) * 3);
                                  cm->encstats[0].page_type = 0; cm->encstats[0].encoding = 0; cm->encstats[0].count = 3; cm->encstats[1].page_type = 2; cm->encstats[1].encoding = 8; cm->encstats[1].count = INT32_MAX; }
        }
    }
    switch (ch[D_KV]) {
    case 1: m->has_kv = true; m->n_kv = 1; m->kv = ref_alloc(&RA, sizeof(ref_kv) * 1); m->kv[0].key = B("key"); m->kv[0].value = B("value"); break;
    case 2: m->has_kv = true; m->n_kv = 1; m->kv = ref_alloc(&RA, sizeof(ref_kv) * 1); m->kv[0].key = B("only-key"); break;
    case 3: m->has_kv = true; m->n_kv = 16; m->kv = ref_alloc(&RA, sizeof(ref_kv) * 16); for (int i = 0; i < 16; i++) { m->kv[i].key = B(i ? "k" : ""); if (i % 2) m->kv[i].value = B(i % 4 == 1 ? "" : g_long); } break;
    case 4: m->has_kv = true; m->n_kv = 0; m->kv = ref_alloc(&RA, sizeof(ref_kv)); break;
    default: break;
    }
    switch (ch[D_CREATED]) { case 1: m->created_by = B("x"); break; case 2: m->created_by = B(""); break; case 3: m->created_by = B(g_long); break; default: break; }
}

/* ref struct -> carquet struct */
static char* cstr(const ref_bin* b) { if (!b->present) return NULL; char* s = ref_alloc(&RA, (size_t)b->n + 1); memcpy(s, b->p, (size_t)b->n); return s; }
static void to_cq_stats(const ref_stats* s, parquet_statistics_t* o) {
    memset(o, 0, sizeof *o);
    if (s->max.present) { o->max_deprecated = (uint8_t*)s->max.p; o->max_deprecated_len = s->max.n; }
    if (s->min.present) { o->min_deprecated = (uint8_t*)s->min.p; o->min_deprecated_len = s->min.n; }
    if (s->max_value.present) { o->max_value = (uint8_t*)s->max_value.p; o->max_value_len = s->max_value.n; }
    if (s->min_value.present) { o->min_value = (uint8_t*)s->min_value.p; o->min_value_len = s->min_value.n; }
    o->has_null_count = s->has_null_count; o->null_count = s->null_count; o->has_distinct_count = s->has_distinct; o->distinct_count = s->distinct;
    o->has_is_max_value_exact = s->has_max_exact; o->is_max_value_exact = s->max_exact; o->has_is_min_value_exact = s->has_min_exact; o->is_min_value_exact = s->min_exact;
}
static void to_cq_file(const ref_file_meta* m, parquet_file_metadata_t* o) {
    memset(o, 0, sizeof *o);
    o->version = m->version; o->num_rows = m->num_rows; o->num_schema_elements = m->nschema;
    o->schema = ref_alloc(&RA, sizeof(parquet_schema_element_t) * (size_t)(m->nschema + 1));
    for (int i = 0; i < m->nschema; i++) {
        const ref_schema_elem* e = &m->schema[i]; parquet_schema_element_t* q = &o->schema[i];
        q->has_type = e->has_type; q->type = (carquet_physical_type_t)e->type; q->type_length = e->has_type_length ? e->type_length : 0;
        q->has_repetition = e->has_rep; q->repetition_type = (carquet_field_repetition_t)e->rep; q->name = cstr(&e->name);
        q->num_children = e->has_num_children ? e->num_children : 0; q->has_converted_type = e->has_converted; q->converted_type = (carquet_converted_type_t)e->converted;
        q->scale = e->has_scale ? e->scale : 0; q->precision = e->has_precision ? e->precision : 0; q->has_field_id = e->has_field_id; q->field_id = e->field_id;
        q->has_logical_type = e->has_logical;
        if (e->has_logical) {
            const ref_logical* l = &e->logical; carquet_logical_type_t* t = &q->logical_type;
            t->id = (carquet_logical_type_id_t)(l->id <= 8 ? l->id : l->id - 1);
            if (l->id == 5) { t->params.decimal.scale = l->scale; t->params.decimal.precision = l->precision; }
            else if (l->id == 7) { t->params.time.is_adjusted_to_utc = l->utc; t->params.time.unit = (carquet_time_unit_t)(l->unit - 1); }
            else if (l->id == 8) { t->params.timestamp.is_adjusted_to_utc = l->utc; t->params.timestamp.unit = (carquet_time_unit_t)(l->unit - 1); }
            else if (l->id == 10) { t->params.integer.bit_width = l->bit_width; t->params.integer.is_signed = l->is_signed; }
        }
    }
    o->num_row_groups = m->nrg; o->row_groups = ref_alloc(&RA, sizeof(parquet_row_group_t) * (size_t)(m->nrg + 1));
    for (int g = 0; g < m->nrg; g++) {
        const ref_rg* r = &m->rgs[g]; parquet_row_group_t* q = &o->row_groups[g];
        q->num_columns = r->ncols; q->total_byte_size = r->total_byte_size; q->num_rows = r->num_rows;
        q->has_file_offset = r->has_file_offset; q->file_offset = r->file_offset; q->has_total_compressed_size = r->has_total_compressed; q->total_compressed_size = r->total_compressed;
        q->has_ordinal = r->has_ordinal; q->ordinal = r->ordinal;
        q->columns = ref_alloc(&RA, sizeof(parquet_column_chunk_t) * (size_t)(r->ncols + 1));
        for (int c = 0; c < r->ncols; c++) {
            const ref_chunk* k = &r->cols[c]; parquet_column_chunk_t* x = &q->columns[c];
            x->file_path = cstr(&k->file_path); x->file_offset = k->file_offset; x->has_metadata = k->has_meta;
            x->has_offset_index_offset = k->has_oi_offset; x->offset_index_offset = k->oi_offset; x->has_offset_index_length = k->has_oi_length; x->offset_index_length = k->oi_length;
            x->has_column_index_offset = k->has_ci_offset; x->column_index_offset = k->ci_offset; x->has_column_index_length = k->has_ci_length; x->column_index_length = k->ci_length;
            const ref_col_meta* cm = &k->meta; parquet_column_metadata_t* y = &x->metadata;
            y->type = (carquet_physical_type_t)cm->type; y->num_encodings = cm->n_enc; y->encodings = ref_alloc(&RA, sizeof(carquet_encoding_t) * (size_t)(cm->n_enc + 1));
            for (int i = 0; i < cm->n_enc; i++) y->encodings[i] = (carquet_encoding_t)cm->encodings[i];
            y->path_len = cm->n_path; y->path_in_schema = ref_alloc(&RA, sizeof(char*) * (size_t)(cm->n_path + 1)); for (int i = 0; i < cm->n_path; i++) y->path_in_schema[i] = cstr(&cm->path[i]);
            y->codec = (carquet_compression_t)cm->codec; y->num_values = cm->num_values; y->total_uncompressed_size = cm->total_uncompressed; y->total_compressed_size = cm->total_compressed;
            y->data_page_offset = cm->data_page_offset; y->has_index_page_offset = cm->has_index_page_offset; y->index_page_offset = cm->index_page_offset;
            y->has_dictionary_page_offset = cm->has_dict_page_offset; y->dictionary_page_offset = cm->dict_page_offset; y->has_statistics = cm->has_stats; to_cq_stats(&cm->stats, &y->statistics);
            y->has_bloom_filter_offset = cm->has_bloom_offset; y->bloom_filter_offset = cm->bloom_offset; y->has_bloom_filter_length = cm->has_bloom_length; y->bloom_filter_length = cm->bloom_length;
        }
    }
    if (m->has_kv) { o->num_key_value = m->n_kv; o->key_value_metadata = ref_alloc(&RA, sizeof(parquet_key_value_t) * (size_t)(m->n_kv + 1));
        for (int i = 0; i < m->n_kv; i++) { o->key_value_metadata[i].key = cstr(&m->kv[i].key); o->key_value_metadata[i].value = cstr(&m->kv[i].value); } }
    o->created_by = cstr(&m->created_by);
}

/* comparators: carquet struct (as parsed) vs reference struct.
 * rt = true: only what carquet's writer serialises (its own emission conditions); false: everything carquet's parser models. */
static bool eq_str(const char* c, const ref_bin* b, const char* what) {
    if (!b->present) { if (c != NULL) DIFF("%s: expected absent, got \"%.20s\"", what, c); return true; }
    if (!c) DIFF("%s: expected %d bytes, got NULL", what, b->n);
    if ((int32_t)strlen(c) != b->n || memcmp(c, b->p, (size_t)b->n)) DIFF("%s: expected %d bytes %s, got %zu bytes %s", what, b->n, mc_hex(b->p, (size_t)b->n, 12), strlen(c), mc_hex(c, strlen(c), 12));
    return true;
}
static bool eq_bin(const uint8_t* p, int32_t n, const ref_bin* b, const char* what) {
    int32_t bn = b->present ? b->n : 0;
    if (bn == 0) { if (n != 0 && p) DIFF("%s: expected empty/absent, got %d bytes", what, n); return true; }
    if (n != bn || !p || memcmp(p, b->p, (size_t)bn)) DIFF("%s: expected %d bytes, got %d", what, bn, n);
    return true;
}
static bool eq_stats(const parquet_statistics_t* c, const ref_stats* s, bool rt, const char* what) {
    char w[96];
    snprintf(w, sizeof w, "%s.max", what); if (!eq_bin(c->max_deprecated, c->max_deprecated_len, &s->max, w)) return false;
    snprintf(w, sizeof w, "%s.min", what); if (!eq_bin(c->min_deprecated, c->min_deprecated_len, &s->min, w)) return false;
    snprintf(w, sizeof w, "%s.max_value", what); if (!eq_bin(c->max_value, c->max_value_len, &s->max_value, w)) return false;
    snprintf(w, sizeof w, "%s.min_value", what); if (!eq_bin(c->min_value, c->min_value_len, &s->min_value, w)) return false;
    if (c->has_null_count != s->has_null_count || (s->has_null_count && c->null_count != s->null_count)) DIFF("%s.null_count", what);
    if (c->has_distinct_count != s->has_distinct || (s->has_distinct && c->distinct_count != s->distinct)) DIFF("%s.distinct_count", what);
    if (!rt) {
        if (c->has_is_max_value_exact != s->has_max_exact || (s->has_max_exact && c->is_max_value_exact != s->max_exact)) DIFF("%s.is_max_value_exact", what);
        if (c->has_is_min_value_exact != s->has_min_exact || (s->has_min_exact && c->is_min_value_exact != s->min_exact)) DIFF("%s.is_min_value_exact", what);
    }
    return true;
}
static bool eq_file(const parquet_file_metadata_t* c, const ref_file_meta* m, bool rt) {
    g_diff = NULL; char w[96];
    if (c->version != m->version) DIFF("version %d vs %d", c->version, m->version);
    if (c->num_rows != m->num_rows) DIFF("num_rows");
    if (c->num_schema_elements != m->nschema) DIFF("schema count %d vs %d", c->num_schema_elements, m->nschema);
    for (int i = 0; i < m->nschema; i++) {
        const parquet_schema_element_t* q = &c->schema[i]; const ref_schema_elem* e = &m->schema[i];
        if (q->has_type != e->has_type || (e->has_type && (int32_t)q->type != e->type)) DIFF("schema[%d].type", i);
        if (rt ? (e->has_type_length && e->type_length > 0 && q->type_length != e->type_length) : (q->type_length != (e->has_type_length ? e->type_length : 0))) DIFF("schema[%d].type_length %d vs %d", i, q->type_length, e->type_length);
        if (q->has_repetition != e->has_rep || (e->has_rep && (int32_t)q->repetition_type != e->rep)) DIFF("schema[%d].repetition", i);
        snprintf(w, sizeof w, "schema[%d].name", i); if (!eq_str(q->name, &e->name, w)) return false;
        if (rt ? (e->has_num_children && e->num_children > 0 && q->num_children != e->num_children) : (q->num_children != (e->has_num_children ? e->num_children : 0))) DIFF("schema[%d].num_children", i);
        if (q->has_converted_type != e->has_converted || (e->has_converted && (int32_t)q->converted_type != e->converted)) DIFF("schema[%d].converted_type", i);
        if (q->scale != (e->has_scale ? e->scale : 0)) DIFF("schema[%d].scale", i);
        if (q->precision != (e->has_precision ? e->precision : 0)) DIFF("schema[%d].precision", i);
        if (q->has_field_id != e->has_field_id || (e->has_field_id && q->field_id != e->field_id)) DIFF("schema[%d].field_id", i);
        bool exp_logical = e->has_logical && e->logical.id != 0;
        if (q->has_logical_type != exp_logical) DIFF("schema[%d].has_logical_type %d vs %d", i, q->has_logical_type, exp_logical);
        if (exp_logical) {
            const ref_logical* l = &e->logical; const carquet_logical_type_t* t = &q->logical_type;
            int cid = l->id <= 8 ? l->id : l->id - 1;
            if ((int)t->id != cid) DIFF("schema[%d].logical id %d vs %d", i, (int)t->id, cid);
            if (l->id == 5 && (t->params.decimal.scale != l->scale || t->params.decimal.precision != l->precision)) DIFF("schema[%d].logical decimal", i);
            if (l->id == 7 && (t->params.time.is_adjusted_to_utc != l->utc || (int)t->params.time.unit != l->unit - 1)) DIFF("schema[%d].logical time", i);
            if (l->id == 8 && (t->params.timestamp.is_adjusted_to_utc != l->utc || (int)t->params.timestamp.unit != l->unit - 1)) DIFF("schema[%d].logical timestamp", i);
            if (l->id == 10 && (t->params.integer.bit_width != l->bit_width || t->params.integer.is_signed != l->is_signed)) DIFF("schema[%d].logical integer", i);
        }
    }
    if (c->num_row_groups != m->nrg) DIFF("row group count %d vs %d", c->num_row_groups, m->nrg);
    for (int g = 0; g < m->nrg; g++) {
        const parquet_row_group_t* q = &c->row_groups[g]; const ref_rg* r = &m->rgs[g];
        if (q->num_columns != r->ncols) DIFF("rg[%d].columns count %d vs %d", g, q->num_columns, r->ncols);
        if (q->total_byte_size != r->total_byte_size || q->num_rows != r->num_rows) DIFF("rg[%d] sizes", g);
        if (q->has_file_offset != r->has_file_offset || (r->has_file_offset && q->file_offset != r->file_offset)) DIFF("rg[%d].file_offset", g);
        if (q->has_total_compressed_size != r->has_total_compressed || (r->has_total_compressed && q->total_compressed_size != r->total_compressed)) DIFF("rg[%d].total_compressed_size", g);
        if (q->has_ordinal != r->has_ordinal || (r->has_ordinal && q->ordinal != r->ordinal)) DIFF("rg[%d].ordinal", g);
        for (int k = 0; k < r->ncols; k++) {
            const parquet_column_chunk_t* x = &q->columns[k]; const ref_chunk* ch = &r->cols[k];
            snprintf(w, sizeof w, "rg[%d].col[%d].file_path", g, k); if (!eq_str(x->file_path, &ch->file_path, w)) return false;
            if (x->file_offset != ch->file_offset) DIFF("rg[%d].col[%d].file_offset", g, k);
            if (x->has_metadata != ch->has_meta) DIFF("rg[%d].col[%d].has_metadata", g, k);
            if (x->has_offset_index_offset != ch->has_oi_offset || (ch->has_oi_offset && x->offset_index_offset != ch->oi_offset)) DIFF("rg[%d].col[%d].offset_index_offset", g, k);
            if (x->has_offset_index_length != ch->has_oi_length || (ch->has_oi_length && x->offset_index_length != ch->oi_length)) DIFF("rg[%d].col[%d].offset_index_length", g, k);
            if (x->has_column_index_offset != ch->has_ci_offset || (ch->has_ci_offset && x->column_index_offset != ch->ci_offset)) DIFF("rg[%d].col[%d].column_index_offset", g, k);
            if (x->has_column_index_length != ch->has_ci_length || (ch->has_ci_length && x->column_index_length != ch->ci_length)) DIFF("rg[%d].col[%d].column_index_length", g, k);
            if (!ch->has_meta) continue;
            const parquet_column_metadata_t* y = &x->metadata; const ref_col_meta* cm = &ch->meta;
            if ((int32_t)y->type != cm->type || (int32_t)y->codec != cm->codec) DIFF("rg[%d].col[%d] type/codec", g, k);
            if (y->num_encodings != cm->n_enc) DIFF("rg[%d].col[%d].encodings count %d vs %d", g, k, y->num_encodings, cm->n_enc);
            for (int i = 0; i < cm->n_enc; i++) if ((int32_t)y->encodings[i] != cm->encodings[i]) DIFF("rg[%d].col[%d].encodings[%d]", g, k, i);
            if (y->path_len != cm->n_path) DIFF("rg[%d].col[%d].path count", g, k);
            for (int i = 0; i < cm->n_path; i++) { snprintf(w, sizeof w, "rg[%d].col[%d].path[%d]", g, k, i); if (!eq_str(y->path_in_schema[i], &cm->path[i], w)) return false; }
            if (y->num_values != cm->num_values || y->total_uncompressed_size != cm->total_uncompressed || y->total_compressed_size != cm->total_compressed || y->data_page_offset != cm->data_page_offset) DIFF("rg[%d].col[%d] i64 fields", g, k);
            if (y->has_index_page_offset != cm->has_index_page_offset || (cm->has_index_page_offset && y->index_page_offset != cm->index_page_offset)) DIFF("rg[%d].col[%d].index_page_offset", g, k);
            if (y->has_dictionary_page_offset != cm->has_dict_page_offset || (cm->has_dict_page_offset && y->dictionary_page_offset != cm->dict_page_offset)) DIFF("rg[%d].col[%d].dictionary_page_offset", g, k);
            if (y->has_bloom_filter_offset != cm->has_bloom_offset || (cm->has_bloom_offset && y->bloom_filter_offset != cm->bloom_offset)) DIFF("rg[%d].col[%d].bloom_filter_offset", g, k);
            if (y->has_bloom_filter_length != cm->has_bloom_length || (cm->has_bloom_length && y->bloom_filter_length != cm->bloom_length)) DIFF("rg[%d].col[%d].bloom_filter_length", g, k);
            if (y->has_statistics != cm->has_stats) DIFF("rg[%d].col[%d].has_statistics", g, k);
            if (cm->has_stats) { snprintf(w, sizeof w, "rg[%d].col[%d].statistics", g, k); if (!eq_stats(&y->statistics, &cm->stats, rt, w)) return false; }
            if (!rt) {
                if (y->num_key_value != (cm->has_kv ? cm->n_kv : 0)) DIFF("rg[%d].col[%d].key_value count", g, k);
                for (int i = 0; i < (cm->has_kv ? cm->n_kv : 0); i++) { if (!eq_str(y->key_value_metadata[i].key, &cm->kv[i].key, "col kv key")) return false; if (!eq_str(y->key_value_metadata[i].value, &cm->kv[i].value, "col kv value")) return false; }
                if (y->num_encoding_stats != (cm->has_encstats ? cm->n_encstats : 0)) DIFF("rg[%d].col[%d].encoding_stats count", g, k);
                for (int i = 0; i < (cm->has_encstats ? cm->n_encstats : 0); i++) if ((int32_t)y->encoding_stats[i].page_type != cm->encstats[i].page_type || (int32_t)y->encoding_stats[i].encoding != cm->encstats[i].encoding || y->encoding_stats[i].count != cm->encstats[i].count) DIFF("rg[%d].col[%d].encoding_stats[%d]", g, k, i);
            }
        }
    }
    int exp_kv = m->has_kv ? m->n_kv : 0;
    if (c->num_key_value != exp_kv) DIFF("key_value count %d vs %d", c->num_key_value, exp_kv);
    for (int i = 0; i < exp_kv; i++) {
        snprintf(w, sizeof w, "kv[%d].key", i); if (!eq_str(c->key_value_metadata[i].key, &m->kv[i].key, w)) return false;
        snprintf(w, sizeof w, "kv[%d].value", i); if (!eq_str(c->key_value_metadata[i].value, &m->kv[i].value, w)) return false;
    }
    if (!eq_str(c->created_by, &m->created_by, "created_by")) return false;
    return true;
}

/* reference-vs-reference comparison restricted to what carquet's writer emits */
static bool same_bin(const ref_bin* a, const ref_bin* b, bool empty_is_absent) {
    int an = a->present ? a->n : (empty_is_absent ? 0 : -1), bn = b->present ? b->n : (empty_is_absent ? 0 : -1);
    if (an != bn) return false; return an <= 0 || !memcmp(a->p, b->p, (size_t)an);
}
static bool ref_eq_stats(const ref_stats* a, const ref_stats* b, const char* what) {
    if (!same_bin(&a->max, &b->max, true) || !same_bin(&a->min, &b->min, true) || !same_bin(&a->max_value, &b->max_value, true) || !same_bin(&a->min_value, &b->min_value, true)) DIFF("%s min/max", what);
    if (a->has_null_count != b->has_null_count || (a->has_null_count && a->null_count != b->null_count)) DIFF("%s.null_count", what);
    if (a->has_distinct != b->has_distinct || (a->has_distinct && a->distinct != b->distinct)) DIFF("%s.distinct_count", what);
    return true;
}
static bool ref_eq_file_rt(const ref_file_meta* d, const ref_file_meta* m) {   /* d = decoded from carquet's bytes, m = original */
    g_diff = NULL;
    if (d->version != m->version || d->num_rows != m->num_rows) DIFF("version/num_rows");
    if (d->nschema != m->nschema) DIFF("schema count %d vs %d", d->nschema, m->nschema);
    for (int i = 0; i < m->nschema; i++) {
        const ref_schema_elem* x = &d->schema[i]; const ref_schema_elem* e = &m->schema[i];
        if (x->has_type != e->has_type || (e->has_type && x->type != e->type)) DIFF("schema[%d].type", i);
        if (e->has_type_length && e->type_length > 0 && (!x->has_type_length || x->type_length != e->type_length)) DIFF("schema[%d].type_length", i);
        if (x->has_rep != e->has_rep || (e->has_rep && x->rep != e->rep)) DIFF("schema[%d].repetition", i);
        if (!same_bin(&x->name, &e->name, false)) DIFF("schema[%d].name", i);
        if (e->has_num_children && e->num_children > 0 && (!x->has_num_children || x->num_children != e->num_children)) DIFF("schema[%d].num_children", i);
        if (x->has_converted != e->has_converted || (e->has_converted && x->converted != e->converted)) DIFF("schema[%d].converted", i);
        if ((e->has_scale && e->scale != 0) && (!x->has_scale || x->scale != e->scale)) DIFF("schema[%d].scale", i);
        if ((e->has_precision && e->precision != 0) && (!x->has_precision || x->precision != e->precision)) DIFF("schema[%d].precision", i);
        if (x->has_field_id != e->has_field_id || (e->has_field_id && x->field_id != e->field_id)) DIFF("schema[%d].field_id", i);
        bool el = e->has_logical && e->logical.id != 0;
        if (x->has_logical != el) DIFF("schema[%d].logicalType presence", i);
        if (el && (x->logical.id != e->logical.id || x->logical.scale != e->logical.scale || x->logical.precision != e->logical.precision || x->logical.utc != e->logical.utc ||
                   ((e->logical.id == 7 || e->logical.id == 8) && x->logical.unit != e->logical.unit) || x->logical.bit_width != e->logical.bit_width || x->logical.is_signed != e->logical.is_signed)) DIFF("schema[%d].logicalType id %d vs %d", i, x->logical.id, e->logical.id);
    }
    if (d->nrg != m->nrg) DIFF("row group count");
    for (int g = 0; g < m->nrg; g++) {
        const ref_rg* x = &d->rgs[g]; const ref_rg* r = &m->rgs[g];
        if (x->ncols != r->ncols || x->total_byte_size != r->total_byte_size || x->num_rows != r->num_rows) DIFF("rg[%d]", g);
        if (x->has_file_offset != r->has_file_offset || (r->has_file_offset && x->file_offset != r->file_offset)) DIFF("rg[%d].file_offset", g);
        if (x->has_total_compressed != r->has_total_compressed || (r->has_total_compressed && x->total_compressed != r->total_compressed)) DIFF("rg[%d].total_compressed_size", g);
        if (x->has_ordinal != r->has_ordinal || (r->has_ordinal && x->ordinal != r->ordinal)) DIFF("rg[%d].ordinal", g);
        for (int k = 0; k < r->ncols; k++) {
            const ref_chunk* a = &x->cols[k]; const ref_chunk* b = &r->cols[k];
            if (!same_bin(&a->file_path, &b->file_path, false) || a->file_offset != b->file_offset || a->has_meta != b->has_meta) DIFF("rg[%d].col[%d] chunk", g, k);
            if (a->has_oi_offset != b->has_oi_offset || (b->has_oi_offset && a->oi_offset != b->oi_offset) || a->has_oi_length != b->has_oi_length || (b->has_oi_length && a->oi_length != b->oi_length) ||
                a->has_ci_offset != b->has_ci_offset || (b->has_ci_offset && a->ci_offset != b->ci_offset) || a->has_ci_length != b->has_ci_length || (b->has_ci_length && a->ci_length != b->ci_length)) DIFF("rg[%d].col[%d] index offsets", g, k);
            const ref_col_meta* p = &a->meta; const ref_col_meta* q = &b->meta;
            if (p->type != q->type || p->codec != q->codec || p->n_enc != q->n_enc || p->n_path != q->n_path) DIFF("rg[%d].col[%d] meta header", g, k);
            for (int i = 0; i < q->n_enc; i++) if (p->encodings[i] != q->encodings[i]) DIFF("rg[%d].col[%d].encodings[%d]", g, k, i);
            for (int i = 0; i < q->n_path; i++) if (!same_bin(&p->path[i], &q->path[i], false)) DIFF("rg[%d].col[%d].path[%d]", g, k, i);
            if (p->num_values != q->num_values || p->total_uncompressed != q->total_uncompressed || p->total_compressed != q->total_compressed || p->data_page_offset != q->data_page_offset) DIFF("rg[%d].col[%d] i64", g, k);
            if (p->has_index_page_offset != q->has_index_page_offset || (q->has_index_page_offset && p->index_page_offset != q->index_page_offset)) DIFF("rg[%d].col[%d].index_page_offset", g, k);
            if (p->has_dict_page_offset != q->has_dict_page_offset || (q->has_dict_page_offset && p->dict_page_offset != q->dict_page_offset)) DIFF("rg[%d].col[%d].dictionary_page_offset", g, k);
            if (p->has_bloom_offset != q->has_bloom_offset || (q->has_bloom_offset && p->bloom_offset != q->bloom_offset) || p->has_bloom_length != q->has_bloom_length || (q->has_bloom_length && p->bloom_length != q->bloom_length)) DIFF("rg[%d].col[%d] bloom", g, k);
            if (p->has_stats != q->has_stats) DIFF("rg[%d].col[%d].statistics presence", g, k);
            if (q->has_stats) { char w[64]; snprintf(w, sizeof w, "rg[%d].col[%d].statistics", g, k); if (!ref_eq_stats(&p->stats, &q->stats, w)) return false; }
        }
    }
    int ekv = (m->has_kv && m->n_kv > 0) ? m->n_kv : 0;
    if ((d->has_kv ? d->n_kv : 0) != ekv) DIFF("key_value count");
    for (int i = 0; i < ekv; i++) if (!same_bin(&d->kv[i].key, &m->kv[i].key, false) || !same_bin(&d->kv[i].value, &m->kv[i].value, false)) DIFF("kv[%d]", i);
    if (!same_bin(&d->created_by, &m->created_by, false)) DIFF("created_by");
    return true;
}

/* unknown-field payloads of every wire type */
#define NPAYLOAD 18
static ref_tval payload(int k) {
    ref_tval v; memset(&v, 0, sizeof v);
    switch (k) {
    case 0: return ref_t_bool(true);
    case 1: return ref_t_bool(false);
    case 2: return ref_t_i(RT_BYTE, -3);
    case 3: return ref_t_i(RT_I16, -300);
    case 4: return ref_t_i(RT_I32, INT32_MIN);
    case 5: return ref_t_i(RT_I64, INT64_MAX);
    case 6: v.type = RT_DOUBLE; memcpy(v.raw, "\x18\x2d\x44\x54\xfb\x21\x09\x40", 8); return v;
    case 7: return ref_t_bin("unknown\x00\xff", 9);
    case 8: v = ref_t_list(&RA, RT_I32, 17); for (int i = 0; i < 17; i++) v.items[i] = ref_t_i(RT_I32, i * 99991); return v;
    case 9: v = ref_t_list(&RA, RT_TRUE, 3); v.items[0] = ref_t_bool(true); v.items[1] = ref_t_bool(false); v.items[2] = ref_t_bool(true); return v;
    case 10: v = ref_t_list(&RA, RT_BINARY, 2); v.type = RT_SET; v.items[0] = ref_t_bin("", 0); v.items[1] = ref_t_bin("xy", 2); return v;
    case 11: v.type = RT_MAP; v.key_type = RT_I32; v.elem_type = RT_BINARY; v.nitems = 4; v.items = ref_alloc(&RA, sizeof(ref_tval) * 4);
             v.items[0] = ref_t_i(RT_I32, 1); v.items[1] = ref_t_bin("one", 3); v.items[2] = ref_t_i(RT_I32, -2); v.items[3] = ref_t_bin("", 0); return v;
    case 12: v.type = RT_MAP; v.nitems = 0; return v;
    case 13: { ref_tval in = ref_t_struct(&RA, 2); ref_t_add(&RA, &in, 1, ref_t_i(RT_I64, 5)); ref_t_add(&RA, &in, 20, ref_t_bool(true));
               ref_tval l = ref_t_list(&RA, RT_STRUCT, 2); l.items[0] = in; l.items[1] = ref_t_struct(&RA, 1);
               v = ref_t_struct(&RA, 3); ref_t_add(&RA, &v, 1, in); ref_t_add(&RA, &v, 2, l); ref_t_add(&RA, &v, 100, ref_t_bin("z", 1)); return v; }
    case 14: v.type = RT_UUID; for (int i = 0; i < 16; i++) v.raw[i] = (uint8_t)(i * 17); return v;
    case 16: case 17: { int depth = k == 16 ? 12 : 20; v = ref_t_struct(&RA, 1); ref_t_add(&RA, &v, 1, ref_t_i(RT_I32, 7));      /* structs nested 12 / 20 deep (the decoder's nesting limit is 32) */
               for (int d = 1; d < depth; d++) { ref_tval o = ref_t_struct(&RA, 2); ref_t_add(&RA, &o, 2, v); ref_t_add(&RA, &o, 3, ref_t_bool(d & 1)); v = o; } return v; }
    default: { ref_tval inner = ref_t_list(&RA, RT_I32, 2); inner.items[0] = ref_t_i(RT_I32, 1); inner.items[1] = ref_t_i(RT_I32, 2);
               v = ref_t_list(&RA, RT_LIST, 2); v.items[0] = inner; v.items[1] = ref_t_list(&RA, RT_I32, 0); return v; }
    }
}
static const char* PNAME[NPAYLOAD] = { "bool-true", "bool-false", "byte", "i16", "i32", "i64", "double", "binary", "list-i32-17", "list-bool", "set-binary", "map-i32-binary", "map-empty", "struct-nested", "uuid", "list-of-lists", "structs-nested-12-deep", "structs-nested-20-deep" };

static void check_file_structure(const int* ch, int ndev) {
    ref_file_meta m; build_file(ch, &m);
    parquet_file_metadata_t cq; to_cq_file(&m, &cq);
    carquet_error_t err = CARQUET_ERROR_INIT;
    /* (a) carquet write -> carquet parse */
    carquet_buffer_t b; carquet_buffer_init(&b);
    carquet_status_t st = parquet_write_file_metadata(&cq, &b, &err);
    if (st != CARQUET_OK) { mc_count("file.write-rejected", 1); carquet_buffer_destroy(&b); return; }
    uint8_t* bytes = mc_exact(b.data, b.size); size_t nb = b.size; carquet_buffer_destroy(&b);
    carquet_arena_t ar; carquet_arena_init(&ar);
    parquet_file_metadata_t back;
    /* the parsed structure must not depend on the input block (the reader frees its footer buffer right after parsing): parse from a copy that is overwritten and released before anything is compared */
    { uint8_t* pb = mc_exact(bytes, nb); st = parquet_parse_file_metadata(pb, nb, &ar, &back, &err); memset(pb, 0xDD, nb); free(pb); }
    if (st != CARQUET_OK) mc_fail("file.roundtrip.parse-error", "status=%d msg=%s bytes=%s", st, err.message, mc_hex(bytes, nb, 48));
    else if (!eq_file(&back, &m, true)) { char key[128]; char f[64]; snprintf(f, sizeof f, "%s", g_diff); char* dot = strpbrk(f, " :"); if (dot) *dot = 0; for (char* p = f; *p; p++) if ((*p >= '0' && *p <= '9')) *p = 'N'; snprintf(key, sizeof key, "file.roundtrip.field.%s", f); mc_fail(key, "%s", g_diff); }
    carquet_arena_destroy(&ar);
    /* consumed == produced: without the final byte the parse cannot succeed */
    if (nb > 0) {
        uint8_t* cut = mc_exact(bytes, nb - 1); carquet_arena_init(&ar);
        st = parquet_parse_file_metadata(cut, nb - 1, &ar, &back, &err);
        if (st == CARQUET_OK) mc_fail("file.roundtrip.consumed-less-than-produced", "parse succeeds without the last of %zu bytes", nb);
        carquet_arena_destroy(&ar); free(cut);
    }
    /* (b) carquet bytes -> reference decoder */
    ref_tval tree; size_t used = 0; int rc = ref_thrift_decode(&RA, bytes, nb, &tree, &used);
    ref_file_meta dm;
    if (rc != 0 || used != nb) mc_fail("file.carquet-encoded.ref-decode-error", "rc=%d used=%zu of %zu bytes=%s", rc, used, nb, mc_hex(bytes, nb, 48));
    else if (ref_meta_file_from_tree(&RA, &tree, &dm) != 0) mc_fail("file.carquet-encoded.wire-type-or-required-field", "%s", ref_meta_err);
    else if (!ref_eq_file_rt(&dm, &m)) { char key[128]; char f[64]; snprintf(f, sizeof f, "%s", g_diff); char* dot = strpbrk(f, " :"); if (dot) *dot = 0; for (char* p = f; *p; p++) if ((*p >= '0' && *p <= '9')) *p = 'N'; snprintf(key, sizeof key, "file.carquet-encoded.field.%s", f); mc_fail(key, "%s", g_diff); }
    free(bytes);
    /* (c) reference encoder, every form, optional unknown fields -> carquet parser */
    ref_tval rt = ref_meta_file_to_tree(&RA, &m);
    int nvariants = ndev <= 1 ? 1 + 2 * NPAYLOAD : 1;
    for (int var = 0; var < nvariants; var++)
        for (int form = 0; form < 4; form++) {
            ref_tval t2 = rt; const char* vn = "no-unknown-fields";
            if (var > 0) {
                /* deep copy through encode/decode, then insert an unknown field into every struct node */
                ref_buf tmp; ref_buf_init(&tmp); ref_thrift_encode(&rt, NULL, &tmp);
                uint8_t* keep = ref_alloc(&RA, tmp.n + 1); memcpy(keep, tmp.p, tmp.n);
                ref_thrift_decode(&RA, keep, tmp.n, &t2, NULL); ref_buf_free(&tmp);
                static ref_tval* nodes[4096]; int nn = ref_t_structs(&t2, nodes, 4096); if (nn > 4096) nn = 4096;
                int pk = (var - 1) % NPAYLOAD, atend = (var - 1) / NPAYLOAD;
                for (int i = 0; i < nn; i++) ref_t_insert(&RA, nodes[i], atend ? nodes[i]->nitems : 0, 1000, payload(pk));
                vn = PNAME[pk];
            }
            ref_tform f = { form & 1, (form >> 1) & 1 };
            ref_buf rb; ref_buf_init(&rb); ref_thrift_encode(&t2, &f, &rb);
            uint8_t* x = mc_exact(rb.p, rb.n);
            carquet_arena_init(&ar); memset(&err, 0, sizeof err);
            /* the arena has a history: the previous case's footer was parsed into it and the arena was reset (its memory is handed out again, not zeroed by the allocator) */
            { static uint8_t prev[8192]; static size_t prevn; if (prevn) { parquet_file_metadata_t junk; carquet_error_t e2 = CARQUET_ERROR_INIT; (void)parquet_parse_file_metadata(prev, prevn, &ar, &junk, &e2); carquet_arena_reset(&ar); }
              if (rb.n <= sizeof prev) { memcpy(prev, rb.p, rb.n); prevn = rb.n; } }
            st = parquet_parse_file_metadata(x, rb.n, &ar, &back, &err);
            char key[160];
            if (st != CARQUET_OK) { snprintf(key, sizeof key, "file.ref-encoded.parse-error.%s", vn); mc_fail(key, "form=%d status=%d msg=%s bytes=%s", form, st, err.message, mc_hex(x, rb.n, 48)); }
            memset(x, 0xDD, rb.n); free(x); x = NULL;      /* the input block is gone before the parsed structure is looked at */
            if (st != CARQUET_OK) { }
            else if (!eq_file(&back, &m, false)) { char ff[64]; snprintf(ff, sizeof ff, "%s", g_diff); char* dot = strpbrk(ff, " :"); if (dot) *dot = 0; for (char* p = ff; *p; p++) if ((*p >= '0' && *p <= '9')) *p = 'N';
                snprintf(key, sizeof key, "file.ref-encoded.field.%s.%s", ff, vn); mc_fail(key, "form=%d: %s", form, g_diff); }
            carquet_arena_destroy(&ar); free(x); ref_buf_free(&rb);
            mc_count("file.ref-encoded-variants", 1);
        }
}

/* ---- page headers ----------------------------------------------------------- */
enum { P_TYPE, P_USIZE, P_CSIZE, P_CRC, P_NVALS, P_ENC, P_LVLENC, P_STATS, P_SORTED, NPD };
static const int PSZ[NPD] = { 3, 6, 6, 6, 6, 6, 3, 9, 3 };
static void build_page(const int* ch, ref_page_header* h) {
    memset(h, 0, sizeof *h);
    static const int32_t PT[] = { 0, 2, 3 };
    h->type = PT[ch[P_TYPE]]; h->uncompressed_size = I32A[ch[P_USIZE]]; h->compressed_size = I32A[ch[P_CSIZE]];
    if (ch[P_CRC]) { h->has_crc = true; h->crc = I32A[ch[P_CRC]]; }
    static const int32_t EN[] = { 0, 2, 3, 8, 9, -1 };
    if (h->type == 0) { h->has_dph = true; h->dph.num_values = I32A[ch[P_NVALS]]; h->dph.encoding = EN[ch[P_ENC]]; h->dph.def_enc = ch[P_LVLENC] == 1 ? 4 : 3; h->dph.rep_enc = ch[P_LVLENC] == 2 ? 4 : 3;
        if (ch[P_STATS]) { h->dph.has_stats = true; build_stats(ch[P_STATS], &h->dph.stats); } }
    else if (h->type == 2) { h->has_dict = true; h->dict.num_values = I32A[ch[P_NVALS]]; h->dict.encoding = EN[ch[P_ENC]]; if (ch[P_SORTED]) { h->dict.has_sorted = true; h->dict.sorted = ch[P_SORTED] == 1; } }
    else { h->has_v2 = true; h->v2.num_values = I32A[ch[P_NVALS]]; h->v2.num_nulls = I32A[(ch[P_NVALS] + 1) % 6]; h->v2.num_rows = I32A[(ch[P_NVALS] + 2) % 6]; h->v2.encoding = EN[ch[P_ENC]];
           h->v2.def_len = I32A[ch[P_USIZE]]; h->v2.rep_len = I32A[ch[P_CSIZE]]; if (ch[P_SORTED]) { h->v2.has_compressed = true; h->v2.compressed = ch[P_SORTED] == 1; }
           if (ch[P_STATS]) { h->v2.has_stats = true; build_stats(ch[P_STATS], &h->v2.stats); } }
}
static bool eq_page(const parquet_page_header_t* c, const ref_page_header* h, bool rt, bool* stats_skipped) {
    g_diff = NULL;
    if ((int32_t)c->type != h->type || c->uncompressed_page_size != h->uncompressed_size || c->compressed_page_size != h->compressed_size) DIFF("type/sizes");
    if (c->has_crc != h->has_crc || (h->has_crc && c->crc != h->crc)) DIFF("crc");
    if (h->has_dph) {
        if (c->data_page_header.num_values != h->dph.num_values || (int32_t)c->data_page_header.encoding != h->dph.encoding ||
            (int32_t)c->data_page_header.definition_level_encoding != h->dph.def_enc || (int32_t)c->data_page_header.repetition_level_encoding != h->dph.rep_enc) DIFF("data_page_header fields");
        if (c->data_page_header.has_statistics != h->dph.has_stats) DIFF("data_page_header.has_statistics");
        if (h->dph.has_stats && !eq_stats(&c->data_page_header.statistics, &h->dph.stats, rt, "data_page_header.statistics")) { *stats_skipped = true; return false; }
    }
    if (h->has_dict) {
        if (c->dictionary_page_header.num_values != h->dict.num_values || (int32_t)c->dictionary_page_header.encoding != h->dict.encoding) DIFF("dictionary_page_header fields");
        if (c->dictionary_page_header.is_sorted != (h->dict.has_sorted && h->dict.sorted)) DIFF("dictionary_page_header.is_sorted");
    }
    if (h->has_v2) {
        const parquet_data_page_header_v2_t* v = &c->data_page_header_v2;
        if (v->num_values != h->v2.num_values || v->num_nulls != h->v2.num_nulls || v->num_rows != h->v2.num_rows || (int32_t)v->encoding != h->v2.encoding ||
            v->definition_levels_byte_length != h->v2.def_len || v->repetition_levels_byte_length != h->v2.rep_len) DIFF("data_page_header_v2 fields");
        if (v->is_compressed != (h->v2.has_compressed ? h->v2.compressed : true)) DIFF("data_page_header_v2.is_compressed");
        if (v->has_statistics != (rt ? false : h->v2.has_stats)) DIFF("data_page_header_v2.has_statistics");      /* carquet's writer never emits statistics in a V2 header; a reference-encoded one carries them */
    }
    return true;
}
static void check_page_structure(const int* ch, int ndev) {
    ref_page_header h; build_page(ch, &h);
    parquet_page_header_t c; memset(&c, 0, sizeof c);
    c.type = (carquet_page_type_t)h.type; c.uncompressed_page_size = h.uncompressed_size; c.compressed_page_size = h.compressed_size; c.has_crc = h.has_crc; c.crc = h.crc;
    if (h.has_dph) { c.data_page_header.num_values = h.dph.num_values; c.data_page_header.encoding = (carquet_encoding_t)h.dph.encoding; c.data_page_header.definition_level_encoding = (carquet_encoding_t)h.dph.def_enc;
        c.data_page_header.repetition_level_encoding = (carquet_encoding_t)h.dph.rep_enc; c.data_page_header.has_statistics = h.dph.has_stats; to_cq_stats(&h.dph.stats, &c.data_page_header.statistics); }
    if (h.has_dict) { c.dictionary_page_header.num_values = h.dict.num_values; c.dictionary_page_header.encoding = (carquet_encoding_t)h.dict.encoding; c.dictionary_page_header.is_sorted = h.dict.has_sorted && h.dict.sorted; }
    if (h.has_v2) { c.data_page_header_v2.num_values = h.v2.num_values; c.data_page_header_v2.num_nulls = h.v2.num_nulls; c.data_page_header_v2.num_rows = h.v2.num_rows; c.data_page_header_v2.encoding = (carquet_encoding_t)h.v2.encoding;
        c.data_page_header_v2.definition_levels_byte_length = h.v2.def_len; c.data_page_header_v2.repetition_levels_byte_length = h.v2.rep_len; c.data_page_header_v2.is_compressed = h.v2.has_compressed ? h.v2.compressed : true; }
    carquet_error_t err = CARQUET_ERROR_INIT; carquet_buffer_t b; carquet_buffer_init(&b);
    carquet_status_t st = parquet_write_page_header(&c, &b, &err);
    if (st != CARQUET_OK) { mc_count("page.write-rejected", 1); carquet_buffer_destroy(&b); return; }
    /* the parser is handed the header followed by page bytes in real use: append junk and check bytes_read */
    size_t nb = b.size; uint8_t* bytes = mc_exact(NULL, nb + 5); memcpy(bytes, b.data, nb); memcpy(bytes + nb, "\xff\x19\x19\x00\x7f", 5); carquet_buffer_destroy(&b);
    parquet_page_header_t back; size_t used = 0; bool skipped = false;
    st = parquet_parse_page_header(bytes, nb + 5, &back, &used, &err);
    if (st != CARQUET_OK) mc_fail("page.roundtrip.parse-error", "status=%d msg=%s bytes=%s", st, err.message, mc_hex(bytes, nb, 40));
    else {
        if (used != nb) mc_fail("page.roundtrip.consumed", "produced %zu consumed %zu bytes=%s", nb, used, mc_hex(bytes, nb, 40));
        if (!eq_page(&back, &h, true, &skipped)) mc_fail(skipped ? "page.roundtrip.field.data_page_header.statistics-not-parsed" : "page.roundtrip.field", "%s", g_diff);
    }
    ref_tval tree; size_t u2 = 0; int rc = ref_thrift_decode(&RA, bytes, nb, &tree, &u2); ref_page_header dh;
    if (rc != 0 || u2 != nb) mc_fail("page.carquet-encoded.ref-decode-error", "rc=%d used=%zu of %zu bytes=%s", rc, u2, nb, mc_hex(bytes, nb, 40));
    else if (ref_meta_page_from_tree(&RA, &tree, &dh) != 0) mc_fail("page.carquet-encoded.wire-type-or-required-field", "%s", ref_meta_err);
    else {
        g_diff = NULL; bool ok = dh.type == h.type && dh.uncompressed_size == h.uncompressed_size && dh.compressed_size == h.compressed_size && dh.has_crc == h.has_crc && (!h.has_crc || dh.crc == h.crc) &&
                  dh.has_dph == h.has_dph && dh.has_dict == h.has_dict && dh.has_v2 == h.has_v2;
        if (ok && h.has_dph) { ok = dh.dph.num_values == h.dph.num_values && dh.dph.encoding == h.dph.encoding && dh.dph.def_enc == h.dph.def_enc && dh.dph.rep_enc == h.dph.rep_enc && dh.dph.has_stats == h.dph.has_stats; if (ok && h.dph.has_stats) ok = ref_eq_stats(&dh.dph.stats, &h.dph.stats, "dph.statistics"); }
        if (ok && h.has_dict) ok = dh.dict.num_values == h.dict.num_values && dh.dict.encoding == h.dict.encoding && (dh.dict.has_sorted && dh.dict.sorted) == (h.dict.has_sorted && h.dict.sorted);
        if (ok && h.has_v2) ok = dh.v2.num_values == h.v2.num_values && dh.v2.num_nulls == h.v2.num_nulls && dh.v2.num_rows == h.v2.num_rows && dh.v2.encoding == h.v2.encoding && dh.v2.def_len == h.v2.def_len && dh.v2.rep_len == h.v2.rep_len &&
                                   (dh.v2.has_compressed ? dh.v2.compressed : true) == (h.v2.has_compressed ? h.v2.compressed : true);
        if (!ok) mc_fail("page.carquet-encoded.field", "reference decoder sees different field values (%s) bytes=%s", g_diff ? g_diff : "-", mc_hex(bytes, nb, 40));
    }
    free(bytes);
    ref_tval rt = ref_meta_page_to_tree(&RA, &h);
    int nvariants = ndev <= 1 ? 1 + 2 * NPAYLOAD : 1;
    for (int var = 0; var < nvariants; var++)
        for (int form = 0; form < 4; form++) {
            ref_tval t2 = rt; const char* vn = "no-unknown-fields";
            if (var > 0) {
                ref_buf tmp; ref_buf_init(&tmp); ref_thrift_encode(&rt, NULL, &tmp); uint8_t* keep = ref_alloc(&RA, tmp.n + 1); memcpy(keep, tmp.p, tmp.n);
                ref_thrift_decode(&RA, keep, tmp.n, &t2, NULL); ref_buf_free(&tmp);
                static ref_tval* nodes[64]; int nn = ref_t_structs(&t2, nodes, 64); if (nn > 64) nn = 64;
                int pk = (var - 1) % NPAYLOAD, atend = (var - 1) / NPAYLOAD;
                for (int i = 0; i < nn; i++) ref_t_insert(&RA, nodes[i], atend ? nodes[i]->nitems : 0, 1000, payload(pk));
                vn = PNAME[pk];
            }
            ref_tform f = { form & 1, (form >> 1) & 1 }; ref_buf rb; ref_buf_init(&rb); ref_thrift_encode(&t2, &f, &rb);
            size_t n2 = rb.n; uint8_t* x = mc_exact(NULL, n2 + 3); memcpy(x, rb.p, n2); memcpy(x + n2, "\x15\x00\xff", 3);
            memset(&err, 0, sizeof err); used = 0; skipped = false; char key[160];
            st = parquet_parse_page_header(x, n2 + 3, &back, &used, &err);
            if (st != CARQUET_OK) { snprintf(key, sizeof key, "page.ref-encoded.parse-error.%s", vn); mc_fail(key, "form=%d status=%d msg=%s bytes=%s", form, st, err.message, mc_hex(x, n2, 40)); }
            else {
                if (used != n2) { snprintf(key, sizeof key, "page.ref-encoded.consumed.%s", vn); mc_fail(key, "form=%d encoded %zu consumed %zu bytes=%s", form, n2, used, mc_hex(x, n2, 40)); }
                if (!eq_page(&back, &h, false, &skipped)) { snprintf(key, sizeof key, skipped ? "page.ref-encoded.field.data_page_header.statistics-not-parsed" : "page.ref-encoded.field.%s", vn); mc_fail(key, "form=%d: %s", form, g_diff); }
            }
            free(x); ref_buf_free(&rb); mc_count("page.ref-encoded-variants", 1);
        }
}

/* enumerate all choice vectors with at most maxdev non-default entries */
static void deviations(const int* sizes, int nd, int maxdev, const char* tag, const char* const* names, void (*fn)(const int*, int)) {
    int ch[32];
    for (int ndev = 0; ndev <= maxdev; ndev++) {
        char st[64]; snprintf(st, sizeof st, "%s.deviation-%d", tag, ndev); mc_stage(st);
        int idx[4] = { 0, 1, 2, 3 };
        if (ndev > nd) break;
        for (;;) {
            /* all value combinations for the chosen dimensions */
            int val[4] = { 1, 1, 1, 1 };
            for (;;) {
                if (mc_next()) {
                    memset(ch, 0, sizeof ch); char d[256]; int k = 0; d[0] = 0;
                    for (int i = 0; i < ndev; i++) { ch[idx[i]] = val[i]; k += snprintf(d + k, sizeof d - (size_t)k, "%s%s=%d", i ? "," : "", names ? names[idx[i]] : "d", val[i]); if (!names) k += snprintf(d + k, sizeof d - (size_t)k, "@%d", idx[i]); }
                    mc_desc("%s:dev=%d;{%s}", tag, ndev, d);
                    uint64_t h = mc_hash(ch, sizeof(int) * (size_t)nd, (uint64_t)tag[0]); mc_case_key(h); mc_nontrivial();
                    fn(ch, ndev);
                    ref_arena_free(&RA);
                }
                int i = ndev - 1;
                while (i >= 0 && ++val[i] >= sizes[idx[i]]) { val[i] = 1; i--; }
                if (i < 0) break;
            }
            /* next combination of dimensions */
            int i = ndev - 1;
            while (i >= 0 && idx[i] == nd - ndev + i) i--;
            if (i < 0) break;
            idx[i]++; for (int j = i + 1; j < ndev; j++) idx[j] = idx[j - 1] + 1;
        }
    }
}

static void enumerate(void) {
    memset(g_long, 'L', 300); g_long[300] = 0;
    mc_rule("C13: layer 1 enumerates integers of a boundary alphabet per wire type, all (previous id, id) pairs over {1,2,15,16,17,18,31,32,127,128,255,256,16383,16384,32767} for plain/bool/nested fields, "
            "list sizes {0,1,2,14,15,16,127,128,300} and binary lengths, each in both directions against the reference compact-protocol codec (short and long header forms). "
            "Layer 2 enumerates every FileMetaData with at most 2 (quick) / 3 (thorough) of 24 dimensions off a minimal structure and every PageHeader with at most 3 / 4 of 9 dimensions off, each deviating dimension over its whole alphabet; "
            "per structure: (a) carquet write -> carquet parse equal on every field the writer serialises, consumed = produced; (b) carquet bytes decoded by the reference decoder to the same field ids, wire types and values; "
            "(c) reference encoder in 4 header forms, and for deviation <= 1 with an unknown field of each of 16 payload kinds inserted at the start / end of every struct, parsed by carquet to the same structure. "
            "Non-trivial = every case (each is a distinct structure); distinct by hash of the choice vector.");
    mc_assume("ref_thrift.c implements thrift-compact-protocol.md and the parquet.thrift field map independently of carquet");
    layer1();
    deviations(DSZ, NDIM, 3, "file", DNAME, check_file_structure);
    deviations(PSZ, NPD, 4, "page", NULL, check_page_structure);
}
int main(int argc, char** argv) { return mc_main(argc, argv, "thrift", enumerate); }
