/* c18.c — C18: truncated files are rejected and failed writes are never
 * reported OK.  (a) every proper prefix of every seed file, in every open
 * path; (b) the output sink fails at every byte offset / at every sink
 * invocation / on close, under three stdio buffering modes, plus /dev/full and
 * every RLIMIT_FSIZE for the path-based writer; (c) abort after every prefix
 * of every write history releases everything and leaves no file behind. */
#define _GNU_SOURCE
#include "tbl.h"
#include "mc/fault.h"
#include <unistd.h>
#include <signal.h>
#include <sys/resource.h>
#include <sys/stat.h>

static ref_arena RA;
static char g_path[300];

static void seed_hist(int k, hist_t* h) {
    static const int CD[] = { 0, 1, 2, 5, 6 };
    memset(h, 0, sizeof *h);
    int kind = k % 14, cd = (k / 14) % 5, shape = (k / 70) % 3;
    h->ncols = shape == 2 ? 2 : 1; h->cols[0] = TBL_KINDS[kind]; if (h->ncols == 2) { h->cols[1] = TBL_KINDS[(kind + 5) % 14]; h->cols[0].name = "p"; h->cols[1].name = "q"; }
    h->codec = CD[cd]; h->page_sel = shape == 1 ? 0 : 2; h->pattern = k % 3;
    switch (shape) { case 0: h->N = 5; h->nrg = 1; h->rg_rows[0] = 5; h->comp[0] = 0x2; break; case 1: h->N = 9; h->nrg = 3; h->rg_rows[0] = 3; h->rg_rows[1] = 3; h->rg_rows[2] = 3; h->comp[0] = 0x49; break; default: h->N = 4; h->nrg = 2; h->rg_rows[0] = 1; h->rg_rows[1] = 3; h->comp[0] = 0x4; h->comp[1] = 0x2; break; }
    for (int c = 0; c < h->ncols; c++) h->mask[c] = h->cols[c].opt ? (0x15au >> c) & ((1u << h->N) - 1) : 0;
}

/* ---- (a) truncation ------------------------------------------------------------------ */
static void truncation(const uint8_t* img, size_t len, const char* fdesc) {
    for (size_t cut = 0; cut < len; cut++) {
        ref_file rf; bool complete = ref_pq_read(&RA, img, cut, &rf, 0) == 0; ref_arena_free(&RA);
        if (complete) mc_count("prefix-is-itself-a-complete-file", 1);
        mc_desc("%s;cut=%zu/%zu", fdesc, cut, len);
        uint8_t* x = mc_exact(img, cut);
        FILE* f = fopen(g_path, "wb"); if (!f || fwrite(img, 1, cut, f) != cut) mc_harness_error("scratch write failed"); fclose(f);
        for (int mode = 0; mode < 3; mode++) {
            carquet_error_t err = CARQUET_ERROR_INIT; carquet_reader_options_t o; carquet_reader_options_init(&o); o.use_mmap = mode == 2;
            carquet_reader_t* rd = mode == 0 ? (cut ? carquet_reader_open_buffer(x, cut, &o, &err) : NULL) : carquet_reader_open(g_path, &o, &err);
            if (mode == 0 && cut == 0) continue;      /* open_buffer documents size 0 as invalid; nothing to observe */
            static const char* MN[] = { "buffer", "fread", "mmap" };
            if (rd) {
                if (!complete) { char key[96]; const char* zone = (cut >= 12 && !memcmp(img + cut - 4, "PAR1", 4)) ? (strstr(fdesc, "length-magic-records") ? "prefix-ends-with-length-and-magic-record" : strstr(fdesc, "adversarial-embedded-image") ? "prefix-ends-with-embedded-parquet-image" : strstr(fdesc, "metadata-without-stop") ? "prefix-ends-with-metadata-cut-short" : "prefix-ends-with-magic") : cut >= len - 8 ? "inside-trailer" : cut < 4 ? "inside-leading-magic" : "inside-data-or-footer"; snprintf(key, sizeof key, "truncated.accepted.%s.%s", MN[mode], zone); mc_fail(key, "%s: prefix of %zu of %zu bytes opened as a table of %lld rows", fdesc, cut, len, (long long)carquet_reader_num_rows(rd)); }
                carquet_reader_close(rd);
            } else {
                if (err.code == CARQUET_OK) { char key[96]; snprintf(key, sizeof key, "truncated.null-without-error-code.%s", MN[mode]); mc_fail(key, "%s cut=%zu: open returned NULL but the error struct says OK", fdesc, cut); }
                if (!memchr(err.message, 0, sizeof err.message)) mc_fail("truncated.error-message-not-terminated", "%s cut=%zu", fdesc, cut);
                if (complete) mc_count("complete-prefix-rejected (allowed)", 1);
            }
            /* the error argument is optional ("may be NULL"): the same open without it gives the same verdict */
            carquet_reader_t* rn = mode == 0 ? carquet_reader_open_buffer(x, cut, &o, NULL) : carquet_reader_open(g_path, &o, NULL);
            if ((rn != NULL) != (rd != NULL)) { char key[96]; snprintf(key, sizeof key, "truncated.verdict-depends-on-error-argument.%s", MN[mode]); mc_fail(key, "%s cut=%zu: open %s with an error struct and %s without", fdesc, cut, rd ? "succeeds" : "fails", rn ? "succeeds" : "fails"); }
            if (rn) carquet_reader_close(rn);
        }
        free(x);
    }
}

/* ---- (b) failing sinks ------------------------------------------------------------------ */
static void sink_faults(const hist_t* h, const uint8_t* good, size_t len, const char* fdesc, bool all_offsets) {
    /* fault-free run through the cookie sink first: must reproduce the image */
    for (int buf = 0; buf < 3; buf++) {
        mcf_sink_t s; FILE* f = mcf_sink_open(&s, -1, 0, 0, buf); tbl_result r; tbl_exec(h, f, NULL, -1, &r); int fc = fclose(f);
        if (r.status != CARQUET_OK || fc != 0 || s.len != len || memcmp(s.data, good, len)) mc_fail("sink.fault-free-run-differs", "%s buf=%d: status %d, %zu bytes (expected %zu)", fdesc, buf, r.status, s.len, len);
        long ncalls = s.calls; mcf_sink_free(&s);
        /* fail at byte offset b */
        for (size_t b = 0; b <= len; b += (all_offsets || len < 200 ? 1 : 3)) {
            if (b == len) continue;
            mc_desc("%s;sink:buf=%d;fail@byte=%zu/%zu", fdesc, buf, b, len);
            f = mcf_sink_open(&s, (long)b, 0, 0, buf); tbl_exec(h, f, NULL, -1, &r); fclose(f);
            if (r.status == CARQUET_OK) { char key[96]; snprintf(key, sizeof key, "sink.all-calls-ok-but-short.%s", buf == 0 ? "stdio-default-buffer" : buf == 1 ? "unbuffered" : "16-byte-buffer"); mc_fail(key, "%s buf=%d: sink out of space at byte %zu of %zu, every writer call including close returned OK, sink holds %zu bytes", fdesc, buf, b, len, s.len); }
            mcf_sink_free(&s); mc_count("sink.byte-offset-faults", 1);
        }
        /* fail at the j-th invocation of the sink's write */
        for (long j = 1; j <= ncalls; j++) {
            mc_desc("%s;sink:buf=%d;fail@call=%ld/%ld", fdesc, buf, j, ncalls);
            f = mcf_sink_open(&s, -1, j, 0, buf); tbl_exec(h, f, NULL, -1, &r); fclose(f);
            if (r.status == CARQUET_OK && (s.len != len || memcmp(s.data, good, len))) { char key[96]; snprintf(key, sizeof key, "sink.all-calls-ok-but-short.%s", buf == 0 ? "stdio-default-buffer" : buf == 1 ? "unbuffered" : "16-byte-buffer"); mc_fail(key, "%s buf=%d: sink write #%ld of %ld failed, every writer call returned OK, sink holds %zu of %zu bytes", fdesc, buf, j, ncalls, s.len, len); }
            mcf_sink_free(&s); mc_count("sink.invocation-faults", 1);
        }
    }
    /* one-shot failures with a caller that carries on: the j-th invocation of the sink's write fails once, every remaining writer call is still made;
     * "OK from close implies all bytes reached the sink" must hold whatever the earlier calls reported */
    for (int buf = 1; buf < 3; buf++) {
        mcf_sink_t s0; FILE* f0 = mcf_sink_open(&s0, -1, 0, 0, buf); tbl_result r0; tbl_exec(h, f0, NULL, -1, &r0); fclose(f0); long ncalls = s0.calls; mcf_sink_free(&s0);
        for (long j = 1; j <= ncalls; j++) {
            mc_desc("%s;sink:buf=%d;fail-once@call=%ld/%ld;caller-continues", fdesc, buf, j, ncalls);
            mcf_sink_t s; FILE* f = mcf_sink_open(&s, -1, j, 0, buf); s.transient = 1; tbl_result r; tbl_exec(h, f, NULL, -1, &r); fclose(f);
            /* a call that reported an error may have dropped its batch, so the file need not equal the fault-free one; but what close acknowledges must be a complete Parquet file
             * (leading and trailing magic, footer, page chain at the recorded offsets, sizes and counts), and equal to the fault-free file when no call reported anything */
            if (r.closed && r.close_status == CARQUET_OK) {
                ref_file rf; bool valid = ref_pq_read(&RA, s.data, s.len, &rf, REF_RD_CHECK_TOTALS) == 0; char why[120]; snprintf(why, sizeof why, "%s", valid ? "" : rf.err); ref_arena_free(&RA);
                bool same = s.len == len && !memcmp(s.data, good, len);
                if (!valid || (r.status == CARQUET_OK && !same)) { char key[112]; snprintf(key, sizeof key, "sink.close-ok-but-%s.after-%s.%s", valid ? "incomplete" : "not-a-parquet-file", r.status == CARQUET_OK ? "no-reported-error" : "an-earlier-reported-error", buf == 1 ? "unbuffered" : "16-byte-buffer");
                    mc_fail(key, "%s buf=%d: sink write #%ld of %ld failed once (first non-OK status %d at %s), the caller carried on and close returned OK; the sink holds %zu bytes (complete file: %zu)%s%s", fdesc, buf, j, ncalls, r.status, r.where, s.len, len, valid ? "" : "; the reference reader rejects them: ", why); } }
            mcf_sink_free(&s); mc_count("sink.one-shot-faults.caller-continues", 1);
        }
    }
    /* path-based writer: /dev/full, and every file-size limit */
    { tbl_result r; mc_desc("%s;path:/dev/full", fdesc); tbl_exec(h, NULL, "/dev/full", -1, &r);
      if (r.created && r.status == CARQUET_OK) mc_fail("path.dev-full.all-calls-ok", "%s: every writer call including close returned OK on /dev/full", fdesc); mc_count("path./dev/full", 1); }
    signal(SIGXFSZ, SIG_IGN); struct rlimit old; getrlimit(RLIMIT_FSIZE, &old);
    for (size_t lim = 0; lim < len; lim += (all_offsets || len < 200 ? 1 : 5)) {
        mc_desc("%s;path:rlimit_fsize=%zu/%zu", fdesc, lim, len);
        struct rlimit rl = { lim, old.rlim_max }; setrlimit(RLIMIT_FSIZE, &rl); tbl_result r; tbl_exec(h, NULL, g_path, -1, &r); setrlimit(RLIMIT_FSIZE, &old);
        if (r.created && r.status == CARQUET_OK) { struct stat sb; long sz = stat(g_path, &sb) == 0 ? (long)sb.st_size : -1; mc_fail("path.file-size-limit.all-calls-ok", "%s: file size limit %zu of %zu bytes, every writer call including close returned OK, file has %ld bytes", fdesc, lim, len, sz); }
        unlink(g_path); mc_count("path.rlimit-faults", 1);
    }
}

/* ---- (c) abort ---------------------------------------------------------------------------- */
static void abort_points(const hist_t* h, const char* fdesc) {
    tbl_result r; mcf_sink_t s; FILE* f = mcf_sink_open(&s, -1, 0, 0, 0); tbl_exec(h, f, NULL, -1, &r); fclose(f); mcf_sink_free(&s); int nops = r.nops;
    /* path forms: absolute, and relative to the working directory ("name", "./name", "sub/name") after a chdir into the scratch directory */
    static char dir[300], cwd0[300], reln[3][64], subd[32]; static const char* REL[4];
    if (!dir[0]) { int pid = (int)getpid(); snprintf(subd, sizeof subd, "sub_c18_%d", pid); snprintf(reln[0], 64, "rel_c18_%d.parquet", pid); snprintf(reln[1], 64, "./rel_c18_%d.parquet", pid); snprintf(reln[2], 64, "%s/rel.parquet", subd); REL[1] = reln[0]; REL[2] = reln[1]; REL[3] = reln[2];      /* the shards share the scratch directory */
         snprintf(dir, sizeof dir, "%s", g_path); char* sl = strrchr(dir, '/'); if (sl) *sl = 0; if (!getcwd(cwd0, sizeof cwd0)) cwd0[0] = 0; }
    for (int k = 0; k <= nops - 1; k++) for (int target = 0; target < 5; target++) {
        mc_desc("%s;abort-after=%d/%d;%s", fdesc, k, nops, target == 0 ? "stream" : target == 1 ? "path" : REL[target - 1]);
        if (target >= 2) {      /* relative path forms */
            if (chdir(dir)) mc_harness_error("chdir %s", dir); mkdir(subd, 0700); const char* rp = REL[target - 1]; unlink(rp);
            mcf_on(); tbl_exec(h, NULL, rp, k, &r); mcf_off();
            if (r.aborted && access(rp, F_OK) == 0) { mc_fail("abort.file-left-behind.relative-path", "%s: abort after %d of %d operations left %s (relative to %s) in place", fdesc, k, nops, rp, dir); unlink(rp); }
            rmdir(subd); if (cwd0[0] && chdir(cwd0)) mc_harness_error("chdir back"); mc_count("abort.points", 1); continue; }
        /* steady state: run twice, the second run must not leave more blocks than the first */
        long live[2];
        for (int rep = 0; rep < 2; rep++) {
            if (rep == 0) mcf_reset();
            if (target == 0) { f = mcf_sink_open(&s, -1, 0, 0, 0); mcf_on(); tbl_exec(h, f, NULL, k, &r); mcf_off(); fclose(f); mcf_sink_free(&s); }
            else { unlink(g_path); mcf_on(); tbl_exec(h, NULL, g_path, k, &r); mcf_off(); if (r.aborted && access(g_path, F_OK) == 0) { mc_fail("abort.file-left-behind", "%s: abort after %d of %d operations left %s in place", fdesc, k, nops, g_path); unlink(g_path); } }
            live[rep] = mcf_live();
        }
        if (!r.aborted) mc_harness_error("abort point %d not reached (%s)", k, fdesc);
        if (live[1] > live[0]) { char what[200]; mcf_live_since(0, what, sizeof what); mc_fail(target ? "abort.leak.path-writer" : "abort.leak.stream-writer", "%s: abort after %d of %d operations: %ld blocks outstanding after the second run, %ld after the first (%s)", fdesc, k, nops, live[1], live[0], what); }
        mc_count("abort.points", 1);
    }
}

/* abort with columns that carry repetition levels (the table model is flat): REPEATED leaves, alone and next to an OPTIONAL one, levels given or omitted;
 * the writer is aborted after every number of operations, twice, and the second run must not leave more blocks than the first */
static void abort_repeated(void) {
    static const int16_t REP[4] = { 0, 1, 1, 0 }, DEF[4] = { 1, 1, 1, 1 }; static const int32_t V32[4] = { 5, 6, 7, 8 }; static const carquet_byte_array_t VBA[4] = { { (uint8_t*)"a", 1 }, { (uint8_t*)"bc", 2 }, { (uint8_t*)"", 0 }, { (uint8_t*)"def", 3 } };
    for (int shape = 0; shape < 3; shape++) for (int lv = 0; lv < 3; lv++) for (int target = 0; target < 2; target++) for (int k = 0; k <= 5; k++) {
        if (!mc_next()) continue;
        mc_desc("c18c:repeated;shape=%d;levels=%d;%s;abort-after=%d", shape, lv, target ? "path" : "stream", k); mc_case_key(mc_mix(0xc18e, ((uint64_t)shape << 16) | ((uint64_t)lv << 8) | ((uint64_t)target << 4) | (uint64_t)k)); mc_nontrivial();
        long live[2];
        for (int rep = 0; rep < 2; rep++) {
            if (rep == 0) mcf_reset();
            mcf_sink_t snk; FILE* f = target ? NULL : mcf_sink_open(&snk, -1, 0, 0, 0); if (target) unlink(g_path);
            mcf_on();
            carquet_error_t err = CARQUET_ERROR_INIT; carquet_schema_t* sc = carquet_schema_create(&err); int ncols = shape == 1 ? 2 : 1;
            if (sc) { (void)carquet_schema_add_column(sc, "r", shape == 2 ? CARQUET_PHYSICAL_BYTE_ARRAY : CARQUET_PHYSICAL_INT32, NULL, CARQUET_REPETITION_REPEATED, 0);
                      if (shape == 1) (void)carquet_schema_add_column(sc, "o", CARQUET_PHYSICAL_INT32, NULL, CARQUET_REPETITION_OPTIONAL, 0); }
            carquet_writer_options_t wo; carquet_writer_options_init(&wo);
            carquet_writer_t* w = sc ? (target ? carquet_writer_create(g_path, sc, &wo, &err) : carquet_writer_create_file(f, sc, &wo, &err)) : NULL;
            if (w) { int ops = 0;
                for (int g = 0; g < 2 && ops < k; g++) {
                    if (g && ops < k) { (void)carquet_writer_new_row_group(w); ops++; }
                    for (int c = 0; c < ncols && ops < k; c++, ops++) (void)carquet_writer_write_batch(w, c, c == 0 && shape == 2 ? (const void*)VBA : (const void*)V32, 4, lv == 2 ? NULL : DEF, c == 0 && lv != 1 ? REP : NULL); }
                carquet_writer_abort(w); }
            if (sc) carquet_schema_free(sc);
            mcf_off(); if (f) { fclose(f); mcf_sink_free(&snk); }
            if (target && access(g_path, F_OK) == 0) { mc_fail("abort.file-left-behind.repeated-column", "shape %d: abort after %d operations left %s in place", shape, k, g_path); unlink(g_path); }
            live[rep] = mcf_live();
        }
        if (live[1] > live[0]) { char what[200]; mcf_live_since(0, what, sizeof what); mc_fail(target ? "abort.leak.path-writer.repeated-column" : "abort.leak.stream-writer.repeated-column", "shape %d levels %d: abort after %d operations: %ld blocks outstanding after the second run, %ld after the first (%s)", shape, lv, k, live[1], live[0], what); }
        mc_count("abort.points.repeated-columns", 1);
    }
}

static void enumerate(void) {
    mc_rule("C18: (a) every proper prefix (cut 0..len-1) of 210 carquet-written seed files (14 column kinds x 5 codecs x 3 shapes incl. 3 row groups and two columns) and of two adversarial files (a string value that is a complete Parquet image; a string value made of <u32 length>PAR1 records with lengths 0xfffffff0..0xffffffff, 0, 1, 2^31-1, 2^31 and the prefix size -14..+4), opened by "
            "path, by path with mmap and from a buffer: open must fail with a non-OK code unless the reference reader accepts the prefix as a complete file; (b) for 45 write histories the output sink (fopencookie) fails at every byte offset and at every "
            "sink invocation under default, unbuffered and 16-byte stdio buffering, the path-based writer is run on /dev/full and under every RLIMIT_FSIZE: some writer call, at the latest close, must return non-OK, and OK from every call implies "
            "the sink holds exactly the fault-free image; (c) carquet_writer_abort replaces every operation of every history in turn: the second of two identical runs may not leave more live allocations than the first, and path-based writers leave no "
            "file behind. evaluations = seed histories; counters give the number of cuts / faults / abort points. Non-trivial = every seed; distinct by seed index.");
    const char* sd = getenv("VERIF_SCRATCH"); snprintf(g_path, sizeof g_path, "%s/c18_%d.parquet", sd ? sd : "/dev/shm", (int)getpid());
    mc_stage("a.truncation.every-cut.three-open-paths");
    for (int k = 0; k < 210; k++) {
        if (!mc_next()) continue;
        hist_t h; seed_hist(k, &h); char fd[760]; snprintf(fd, sizeof fd, "c18a:%s", tbl_desc(&h)); mc_desc("%s", fd); mc_case_key(mc_mix(0x18a, (uint64_t)k)); mc_nontrivial(); mc_feature("truncation");
        uint8_t* img; size_t len; carquet_status_t st; const char* where; if (tbl_write(&h, &img, &len, &st, &where)) { mc_count("seed.writer-refused", 1); continue; }
        truncation(img, len, fd); mc_count("cuts", (uint64_t)len); free(img);
    }
    if (mc_next()) {     /* adversarial: a file whose last string value is itself a complete Parquet file, so that some prefix ends in "...PAR1" with a plausible footer length in front */
        hist_t inner; seed_hist(0, &inner); uint8_t* in_img; size_t in_len; carquet_status_t st; const char* where; mc_desc("c18a:adversarial-embedded-image"); mc_case_key(0x18aa); mc_nontrivial(); mc_feature("truncation");
        if (!tbl_write(&inner, &in_img, &in_len, &st, &where)) {
            /* outer file written by carquet: REQUIRED BYTE_ARRAY column, uncompressed, whose single value is the inner image */
            carquet_error_t err = CARQUET_ERROR_INIT; carquet_schema_t* sch = carquet_schema_create(&err); (void)carquet_schema_add_column(sch, "blob", CARQUET_PHYSICAL_BYTE_ARRAY, NULL, CARQUET_REPETITION_REQUIRED, 0);
            char* mem = NULL; size_t mlen = 0; FILE* mf = open_memstream(&mem, &mlen); carquet_writer_t* w = carquet_writer_create_file(mf, sch, NULL, &err); carquet_byte_array_t v = { in_img, (int32_t)in_len };
            if (!w || carquet_writer_write_batch(w, 0, &v, 1, NULL, NULL) != CARQUET_OK || carquet_writer_close(w) != CARQUET_OK) mc_harness_error("cannot write the adversarial seed");
            fclose(mf); carquet_schema_free(sch); ref_buf out; ref_buf_init(&out); ref_buf_put(&out, mem, mlen); free(mem);
            bool found = false; for (size_t q = 12; q < out.n - 8; q++) if (!memcmp(out.p + q - 4, "PAR1", 4)) found = true; if (!found) mc_harness_error("adversarial seed has no embedded image boundary");
            truncation(out.p, out.n, "c18a:adversarial-embedded-image"); mc_count("cuts", out.n); ref_buf_free(&out); free(in_img); ref_arena_free(&RA);
        }
    }
    if (mc_next()) {     /* adversarial: a string value made of 8-byte records <u32 length><"PAR1">: some prefix ends in every interesting footer length followed by the magic */
        mc_desc("c18a:adversarial-length-magic-records"); mc_case_key(0x18ab); mc_nontrivial(); mc_feature("truncation");
        static uint8_t blob[8 * 64]; int nrec = 0; size_t blob_off = 0; ref_buf out; ref_buf_init(&out);
        for (int pass = 0; pass < 2; pass++) {
            nrec = 0; uint32_t L[64];
            for (uint32_t v = 0xfffffff0u; v != 0; v++) L[nrec++] = v;                                                 /* 16 values up to 0xffffffff: 32-bit wrap of "length + 8" */
            L[nrec++] = 0; L[nrec++] = 1; L[nrec++] = 0x7fffffffu; L[nrec++] = 0x80000000u;
            for (int d = -14; d <= 4; d++) { size_t P = blob_off + (size_t)(nrec + 1) * 8; L[nrec] = (uint32_t)((int64_t)P + d); nrec++; }   /* around the size of the prefix that ends with this record */
            for (int i = 0; i < nrec; i++) { blob[i * 8] = (uint8_t)L[i]; blob[i * 8 + 1] = (uint8_t)(L[i] >> 8); blob[i * 8 + 2] = (uint8_t)(L[i] >> 16); blob[i * 8 + 3] = (uint8_t)(L[i] >> 24); memcpy(blob + i * 8 + 4, "PAR1", 4); }
            carquet_error_t err = CARQUET_ERROR_INIT; carquet_schema_t* sch = carquet_schema_create(&err); (void)carquet_schema_add_column(sch, "blob", CARQUET_PHYSICAL_BYTE_ARRAY, NULL, CARQUET_REPETITION_REQUIRED, 0);
            char* mem = NULL; size_t mlen = 0; FILE* mf = open_memstream(&mem, &mlen); carquet_writer_t* w = carquet_writer_create_file(mf, sch, NULL, &err); carquet_byte_array_t v = { blob, (int32_t)(nrec * 8) };
            if (!w || carquet_writer_write_batch(w, 0, &v, 1, NULL, NULL) != CARQUET_OK || carquet_writer_close(w) != CARQUET_OK) mc_harness_error("cannot write the length-magic seed");
            fclose(mf); carquet_schema_free(sch); ref_buf_clear(&out); ref_buf_put(&out, mem, mlen); free(mem);
            size_t q = 0; for (; q + 8 <= out.n; q++) if (!memcmp(out.p + q, blob, 8)) break; if (q + 8 > out.n) mc_harness_error("length-magic seed: value not found in the file (compressed?)");
            if (pass == 1 && q != blob_off) mc_harness_error("length-magic seed: value moved between the two passes");
            blob_off = q;
        }
        truncation(out.p, out.n, "c18a:adversarial-length-magic-records"); mc_count("cuts", out.n); ref_buf_free(&out); ref_arena_free(&RA);
    }
    if (mc_next()) {     /* adversarial: a string value holding a FileMetaData that lacks only its final STOP byte, its length and the magic: the prefix that ends there carries metadata cut short by a crash */
        mc_desc("c18a:adversarial-metadata-without-stop"); mc_case_key(0x18ad); mc_nontrivial(); mc_feature("truncation");
        static ref_schema_elem sc[2]; memset(sc, 0, sizeof sc); sc[0].name = (ref_bin){ (const uint8_t*)"schema", 6, true }; sc[0].has_num_children = true; sc[0].num_children = 1;
        sc[1].name = (ref_bin){ (const uint8_t*)"v", 1, true }; sc[1].has_type = true; sc[1].type = PT_INT32; sc[1].has_rep = true; sc[1].rep = 0;
        ref_write_req rq; memset(&rq, 0, sizeof rq); rq.schema = sc; rq.nschema = 2; rq.nleaves = 1; rq.nrg = 0; ref_buf inner; ref_buf_init(&inner);
        if (ref_pq_write(&RA, &rq, &inner, NULL, 0, NULL)) mc_harness_error("reference writer failed (empty file)");
        ref_file rf; if (ref_pq_read(&RA, inner.p, inner.n, &rf, 0)) mc_harness_error("reference reader rejects the empty file");
        uint32_t flen = (uint32_t)(inner.n - 8 - rf.footer_start); if (flen < 4 || inner.p[rf.footer_start + flen - 1] != 0x00) mc_harness_error("footer does not end with STOP");
        for (uint32_t drop = 1; drop <= 5; drop++) {      /* the final STOP, and one / two more bytes, missing; 4, 5: complete metadata whose schema has no leaf (an empty schema list; a root that announces a child and nothing else) */
            static uint8_t blob[600]; uint32_t bl = flen - drop; memcpy(blob, inner.p + rf.footer_start, bl);
            if (drop >= 4) { static const uint8_t NOLEAF[2][24] = { { 0x15, 0x02, 0x19, 0x0c, 0x16, 0x00, 0x19, 0x0c, 0x00 }, { 0x15, 0x02, 0x19, 0x1c, 0x48, 0x01, 0x72, 0x15, 0x02, 0x00, 0x16, 0x00, 0x19, 0x0c, 0x00 } }; static const uint32_t NL[2] = { 9, 15 }; bl = NL[drop - 4]; memcpy(blob, NOLEAF[drop - 4], bl); } blob[bl] = (uint8_t)bl; blob[bl + 1] = (uint8_t)(bl >> 8); blob[bl + 2] = 0; blob[bl + 3] = 0; memcpy(blob + bl + 4, "PAR1", 4);
            carquet_error_t err = CARQUET_ERROR_INIT; carquet_schema_t* sch = carquet_schema_create(&err); (void)carquet_schema_add_column(sch, "blob", CARQUET_PHYSICAL_BYTE_ARRAY, NULL, CARQUET_REPETITION_REQUIRED, 0);
            carquet_writer_options_t wo; carquet_writer_options_init(&wo); wo.compression = CARQUET_COMPRESSION_UNCOMPRESSED; char* mem = NULL; size_t mlen = 0; FILE* mf = open_memstream(&mem, &mlen); carquet_writer_t* w = carquet_writer_create_file(mf, sch, &wo, &err); carquet_byte_array_t v = { blob, (int32_t)(bl + 8) };
            if (!w || carquet_writer_write_batch(w, 0, &v, 1, NULL, NULL) != CARQUET_OK || carquet_writer_close(w) != CARQUET_OK) mc_harness_error("cannot write the metadata-without-stop seed");
            fclose(mf); carquet_schema_free(sch); if (!memmem(mem, mlen, blob, bl + 8)) mc_harness_error("metadata-without-stop seed: value not found in the file");
            char d[64]; snprintf(d, sizeof d, "c18a:adversarial-metadata-without-stop;missing=%u", drop); truncation((const uint8_t*)mem, mlen, d); mc_count("cuts", mlen); free(mem); }
        ref_buf_free(&inner); ref_arena_free(&RA);
    }
    if (mc_next()) {     /* a 12 MB file whose INT32 values contain <length> "PAR1" pairs: the prefixes that end right after such a pair carry a plausible footer length of several MiB */
        mc_desc("c18a:large-file-length-magic-pairs"); mc_case_key(0x18ac); mc_nontrivial(); mc_feature("truncation"); mc_budget_ms(120000);
        enum { NV = 3000000 }; int32_t* v = malloc(sizeof(int32_t) * NV); for (int i = 0; i < NV; i++) v[i] = i * 7 + 1;
        static const int32_t LEN[] = { 1 << 20, 8 << 20, (8 << 20) + 4096, 10 << 20, 11 << 20, 0x7fffffff, -8, -1 }; int at[8];
        for (int k = 0; k < 8; k++) { at[k] = 2900000 + k * 1000; v[at[k]] = LEN[k]; v[at[k] + 1] = 0x31524150; }
        carquet_error_t err = CARQUET_ERROR_INIT; carquet_schema_t* sch = carquet_schema_create(&err); (void)carquet_schema_add_column(sch, "v", CARQUET_PHYSICAL_INT32, NULL, CARQUET_REPETITION_REQUIRED, 0);
        carquet_writer_options_t wo; carquet_writer_options_init(&wo); wo.compression = CARQUET_COMPRESSION_UNCOMPRESSED; char* mem = NULL; size_t mlen = 0; FILE* mf = open_memstream(&mem, &mlen); carquet_writer_t* w = carquet_writer_create_file(mf, sch, &wo, &err);
        if (!w || carquet_writer_write_batch(w, 0, v, NV, NULL, NULL) != CARQUET_OK || carquet_writer_close(w) != CARQUET_OK) mc_harness_error("cannot write the large seed");
        fclose(mf); carquet_schema_free(sch);
        for (int k = 0; k < 8; k++) { uint8_t pat[8]; memcpy(pat, &LEN[k], 4); memcpy(pat + 4, "PAR1", 4); uint8_t* hit = memmem(mem + 4, mlen - 4, pat, 8); if (!hit) mc_harness_error("large seed: pair %d not found", k);
            for (int d = -1; d <= 1; d++) { size_t cut = (size_t)(hit + 8 - (uint8_t*)mem) + (size_t)d; ref_file rf; bool complete = ref_pq_read(&RA, (const uint8_t*)mem, cut, &rf, 0) == 0; ref_arena_free(&RA);
                mc_desc("c18a:large-file-length-magic-pairs;length=%d;cut=%zu/%zu", LEN[k], cut, mlen); uint8_t* x = mc_exact(mem, cut); FILE* f = fopen(g_path, "wb"); if (!f || fwrite(mem, 1, cut, f) != cut) mc_harness_error("scratch write failed"); fclose(f);
                for (int mode = 0; mode < 3; mode++) { carquet_error_t e2 = CARQUET_ERROR_INIT; carquet_reader_options_t o; carquet_reader_options_init(&o); o.use_mmap = mode == 2; carquet_reader_t* rd = mode == 0 ? carquet_reader_open_buffer(x, cut, &o, &e2) : carquet_reader_open(g_path, &o, &e2);
                    static const char* MN[] = { "buffer", "fread", "mmap" }; if (rd) { if (!complete) { char key[96]; snprintf(key, sizeof key, "truncated.accepted.%s.large-prefix-ends-with-length-and-magic", MN[mode]); mc_fail(key, "prefix of %zu of %zu bytes (footer length field %d) opened", cut, mlen, LEN[k]); } carquet_reader_close(rd); }
                    else if (e2.code == CARQUET_OK) mc_fail("truncated.null-without-error-code.large", "cut=%zu mode %s", cut, MN[mode]); }
                free(x); mc_count("cuts", 1); } }
        unlink(g_path); free(mem); free(v);
    }
    mc_stage("b.failing-sinks.every-offset.every-invocation");
    for (int k = 0; k < 210; k += (mc_thorough() ? 1 : 2)) {
        if (!mc_next()) continue;
        hist_t h; seed_hist(k, &h); char fd[760]; snprintf(fd, sizeof fd, "c18b:%s", tbl_desc(&h)); mc_desc("%s", fd); mc_case_key(mc_mix(0x18b, (uint64_t)k)); mc_nontrivial(); mc_feature("sink");
        uint8_t* img; size_t len; carquet_status_t st; const char* where; if (tbl_write(&h, &img, &len, &st, &where)) { mc_count("seed.writer-refused", 1); continue; }
        sink_faults(&h, img, len, fd, mc_thorough()); free(img);
    }
    /* a row group larger than 1 MiB (writers may split large writes): every sink invocation fails once (transient) or for good */
    mc_stage("b2.large-row-group.sink-faults-per-invocation");
    for (int buf = 0; buf < 2; buf++) for (int transient = 0; transient < 2; transient++) {
        if (!mc_next()) continue;
        mc_desc("c18b:large-row-group;buf=%d;%s", buf, transient ? "transient" : "persistent"); mc_case_key(mc_mix(0x18e, ((uint64_t)buf << 4) | (uint64_t)transient)); mc_nontrivial(); mc_feature("sink"); mc_budget_ms(120000);
        enum { NBIG = 400000 }; static int64_t* v; if (!v) { v = malloc(sizeof(int64_t) * NBIG); for (int i = 0; i < NBIG; i++) v[i] = (int64_t)i * 0x9E3779B97F4A7C15ll; }
        uint8_t* good = NULL; size_t glen = 0; long ncalls = 0;
        for (long j = 0; j <= ncalls; j++) {       /* j = 0: fault-free reference run */
            mcf_sink_t s; FILE* f = mcf_sink_open(&s, -1, j, 0, buf ? 1 : 0); s.transient = transient; carquet_error_t err = CARQUET_ERROR_INIT; carquet_status_t st = CARQUET_OK, first_bad = CARQUET_OK;
            carquet_schema_t* sch = carquet_schema_create(&err); (void)carquet_schema_add_column(sch, "v", CARQUET_PHYSICAL_INT64, NULL, CARQUET_REPETITION_REQUIRED, 0);
            carquet_writer_options_t wo; carquet_writer_options_init(&wo); wo.compression = CARQUET_COMPRESSION_UNCOMPRESSED; carquet_writer_t* w = carquet_writer_create_file(f, sch, &wo, &err);
            if (!w) { first_bad = err.code ? err.code : CARQUET_ERROR_FILE_WRITE; } else {
                st = carquet_writer_write_batch(w, 0, v, NBIG, NULL, NULL); if (st != CARQUET_OK && first_bad == CARQUET_OK) first_bad = st;
                if (first_bad == CARQUET_OK) { st = carquet_writer_new_row_group(w); if (st != CARQUET_OK) first_bad = st; }
                if (first_bad == CARQUET_OK) { st = carquet_writer_write_batch(w, 0, v, 5, NULL, NULL); if (st != CARQUET_OK) first_bad = st; }
                if (first_bad == CARQUET_OK) { st = carquet_writer_close(w); if (st != CARQUET_OK) first_bad = st; } else carquet_writer_abort(w); }
            fclose(f); carquet_schema_free(sch);
            if (j == 0) { if (first_bad != CARQUET_OK) { mc_fail("sink.large.fault-free-run-failed", "status %d", first_bad); mcf_sink_free(&s); break; } good = malloc(s.len); memcpy(good, s.data, s.len); glen = s.len; ncalls = s.calls; mc_count("sink.large.invocations", (uint64_t)ncalls); }
            else if (first_bad == CARQUET_OK && (s.len != glen || memcmp(s.data, good, glen))) { char key[96]; snprintf(key, sizeof key, "sink.large-row-group.all-calls-ok-but-short.%s.%s", transient ? "transient-failure" : "persistent-failure", buf ? "unbuffered" : "stdio-default-buffer");
                mc_fail(key, "sink write #%ld of %ld failed%s, every writer call including close returned OK; the sink holds %zu of %zu bytes", j, ncalls, transient ? " once" : "", s.len, glen); }
            mcf_sink_free(&s);
        }
        free(good);
    }
    mc_stage("c.abort-after-every-operation");
    for (int k = 0; k < 210; k += 1) {
        if (!mc_next()) continue;
        hist_t h; seed_hist(k, &h); char fd[760]; snprintf(fd, sizeof fd, "c18c:%s", tbl_desc(&h)); mc_desc("%s", fd); mc_case_key(mc_mix(0x18c, (uint64_t)k)); mc_nontrivial(); mc_feature("abort");
        abort_points(&h, fd);
    }
    mc_stage("c2.abort.columns-with-repetition-levels");
    abort_repeated();
    unlink(g_path);
}
int main(int argc, char** argv) { return mc_main(argc, argv, "c18", enumerate); }
