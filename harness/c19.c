/* c19.c — C19: allocation failure gives a clean error or the correct result,
 * nothing else.  For each scenario the number K of allocation requests the
 * library makes in the fault-free run is measured; then the k-th request is
 * made to fail for every k in 1..K (all pairs k1<k2 for the smallest scenarios
 * in the thorough tier).  Only the library's own allocations (and those zlib /
 * zstd make on its behalf) are counted: see mc/fault.c. */
#define _GNU_SOURCE
#include "tbl.h"
#include "reftbl.h"
#include "mc/fault.h"
#include <unistd.h>

static ref_arena RA;
static char g_path[300];
typedef struct { bool err_seen; uint64_t hash; char first_err[96]; } obs_t;
#define ERR(o, what) do { if (!(o)->err_seen) { (o)->err_seen = true; snprintf((o)->first_err, sizeof (o)->first_err, "%s", what); } } while (0)

static int g_bigread;      /* scenario variant: one read_batch call per chunk (spans every page of the chunk) instead of calls of 2 rows */
static int g_errnull;      /* scenario variant: every optional carquet_error_t* argument is NULL */
#define EP(e) (g_errnull ? NULL : (e))
static uint8_t* g_file; static size_t g_file_n;      /* input file of the read scenarios */
static hist_t g_hist;
/* rows of the fault-free run, per row group and column: what a call that reports success must deliver at the cursor */
static uint64_t g_rowdig[10][4][128]; static int g_rowcnt[10][4]; static int g_record, g_rows_valid;

static void table_hist(int codec, hist_t* h) {
    memset(h, 0, sizeof *h); h->ncols = 3; h->cols[0] = TBL_KINDS[1]; h->cols[1] = TBL_KINDS[5]; h->cols[2] = TBL_KINDS[10]; h->cols[0].name = "a"; h->cols[1].name = "b"; h->cols[2].name = "c";
    if (codec >= 100) { codec -= 100; h->N = 18; h->nrg = 9; for (int g = 0; g < 9; g++) h->rg_rows[g] = 2; h->mask[0] = 0x2492; h->mask[1] = 0x1249; h->codec = codec; h->page_sel = 1; return; }     /* nine row groups: the writer's row-group table grows 4 -> 8 -> 16 */
    h->N = 9; h->nrg = 3; h->rg_rows[0] = 3; h->rg_rows[1] = 4; h->rg_rows[2] = 2; h->mask[0] = 0x92; h->mask[1] = 0x25; h->comp[0] = 0x0a; h->comp[1] = 0x11; h->comp[2] = 0x44; h->codec = codec; h->page_sel = 1; h->pattern = 0;
}

/* S1: schema builder */
static void scn_schema(obs_t* o) {
    carquet_error_t err = CARQUET_ERROR_INIT; carquet_schema_t* s = carquet_schema_create(&err);
    if (!s) { ERR(o, "schema_create"); return; }
    char nm[24]; uint64_t h = 1;
    for (int i = 0; i < 70; i++) { snprintf(nm, sizeof nm, "column_%d", i); carquet_status_t st = carquet_schema_add_column(s, nm, (carquet_physical_type_t)(i % 3 == 0 ? 1 : i % 3 == 1 ? 6 : 5), NULL, (carquet_field_repetition_t)(i & 1), 0); if (st != CARQUET_OK) { ERR(o, "schema_add_column"); break; } }
    if (!o->err_seen) { h = mc_mix(h, (uint64_t)carquet_schema_num_columns(s)); for (int i = 0; i < carquet_schema_num_elements(s); i++) { const carquet_schema_node_t* nd = carquet_schema_get_element(s, i); const char* n = carquet_schema_node_name(nd); if (!n) { ERR(o, "schema_node_name NULL"); break; } h = mc_mix(h, mc_hash(n, strlen(n), 5)); h = mc_mix(h, (uint64_t)carquet_schema_node_physical_type(nd)); } }
    o->hash = h; carquet_schema_free(s);
}
/* S2: writer */
static void scn_write(int codec, obs_t* o) {
    hist_t h; table_hist(codec, &h); char* mem = NULL; size_t mlen = 0; FILE* f = open_memstream(&mem, &mlen); tbl_result r; tbl_exec(&h, f, NULL, -1, &r); fclose(f);
    if (r.status != CARQUET_OK) { ERR(o, r.where);
        /* the caller carried on after the reported failure. When every batch was accepted (the failure was reported by new_row_group, i.e. while a finished row group was
         * being assembled) and close then reports success, close has written what it acknowledges: that must be a Parquet file (magic, footer, page chain at the recorded
         * offsets, sizes and counts) for the reference reader. A caller that ignores a refused batch has an incomplete table by its own doing: not judged. */
        if (r.closed && r.close_status == CARQUET_OK && r.refused_batches == 0) { ref_file rf; bool valid = ref_pq_read(&RA, (const uint8_t*)mem, mlen, &rf, REF_RD_CHECK_TOTALS) == 0; char why[120]; snprintf(why, sizeof why, "%s", valid ? "" : rf.err); ref_arena_free(&RA);
            if (!valid) { char key[128]; snprintf(key, sizeof key, "close-ok-after-a-reported-failure.not-a-parquet-file.at-%s", mcf_fail_site()); mc_fail(key, "%s failed (status %d), the caller carried on and close returned OK for %zu bytes the reference reader rejects: %s", r.where, r.status, mlen, why); } } }
    else o->hash = mc_hash(mem, mlen, 7) ^ (uint64_t)mlen;
    free(mem);
}
/* S2b: wide table (100 REQUIRED INT32 columns, 3 rows): the serialised footer passes 4 KiB and 8 KiB, so the Thrift output buffer grows while the
 * footer is being written; the first column name is padded by `pad` characters so that each kind of append crosses the growth point */
/* one page whose parts outgrow the initial capacity of the writer's buffers: 40 000 rows of two OPTIONAL columns with an irregular null pattern (the RLE/bit-packed
 * definition levels of the page exceed 4 KiB, the values 100 KiB) written in one or in 40 batches.  Every growth of a level, value, page or compression buffer is an
 * allocation request of its own; a request that fails must be reported, or absorbed with a byte-identical file. */
#define BIGN 40000
static void scn_write_bigpage(int codec, int nbatches, obs_t* o) {
    static int32_t v32[BIGN]; static int64_t v64[BIGN]; static int16_t d0[BIGN], d1[BIGN]; static int inited; static int64_t nn0, nn1;
    if (!inited) { uint32_t x = 0x9e3779b9u; nn0 = nn1 = 0; for (int r = 0; r < BIGN; r++) { x = x * 1664525u + 1013904223u; d0[r] = (int16_t)((x >> 13) & 1); d1[r] = (int16_t)(((x >> 17) & 3) != 0); if (d0[r]) v32[nn0++] = (int32_t)(x ^ (uint32_t)r); if (d1[r]) v64[nn1++] = (int64_t)x * 0x100000001LL - r; } inited = 1; }
    carquet_error_t err = CARQUET_ERROR_INIT; carquet_schema_t* s = carquet_schema_create(&err); if (!s) { ERR(o, "schema_create"); return; }
    if (carquet_schema_add_column(s, "a", CARQUET_PHYSICAL_INT32, NULL, CARQUET_REPETITION_OPTIONAL, 0) != CARQUET_OK || carquet_schema_add_column(s, "b", CARQUET_PHYSICAL_INT64, NULL, CARQUET_REPETITION_OPTIONAL, 0) != CARQUET_OK) { ERR(o, "schema_add_column"); carquet_schema_free(s); return; }
    char* mem = NULL; size_t mlen = 0; FILE* f = open_memstream(&mem, &mlen); carquet_writer_options_t wo; carquet_writer_options_init(&wo); wo.compression = (carquet_compression_t)codec;
    carquet_writer_t* w = carquet_writer_create_file(f, s, &wo, &err);
    if (!w) { ERR(o, "writer_create_file"); fclose(f); free(mem); carquet_schema_free(s); return; }
    carquet_status_t st = CARQUET_OK; int per = BIGN / nbatches; int64_t o0 = 0, o1 = 0;
    for (int b = 0; b < nbatches && st == CARQUET_OK; b++) { st = carquet_writer_write_batch(w, 0, v32 + o0, per, d0 + b * per, NULL); for (int r = b * per; r < (b + 1) * per; r++) o0 += d0[r]; }
    for (int b = 0; b < nbatches && st == CARQUET_OK; b++) { st = carquet_writer_write_batch(w, 1, v64 + o1, per, d1 + b * per, NULL); for (int r = b * per; r < (b + 1) * per; r++) o1 += d1[r]; }
    if (st != CARQUET_OK) { ERR(o, "write_batch"); carquet_writer_abort(w); } else { st = carquet_writer_close(w); if (st != CARQUET_OK) ERR(o, "close"); }
    fclose(f); if (!o->err_seen) o->hash = mc_hash(mem, mlen, 7) ^ (uint64_t)mlen; free(mem); carquet_schema_free(s);
}

static void scn_write_wide(int pad, obs_t* o) {
    carquet_error_t err = CARQUET_ERROR_INIT; carquet_schema_t* s = carquet_schema_create(&err); if (!s) { ERR(o, "schema_create"); return; }
    char nm[64];
    for (int i = 0; i < 100; i++) { int k = snprintf(nm, sizeof nm, "c%03d", i); if (i == 0) { memset(nm + k, 'p', (size_t)pad); nm[k + pad] = 0; } if (carquet_schema_add_column(s, nm, CARQUET_PHYSICAL_INT32, NULL, CARQUET_REPETITION_REQUIRED, 0) != CARQUET_OK) { ERR(o, "schema_add_column"); carquet_schema_free(s); return; } }
    char* mem = NULL; size_t mlen = 0; FILE* f = open_memstream(&mem, &mlen); carquet_writer_options_t wo; carquet_writer_options_init(&wo); wo.compression = CARQUET_COMPRESSION_UNCOMPRESSED;
    carquet_writer_t* w = carquet_writer_create_file(f, s, &wo, &err);
    if (!w) { ERR(o, "writer_create_file"); fclose(f); free(mem); carquet_schema_free(s); return; }
    int32_t v[3]; carquet_status_t st = CARQUET_OK;
    for (int i = 0; i < 100 && st == CARQUET_OK; i++) { v[0] = i; v[1] = i * 7 + 1; v[2] = -i; st = carquet_writer_write_batch(w, i, v, 3, NULL, NULL); }
    if (st != CARQUET_OK) { ERR(o, "write_batch"); carquet_writer_abort(w); } else { st = carquet_writer_close(w); if (st != CARQUET_OK) ERR(o, "close"); }
    fclose(f); if (!o->err_seen) o->hash = mc_hash(mem, mlen, 7) ^ (uint64_t)mlen; free(mem); carquet_schema_free(s);
}
/* S3/S5: open + read every column */
static void scn_read(int mode, int ncols, const int* ptypes, const int* tlens, obs_t* o) {
    carquet_error_t err = CARQUET_ERROR_INIT; carquet_reader_options_t ro; carquet_reader_options_init(&ro); ro.use_mmap = mode == 2;
    carquet_reader_t* rd = mode == 0 ? carquet_reader_open_buffer(g_file, g_file_n, &ro, EP(&err)) : carquet_reader_open(g_path, &ro, EP(&err));
    if (!rd) { ERR(o, "reader_open"); if (!g_errnull && err.code == CARQUET_OK) mc_fail("error-contract.null-handle-with-ok-code", "reader open returned NULL, error code OK"); return; }
    uint64_t h = 3, hv = 17; h = mc_mix(h, (uint64_t)carquet_reader_num_rows(rd)); int nrg = carquet_reader_num_row_groups(rd);
    for (int g = 0; g < nrg; g++) for (int c = 0; c < ncols; c++) {
        carquet_column_reader_t* cr = carquet_reader_get_column(rd, g, c, EP(&err)); if (!cr) { ERR(o, "get_column"); continue; }
        int w = ref_type_width(ptypes[c], tlens[c]); size_t vs = ptypes[c] == PT_BYTE_ARRAY ? sizeof(carquet_byte_array_t) : (size_t)w;
        int64_t pos = 0; if (g_record && g < 10 && c < 4) g_rowcnt[g][c] = 0;
        for (int guard = 0; guard < 100; guard++) {
            int64_t K = g_bigread ? 64 : 2; uint8_t* vb = mc_exact(NULL, vs * (size_t)K); int16_t* db = mc_exact(NULL, 2 * (size_t)K); memset(vb, 0, vs * (size_t)K); memset(db, 0, 2 * (size_t)K);
            int64_t n = carquet_column_read_batch(cr, vb, K, db, NULL);
            mc_log("  rg%d col%d read_batch(2) = %lld  def=[%d,%d]", g, c, (long long)n, db[0], db[1]);
            if (n < 0) { ERR(o, "read_batch"); free(vb); free(db); break; }
            if (n == 0) { free(vb); free(db); break; }
            int64_t nn = 0; for (int64_t i = 0; i < n; i++) { h = mc_mix(h, (uint64_t)db[i]); nn++; }
            if (g < 10 && c < 4) {     /* row by row against the fault-free run: a short count is tolerated, a different row is not */
                int64_t k = 0; bool isopt = ptypes[c] == PT_BYTE_ARRAY ? true : g_hist.cols[c].opt != 0;
                for (int64_t i = 0; i < n; i++) { uint64_t d = mc_mix(29, (uint64_t)db[i]);
                    if (db[i] > 0 || !isopt) { if (ptypes[c] == PT_BYTE_ARRAY) { carquet_byte_array_t* ba = (carquet_byte_array_t*)vb; d = mc_mix(d, (uint64_t)ba[k].length); if (ba[k].length > 0 && ba[k].length < 4096 && ba[k].data) d = mc_mix(d, mc_hash(ba[k].data, (size_t)ba[k].length, 9)); } else d = mc_mix(d, mc_hash(vb + k * w, (size_t)w, 11)); k++; }
                    int64_t at = pos + i;
                    if (!g_record && !g_rows_valid) continue;
                    if (g_record) { g_rows_valid = 1; if (at < 128) { g_rowdig[g][c][at] = d; g_rowcnt[g][c] = (int)at + 1; } }
                    else if (at >= g_rowcnt[g][c] && g_rowcnt[g][c] < 128) { mc_fail("success-with-rows-beyond-the-chunk", "rg %d column %d: a call that reported success delivered row %lld, the chunk has %d", g, c, (long long)at, g_rowcnt[g][c]); break; }
                    else if (at < 128 && g_rowdig[g][c][at] != d) { mc_fail("success-with-different-rows", "rg %d column %d: a call that reported success delivered at row %lld something else than the fault-free run (call returned %lld rows from row %lld)", g, c, (long long)at, (long long)n, (long long)pos); break; } }
                pos += n; }
            /* values are dense: only as many as there are non-null rows; the file's own levels tell how many */
            (void)nn; if (ptypes[c] == PT_BYTE_ARRAY) { carquet_byte_array_t* ba = (carquet_byte_array_t*)vb; int64_t k = 0; for (int64_t i = 0; i < n; i++) if (db[i] > 0 || !1) { if (ba[k].length >= 0 && ba[k].length < 4096 && (ba[k].length == 0 || ba[k].data)) { hv = mc_mix(hv, (uint64_t)ba[k].length); if (ba[k].length) hv = mc_mix(hv, mc_hash(ba[k].data, (size_t)ba[k].length, 9)); } k++; } }
            else { int64_t k = 0; for (int64_t i = 0; i < n; i++) if (db[i] > 0 || g_hist.cols[c].opt == 0) { hv = mc_mix(hv, mc_hash(vb + k * w, (size_t)w, 11)); k++; } }
            free(vb); free(db);
        }
        carquet_column_reader_free(cr); h = mc_mix(h, hv);
    }
    o->hash = h; carquet_reader_close(rd);
}
/* S4: batch reader */
static void scn_batch(int mode, obs_t* o) {
    carquet_error_t err = CARQUET_ERROR_INIT; carquet_reader_options_t ro; carquet_reader_options_init(&ro); ro.use_mmap = mode == 2;
    carquet_reader_t* rd = mode == 0 ? carquet_reader_open_buffer(g_file, g_file_n, &ro, EP(&err)) : carquet_reader_open(g_path, &ro, EP(&err));
    if (!rd) { ERR(o, "reader_open"); return; }
    carquet_batch_reader_config_t cfg; carquet_batch_reader_config_init(&cfg); cfg.batch_size = 2; cfg.num_threads = 1;
    carquet_batch_reader_t* br = carquet_batch_reader_create(rd, &cfg, EP(&err)); uint64_t h = 5;
    if (!br) ERR(o, "batch_reader_create");
    else {
        for (int guard = 0; guard < 100; guard++) {
            carquet_row_batch_t* b = NULL; carquet_status_t st = carquet_batch_reader_next(br, &b);
            if (st == CARQUET_ERROR_END_OF_DATA || (st == CARQUET_OK && !b)) break;
            if (st != CARQUET_OK) { ERR(o, "batch_reader_next"); carquet_row_batch_t* b2 = NULL; carquet_status_t s2 = carquet_batch_reader_next(br, &b2); if (s2 == CARQUET_OK && b2) carquet_row_batch_free(b2); break; }      /* a caller may try once more after an error: any status, no fault */
            int64_t rows = carquet_row_batch_num_rows(b); h = mc_mix(h, (uint64_t)rows);
            for (int c = 0; c < carquet_row_batch_num_columns(b); c++) { const void* data; const uint8_t* nulls; int64_t cnt; if (carquet_row_batch_column(b, c, &data, &nulls, &cnt) != CARQUET_OK) { ERR(o, "row_batch_column"); continue; }
                h = mc_mix(h, (uint64_t)cnt); if (!data && cnt) { ERR(o, "batch column without data"); continue; } int64_t nn = 0; /* a NULL bitmap is documented as "no nulls": an answer, not an error */ for (int64_t r = 0; r < cnt; r++) { int bit = nulls ? (nulls[r >> 3] >> (r & 7)) & 1 : 0; h = mc_mix(h, (uint64_t)bit); if (!bit) nn++; }
                int w = tbl_width(&g_hist.cols[c]); if (g_hist.cols[c].ptype == PT_BYTE_ARRAY) { const carquet_byte_array_t* ba = data; for (int64_t k = 0; k < nn; k++) { h = mc_mix(h, (uint64_t)ba[k].length); if (ba[k].length > 0 && ba[k].length < 4096) h = mc_mix(h, mc_hash(ba[k].data, (size_t)ba[k].length, 13)); } } else h = mc_mix(h, mc_hash(data, (size_t)nn * (size_t)w, 15)); }
            carquet_row_batch_free(b);
        }
        carquet_batch_reader_free(br);
    }
    o->hash = h; carquet_reader_close(rd);
}

enum { K_SCHEMA, K_WRITE, K_READ, K_BATCH, K_DICTREAD, K_WIDE, K_DICTBATCH, K_PLAINBA, K_BIGPAGE };
typedef struct { int kind, a, b; const char* name; int errnull, bigread; } scn_t;
static int g_dict_pt[2] = { PT_BYTE_ARRAY, PT_INT64 }, g_dict_tl[2] = { 0, 0 };
static void run_scenario(const scn_t* s, obs_t* o) {
    memset(o, 0, sizeof *o); int pt[3], tl[3]; for (int c = 0; c < 3; c++) { pt[c] = g_hist.cols[c].ptype; tl[c] = g_hist.cols[c].tlen; }
    g_errnull = s->errnull; g_bigread = s->bigread; mcf_on();
    switch (s->kind) { case K_SCHEMA: scn_schema(o); break; case K_WRITE: scn_write(s->a, o); break; case K_READ: scn_read(s->a, 3, pt, tl, o); break; case K_BATCH: scn_batch(s->a, o); break; case K_WIDE: scn_write_wide(s->a, o); break; case K_BIGPAGE: scn_write_bigpage(s->a, s->b, o); break; case K_DICTBATCH: scn_batch(s->a, o); break; default: scn_read(s->a, 2, g_dict_pt, g_dict_tl, o); break; }
    mcf_off();
}
static void prepare_input(const scn_t* s) {
    g_rows_valid = 0;
    free(g_file); g_file = NULL;
    if (s->kind == K_READ || s->kind == K_BATCH) { table_hist(s->b, &g_hist); carquet_status_t st; const char* where; if (tbl_write(&g_hist, &g_file, &g_file_n, &st, &where)) mc_harness_error("cannot write input file"); }
    else if (s->kind == K_DICTREAD || s->kind == K_DICTBATCH || s->kind == K_PLAINBA) { rfile_t f; memset(&f, 0, sizeof f); f.ncols = 2; f.N = 7; f.nrg = 2; f.codec = s->b; f.crc = true; f.dict_offset_present = true; f.col[0].ptype = PT_BYTE_ARRAY; f.col[0].opt = 1; f.mask[0] = 0x24; f.enc[0] = ENC_RLE_DICT; f.npages[0] = 2; f.page_levels[0][0] = 3; f.page_levels[0][1] = 4; f.col[1].ptype = PT_INT64; f.enc[1] = ENC_PLAIN_DICT;
        if (s->kind == K_PLAINBA) { f.N = 8; f.nrg = 1; f.enc[0] = ENC_PLAIN; f.enc[1] = ENC_PLAIN; f.pattern = 3; f.npages[0] = 3; f.page_levels[0][0] = 3; f.page_levels[0][1] = 3; f.page_levels[0][2] = 2; }      /* a PLAIN byte-array chunk of three pages: views of the first pages must survive the loading of the next ones */
        memset(&g_hist, 0, sizeof g_hist); g_hist.cols[0].ptype = PT_BYTE_ARRAY; g_hist.cols[0].opt = 1; g_hist.cols[1].ptype = PT_INT64;
        ref_buf img; ref_buf_init(&img); static ref_coldata cols[8]; int np; if (rf_build(&RA, &f, &img, NULL, 0, &np, cols)) mc_harness_error("reference writer failed"); g_file = mc_exact(img.p, img.n); g_file_n = img.n; ref_buf_free(&img); ref_arena_free(&RA); }
    if (g_file) { FILE* fp = fopen(g_path, "wb"); if (!fp || fwrite(g_file, 1, g_file_n, fp) != g_file_n) mc_harness_error("scratch write failed"); fclose(fp); }
}

static void judge(const scn_t* s, long k1, long k2, const obs_t* base, long base_live) {
    obs_t o; mcf_restart_count(); mcf_fail_at(k1, k2); mcf_trace(mc_replaying()); run_scenario(s, &o); long hits = mcf_hits(); mcf_fail_at(0, 0);
    char key[160];
    if (hits == 0) { mc_count("faults.not-reached", 1); return; }
    mc_count("faults.injected", 1);
    long live = mcf_live();
    if (live > base_live) { char what[160]; mcf_live_since(0, what, sizeof what); snprintf(key, sizeof key, "leak-after-allocation-failure.at-%s", mcf_fail_site()); mc_fail(key, "%s: request #%ld%s failed: %ld blocks outstanding after all handles were released (%ld in the fault-free run) [%s]; first error: %s", s->name, k1, k2 ? "+second" : "", live, base_live, what, o.err_seen ? o.first_err : "none"); }
    if (!o.err_seen && o.hash != base->hash) { snprintf(key, sizeof key, "success-with-different-result.at-%s", mcf_fail_site()); mc_fail(key, "%s: request #%ld failed, every call reported success, but the result differs from the fault-free run", s->name, k1); }
    mc_outcome(o.err_seen ? "error-reported" : "absorbed-with-correct-result");
}

static void enumerate(void) {
    mc_rule("C19: scenarios = schema build (70 columns), write of a 3-row-group, 3-column nullable table per codec (5) and of a 9-row-group table, write of one page of 40 000 rows of two OPTIONAL columns with irregular nulls per codec (5), in one and in 40 batches (levels, values, page and compression buffers all outgrow their initial capacity), write of a 100-column table whose footer grows the Thrift output buffer twice (16 name paddings so that every kind of append crosses the growth point), open + full column read per I/O mode (3) x codec (5), batch read per I/O mode x 2 codecs, dictionary-encoded file read through the column reader and through the batch reader per I/O mode x 2 codecs. "
            "K = allocation requests the library (and zlib/zstd on its behalf) makes in the fault-free run; every k in 1..K fails once (quick and thorough); all pairs k1<k2 for the scenarios with K <= 100 (quick) / all scenarios (thorough). Oracle: no crash / ASan report (child process), "
            "all handles are then closed/freed, the number of live library allocations afterwards does not exceed the fault-free steady state, and either some call reported an error or the result (file bytes / values read) is identical to the fault-free run. "
            "One mc case per (scenario, k); evaluations = fault points. Non-trivial = every fault point that was reached; distinct by (scenario, k1, k2).");
    const char* sd = getenv("VERIF_SCRATCH"); snprintf(g_path, sizeof g_path, "%s/c19_%d.parquet", sd ? sd : "/dev/shm", (int)getpid());
    static scn_t S[200]; int ns = 0; static const int CD[] = { 0, 1, 2, 5, 6 }; static const char* CN[] = { "uncompressed", "snappy", "gzip", "lz4", "zstd" }; static const char* MN[] = { "buffer", "fread", "mmap" }; static char names[200][48];
    S[ns] = (scn_t){ K_SCHEMA, 0, 0, "schema-build" }; ns++;
    for (int c = 0; c < 5; c++) { snprintf(names[ns], 48, "write.%s", CN[c]); S[ns] = (scn_t){ K_WRITE, CD[c], 0, names[ns] }; ns++; }
    snprintf(names[ns], 48, "write.nine-row-groups.uncompressed"); S[ns] = (scn_t){ K_WRITE, 100, 0, names[ns] }; ns++;
    for (int pad = 0; pad < 16; pad++) { snprintf(names[ns], 48, "write.100-columns.name-padding-%d", pad); S[ns] = (scn_t){ K_WIDE, pad, 0, names[ns] }; ns++; }
    for (int c = 0; c < 5; c++) for (int nb = 1; nb <= 40; nb += 39) { snprintf(names[ns], 48, "write.large-page.%s.%d-batch", CN[c], nb); S[ns] = (scn_t){ K_BIGPAGE, CD[c], nb, names[ns] }; ns++; }
    for (int m = 0; m < 3; m++) for (int c = 0; c < 5; c++) { snprintf(names[ns], 48, "read.%s.%s", MN[m], CN[c]); S[ns] = (scn_t){ K_READ, m, CD[c], names[ns] }; ns++; }
    for (int m = 0; m < 3; m++) for (int c = 0; c < 5; c += 4) { snprintf(names[ns], 48, "batch.%s.%s", MN[m], CN[c]); S[ns] = (scn_t){ K_BATCH, m, CD[c], names[ns] }; ns++; }
    for (int m = 0; m < 3; m++) for (int c = 0; c < 2; c++) { snprintf(names[ns], 48, "dict-read.%s.%s", MN[m], c ? "snappy" : "uncompressed"); S[ns] = (scn_t){ K_DICTREAD, m, c ? CODEC_SNAPPY : CODEC_NONE, names[ns] }; ns++; }
    for (int m = 0; m < 3; m++) for (int c = 0; c < 2; c++) { snprintf(names[ns], 48, "dict-batch.%s.%s", MN[m], c ? "snappy" : "uncompressed"); S[ns] = (scn_t){ K_DICTBATCH, m, c ? CODEC_SNAPPY : CODEC_NONE, names[ns] }; ns++; }
    { int base = ns; for (int i = 0; i < base; i++) if (S[i].kind == K_READ || S[i].kind == K_BATCH || S[i].kind == K_DICTREAD || S[i].kind == K_DICTBATCH) { if (S[i].kind == K_READ && S[i].b != 0 && S[i].b != 1) continue;      /* the error argument omitted: uncompressed and snappy */
          snprintf(names[ns], 48, "%s.no-error-arg", S[i].name); S[ns] = S[i]; S[ns].name = names[ns]; S[ns].errnull = 1; ns++; } }
    for (int m = 0; m < 3; m++) for (int c = 0; c < 2; c++) { snprintf(names[ns], 48, "plain-strings-read.%s.%s", MN[m], c ? "snappy" : "uncompressed"); S[ns] = (scn_t){ K_PLAINBA, m, c ? CODEC_SNAPPY : CODEC_NONE, names[ns] }; ns++; }
    { int base = ns; for (int i = 0; i < base; i++) if ((S[i].kind == K_READ || S[i].kind == K_DICTREAD || S[i].kind == K_PLAINBA) && !S[i].errnull && (S[i].b == 0 || S[i].b == 1)) {      /* one call per chunk: byte-array views of an earlier page must survive the loading of the later pages of the same call */
          snprintf(names[ns], 48, "%s.one-call", S[i].name); S[ns] = S[i]; S[ns].name = names[ns]; S[ns].bigread = 1; ns++; } }
    /* warm caches that live for the whole process (zstd contexts, lazily built tables) */
    { (void)carquet_init(); scn_t w = { K_READ, 0, 6, "warm" }; prepare_input(&w); obs_t o; mcf_reset(); run_scenario(&w, &o); scn_t w2 = { K_WRITE, 6, 0, "warm" }; run_scenario(&w2, &o); scn_t w3 = { K_WRITE, 2, 0, "warm" }; run_scenario(&w3, &o); }
    mc_stage("single-fault.every-request");
    for (int si = 0; si < ns; si++) {
        prepare_input(&S[si]);
        obs_t base, again; mcf_reset(); g_record = 1; run_scenario(&S[si], &base); g_record = 0; long K = mcf_requests(); run_scenario(&S[si], &again); long base_live = mcf_live();
        if (base.err_seen || again.hash != base.hash) mc_harness_error("scenario %s is not deterministic or fails without faults (%s)", S[si].name, base.first_err);
        mc_count("scenarios", 1); mc_count("allocation-requests.fault-free", (uint64_t)K);
        long Kone = K;         /* K = requests of ONE fault-free run (read before the determinism re-run) */
        for (long k = 1; k <= Kone; k++) {
            if (!mc_next()) continue;
            mc_desc("c19:%s;fail=#%ld/%ld", S[si].name, k, Kone); mc_feature("%s", "allocation-failure"); mc_case_key(mc_mix(0x19, ((uint64_t)si << 32) | (uint64_t)k)); mc_nontrivial();
            judge(&S[si], k, 0, &base, base_live);
        }
    }
    mc_stage("double-fault.all-pairs");
    for (int si = 0; si < ns; si++) {
        prepare_input(&S[si]); obs_t base, again; mcf_reset(); g_record = 1; run_scenario(&S[si], &base); g_record = 0; long K = mcf_requests(); run_scenario(&S[si], &again); long base_live = mcf_live(); (void)again;
        if (K > 400) { mc_count("double-fault.scenarios-skipped-as-too-large", 1); continue; }
        for (long k1 = 1; k1 <= K; k1++) for (long k2 = k1 + 1; k2 <= K; k2++) {
            if (!mc_next()) continue;
            mc_desc("c19:%s;fail=#%ld+#%ld/%ld", S[si].name, k1, k2, K); mc_feature("%s", "allocation-failure"); mc_case_key(mc_mix(0x192, ((uint64_t)si << 40) | ((uint64_t)k1 << 20) | (uint64_t)k2)); mc_nontrivial();
            judge(&S[si], k1, k2, &base, base_live);
        }
    }
    unlink(g_path);
}
int main(int argc, char** argv) { return mc_main(argc, argv, "c19", enumerate); }
