/* dmg.c — C14 part (b): with checksum verification enabled, every modification
 * confined to the stored bytes of a page body (every single bit, every byte
 * XOR, every burst up to 32 bits) makes reading that page report an error
 * instead of returning data; undamaged files never report a checksum error;
 * with verification disabled the damaged files are handled memory-safely. */
#define _GNU_SOURCE
#include "tbl.h"
#include "reftbl.h"
#include <unistd.h>

static ref_arena RA;
static char g_path[300];

typedef struct { int ncols; int opt[4]; int ptype[4]; int tlen[4]; int nrg; int64_t rg_rows[8]; } shape_t;

static carquet_reader_t* open_mode(int mode, const uint8_t* img, size_t n, int verify, carquet_error_t* err) {
    carquet_reader_options_t o; carquet_reader_options_init(&o); o.verify_checksums = verify != 0;
    /* modes 3 and 4: options omitted (NULL): the documented defaults apply, verify_checksums = true */
    if (mode == 3 && verify) return carquet_reader_open_buffer(img, n, NULL, err);
    if (mode == 4 && verify) { FILE* f = fopen(g_path, "wb"); if (!f || fwrite(img, 1, n, f) != n) mc_harness_error("cannot write %s", g_path); fclose(f); return carquet_reader_open(g_path, NULL, err); }
    if (mode >= 3) mode = mode == 3 ? 0 : 1;
    if (mode == 0) return carquet_reader_open_buffer(img, n, &o, err);
    FILE* f = fopen(g_path, "wb"); if (!f || fwrite(img, 1, n, f) != n) mc_harness_error("cannot write %s", g_path); fclose(f);
    o.use_mmap = mode == 2; return carquet_reader_open(g_path, &o, err);
}

/* drains column `leaf` of row group `rg` with read_batch(3) calls; returns rows delivered, *err_end = loop ended with a negative return */
static int64_t drain_column(carquet_reader_t* rd, int rg, int leaf, int ptype, int tlen, int maxdef, bool* err_end, bool* open_failed) {
    carquet_error_t err = CARQUET_ERROR_INIT; *err_end = false; *open_failed = false;
    carquet_column_reader_t* cr = carquet_reader_get_column(rd, rg, leaf, &err); if (!cr) { *open_failed = true; return 0; }
    int w = ref_type_width(ptype, tlen); size_t vs = ptype == PT_BYTE_ARRAY ? sizeof(carquet_byte_array_t) : (size_t)w; int64_t rows = 0;
    for (int guard = 0; guard < 10000; guard++) {
        uint8_t* vb = mc_exact(NULL, vs * 3); int16_t* db = mc_exact(NULL, 6);
        int64_t n = carquet_column_read_batch(cr, vb, 3, db, NULL);
        /* values reported as delivered are the caller's to read: every non-null byte-array value is read in full */
        if (n > 0 && n <= 3 && ptype == PT_BYTE_ARRAY) { carquet_byte_array_t* ba = (carquet_byte_array_t*)vb; volatile uint8_t sink = 0; int64_t nn = 0;
            for (int64_t i = 0; i < n; i++) if (db[i] >= maxdef) nn++;
            for (int64_t i = 0; i < nn; i++) { if (ba[i].length < 0) { mc_fail("read_batch.negative-byte-array-length", "rg %d column %d", rg, leaf); break; } for (int32_t q = 0; q < ba[i].length; q++) sink ^= ba[i].data[q]; }
            (void)sink; }
        free(vb); free(db);
        if (n < 0) { *err_end = true; break; }
        if (n == 0) break;
        rows += n;
    }
    carquet_column_reader_free(cr); return rows;
}
static int64_t drain_batches(carquet_reader_t* rd, bool* err_end, int64_t* rows_before_error) {
    carquet_batch_reader_config_t cfg; carquet_batch_reader_config_init(&cfg); cfg.batch_size = 2; cfg.num_threads = 1; carquet_error_t err = CARQUET_ERROR_INIT; *err_end = false;
    carquet_batch_reader_t* br = carquet_batch_reader_create(rd, &cfg, &err); if (!br) { *err_end = true; return 0; }
    int64_t rows = 0;
    for (int guard = 0; guard < 10000; guard++) { carquet_row_batch_t* b = NULL; carquet_status_t st = carquet_batch_reader_next(br, &b); if (st == CARQUET_ERROR_END_OF_DATA || (st == CARQUET_OK && !b)) break; if (st != CARQUET_OK) { *err_end = true; break; } rows += carquet_row_batch_num_rows(b); carquet_row_batch_free(b); }
    carquet_batch_reader_free(br); *rows_before_error = rows; return rows;
}

static uint64_t g_applied;
static void judge(const uint8_t* img, size_t n, const ref_file* rf, const ref_pageinfo* pg, const shape_t* sh, int mode, const char* what) {
    /* verification on: the damaged page must not be delivered and the drain must end with an error */
    carquet_error_t err = CARQUET_ERROR_INIT; char key[160]; g_applied++;
    carquet_reader_t* rd = open_mode(mode, img, n, 1, &err);
    if (!rd) { mc_fail("damaged.open-failed", "%s: page damage must not affect open (code %d %s)", what, err.code, err.message); return; }
    bool ee, of; int64_t rows = drain_column(rd, pg->rg, pg->leaf, sh->ptype[pg->leaf], sh->tlen[pg->leaf], sh->opt[pg->leaf] ? 1 : 0, &ee, &of);
    const char* pk = pg->page_type == 2 ? "dictionary-page" : "data-page";
    int64_t limit = pg->page_type == 2 ? 0 : pg->first_level;
    if (of) { /* refusing the whole column is also "an error instead of data" */ }
    else if (rows > limit) { snprintf(key, sizeof key, "column-reader.damaged-page-delivered.%s", pk); mc_fail(key, "%s mode=%d: %lld rows delivered, the damaged page starts at row %lld", what, mode, (long long)rows, (long long)limit); }
    else if (!ee) { snprintf(key, sizeof key, "column-reader.clean-end-of-data.%s", pk); mc_fail(key, "%s mode=%d: drain ended without an error after %lld rows", what, mode, (long long)rows); }
    /* other chunks of the file are not affected */
    for (int g = 0; g < sh->nrg; g++) for (int l = 0; l < sh->ncols; l++) { if (g == pg->rg && l == pg->leaf) continue; bool e2, o2; int64_t r2 = drain_column(rd, g, l, sh->ptype[l], sh->tlen[l], sh->opt[l] ? 1 : 0, &e2, &o2); if (o2 || e2 || r2 != sh->rg_rows[g]) { mc_fail("column-reader.undamaged-chunk-affected", "%s mode=%d: rg %d col %d: rows %lld err %d", what, mode, g, l, (long long)r2, e2); break; } }
    int64_t before = 0; for (int g = 0; g < pg->rg; g++) before += sh->rg_rows[g]; before += limit;
    int64_t rb = 0; drain_batches(rd, &ee, &rb);
    if (rb > before) { snprintf(key, sizeof key, "batch-reader.damaged-page-delivered.%s", pk); mc_fail(key, "%s mode=%d: batches delivered %lld rows, the damaged page starts at table row %lld", what, mode, (long long)rb, (long long)before); }
    else if (!ee) { snprintf(key, sizeof key, "batch-reader.clean-end-of-data.%s", pk); mc_fail(key, "%s mode=%d: batch loop ended without an error after %lld rows", what, mode, (long long)rb); }
    carquet_reader_close(rd);
    /* verification off: any result, but memory-safe (ASan) */
    rd = open_mode(mode, img, n, 0, &err);
    if (rd) { for (int g = 0; g < sh->nrg; g++) for (int l = 0; l < sh->ncols; l++) { bool e2, o2; drain_column(rd, g, l, sh->ptype[l], sh->tlen[l], sh->opt[l] ? 1 : 0, &e2, &o2); } int64_t x; drain_batches(rd, &ee, &x); carquet_reader_close(rd); }
    (void)rf;
}

static void damage_all(const uint8_t* img, size_t n, const shape_t* sh, const char* fdesc, bool deep) {
    ref_file rf; if (ref_pq_read(&RA, img, n, &rf, 0)) {
        /* a file carquet wrote whose page checksums are not the CRC-32 of the page bytes is a C14 violation, not a harness problem */
        if (strstr(fdesc, "dmg:carquet") && !strncmp(rf.err, "crc:", 4)) { mc_fail("writer.page-crc-is-not-crc32", "%s: %s", fdesc, rf.err); ref_arena_free(&RA); return; }
        mc_harness_error("reference reader rejects the seed file: %s (%s)", rf.err, fdesc); }
    /* the writer checksums every page it writes (the default options): a page without a CRC cannot have its damage detected */
    if (strstr(fdesc, "dmg:carquet")) for (int p = 0; p < rf.npages; p++) if (!rf.pages[p].has_crc) { mc_fail(rf.pages[p].nlevels > 0 ? "writer.page-without-crc" : "writer.page-without-crc.empty-page", "%s: page %d (%lld level entries, body %zu bytes) has no crc field", fdesc, p, (long long)rf.pages[p].nlevels, rf.pages[p].body_len); break; }
    /* undamaged: never a checksum error, in every mode */
    for (int mode = 0; mode < 5; mode++) {
        carquet_error_t err = CARQUET_ERROR_INIT; carquet_reader_t* rd = open_mode(mode, img, n, 1, &err); if (!rd) { mc_fail("undamaged.open-failed", "%s mode=%d code %d", fdesc, mode, err.code); continue; }
        for (int g = 0; g < sh->nrg; g++) for (int l = 0; l < sh->ncols; l++) { bool ee, of; int64_t r = drain_column(rd, g, l, sh->ptype[l], sh->tlen[l], sh->opt[l] ? 1 : 0, &ee, &of); if (of || ee || r != sh->rg_rows[g]) mc_fail("undamaged.read-error", "%s mode=%d rg %d col %d: rows %lld of %lld err %d", fdesc, mode, g, l, (long long)r, (long long)sh->rg_rows[g], ee); }
        bool ee; int64_t rb; drain_batches(rd, &ee, &rb); if (ee) mc_fail("undamaged.batch-error", "%s mode=%d", fdesc, mode);
        carquet_reader_close(rd);
    }
    uint8_t* x = mc_exact(img, n); char what[400]; int pages_hit = 0;
    for (int p = 0; p < rf.npages; p++) {
        const ref_pageinfo* pg = &rf.pages[p]; if (!pg->has_crc || pg->body_len == 0) { mc_count("pages.without-crc-or-empty", 1); continue; }
        pages_hit++;
        size_t nbits = pg->body_len * 8;
        for (size_t b = 0; b < nbits; b++) {                 /* every single-bit flip, all three modes */
            for (int mode = 0; mode < 5; mode++) { memcpy(x, img, n); x[pg->body_off + (b >> 3)] ^= (uint8_t)(1u << (b & 7)); snprintf(what, sizeof what, "%s;page#%d(rg%d col%d type%d body %zu bytes);bitflip@%zu", fdesc, p, pg->rg, pg->leaf, pg->page_type, pg->body_len, b); mc_desc("%s", what); judge(x, n, &rf, pg, sh, mode, what); }
        }
        for (size_t pos = 0; pos < pg->body_len; pos++)       /* every byte XOR 1..255 at every position */
            for (int v = 1; v < 256; v++) {
                if (!deep && pg->body_len > 48 && (v & (v - 1)) && v != 0xff && v != 0x55) continue;
                memcpy(x, img, n); x[pg->body_off + pos] ^= (uint8_t)v; snprintf(what, sizeof what, "%s;page#%d(rg%d col%d type%d);xor%02x@%zu", fdesc, p, pg->rg, pg->leaf, pg->page_type, v, pos); mc_desc("%s", what);
                judge(x, n, &rf, pg, sh, 0, what); if (v == 0x80 || v == 0xff) { judge(x, n, &rf, pg, sh, 1, what); judge(x, n, &rf, pg, sh, 2, what); }
            }
        for (int len = 2; len <= 32; len++) {                  /* bursts: first and last bit flipped, 4 interiors */
            if (!deep && len != 2 && len != 3 && len != 8 && len != 9 && len != 16 && len != 17 && len != 31 && len != 32) continue;
            for (size_t off = 0; off + (size_t)len <= nbits; off++) for (int interior = 0; interior < 4; interior++) {
                if (len == 2 && interior) continue;
                memcpy(x, img, n);
                for (int k = 0; k < len; k++) { int flip = (k == 0 || k == len - 1) ? 1 : interior == 0 ? 0 : interior == 1 ? 1 : interior == 2 ? (k & 1) : !(k & 1); if (flip) { size_t bb = off + (size_t)k; x[pg->body_off + (bb >> 3)] ^= (uint8_t)(1u << (bb & 7)); } }
                snprintf(what, sizeof what, "%s;page#%d(rg%d col%d type%d);burst%d/%d@%zu", fdesc, p, pg->rg, pg->leaf, pg->page_type, len, interior, off); mc_desc("%s", what);
                judge(x, n, &rf, pg, sh, 0, what);
            }
        }
    }
    if (pages_hit) mc_count("pages.damaged", (uint64_t)pages_hit);
    free(x);
}

static void enumerate(void) {
    mc_rule("C14(b): seed files = carquet-written tables (5 codecs, 1-3 pages per chunk, REQUIRED and OPTIONAL, 2 row groups) and reference-written files with a CRC'd dictionary page. For every page body: every single-bit flip (3 I/O modes), "
            "every byte XOR 1..255 at every position (buffer mode; 0x80/0xff in all modes; quick tier thins the XOR values for bodies > 48 bytes), every burst of 2..32 bits at every bit offset with 4 interior patterns (quick: 8 burst lengths). "
            "Oracle with verify_checksums: a consumer draining the column (read until 0 or negative) and one draining the batch reader never receives a row of the damaged page and its loop ends with an error, not with a clean end of data; "
            "all other chunks read normally; the undamaged file never reports an error; with verification off every damaged file is read under ASan with any result. evaluations = seed files; counter damages.applied = damaged images judged. "
            "Non-trivial = every seed file; distinct by seed key.");
    const char* sd = getenv("VERIF_SCRATCH"); snprintf(g_path, sizeof g_path, "%s/dmg_%d.parquet", sd ? sd : "/dev/shm", (int)getpid());
    bool deep = mc_thorough();
    mc_stage("carquet-written-seeds");
    static const int CD[] = { 0, 1, 2, 5, 6 };
    for (int cd = 0; cd < 5; cd++) for (int kind = 0; kind < 6; kind++) for (int ps = 0; ps < 2; ps++) {
        if (!mc_next()) continue;
        hist_t h; memset(&h, 0, sizeof h); h.ncols = 2; h.cols[0] = TBL_KINDS[kind == 0 ? 0 : kind == 1 ? 1 : kind == 2 ? 5 : kind == 3 ? 3 : kind == 4 ? 11 : 12]; h.cols[1] = TBL_KINDS[kind % 2 ? 0 : 7]; h.cols[0].name = "a"; h.cols[1].name = "b";
        h.N = 7; h.nrg = 2; h.rg_rows[0] = 4; h.rg_rows[1] = 3; h.mask[0] = h.cols[0].opt ? 0x2a : 0; h.mask[1] = h.cols[1].opt ? 0x11 : 0; h.comp[0] = 0x55; h.comp[1] = 0x04; h.codec = CD[cd]; h.page_sel = ps ? 0 : 2; h.pattern = 0;
        mc_desc("dmg:carquet;%s", tbl_desc(&h)); mc_case_key(mc_mix(0x14b, ((uint64_t)cd << 16) | ((uint64_t)kind << 8) | (uint64_t)ps)); mc_nontrivial();
        uint8_t* img; size_t len; carquet_status_t st; const char* where; if (tbl_write(&h, &img, &len, &st, &where)) { mc_count("seed.writer-refused", 1); continue; }
        shape_t sh; memset(&sh, 0, sizeof sh); sh.ncols = 2; sh.nrg = 2; sh.rg_rows[0] = 4; sh.rg_rows[1] = 3; for (int c = 0; c < 2; c++) { sh.opt[c] = h.cols[c].opt; sh.ptype[c] = h.cols[c].ptype; sh.tlen[c] = h.cols[c].tlen; }
        char fd[700]; snprintf(fd, sizeof fd, "dmg:carquet;%s", tbl_desc(&h)); g_applied = 0; damage_all(img, len, &sh, fd, deep); mc_count("damages.applied", g_applied); free(img); ref_arena_free(&RA);
    }
    mc_stage("carquet-written-seeds.pages-without-values");
    for (int cd = 0; cd < 5; cd++) for (int kind = 0; kind < 4; kind++) for (int v = 0; v < 2; v++) {
        if (!mc_next()) continue;
        static const int NK[] = { 1, 3, 7, 9 };      /* nullable kinds */
        hist_t h; memset(&h, 0, sizeof h); h.ncols = 2; h.cols[0] = TBL_KINDS[NK[kind]]; h.cols[1] = TBL_KINDS[0]; h.cols[0].name = "a"; h.cols[1].name = "b"; if (!h.cols[0].opt) continue;
        h.N = 7; h.nrg = 2; h.rg_rows[0] = 4; h.rg_rows[1] = 3; h.mask[0] = v ? 0x7c : 0x0c; h.comp[0] = 0x02; h.comp[1] = 0x04; h.codec = CD[cd]; h.page_sel = 0; h.pattern = 0;     /* rows 2,3 (v: 2..6) null: the second batch of row group 0 (v: and all of row group 1) is a page of nulls only */
        mc_desc("dmg:carquet;all-null-page;%s", tbl_desc(&h)); mc_case_key(mc_mix(0x14d, ((uint64_t)cd << 16) | ((uint64_t)kind << 8) | (uint64_t)v)); mc_nontrivial();
        uint8_t* img; size_t len; carquet_status_t st; const char* where; if (tbl_write(&h, &img, &len, &st, &where)) { mc_count("seed.writer-refused", 1); continue; }
        shape_t sh; memset(&sh, 0, sizeof sh); sh.ncols = 2; sh.nrg = 2; sh.rg_rows[0] = 4; sh.rg_rows[1] = 3; for (int c = 0; c < 2; c++) { sh.opt[c] = h.cols[c].opt; sh.ptype[c] = h.cols[c].ptype; sh.tlen[c] = h.cols[c].tlen; }
        char fd[700]; snprintf(fd, sizeof fd, "dmg:carquet;all-null-page;%s", tbl_desc(&h)); g_applied = 0; damage_all(img, len, &sh, fd, deep); mc_count("damages.applied", g_applied); free(img); ref_arena_free(&RA);
    }
    /* pages whose CRC-32 is one of the extreme values (0 is a legal checksum, not "no checksum") */
    mc_stage("reference-written-seeds.page-crc-extremes");
    for (int target = 0; target < 3; target++) for (int t = 0; t < 2; t++) {
        if (!mc_next()) continue;
        static const uint32_t TG[] = { 0x00000000u, 0xffffffffu, 0x00000001u };
        /* one REQUIRED PLAIN uncompressed column: the page body is the values; the last 4 body bytes are solved so that the body's CRC-32 is the target */
        int N = 9, w = t ? 8 : 4; static uint8_t body[128]; for (int i = 0; i < N * w; i++) body[i] = (uint8_t)(i * 29 + 7);
        { uint32_t T[256]; for (uint32_t i = 0; i < 256; i++) { uint32_t c = i; for (int k = 0; k < 8; k++) c = (c & 1) ? (c >> 1) ^ 0xEDB88320u : c >> 1; T[i] = c; }
          size_t n = (size_t)(N * w); uint32_t cur = 0xffffffffu; for (size_t i = 0; i + 4 < n + 0 && i < n - 4; i++) cur = (cur >> 8) ^ T[(cur ^ body[i]) & 0xff];
          uint32_t v = ~TG[target]; for (int i = 0; i < 4; i++) { uint32_t tix = 0; for (uint32_t q = 0; q < 256; q++) if ((T[q] >> 24) == (v >> 24)) tix = q; v = ((v ^ T[tix]) << 8) | tix; }
          uint32_t patch = v ^ cur; body[n - 4] = (uint8_t)patch; body[n - 3] = (uint8_t)(patch >> 8); body[n - 2] = (uint8_t)(patch >> 16); body[n - 1] = (uint8_t)(patch >> 24);
          if (ref_crc32_ieee(body, n) != TG[target]) mc_harness_error("could not force a page CRC of %08x", TG[target]); }
        ref_schema_elem sc[2]; memset(sc, 0, sizeof sc); sc[0].name = (ref_bin){ (const uint8_t*)"schema", 6, true }; sc[0].has_num_children = true; sc[0].num_children = 1; sc[1].name = (ref_bin){ (const uint8_t*)"v", 1, true }; sc[1].has_type = true; sc[1].type = t ? PT_INT64 : PT_INT32; sc[1].has_rep = true; sc[1].rep = 0;
        ref_coldata col; memset(&col, 0, sizeof col); col.ptype = t ? PT_INT64 : PT_INT32; col.nlevels = N; col.nvalues = N; col.fixed = body; static int16_t zl[16]; col.def = zl; col.rep = zl; ref_chunk_layout L; memset(&L, 0, sizeof L); L.crc = true; int64_t rows = N;
        ref_write_req rq; memset(&rq, 0, sizeof rq); rq.schema = sc; rq.nschema = 2; rq.nleaves = 1; rq.nrg = 1; rq.rg_rows = &rows; rq.cols = &col; rq.layouts = &L; ref_buf img; ref_buf_init(&img);
        if (ref_pq_write(&RA, &rq, &img, NULL, 0, NULL)) mc_harness_error("reference writer failed");
        char fd[160]; snprintf(fd, sizeof fd, "dmg:ref;page-crc=%08x;col=%s;n=%d", TG[target], t ? "i64" : "i32", N); mc_desc("%s", fd); mc_case_key(mc_mix(0x14e, ((uint64_t)target << 8) | (uint64_t)t)); mc_nontrivial();
        shape_t sh; memset(&sh, 0, sizeof sh); sh.ncols = 1; sh.nrg = 1; sh.rg_rows[0] = N; sh.ptype[0] = col.ptype;
        g_applied = 0; damage_all(img.p, img.n, &sh, fd, deep); mc_count("damages.applied", g_applied); ref_buf_free(&img); ref_arena_free(&RA);
    }
    mc_stage("reference-written-seeds.dictionary-page");
    for (int cd = 0; cd < 5; cd++) for (int t = 0; t < 3; t++) for (int opt = 0; opt < 2; opt++) {
        if (!mc_next()) continue;
        static const int CDR[] = { CODEC_NONE, CODEC_SNAPPY, CODEC_GZIP, CODEC_ZSTD, CODEC_LZ4_RAW }; static const int TT[] = { PT_INT32, PT_BYTE_ARRAY, PT_DOUBLE };
        rfile_t f; memset(&f, 0, sizeof f); f.ncols = 2; f.N = 6; f.nrg = 1; f.codec = CDR[cd]; f.crc = true; f.pattern = 0; f.dict_offset_present = true;
        f.col[0].ptype = TT[t]; f.col[0].opt = opt; f.mask[0] = opt ? 0x12 : 0; f.enc[0] = ENC_RLE_DICT; f.npages[0] = 2; f.page_levels[0][0] = 4; f.page_levels[0][1] = 2;
        f.col[1].ptype = PT_INT64; f.col[1].opt = 0; f.enc[1] = ENC_PLAIN;
        mc_desc("dmg:ref;%s", rf_desc(&f)); mc_case_key(mc_mix(0x14c, ((uint64_t)cd << 16) | ((uint64_t)t << 8) | (uint64_t)opt)); mc_nontrivial();
        ref_buf img; ref_buf_init(&img); static ref_coldata cols[8]; int np = 0; if (rf_build(&RA, &f, &img, NULL, 0, &np, cols)) mc_harness_error("reference writer failed");
        shape_t sh; memset(&sh, 0, sizeof sh); sh.ncols = 2; sh.nrg = 1; sh.rg_rows[0] = 6; for (int c = 0; c < 2; c++) { sh.opt[c] = f.col[c].opt; sh.ptype[c] = f.col[c].ptype; sh.tlen[c] = 0; }
        char fd[700]; snprintf(fd, sizeof fd, "dmg:ref;%s", rf_desc(&f)); g_applied = 0; damage_all(img.p, img.n, &sh, fd, deep); mc_count("damages.applied", g_applied); ref_buf_free(&img); ref_arena_free(&RA);
    }
    unlink(g_path);
}
int main(int argc, char** argv) { return mc_main(argc, argv, "dmg", enumerate); }
