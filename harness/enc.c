#define _GNU_SOURCE
/* enc.c — C11 (mode c11: every encoding decodes its own output; streaming
 * RLE decoder explored as an explicit state machine) and C12 (mode c12: bytes
 * follow the Parquet encoding specification, both directions against ref/). */
#include "mc/mc.h"
#include "ref/ref.h"
#include "cq_decl.h"
#include <stdio.h>
#include <stdlib.h>
#include <string.h>
#include <limits.h>

static int C12;   /* 0 = C11, 1 = C12 */

#define FAILF(key, ...) mc_fail(key, __VA_ARGS__)

static const char* seq_u32(const uint32_t* v, int n) {
    static char b[4][400]; static int r; char* o = b[r++ & 3]; int k = 0;
    for (int i = 0; i < n && k < 360; i++) k += sprintf(o + k, "%s%x", i ? "," : "", v[i]);
    if (k >= 360) strcpy(o + k, "..");
    return o;
}
static const char* seq_i64(const int64_t* v, int n) {
    static char b[4][500]; static int r; char* o = b[r++ & 3]; int k = 0;
    for (int i = 0; i < n && k < 440; i++) k += sprintf(o + k, "%s%lld", i ? "," : "", (long long)v[i]);
    if (k >= 440) strcpy(o + k, "..");
    return o;
}

/* ======================================================================== */
/* hybrid RLE                                                                */
/* ======================================================================== */
static const char* hybrid_feature(const uint32_t* v, int n) {
    int lit = 0;
    for (int i = 0; i < n;) {
        int j = i; while (j < n && v[j] == v[i]) j++;
        int r = j - i;
        if (r >= 8) { if (lit % 8) return "partial-group-then-run"; lit = 0; }
        else lit += r;
        i = j;
    }
    return "no-partial-group-before-run";
}

static void check_hybrid(const uint32_t* v, int n, int bw) {
    uint32_t* in = mc_exact(v, (size_t)n * 4);
    uint32_t* out = mc_exact(NULL, (size_t)n * 4);
    int16_t* l16 = mc_exact(NULL, (size_t)n * 2);
    int16_t* o16 = mc_exact(NULL, (size_t)n * 2);
    for (int i = 0; i < n; i++) l16[i] = (int16_t)v[i];
    carquet_buffer_t buf; carquet_buffer_init(&buf);
    carquet_status_t st = carquet_rle_encode_all(in, n, bw, &buf);
    char key[160];
    if (st != CARQUET_OK) { mc_count("rle.encoder_rejected", 1); }
    else if (!C12) {
        uint8_t* enc = mc_exact(buf.data, buf.size);
        memset(out, 0xEE, (size_t)n * 4);
        int64_t got = carquet_rle_decode_all(enc, buf.size, bw, out, n);
        if (got != n || memcmp(out, v, (size_t)n * 4)) {
            snprintf(key, sizeof key, "rle.self.values.%s", hybrid_feature(v, n));
            FAILF(key, "bw=%d n=%d in=[%s] enc=%s decoded %lld values=[%s]", bw, n, seq_u32(v, n), mc_hex(enc, buf.size, 40), (long long)got, seq_u32(out, n));
        }
        free(enc);
    } else {
        size_t used = 0;
        int64_t got = ref_hybrid_decode(buf.data, buf.size, bw, out, n, &used);
        if (got != n || memcmp(out, v, (size_t)n * 4)) {
            snprintf(key, sizeof key, "hybrid.carquet-encoded.values.%s", hybrid_feature(v, n));
            FAILF(key, "bw=%d n=%d in=[%s] enc=%s reference decoded %lld values=[%s]", bw, n, seq_u32(v, n), mc_hex(buf.data, buf.size, 40), (long long)got, seq_u32(out, n));
        }
    }
    carquet_buffer_destroy(&buf);
    if (bw <= 15) {
        carquet_buffer_t lb; carquet_buffer_init(&lb);
        st = carquet_rle_encode_levels(l16, n, bw, &lb);
        if (st == CARQUET_OK && !C12) {
            /* plain and prefixed level decoders */
            uint8_t* pre = mc_exact(NULL, lb.size + 4);
            pre[0] = (uint8_t)lb.size; pre[1] = (uint8_t)(lb.size >> 8); pre[2] = (uint8_t)(lb.size >> 16); pre[3] = (uint8_t)(lb.size >> 24);
            memcpy(pre + 4, lb.data, lb.size);
            memset(o16, 0x77, (size_t)n * 2);
            int64_t got = carquet_rle_decode_levels(pre + 4, lb.size, bw, o16, n);
            if (got != n || memcmp(o16, l16, (size_t)n * 2)) {
                snprintf(key, sizeof key, "rle.self.levels.%s", hybrid_feature(v, n));
                FAILF(key, "bw=%d n=%d in=[%s] enc=%s decoded %lld", bw, n, seq_u32(v, n), mc_hex(lb.data, lb.size, 40), (long long)got);
            }
            size_t used = 9999;
            memset(o16, 0x77, (size_t)n * 2);
            got = carquet_rle_decode_levels_prefixed(pre, lb.size + 4, bw, o16, n, &used);
            if (n > 0 && (got != n || memcmp(o16, l16, (size_t)n * 2))) {
                snprintf(key, sizeof key, "rle.self.levels-prefixed.%s", hybrid_feature(v, n));
                FAILF(key, "bw=%d n=%d in=[%s] decoded %lld", bw, n, seq_u32(v, n), (long long)got);
            } else if (got >= 0 && used != lb.size + 4) {
                FAILF("rle.self.levels-prefixed.consumed", "bw=%d n=%d consumed %zu, encoded %zu", bw, n, used, lb.size + 4);
            }
            free(pre);
        } else if (st == CARQUET_OK) {
            int64_t got = ref_hybrid_decode(lb.data, lb.size, bw, out, n, NULL);
            if (got != n || memcmp(out, v, (size_t)n * 4)) {
                snprintf(key, sizeof key, "hybrid.carquet-encoded.levels.%s", hybrid_feature(v, n));
                FAILF(key, "bw=%d n=%d in=[%s] enc=%s", bw, n, seq_u32(v, n), mc_hex(lb.data, lb.size, 40));
            }
        }
        carquet_buffer_destroy(&lb);
    }
    if (C12) {
        ref_buf rb; ref_buf_init(&rb);
        for (int f = 0; f < REF_H_NFORMS; f++) {
            ref_buf_clear(&rb);
            ref_hybrid_encode(v, n, bw, f, &rb);
            uint8_t* enc = mc_exact(rb.p, rb.n);
            memset(out, 0xEE, (size_t)n * 4);
            int64_t got = carquet_rle_decode_all(enc, rb.n, bw, out, n);
            if (got != n || memcmp(out, v, (size_t)n * 4)) {
                snprintf(key, sizeof key, "hybrid.ref-encoded.%s.values", ref_hybrid_form_name[f]);
                FAILF(key, "bw=%d n=%d in=[%s] enc=%s carquet decoded %lld values=[%s]", bw, n, seq_u32(v, n), mc_hex(enc, rb.n, 40), (long long)got, seq_u32(out, n));
            }
            if (bw <= 15 && n > 0) {
                memset(o16, 0x77, (size_t)n * 2);
                got = carquet_rle_decode_levels(enc, rb.n, bw, o16, n);
                if (got != n || memcmp(o16, l16, (size_t)n * 2)) {
                    snprintf(key, sizeof key, "hybrid.ref-encoded.%s.levels", ref_hybrid_form_name[f]);
                    FAILF(key, "bw=%d n=%d in=[%s] enc=%s carquet decoded %lld", bw, n, seq_u32(v, n), mc_hex(enc, rb.n, 40), (long long)got);
                }
            }
            free(enc);
        }
        ref_buf_free(&rb);
    }
    free(in); free(out); free(l16); free(o16);
}

static bool seq_nontrivial(const uint32_t* v, int n) {   /* >=2 runs or a run >= 8 */
    if (n >= 8) return true;
    for (int i = 1; i < n; i++) if (v[i] != v[0]) return true;
    return false;
}

static void stage_hybrid(void) {
    uint32_t v[600];
    int L1 = mc_thorough() ? 23 : 21;
    mc_stage("hybrid.width1.all-binary-sequences");
    for (int n = 0; n <= L1; n++)
        for (uint32_t bits = 0; bits < (1u << n); bits++) {
            if (!mc_next()) continue;
            for (int i = 0; i < n; i++) v[i] = (bits >> i) & 1;
            mc_desc("hybrid:bw=1;n=%d;bits=0x%x", n, bits);
            mc_case_key(mc_mix(0x11, ((uint64_t)n << 32) | bits));
            if (seq_nontrivial(v, n)) mc_nontrivial();
            check_hybrid(v, n, 1);
        }
    int L3 = mc_thorough() ? 11 : 10;
    mc_stage("hybrid.width2-32.all-ternary-sequences");
    for (int bw = 2; bw <= 32; bw++) {
        uint32_t mx = bw == 32 ? 0xffffffffu : ((1u << bw) - 1);
        for (int n = 1; n <= L3; n++) {
            uint32_t total = 1; for (int i = 0; i < n; i++) total *= 3;
            for (uint32_t c = 0; c < total; c++) {
                if (!mc_next()) continue;
                uint32_t x = c; for (int i = 0; i < n; i++) { int d = x % 3; x /= 3; v[i] = d == 0 ? 0 : d == 1 ? 1 : mx; }
                mc_desc("hybrid:bw=%d;n=%d;tern=%u", bw, n, c);
                mc_case_key(mc_mix(0x12, ((uint64_t)bw << 48) | ((uint64_t)n << 32) | c));
                if (seq_nontrivial(v, n)) mc_nontrivial();
                check_hybrid(v, n, bw);
            }
        }
    }
    static const int RL[] = { 1, 2, 7, 8, 9, 15, 16, 17, 63, 64, 65 };
    static const int WQ[] = { 1, 2, 3, 5, 8, 9, 16, 17, 31, 32 };
    int maxruns = 4;
    mc_stage("hybrid.run-structured");
    for (int wi = 0; wi < 10; wi++) {
        int bw = WQ[wi]; uint32_t mx = bw == 32 ? 0xffffffffu : ((1u << bw) - 1);
        uint32_t pool[3] = { 0, 1 & mx, mx };
        for (int nr = 1; nr <= maxruns; nr++) {
            int combos = 1; for (int i = 0; i < nr; i++) combos *= 11;
            for (int c = 0; c < combos; c++)
                for (int vp = 0; vp < 3; vp++) {          /* starting value index; following runs rotate */
                    if (bw == 1 && vp == 2) continue;
                    if (!mc_next()) continue;
                    int n = 0, x = c;
                    for (int r = 0; r < nr; r++) { int len = RL[x % 11]; x /= 11; uint32_t val = pool[(vp + r) % (bw == 1 ? 2 : 3)]; for (int k = 0; k < len; k++) v[n++] = val; }
                    mc_desc("hybrid:bw=%d;runs=%d;combo=%d;vp=%d;n=%d", bw, nr, c, vp, n);
                    mc_case_key(mc_mix(0x13, ((uint64_t)bw << 48) | ((uint64_t)nr << 40) | ((uint64_t)vp << 32) | (uint32_t)c));
                    mc_nontrivial();
                    check_hybrid(v, n, bw);
                }
        }
    }
    mc_stage("hybrid.width0");
    for (int n = 0; n <= 70; n++) {
        if (!mc_next()) continue;
        memset(v, 0, sizeof v);
        mc_desc("hybrid:bw=0;n=%d", n);
        mc_case_key(mc_mix(0x14, (uint64_t)n));
        if (n >= 8) mc_nontrivial();
        check_hybrid(v, n, 0);
    }
}

/* ======================================================================== */
/* streaming RLE decoder as an explicit state machine (C11 only)             */
/* ======================================================================== */
typedef struct { carquet_rle_decoder_t d; int64_t consumed; } sstate_t;
static uint64_t sdigest(const sstate_t* s) {
    uint64_t h = 0x51;
    h = mc_mix(h, (uint64_t)s->consumed); h = mc_mix(h, s->d.pos); h = mc_mix(h, s->d.in_rle_run);
    h = mc_mix(h, (uint64_t)s->d.run_remaining); h = mc_mix(h, (uint64_t)s->d.bitpack_pos);
    h = mc_mix(h, (uint64_t)s->d.bitpack_count); h = mc_mix(h, (uint64_t)s->d.status); h = mc_mix(h, s->d.rle_value);
    return h;
}
static void explore_stream(const uint8_t* enc, size_t encn, int bw, const char* origin) {
    /* expected: one-shot decode of the whole stream (padding included) */
    int64_t cap = 4096; uint32_t* S = mc_exact(NULL, (size_t)cap * 4);
    int64_t total = carquet_rle_decode_all(enc, encn, bw, S, cap);
    static const int K[] = { 1, 2, 7, 8, 9 };
    enum { MAXS = 8192 };
    static sstate_t st[MAXS]; static uint64_t dig[MAXS]; int ns = 0, head = 0;
    carquet_rle_decoder_init(&st[0].d, enc, encn, bw); st[0].consumed = 0; dig[0] = sdigest(&st[0]); ns = 1;
    uint64_t transitions = 0;
    while (head < ns) {
        sstate_t cur = st[head++];
        for (int op = 0; op < 11; op++) {
            sstate_t nx = cur; int64_t got = 0; uint32_t tmp[16]; memset(tmp, 0xEE, sizeof tmp);
            const char* opn; int k = 0;
            int64_t remaining = total - cur.consumed;
            if (op == 0) {
                opn = "get";
                if (!carquet_rle_decoder_has_next(&nx.d)) continue;
                if (remaining <= 0) continue;              /* trailing empty runs: get() has no way to say "none" */
                tmp[0] = carquet_rle_decoder_get(&nx.d); got = 1; k = 1;
            } else if (op <= 5) { opn = "get_batch"; k = K[op - 1]; got = carquet_rle_decoder_get_batch(&nx.d, tmp, k); }
            else { opn = "skip"; k = K[op - 6]; got = carquet_rle_decoder_skip(&nx.d, k); }
            transitions++;
            int64_t want = remaining < k ? remaining : k;
            if (got != want) { FAILF("rle.stream.count", "%s bw=%d at %lld: %s(%d) returned %lld, expected %lld (total %lld)", origin, bw, (long long)cur.consumed, opn, k, (long long)got, (long long)want, (long long)total); continue; }
            if (op <= 5 && got > 0 && memcmp(tmp, S + cur.consumed, (size_t)got * 4)) {
                FAILF("rle.stream.values", "%s bw=%d at %lld: %s(%d) returned [%s], one-shot decode has [%s]", origin, bw, (long long)cur.consumed, opn, k, seq_u32(tmp, (int)got), seq_u32(S + cur.consumed, (int)got));
                continue;
            }
            nx.consumed = cur.consumed + got;
            if (!carquet_rle_decoder_has_next(&nx.d) && nx.consumed != total && carquet_rle_decoder_status(&nx.d) == CARQUET_OK)
                FAILF("rle.stream.has_next", "%s bw=%d: has_next false at %lld of %lld", origin, bw, (long long)nx.consumed, (long long)total);
            uint64_t dg = sdigest(&nx); int seen = 0;
            for (int i = 0; i < ns; i++) if (dig[i] == dg) { seen = 1; break; }
            if (!seen && ns < MAXS) { st[ns] = nx; dig[ns] = dg; ns++; }
            else if (!seen) mc_harness_error("stream explorer state table full");
        }
    }
    mc_count("states", (uint64_t)ns); mc_count("transitions", transitions);
    free(S);
}
static void stage_stream(void) {
    mc_stage("rle-stream-decoder.explicit-state");
    static const int RL[] = { 1, 3, 8, 9, 17 };
    static const int WS[] = { 1, 3, 8, 12 };
    uint32_t v[200];
    for (int wi = 0; wi < 4; wi++) {
        int bw = WS[wi]; uint32_t mx = (1u << bw) - 1; uint32_t pool[3] = { 0, 1, mx };
        int nr_max = 4;
        for (int nr = 1; nr <= nr_max; nr++) {
            int combos = 1; for (int i = 0; i < nr; i++) combos *= 5;
            for (int c = 0; c < combos; c++)
                for (int src = C12 ? 1 : 0; src <= REF_H_NFORMS; src++) {     /* 0 = carquet's own encoder (C11 only), 1.. = reference forms */
                    if (!mc_next()) continue;
                    int n = 0, x = c;
                    for (int r = 0; r < nr; r++) { int len = RL[x % 5]; x /= 5; for (int k = 0; k < len; k++) v[n++] = pool[r % (bw == 1 ? 2 : 3)]; }
                    mc_desc("stream:bw=%d;runs=%d;combo=%d;src=%s;n=%d", bw, nr, c, src ? ref_hybrid_form_name[src - 1] : "carquet", n);
                    mc_case_key(mc_mix(0x21, ((uint64_t)bw << 48) | ((uint64_t)nr << 40) | ((uint64_t)src << 32) | (uint32_t)c));
                    mc_nontrivial();
                    uint8_t* enc; size_t encn;
                    if (src == 0) {
                        carquet_buffer_t b; carquet_buffer_init(&b);
                        if (carquet_rle_encode_all(v, n, bw, &b) != CARQUET_OK) { carquet_buffer_destroy(&b); continue; }
                        enc = mc_exact(b.data, b.size); encn = b.size; carquet_buffer_destroy(&b);
                    } else {
                        ref_buf rb; ref_buf_init(&rb); ref_hybrid_encode(v, n, bw, src - 1, &rb);
                        enc = mc_exact(rb.p, rb.n); encn = rb.n; ref_buf_free(&rb);
                    }
                    explore_stream(enc, encn, bw, src ? ref_hybrid_form_name[src - 1] : "carquet");
                    free(enc);
                }
        }
    }
}

/* ======================================================================== */
/* raw bit packing                                                           */
/* ======================================================================== */
static void stage_bitpack(void) {
    mc_stage("bitpack.raw.tagged");
    for (int bw = 0; bw <= 32; bw++)
        for (int n = 0; n <= 40; n++)
            for (int pat = 0; pat < 2; pat++) {
                if (!mc_next()) continue;
                mc_desc("bitpack:bw=%d;n=%d;pat=%d", bw, n, pat);
                mc_case_key(mc_mix(0x31, ((uint64_t)bw << 32) | ((uint64_t)n << 8) | (uint64_t)pat));
                if (n > 0 && bw > 0) mc_nontrivial();
                uint32_t mx = bw == 32 ? 0xffffffffu : ((1u << bw) - 1);
                uint32_t* v = mc_exact(NULL, (size_t)n * 4 + 4); uint64_t* v64 = mc_exact(NULL, (size_t)n * 8 + 8);
                for (int i = 0; i < n; i++) { uint32_t t = (uint32_t)(i + 1) * 0x9E3779B1u; if (pat) t = ~t; v[i] = t & mx; v64[i] = v[i]; }
                size_t psz = carquet_packed_size((size_t)n, bw);
                /* carquet packs whole 8-value groups: give it room for the padded groups, check what it reports */
                size_t room = (size_t)((n + 7) / 8) * (size_t)bw;
                uint8_t* packed = mc_exact(NULL, room + 1); memset(packed, 0, room + 1);
                size_t w = carquet_bitpack_32(v, (size_t)n, bw, packed);
                if (w != psz) FAILF("bitpack.written-size", "bw=%d n=%d reported %zu, ceil(n*bw/8)=%zu", bw, n, w, psz);
                ref_buf rb; ref_buf_init(&rb); ref_bitpack(v64, (size_t)n, bw, &rb);
                if (C12) {
                    if (rb.n != psz || memcmp(rb.p, packed, psz)) FAILF("bitpack.carquet-packed.bytes", "bw=%d n=%d carquet=%s ref=%s", bw, n, mc_hex(packed, psz, 48), mc_hex(rb.p, rb.n, 48));
                }
                /* unpack: carquet reads whole groups, so hand it the padded room */
                uint32_t* out = mc_exact(NULL, (size_t)n * 4 + 4);
                uint8_t* src = mc_exact(NULL, room + 1); memset(src, 0, room + 1);
                memcpy(src, C12 ? rb.p : packed, psz);
                size_t used = carquet_bitunpack_32(src, (size_t)n, bw, out);
                if (memcmp(out, v, (size_t)n * 4)) FAILF(C12 ? "bitpack.ref-packed.values" : "bitpack.self.values", "bw=%d n=%d in=[%s] out=[%s]", bw, n, seq_u32(v, n), seq_u32(out, n));
                if (used != psz) FAILF("bitpack.consumed-size", "bw=%d n=%d consumed %zu, packed size %zu", bw, n, used, psz);
                ref_buf_free(&rb); free(v); free(v64); free(packed); free(out); free(src);
            }
}

/* ======================================================================== */
/* DELTA_BINARY_PACKED                                                       */
/* ======================================================================== */
static const int64_t A64[] = { 0, 1, -1, INT64_MIN, INT64_MAX, 2147483648LL, 4611686018427387904LL };
static const int64_t A32[] = { 0, 1, -1, INT32_MIN, INT32_MAX };

static int delta_max_width(const int64_t* v, int n, int bits) {   /* widest miniblock width a minimal encoder needs */
    int best = 0;
    for (int b0 = 0; b0 + 1 < n; b0 += 128) {
        int cnt = n - 1 - b0 < 128 ? n - 1 - b0 : 128;
        int64_t mn = 0; uint64_t tm = bits == 64 ? ~0ull : 0xffffffffull;
        int64_t d[128];
        for (int i = 0; i < cnt; i++) {
            uint64_t x = ((uint64_t)v[b0 + i + 1] - (uint64_t)v[b0 + i]);
            if (bits == 32 && !C12) x = x;      /* carquet computes int32 deltas in 64-bit arithmetic */
            d[i] = (int64_t)x; if (i == 0 || d[i] < mn) mn = d[i];
        }
        for (int i = 0; i < cnt; i++) { uint64_t a = ((uint64_t)d[i] - (uint64_t)mn); (void)tm; int w = 0; while (a) { w++; a >>= 1; } if (w > best) best = w; }
    }
    return best;
}
static const char* delta_feature(const int64_t* v, int n, int bits) {
    int w = delta_max_width(v, n, bits);
    if (w > 32 && (w % 8)) return "width33-63-not-byte-multiple";
    if (w > 32) return "width40-64-byte-multiple";
    return "width0-32";
}

static void check_delta(const int64_t* v, int n, int bits) {
    char key[160];
    size_t cap = (size_t)n * 10 + 200;
    uint8_t* enc = mc_exact(NULL, cap); size_t w = 0;
    carquet_status_t st;
    int32_t* v32 = mc_exact(NULL, (size_t)n * 4 + 4);
    int64_t* in64 = mc_exact(v, (size_t)n * 8 + 8);
    for (int i = 0; i < n; i++) v32[i] = (int32_t)v[i];
    memset(enc, 0xEE, cap);
    if (bits == 32) st = carquet_delta_encode_int32(v32, n, enc, cap, &w);
    else st = carquet_delta_encode_int64(in64, n, enc, cap, &w);
    if (st != CARQUET_OK) mc_count("delta.encoder_rejected", 1);
    else if (w > cap) FAILF("delta.written-beyond-capacity", "n=%d written %zu cap %zu", n, w, cap);
    else if (n > 0) {
        uint8_t* e2 = mc_exact(enc, w);
        if (!C12) {
            size_t used = 0; int bad = 0;
            if (bits == 32) { int32_t* o = mc_exact(NULL, (size_t)n * 4); st = carquet_delta_decode_int32(e2, w, o, n, &used); bad = st != CARQUET_OK || memcmp(o, v32, (size_t)n * 4); free(o); }
            else { int64_t* o = mc_exact(NULL, (size_t)n * 8); st = carquet_delta_decode_int64(e2, w, o, n, &used); bad = st != CARQUET_OK || memcmp(o, v, (size_t)n * 8); free(o); }
            if (bad) { snprintf(key, sizeof key, "delta%d.self.values.%s", bits, delta_feature(v, n, bits)); FAILF(key, "n=%d in=[%s] status=%d enc=%s", n, seq_i64(v, n), st, mc_hex(e2, w, 60)); }
            else if (used != w) { snprintf(key, sizeof key, "delta%d.self.consumed", bits); FAILF(key, "n=%d in=[%s] written %zu consumed %zu", n, seq_i64(v, n), w, used); }
        } else {
            int64_t* o = mc_exact(NULL, (size_t)n * 8); size_t used = 0; int64_t tot = 0;
            int rc = ref_delta_decode(e2, w, o, n, &used, &tot);
            int bad = rc != 0 || tot != n;
            for (int i = 0; i < n && !bad; i++) bad = bits == 32 ? ((int32_t)o[i] != v32[i]) : (o[i] != v[i]);
            if (bad) { snprintf(key, sizeof key, "delta%d.carquet-encoded.values.%s", bits, delta_feature(v, n, bits)); FAILF(key, "n=%d in=[%s] ref rc=%d total=%lld enc=%s", n, seq_i64(v, n), rc, (long long)tot, mc_hex(e2, w, 60)); }
            free(o);
        }
        free(e2);
    }
    if (C12 && n > 0) {
        /* reference encoder in several legal forms -> carquet decoder */
        static const ref_delta_opts forms[] = { {128, 4, 0, 0, 0}, {128, 4, 0xAB, 0, 0}, {128, 4, 7, 0, 1}, {128, 4, 64, 0, 3} };
        static const char* fname[] = { "minimal", "unused-width-0xAB", "widened+1", "widened+3-unused64" };
        for (int f = 0; f < 4; f++) {
            ref_delta_opts o = forms[f]; o.bits = bits;
            ref_buf rb; ref_buf_init(&rb); ref_delta_encode(v, n, &o, &rb);
            uint8_t* e2 = mc_exact(rb.p, rb.n); size_t used = 0; int bad;
            if (bits == 32) { int32_t* out = mc_exact(NULL, (size_t)n * 4); st = carquet_delta_decode_int32(e2, rb.n, out, n, &used); bad = st != CARQUET_OK || memcmp(out, v32, (size_t)n * 4); free(out); }
            else { int64_t* out = mc_exact(NULL, (size_t)n * 8); st = carquet_delta_decode_int64(e2, rb.n, out, n, &used); bad = st != CARQUET_OK || memcmp(out, v, (size_t)n * 8); free(out); }
            if (bad) {
                ref_delta_opts o2 = o; (void)o2;
                int mw = 0; { /* widest width byte actually present */ size_t p = 0; (void)p; }
                (void)mw;
                snprintf(key, sizeof key, "delta%d.ref-encoded.%s.values.%s", bits, fname[f], delta_feature(v, n, bits == 32 ? 64 : 64));
                FAILF(key, "n=%d in=[%s] carquet status=%d enc=%s", n, seq_i64(v, n), st, mc_hex(e2, rb.n, 60));
            } else if (used != rb.n) { snprintf(key, sizeof key, "delta%d.ref-encoded.%s.consumed", bits, fname[f]); FAILF(key, "n=%d encoded %zu consumed %zu", n, rb.n, used); }
            free(e2); ref_buf_free(&rb);
        }
    }
    free(enc); free(v32); free(in64);
}

static void stage_delta(void) {
    int64_t v[300];
    int L = mc_thorough() ? 7 : 6;
    mc_stage("delta.int64.all-short-sequences");
    for (int n = 1; n <= L; n++) {
        int total = 1; for (int i = 0; i < n; i++) total *= 7;
        for (int c = 0; c < total; c++) {
            if (!mc_next()) continue;
            int x = c; for (int i = 0; i < n; i++) { v[i] = A64[x % 7]; x /= 7; }
            mc_desc("delta:bits=64;n=%d;code=%d;v=[%s]", n, c, seq_i64(v, n));
            mc_case_key(mc_mix(0x41, ((uint64_t)n << 32) | (uint32_t)c));
            if (n >= 2) mc_nontrivial();
            check_delta(v, n, 64);
        }
    }
    mc_stage("delta.int32.all-short-sequences");
    for (int n = 1; n <= L + 1; n++) {
        int total = 1; for (int i = 0; i < n; i++) total *= 5;
        for (int c = 0; c < total; c++) {
            if (!mc_next()) continue;
            int x = c; for (int i = 0; i < n; i++) { v[i] = A32[x % 5]; x /= 5; }
            mc_desc("delta:bits=32;n=%d;code=%d;v=[%s]", n, c, seq_i64(v, n));
            mc_case_key(mc_mix(0x42, ((uint64_t)n << 32) | (uint32_t)c));
            if (n >= 2) mc_nontrivial();
            check_delta(v, n, 32);
        }
    }
    static const int LEN[] = { 1, 2, 32, 33, 34, 64, 65, 66, 127, 128, 129, 130, 256, 257, 258 };
    mc_stage("delta.block-boundary-lengths.periodic");
    for (int bits = 32; bits <= 64; bits += 32) {
        int na = bits == 64 ? 7 : 5; const int64_t* A = bits == 64 ? A64 : A32;
        for (int li = 0; li < 15; li++)
            for (int p = 1; p <= 3; p++) {
                int total = 1; for (int i = 0; i < p; i++) total *= na;
                for (int c = 0; c < total; c++) {
                    if (!mc_next()) continue;
                    int n = LEN[li]; int64_t pat[3]; int x = c;
                    for (int i = 0; i < p; i++) { pat[i] = A[x % na]; x /= na; }
                    for (int i = 0; i < n; i++) v[i] = pat[i % p];
                    mc_desc("delta:bits=%d;n=%d;period=%d;code=%d;pat=[%s]", bits, n, p, c, seq_i64(pat, p));
                    mc_case_key(mc_mix(0x43, ((uint64_t)bits << 56) | ((uint64_t)n << 40) | ((uint64_t)p << 32) | (uint32_t)c));
                    mc_nontrivial();
                    check_delta(v, n, bits);
                }
            }
    }
    /* ramps and single outliers at every position of the first two blocks: every miniblock gets its own width */
    mc_stage("delta.outlier-position");
    for (int bits = 32; bits <= 64; bits += 32)
        for (int n = 130; n <= 260; n += 130)
            for (int pos = 0; pos < n; pos++)
                for (int mag = 0; mag < 4; mag++) {
                    if (!mc_next()) continue;
                    for (int i = 0; i < n; i++) v[i] = i * 3;
                    int64_t big = mag == 0 ? 1000 : mag == 1 ? 70000 : mag == 2 ? (bits == 64 ? (1LL << 40) : INT32_MAX) : (bits == 64 ? INT64_MAX : INT32_MIN);
                    v[pos] = big;
                    mc_desc("delta:bits=%d;n=%d;ramp3;outlier@%d=%lld", bits, n, pos, (long long)big);
                    mc_case_key(mc_mix(0x44, ((uint64_t)bits << 56) | ((uint64_t)n << 40) | ((uint64_t)pos << 8) | (uint64_t)mag));
                    mc_nontrivial();
                    check_delta(v, n, bits);
                }
}

/* ======================================================================== */
/* byte-array encodings                                                      */
/* ======================================================================== */
static uint8_t g_long[300];
static const struct { const char* s; uint32_t n; } POOL[] = { { "", 0 }, { "a", 1 }, { "ab", 2 }, { "abc", 3 }, { "b", 1 }, { (const char*)g_long, 300 } };

static bool ba_equal(const carquet_byte_array_t* a, const ref_str* b, int n) {
    for (int i = 0; i < n; i++) { if (a[i].length != (int32_t)b[i].n) return false; if (b[i].n && memcmp(a[i].data, b[i].p, b[i].n)) return false; }
    return true;
}
static int g_str_layout;
static void check_strings(const ref_str* v, int n, const char* what) {
    char key[160];
    carquet_byte_array_t* in = mc_exact(NULL, sizeof(carquet_byte_array_t) * (size_t)(n + 1));
    size_t total = 0;
    /* layout of the caller's values: 0 = every value in its own exact-size block; 1 = slices of one shared block (the longest values first, every value at its first occurrence), so that values which are
     * prefixes of one another start at the same address */
    uint8_t* shared = NULL; size_t shn = 0;
    if (g_str_layout == 1) { size_t cap = 1; for (int i = 0; i < n; i++) cap += v[i].n; shared = mc_exact(NULL, cap); for (uint32_t L = 400; L >= 1; L--) for (int i = 0; i < n; i++) if (v[i].n == L && !(shn >= L && memmem(shared, shn, v[i].p, L))) { memcpy(shared + shn, v[i].p, L); shn += L; } }
    for (int i = 0; i < n; i++) { in[i].data = !v[i].n ? NULL : g_str_layout == 1 ? (uint8_t*)memmem(shared, shn, v[i].p, v[i].n) : mc_exact(v[i].p, v[i].n); in[i].length = (int32_t)v[i].n; total += v[i].n; if (v[i].n && !in[i].data) mc_harness_error("shared layout: value not found"); }
    carquet_byte_array_t* out = mc_exact(NULL, sizeof(carquet_byte_array_t) * (size_t)(n + 1));
    ref_str* rout = mc_exact(NULL, sizeof(ref_str) * (size_t)(n + 1));
    uint8_t* work = mc_exact(NULL, total + 1); uint8_t* rwork = mc_exact(NULL, total + 1);
    for (int e = 0; e < 3; e++) {   /* 0 DLBA, 1 DBA, 2 PLAIN */
        const char* en = e == 0 ? "dlba" : e == 1 ? "dba" : "plain-ba";
        carquet_buffer_t b; carquet_buffer_init(&b);
        carquet_status_t st = e == 0 ? carquet_delta_length_encode(in, n, &b) : e == 1 ? carquet_delta_strings_encode(in, n, &b) : carquet_encode_plain_byte_array(in, n, &b);
        if (st != CARQUET_OK) { snprintf(key, sizeof key, "%s.encoder_rejected", en); mc_count(key, 1); }
        else {
            uint8_t* enc = mc_exact(b.data, b.size); size_t used = 0; int bad = 0; int64_t r = 0;
            if (!C12) {
                if (e == 0) st = carquet_delta_length_decode(enc, b.size, out, n, &used);
                else if (e == 1) st = carquet_delta_strings_decode(enc, b.size, out, n, work, total, &used);
                else { r = carquet_decode_plain_byte_array(enc, b.size, out, n); st = r < 0 ? CARQUET_ERROR_DECODE : CARQUET_OK; used = (size_t)r; }
                bad = st != CARQUET_OK || !ba_equal(out, v, n);
                if (bad) { snprintf(key, sizeof key, "%s.self.values", en); FAILF(key, "%s n=%d status=%d enc=%s", what, n, st, mc_hex(enc, b.size, 48)); }
                else if (used != b.size) { snprintf(key, sizeof key, "%s.self.consumed", en); FAILF(key, "%s n=%d encoded %zu consumed %zu", what, n, b.size, used); }
            } else {
                int rc = e == 0 ? ref_dlba_decode(enc, b.size, rout, n, &used) : e == 1 ? ref_dba_decode(enc, b.size, rout, n, rwork, total, &used) : ref_plain_ba_decode(enc, b.size, rout, n, &used);
                bad = rc != 0;
                for (int i = 0; i < n && !bad; i++) bad = rout[i].n != v[i].n || (v[i].n && memcmp(rout[i].p, v[i].p, v[i].n));
                if (bad) { snprintf(key, sizeof key, "%s.carquet-encoded.values", en); FAILF(key, "%s n=%d ref rc=%d enc=%s", what, n, rc, mc_hex(enc, b.size, 48)); }
                else if (used != b.size) { snprintf(key, sizeof key, "%s.carquet-encoded.trailing-bytes", en); FAILF(key, "%s n=%d encoded %zu, reference consumed %zu", what, n, b.size, used); }
            }
            free(enc);
        }
        carquet_buffer_destroy(&b);
        if (C12 && n > 0) {
            ref_buf rb; ref_buf_init(&rb);
            if (e == 0) ref_dlba_encode(v, n, &rb); else if (e == 1) ref_dba_encode(v, n, &rb); else ref_plain_ba_encode(v, n, &rb);
            uint8_t* enc = mc_exact(rb.p, rb.n); size_t used = 0; int64_t r;
            if (e == 0) st = carquet_delta_length_decode(enc, rb.n, out, n, &used);
            else if (e == 1) st = carquet_delta_strings_decode(enc, rb.n, out, n, work, total, &used);
            else { r = carquet_decode_plain_byte_array(enc, rb.n, out, n); st = r < 0 ? CARQUET_ERROR_DECODE : CARQUET_OK; used = (size_t)r; }
            if (st != CARQUET_OK || !ba_equal(out, v, n)) { snprintf(key, sizeof key, "%s.ref-encoded.values", en); FAILF(key, "%s n=%d carquet status=%d enc=%s", what, n, st, mc_hex(enc, rb.n, 48)); }
            else if (used != rb.n) { snprintf(key, sizeof key, "%s.ref-encoded.consumed", en); FAILF(key, "%s n=%d encoded %zu consumed %zu", what, n, rb.n, used); }
            free(enc); ref_buf_free(&rb);
        }
    }
    if (g_str_layout == 1) free(shared); else for (int i = 0; i < n; i++) free(in[i].data);
    free(in); free(out); free(rout); free(work); free(rwork);
}
static void stage_strings(void) {
    for (int i = 0; i < 300; i++) g_long[i] = 'x';
    ref_str v[200];
    mc_stage("strings.all-short-sequences");
    for (int n = 1; n <= 5; n++) {
        int total = 1; for (int i = 0; i < n; i++) total *= 6;
        for (int c = 0; c < total; c++) {
            if (!mc_next()) continue;
            int x = c; for (int i = 0; i < n; i++) { v[i].p = (const uint8_t*)POOL[x % 6].s; v[i].n = POOL[x % 6].n; x /= 6; }
            char w[64]; snprintf(w, sizeof w, "pool-seq code=%d", c);
            mc_desc("strings:n=%d;code=%d", n, c);
            mc_case_key(mc_mix(0x51, ((uint64_t)n << 32) | (uint32_t)c));
            if (n >= 2) mc_nontrivial();
            check_strings(v, n, w); g_str_layout = 1; check_strings(v, n, w); g_str_layout = 0;      /* separate blocks, then slices of one block */
        }
    }
    mc_stage("strings.shared-prefix-families");
    static uint8_t store[140][160];
    for (int fam = 0; fam < 4; fam++)
        for (int n = 1; n <= 130; n++) {
            if (n > 6 && n != 31 && n != 32 && n != 33 && n != 34 && n != 64 && n != 65 && n != 66 && n < 127) continue;
            if (!mc_next()) continue;
            for (int i = 0; i < n; i++) {
                int len;
                if (fam == 0) { len = i % 150; memset(store[i], 'p', (size_t)len); }                         /* growing, full shared prefix */
                else if (fam == 1) { len = 1 + (i * 7) % 40; memset(store[i], 'q', (size_t)len); store[i][len - 1] = (uint8_t)('a' + i % 26); }
                else if (fam == 2) { len = sprintf((char*)store[i], "key%05d", i * 37); }                    /* sorted keys */
                else { len = (i % 2) ? 0 : 120; memset(store[i], (i % 4) ? 'z' : 'y', (size_t)len); }        /* alternating empty / long */
                v[i].p = store[i]; v[i].n = (uint32_t)len;
            }
            char w[64]; snprintf(w, sizeof w, "family=%d", fam);
            mc_desc("strings:family=%d;n=%d", fam, n);
            mc_case_key(mc_mix(0x52, ((uint64_t)fam << 32) | (uint32_t)n));
            mc_nontrivial();
            check_strings(v, n, w);
        }
}

/* ======================================================================== */
/* BYTE_STREAM_SPLIT, PLAIN fixed-width, dictionary                          */
/* ======================================================================== */
static void stage_bss(void) {
    mc_stage("bss.tagged");
    for (int width = 1; width <= 17; width++)
        for (int count = 0; count <= 130; count++)
            for (int api = 0; api < 2; api++) {       /* 0 generic, 1 typed (float/double) where width is 4/8 */
                if (api == 1 && width != 4 && width != 8) continue;
                if (!mc_next()) continue;
                mc_desc("bss:width=%d;count=%d;api=%s", width, count, api ? "typed" : "generic");
                mc_case_key(mc_mix(0x61, ((uint64_t)width << 32) | ((uint64_t)count << 1) | (uint64_t)api));
                if (count >= 2) mc_nontrivial();
                size_t nb = (size_t)width * (size_t)count;
                uint8_t* v = mc_exact(NULL, nb + 1);
                for (size_t i = 0; i < nb; i++) v[i] = (uint8_t)(((i / (size_t)width) * 17 + (i % (size_t)width) * 101 + 3) ^ (i >> 8));
                uint8_t* enc = mc_exact(NULL, nb + 1); uint8_t* dec = mc_exact(NULL, nb + 1); size_t w = 0;
                memset(enc, 0xEE, nb + 1); memset(dec, 0xEE, nb + 1);
                carquet_status_t st;
                if (!api) st = carquet_byte_stream_split_encode(v, count, width, enc, nb, &w);
                else if (width == 4) st = carquet_byte_stream_split_encode_float((const float*)v, count, enc, nb, &w);
                else st = carquet_byte_stream_split_encode_double((const double*)v, count, enc, nb, &w);
                if (st != CARQUET_OK) { mc_count("bss.encoder_rejected", 1); }
                else {
                    if (w != nb) FAILF("bss.written-size", "width=%d count=%d written %zu expected %zu", width, count, w, nb);
                    if (C12) {
                        uint8_t* r = mc_exact(NULL, nb + 1); ref_bss_encode(v, count, width, r);
                        if (memcmp(r, enc, nb)) FAILF("bss.carquet-encoded.bytes", "width=%d count=%d carquet=%s ref=%s", width, count, mc_hex(enc, nb, 40), mc_hex(r, nb, 40));
                        memcpy(enc, r, nb); free(r);
                    }
                    if (!api) st = carquet_byte_stream_split_decode(enc, nb, width, dec, count);
                    else if (width == 4) st = carquet_byte_stream_split_decode_float(enc, nb, (float*)dec, count);
                    else st = carquet_byte_stream_split_decode_double(enc, nb, (double*)dec, count);
                    if (count > 0 && (st != CARQUET_OK || memcmp(dec, v, nb)))
                        FAILF(C12 ? "bss.ref-encoded.values" : "bss.self.values", "width=%d count=%d api=%d status=%d", width, count, api, st);
                    /* the generic and the typed entry point decode the same encoding: handed the same window (the encoded values followed by further bytes, as inside a larger buffer)
                     * they return the same values */
                    if (api && count > 0) for (int sl = 0; sl < 3; sl++) { size_t slack = sl == 0 ? 1 : sl == 1 ? (size_t)width : 3 * (size_t)width + 1; uint8_t* win = mc_exact(NULL, nb + slack); memcpy(win, enc, nb); memset(win + nb, 0x5A, slack);
                        uint8_t* d1 = mc_exact(NULL, nb + 1); uint8_t* d2 = mc_exact(NULL, nb + 1); memset(d1, 0xEE, nb + 1); memset(d2, 0xEE, nb + 1);
                        carquet_status_t s1 = carquet_byte_stream_split_decode(win, nb + slack, width, d1, count), s2 = width == 4 ? carquet_byte_stream_split_decode_float(win, nb + slack, (float*)d2, count) : carquet_byte_stream_split_decode_double(win, nb + slack, (double*)d2, count);
                        if (s1 != s2 || (s1 == CARQUET_OK && memcmp(d1, d2, nb))) FAILF("bss.generic-and-typed-decoders-disagree", "width=%d count=%d window of %zu bytes: generic status %d %s, typed status %d %s", width, count, nb + slack, s1, mc_hex(d1, nb, 16), s2, mc_hex(d2, nb, 16));
                        free(win); free(d1); free(d2); }
                }
                free(v); free(enc); free(dec);
            }
}

static void stage_plain(void) {
    mc_stage("plain.fixed-width.tagged");
    /* type index: 0 bool, 1 int32, 2 int64, 3 int96, 4 float, 5 double, 6 flba(5) */
    static const int W[] = { 0, 4, 8, 12, 4, 8, 5 };
    for (int t = 0; t < 7; t++)
        for (int n = 0; n <= 70; n++) {
            if (!mc_next()) continue;
            mc_desc("plain:type=%d;n=%d", t, n);
            mc_case_key(mc_mix(0x71, ((uint64_t)t << 32) | (uint32_t)n));
            if (n >= 2) mc_nontrivial();
            carquet_buffer_t b; carquet_buffer_init(&b); carquet_status_t st; int64_t r = 0;
            if (t == 0) {
                uint8_t* v = mc_exact(NULL, (size_t)n + 1); uint8_t* o = mc_exact(NULL, (size_t)n + 1);
                for (int i = 0; i < n; i++) v[i] = (uint8_t)(((i * 7 + 3) >> 1) & 1);
                st = carquet_encode_plain_boolean(v, n, &b);
                if (st == CARQUET_OK) {
                    if (b.size != (size_t)(n + 7) / 8) FAILF("plain.bool.size", "n=%d size %zu", n, b.size);
                    ref_buf rb; ref_buf_init(&rb); ref_plain_bool_encode(v, n, &rb);
                    if (C12 && (rb.n != b.size || memcmp(rb.p, b.data, rb.n))) FAILF("plain.bool.carquet-encoded.bytes", "n=%d carquet=%s ref=%s", n, mc_hex(b.data, b.size, 16), mc_hex(rb.p, rb.n, 16));
                    uint8_t* enc = mc_exact(C12 ? rb.p : b.data, b.size);
                    r = carquet_decode_plain_boolean(enc, b.size, o, n);
                    if (r != (int64_t)b.size || memcmp(o, v, (size_t)n)) FAILF(C12 ? "plain.bool.ref-encoded.values" : "plain.bool.self.values", "n=%d ret=%lld", n, (long long)r);
                    free(enc); ref_buf_free(&rb);
                }
                free(v); free(o);
            } else {
                size_t nb = (size_t)W[t] * (size_t)n; uint8_t* v = mc_exact(NULL, nb + 1); uint8_t* o = mc_exact(NULL, nb + 1);
                for (size_t i = 0; i < nb; i++) v[i] = (uint8_t)(i * 29 + 11 + (i >> 8));
                switch (t) {
                case 1: st = carquet_encode_plain_int32((const int32_t*)v, n, &b); break;
                case 2: st = carquet_encode_plain_int64((const int64_t*)v, n, &b); break;
                case 3: st = carquet_encode_plain_int96((const carquet_int96_t*)v, n, &b); break;
                case 4: st = carquet_encode_plain_float((const float*)v, n, &b); break;
                case 5: st = carquet_encode_plain_double((const double*)v, n, &b); break;
                default: st = carquet_encode_plain_fixed_byte_array(v, n, 5, &b); break;
                }
                if (st == CARQUET_OK) {
                    /* PLAIN of fixed-width little-endian values is the identity on a little-endian host */
                    if (b.size != nb || (nb && memcmp(b.data, v, nb))) FAILF(C12 ? "plain.fixed.carquet-encoded.bytes" : "plain.fixed.size", "type=%d n=%d size %zu expected %zu", t, n, b.size, nb);
                    uint8_t* enc = mc_exact(v, nb);
                    switch (t) {
                    case 1: r = carquet_decode_plain_int32(enc, nb, (int32_t*)o, n); break;
                    case 2: r = carquet_decode_plain_int64(enc, nb, (int64_t*)o, n); break;
                    case 3: r = carquet_decode_plain_int96(enc, nb, (carquet_int96_t*)o, n); break;
                    case 4: r = carquet_decode_plain_float(enc, nb, (float*)o, n); break;
                    case 5: r = carquet_decode_plain_double(enc, nb, (double*)o, n); break;
                    default: r = n ? carquet_decode_plain_fixed_byte_array(enc, nb, o, n, 5) : 0; break;
                    }
                    if (r != (int64_t)nb || (nb && memcmp(o, v, nb))) FAILF("plain.fixed.self.values", "type=%d n=%d ret=%lld", t, n, (long long)r);
                    free(enc);
                } else mc_count("plain.encoder_rejected", 1);
                free(v); free(o);
            }
            carquet_buffer_destroy(&b);
        }
}

static void stage_dict(void) {
    mc_stage("dictionary.all-short-sequences");
    static const uint64_t P[4] = { 0, 1, 0xFFFFFFFFFFFFFFFFull, 0x7FF8000000000001ull };
    int L = mc_thorough() ? 8 : 7;
    for (int t = 0; t < 4; t++)           /* int32, int64, float, double */
        for (int n = 1; n <= L; n++) {
            int total = 1 << (2 * n);
            for (int c = 0; c < total; c++) {
                if (!mc_next()) continue;
                mc_desc("dict:type=%d;n=%d;code=%d", t, n, c);
                mc_case_key(mc_mix(0x81, ((uint64_t)t << 48) | ((uint64_t)n << 32) | (uint32_t)c));
                if (n >= 2) mc_nontrivial();
                int w = (t == 0 || t == 2) ? 4 : 8;
                uint8_t* v = mc_exact(NULL, (size_t)w * (size_t)n); uint8_t* o = mc_exact(NULL, (size_t)w * (size_t)n);
                int distinct = 0, seen[4] = { 0, 0, 0, 0 };
                for (int i = 0; i < n; i++) { int k = (c >> (2 * i)) & 3; if (!seen[k]) { seen[k] = 1; distinct++; } uint64_t x = P[k]; if (w == 4 && k == 3) x = 0x7FC00001u; memcpy(v + (size_t)i * (size_t)w, &x, (size_t)w); }
                carquet_buffer_t d, ix; carquet_buffer_init(&d); carquet_buffer_init(&ix); carquet_status_t st;
                switch (t) {
                case 0: st = carquet_dictionary_encode_int32((const int32_t*)v, n, &d, &ix); break;
                case 1: st = carquet_dictionary_encode_int64((const int64_t*)v, n, &d, &ix); break;
                case 2: st = carquet_dictionary_encode_float((const float*)v, n, &d, &ix); break;
                default: st = carquet_dictionary_encode_double((const double*)v, n, &d, &ix); break;
                }
                if (st != CARQUET_OK) mc_count("dict.encoder_rejected", 1);
                else {
                    if (d.size != (size_t)distinct * (size_t)w) FAILF("dict.dictionary-size", "type=%d n=%d distinct=%d dict bytes %zu", t, n, distinct, d.size);
                    uint8_t* dd = mc_exact(d.data, d.size); uint8_t* ii = mc_exact(ix.data, ix.size);
                    if (C12) {
                        /* indices = <bit width byte> <hybrid>, dictionary = PLAIN values in first-occurrence order */
                        uint32_t idx[8];
                        int64_t got = ix.size ? ref_hybrid_decode(ii + 1, ix.size - 1, ii[0], idx, n, NULL) : -1;
                        int bad = got != n;
                        for (int i = 0; i < n && !bad; i++) bad = idx[i] >= (uint32_t)distinct || memcmp(dd + (size_t)idx[i] * (size_t)w, v + (size_t)i * (size_t)w, (size_t)w);
                        if (bad) FAILF("dict.carquet-encoded.values", "type=%d n=%d code=%d indices=%s", t, n, c, mc_hex(ii, ix.size, 24));
                    } else {
                        int dc = (int)(d.size / (size_t)w);
                        switch (t) {
                        case 0: st = carquet_dictionary_decode_int32(dd, d.size, dc, ii, ix.size, (int32_t*)o, n); break;
                        case 1: st = carquet_dictionary_decode_int64(dd, d.size, dc, ii, ix.size, (int64_t*)o, n); break;
                        case 2: st = carquet_dictionary_decode_float(dd, d.size, dc, ii, ix.size, (float*)o, n); break;
                        default: st = carquet_dictionary_decode_double(dd, d.size, dc, ii, ix.size, (double*)o, n); break;
                        }
                        if (st != CARQUET_OK || memcmp(o, v, (size_t)w * (size_t)n)) FAILF("dict.self.values", "type=%d n=%d code=%d status=%d", t, n, c, st);
                    }
                    free(dd); free(ii);
                }
                carquet_buffer_destroy(&d); carquet_buffer_destroy(&ix); free(v); free(o);
            }
        }
}


/* ---- sizes at the boundaries of internal representations ------------------------------------------------------------ */
static void stage_scale(void) {
    /* (1) RLE run lengths at the 1/2/3/4/5-byte boundaries of the run header varint (header = length << 1): 2^6, 2^13, 2^20, 2^27 */
    mc_stage("scale.hybrid.run-header-varint-boundaries");
    { static const int64_t R[] = { 63, 64, 65, 8191, 8192, 8193, (1 << 20) - 1, 1 << 20, (1 << 20) + 1, (1 << 27) - 1, 1 << 27, (1 << 27) + 9 };
      for (int ri = 0; ri < 12; ri++) for (int bwi = 0; bwi < 3; bwi++) {
          static const int BW[] = { 1, 3, 8 }; int bw = BW[bwi]; int64_t run = R[ri]; if (run > (1 << 21) && bw != 1 && !mc_thorough()) continue;
          if (!mc_next()) continue;
          mc_desc("hybrid:scale;bw=%d;head=5-literals;run=%lld;tail=3-literals", bw, (long long)run); mc_case_key(mc_mix(0x5c1, ((uint64_t)ri << 8) | (uint64_t)bw)); mc_nontrivial(); mc_budget_ms(120000);
          uint32_t mx = (1u << bw) - 1, head[5] = { 1 & mx, 0, mx, 0, 1 & mx }, runv = mx > 1 ? mx - 1 : 1, tail[3] = { 0, mx, 0 };
          uint8_t* enc = NULL; size_t en = 0;
          if (!C12) { carquet_buffer_t b; carquet_buffer_init(&b); carquet_rle_encoder_t e; carquet_rle_encoder_init(&e, &b, bw); carquet_status_t st = CARQUET_OK;
              for (int i = 0; i < 5 && st == CARQUET_OK; i++) st = carquet_rle_encoder_put(&e, head[i]); if (st == CARQUET_OK) st = carquet_rle_encoder_put_repeat(&e, runv, run); for (int i = 0; i < 3 && st == CARQUET_OK; i++) st = carquet_rle_encoder_put(&e, tail[i]);
              if (st == CARQUET_OK) st = carquet_rle_encoder_flush(&e);
              if (st != CARQUET_OK) { mc_count("scale.rle.encoder_rejected", 1); carquet_buffer_destroy(&b); continue; }
              enc = mc_exact(b.data, b.size); en = b.size; carquet_buffer_destroy(&b); }
          else { ref_buf rb; ref_buf_init(&rb); ref_buf_uleb(&rb, (1u << 1) | 1); uint64_t lit[8] = { head[0], head[1], head[2], head[3], head[4], runv, runv, runv }; ref_bitpack(lit, 8, bw, &rb);      /* one bit-packed group: 5 literals + 3 of the run */
              ref_buf_uleb(&rb, (uint64_t)(run - 3) << 1); for (int i = 0; i < (bw + 7) / 8; i++) ref_buf_u8(&rb, (uint8_t)(runv >> (8 * i)));
              ref_buf_uleb(&rb, (1u << 1) | 1); uint64_t tl[8] = { tail[0], tail[1], tail[2], 0, 0, 0, 0, 0 }; ref_bitpack(tl, 8, bw, &rb); enc = mc_exact(rb.p, rb.n); en = rb.n; ref_buf_free(&rb); }
          /* streaming decoder: first 5, skip most of the run, the rest value by value */
          carquet_rle_decoder_t d; carquet_rle_decoder_init(&d, enc, en, bw); bool ok = true; char why[120] = "";
          for (int i = 0; i < 5 && ok; i++) { uint32_t g = carquet_rle_decoder_get(&d); if (g != head[i]) { ok = false; snprintf(why, sizeof why, "literal %d is %u, stored %u", i, g, head[i]); } }
          int64_t sk = run - 4; if (ok) { int64_t g = carquet_rle_decoder_skip(&d, sk); if (g != sk) { ok = false; snprintf(why, sizeof why, "skip(%lld) inside the run skipped %lld (decoder status %d)", (long long)sk, (long long)g, (int)carquet_rle_decoder_status(&d)); } }
          for (int i = 0; i < 4 && ok; i++) { uint32_t g = carquet_rle_decoder_get(&d); if (g != runv) { ok = false; snprintf(why, sizeof why, "value %d before the end of the run is %u, stored %u", i, g, runv); } }
          for (int i = 0; i < 3 && ok; i++) { uint32_t g = carquet_rle_decoder_get(&d); if (g != tail[i]) { ok = false; snprintf(why, sizeof why, "literal %d after the run is %u, stored %u", i, g, tail[i]); } }
          if (!ok) FAILF(C12 ? "scale.hybrid.ref-encoded.stream-decoder" : "scale.hybrid.self.stream-decoder", "bw=%d run=%lld: %s", bw, (long long)run, why);
          /* one-shot decoders (up to 2^20+1 values) */
          if (run <= (1 << 20) + 1) { int64_t n = run + 8; uint32_t* o = malloc(sizeof(uint32_t) * (size_t)n + 64); int16_t* lv = malloc(sizeof(int16_t) * (size_t)n + 64);
              int64_t g1 = carquet_rle_decode_all(enc, en, bw, o, n); bool ok1 = g1 >= n; for (int64_t i = 0; ok1 && i < n; i++) { uint32_t w = i < 5 ? head[i] : i < 5 + run ? runv : tail[i - 5 - run]; ok1 = o[i] == w; }
              if (!ok1) FAILF(C12 ? "scale.hybrid.ref-encoded.decode-all" : "scale.hybrid.self.decode-all", "bw=%d run=%lld: decode_all returned %lld of %lld or wrong values", bw, (long long)run, (long long)g1, (long long)n);
              int64_t g2 = carquet_rle_decode_levels(enc, en, bw, lv, n); bool ok2 = g2 >= n; for (int64_t i = 0; ok2 && i < n; i++) { uint32_t w = i < 5 ? head[i] : i < 5 + run ? runv : tail[i - 5 - run]; ok2 = (uint32_t)(uint16_t)lv[i] == w; }
              if (!ok2) FAILF(C12 ? "scale.hybrid.ref-encoded.decode-levels" : "scale.hybrid.self.decode-levels", "bw=%d run=%lld: decode_levels returned %lld of %lld or wrong values", bw, (long long)run, (long long)g2, (long long)n);
              free(o); free(lv); }
          free(enc);
      } }
    /* (2) byte stream split beyond one internal tile */
    mc_stage("scale.bss.counts-around-tiles");
    { static const int CN[] = { 1023, 1024, 1025, 4095, 4096, 4097, 5000, 8192, 8193, 10000 }; static const int WD[] = { 1, 2, 4, 8, 12, 16 };
      for (int ci = 0; ci < 10; ci++) for (int wi = 0; wi < 6; wi++) for (int api = 0; api < 2; api++) {
          int count = CN[ci], width = WD[wi]; if (api == 1 && width != 4 && width != 8) continue;
          if (!mc_next()) continue;
          mc_desc("bss:scale;width=%d;count=%d;api=%s", width, count, api ? "typed" : "generic"); mc_case_key(mc_mix(0x5c2, ((uint64_t)ci << 16) | ((uint64_t)wi << 4) | (uint64_t)api)); mc_nontrivial();
          size_t nb = (size_t)width * (size_t)count; uint8_t* v = mc_exact(NULL, nb + 1); for (size_t i = 0; i < nb; i++) v[i] = (uint8_t)(((i / (size_t)width) * 17 + (i % (size_t)width) * 101 + 3) ^ (i >> 8) ^ (i >> 13));
          uint8_t* enc = mc_exact(NULL, nb + 1); uint8_t* dec = mc_exact(NULL, nb + 1); size_t w = 0; carquet_status_t st;
          if (!api) st = carquet_byte_stream_split_encode(v, count, width, enc, nb, &w); else if (width == 4) st = carquet_byte_stream_split_encode_float((const float*)v, count, enc, nb, &w); else st = carquet_byte_stream_split_encode_double((const double*)v, count, enc, nb, &w);
          if (st != CARQUET_OK) mc_count("bss.encoder_rejected", 1);
          else { if (w != nb) FAILF("scale.bss.written-size", "width=%d count=%d written %zu expected %zu", width, count, w, nb);
              if (C12) { uint8_t* r = mc_exact(NULL, nb + 1); ref_bss_encode(v, count, width, r); if (memcmp(r, enc, nb)) FAILF("scale.bss.carquet-encoded.bytes", "width=%d count=%d: bytes differ from the specification's streams", width, count); memcpy(enc, r, nb); free(r); }
              if (!api) st = carquet_byte_stream_split_decode(enc, nb, width, dec, count); else if (width == 4) st = carquet_byte_stream_split_decode_float(enc, nb, (float*)dec, count); else st = carquet_byte_stream_split_decode_double(enc, nb, (double*)dec, count);
              if (st != CARQUET_OK || memcmp(dec, v, nb)) FAILF(C12 ? "scale.bss.ref-encoded.values" : "scale.bss.self.values", "width=%d count=%d api=%d status=%d", width, count, api, st); }
          free(v); free(enc); free(dec);
      } }
    /* (3) byte-array dictionaries: all short sequences over 4 strings, and more distinct equal-length keys than the builder has hash buckets (1024) */
    mc_stage("scale.dictionary.byte-arrays");
    { static const char* SP[4] = { "", "a", "ab", "b" };
      for (int big = 0; big < 2; big++) for (int n = 1; n <= (big ? 5 : 6); n++) { int total = big ? 1 : 1 << (2 * n);
          for (int c = 0; c < total; c++) {
              if (!mc_next()) continue;
              static const int KN[] = { 0, 1023, 1024, 1025, 1500, 3000 }; int64_t cnt = big ? (int64_t)KN[n] * 3 : n; int distinct_keys = big ? KN[n] : 0;
              mc_desc("dict:byte-arrays;%s;n=%lld;code=%d", big ? "distinct-keys" : "short", (long long)cnt, c); mc_case_key(mc_mix(0x5c3, ((uint64_t)big << 40) | ((uint64_t)n << 32) | (uint32_t)c)); mc_nontrivial();
              carquet_byte_array_t* v = malloc(sizeof(*v) * (size_t)cnt + 16); char* pool = malloc(12 * (size_t)cnt + 16);
              for (int64_t i = 0; i < cnt; i++) { if (big) { int k = (int)((i * 7) % distinct_keys); snprintf(pool + 12 * i, 12, "key%05d", k); v[i].data = (uint8_t*)(pool + 12 * i); v[i].length = 8; } else { const char* sx = SP[(c >> (2 * i)) & 3]; v[i].data = (uint8_t*)sx; v[i].length = (int32_t)strlen(sx); } }
              carquet_buffer_t d, ix; carquet_buffer_init(&d); carquet_buffer_init(&ix); carquet_status_t st = carquet_dictionary_encode_byte_array(v, cnt, &d, &ix);
              if (st != CARQUET_OK) mc_count("dict.ba.encoder_rejected", 1);
              else if (ix.size < 1) FAILF("scale.dictionary.byte-arrays.no-index-stream", "n=%lld", (long long)cnt);
              else { /* dictionary page = PLAIN byte arrays, indices = <bit width> <hybrid>; judged with the reference decoders (C12) or carquet's own (C11) */
                  int64_t maxd = cnt; ref_str* ds = malloc(sizeof(ref_str) * (size_t)maxd + 16); carquet_byte_array_t* cds = malloc(sizeof(*cds) * (size_t)maxd + 16); uint32_t* idx = malloc(4 * (size_t)cnt + 64); int64_t nd = 0; bool bad = false; char why[100] = "";
                  uint8_t* dd = mc_exact(d.data, d.size); uint8_t* ii = mc_exact(ix.data, ix.size);
                  /* count dictionary entries by walking the PLAIN page */
                  { size_t pos = 0; while (pos + 4 <= d.size && nd < maxd) { uint32_t L = (uint32_t)dd[pos] | (uint32_t)dd[pos + 1] << 8 | (uint32_t)dd[pos + 2] << 16 | (uint32_t)dd[pos + 3] << 24; if (pos + 4 + L > d.size) { bad = true; snprintf(why, sizeof why, "dictionary page entry %lld overruns the page", (long long)nd); break; } ds[nd].p = dd + pos + 4; ds[nd].n = L; nd++; pos += 4 + (size_t)L; } if (!bad && pos != d.size) { bad = true; snprintf(why, sizeof why, "dictionary page has %zu stray bytes", d.size - pos); } }
                  if (!bad && !C12) { int64_t r = carquet_decode_plain_byte_array(dd, d.size, cds, nd); if (r < 0) { bad = true; snprintf(why, sizeof why, "carquet's PLAIN decoder rejects the dictionary page"); } else for (int64_t k = 0; k < nd; k++) { ds[k].p = cds[k].data; ds[k].n = (uint32_t)cds[k].length; } }
                  if (!bad) { int64_t got = C12 ? ref_hybrid_decode(ii + 1, ix.size - 1, ii[0], idx, cnt, NULL) : carquet_rle_decode_all(ii + 1, ix.size - 1, ii[0], idx, cnt); if (got < cnt) { bad = true; snprintf(why, sizeof why, "index stream yields %lld of %lld indices", (long long)got, (long long)cnt); } }
                  for (int64_t i = 0; i < cnt && !bad; i++) if (idx[i] >= (uint64_t)nd || ds[idx[i]].n != (uint32_t)v[i].length || memcmp(ds[idx[i]].p, v[i].data, (size_t)v[i].length)) { bad = true; snprintf(why, sizeof why, "value %lld decodes to dictionary entry %u, a different string", (long long)i, idx[i]); }
                  if (!bad) for (int64_t a = 0; a < nd && !bad; a++) for (int64_t b2 = a + 1; b2 < nd && b2 < a + 40; b2++) if (ds[a].n == ds[b2].n && !memcmp(ds[a].p, ds[b2].p, ds[a].n)) { bad = true; snprintf(why, sizeof why, "dictionary entries %lld and %lld are equal", (long long)a, (long long)b2); break; }
                  if (bad) FAILF(C12 ? (big ? "scale.dictionary.byte-arrays.carquet-encoded.many-keys" : "dict.byte-arrays.carquet-encoded") : (big ? "scale.dictionary.byte-arrays.self.many-keys" : "dict.byte-arrays.self"), "n=%lld code=%d: %s", (long long)cnt, c, why);
                  free(ds); free(cds); free(idx); free(dd); free(ii); }
              carquet_buffer_destroy(&d); carquet_buffer_destroy(&ix); free(v); free(pool);
          } } }
}


/* ---- raw bit writer / reader: every short sequence of field widths --------------------------------------------------- */
/* every encoder that writes into a carquet_buffer_t, called on a buffer that already holds bytes (as the page writer does: levels first, then values): the bytes already there
 * stay as they were and the bytes appended are the ones the encoder emits into an empty buffer; the decoders' output pointer at every int16 / int32 alignment */
static int enc_into(int k, int n, carquet_buffer_t* b, carquet_buffer_t* b2) {
    static uint8_t vb[128]; static int32_t v32[128]; static int64_t v64[128]; static float vf[128]; static double vd[128]; static carquet_int96_t v96[128]; static uint8_t vfl[128 * 5]; static uint32_t vu[128]; static int16_t vl[128]; static carquet_byte_array_t ba[128]; static char strs[128][8];
    for (int i = 0; i < n; i++) { vb[i] = (uint8_t)(((i * 7 + 3) >> 1) & 1); v32[i] = (i % 5) * 1000003 - 7; v64[i] = (int64_t)(i % 6) * 10000000019LL - 3; vf[i] = (float)(i % 4) * 1.5f; vd[i] = (double)(i % 7) * -2.25; for (int q = 0; q < 3; q++) v96[i].value[q] = (uint32_t)(i * 3 + q); for (int q = 0; q < 5; q++) vfl[i * 5 + q] = (uint8_t)(i * 5 + q + 1);
        vu[i] = (uint32_t)((i < 20 ? i % 3 : 2) & 3); vl[i] = (int16_t)(i % 7 == 0 ? 0 : 1); int L = snprintf(strs[i], 8, "s%d", i % 9); ba[i].data = (uint8_t*)strs[i]; ba[i].length = L; }
    switch (k) {
    case 0: return carquet_encode_plain_boolean(vb, n, b); case 1: return carquet_encode_plain_int32(v32, n, b); case 2: return carquet_encode_plain_int64(v64, n, b); case 3: return carquet_encode_plain_int96(v96, n, b);
    case 4: return carquet_encode_plain_float(vf, n, b); case 5: return carquet_encode_plain_double(vd, n, b); case 6: return carquet_encode_plain_byte_array(ba, n, b); case 7: return carquet_encode_plain_fixed_byte_array(vfl, n, 5, b);
    case 8: return carquet_rle_encode_all(vu, n, 2, b); case 9: return carquet_rle_encode_levels(vl, n, 1, b);
    case 10: { carquet_rle_encoder_t e; carquet_rle_encoder_init(&e, b, 2); carquet_status_t st = CARQUET_OK; for (int i = 0; i < n && st == CARQUET_OK; i++) st = carquet_rle_encoder_put(&e, vu[i]); if (st == CARQUET_OK) st = carquet_rle_encoder_flush(&e); return st; }
    case 11: return carquet_delta_length_encode(ba, n, b); case 12: return carquet_delta_strings_encode(ba, n, b);
    case 13: return carquet_dictionary_encode_int32(v32, n, b, b2); case 14: return carquet_dictionary_encode_int64(v64, n, b, b2); case 15: return carquet_dictionary_encode_float(vf, n, b, b2); case 16: return carquet_dictionary_encode_double(vd, n, b, b2);
    default: return carquet_dictionary_encode_byte_array(ba, n, b, b2);
    }
}
/* DELTA_BINARY_PACKED blocks whose miniblocks are of different kinds: each of up to 6 miniblocks (32 deltas each) is constant-step (width 0 when its step is the block minimum),
 * small jitter, or wide; every combination, for 32 and 64 bits, plus a partial last miniblock */
static void stage_delta_miniblocks(void) {
    mc_stage("delta.miniblock-kinds.every-combination");
    static int64_t v[260];
    for (int bits = 32; bits <= 64; bits += 32) for (int nmb = 1; nmb <= 6; nmb++) { int total = 1; for (int i = 0; i < nmb; i++) total *= 3;
        for (int code = 0; code < total; code++) for (int tail = 0; tail < 2; tail++) {
            if (!mc_next()) continue;
            int n = 1; v[0] = 1000; int x = code;
            for (int m = 0; m < nmb; m++) { int kind = x % 3; x /= 3; int cnt = (m == nmb - 1 && tail) ? 7 : 32;
                for (int i = 0; i < cnt; i++, n++) { int64_t d = kind == 0 ? 5 : kind == 1 ? 5 + ((i * 7 + m) % 4) : (bits == 64 ? 5 + (int64_t)((i * 2654435761u) % 100000) * 40000 : 5 + (int64_t)((i * 40503u + (unsigned)m) % 30000)); v[n] = v[n - 1] + d; } }
            mc_desc("delta:bits=%d;miniblocks=%d;kinds=%d (base 3: 0 constant step, 1 jitter, 2 wide);partial-last=%d", bits, nmb, code, tail); mc_case_key(mc_mix(0x4a, ((uint64_t)bits << 32) | ((uint64_t)nmb << 24) | ((uint64_t)code << 1) | (uint64_t)tail)); mc_nontrivial();
            check_delta(v, n, bits);
        } }
}
/* the RLE encoder driven through put_repeat (also as the very first call, also with value 0) and put, every sequence of up to 3 runs */
static void stage_put_repeat(void) {
    mc_stage("rle.encoder.put-and-put-repeat-sequences");
    static const uint32_t VAL[] = { 0, 1, 3 }; static const int CNT[] = { 1, 3, 8, 9, 20 };
    for (int nr = 1; nr <= 3; nr++) { int per = 3 * 5 * 2, total = 1; for (int i = 0; i < nr; i++) total *= per;
        for (int code = 0; code < total; code++) {
            if (!mc_next()) continue;
            uint32_t want[64]; int n = 0; carquet_buffer_t b; carquet_buffer_init(&b); carquet_rle_encoder_t e; carquet_rle_encoder_init(&e, &b, 2); carquet_status_t st = CARQUET_OK; int x = code; char d[96]; int dk = 0;
            for (int r = 0; r < nr && st == CARQUET_OK; r++) { int sel = x % per; x /= per; uint32_t val = VAL[sel % 3]; int cnt = CNT[(sel / 3) % 5]; int how = sel / 15;
                dk += snprintf(d + dk, sizeof d - (size_t)dk, "%s%s(%u x%d)", r ? "," : "", how ? "put_repeat" : "put", val, cnt);
                if (how) st = carquet_rle_encoder_put_repeat(&e, val, cnt); else for (int i = 0; i < cnt && st == CARQUET_OK; i++) st = carquet_rle_encoder_put(&e, val);
                for (int i = 0; i < cnt; i++) want[n++] = val; }
            if (st == CARQUET_OK) st = carquet_rle_encoder_flush(&e);
            mc_desc("rle-encoder:%s", d); mc_case_key(mc_mix(0x4b, ((uint64_t)nr << 32) | (uint32_t)code)); if (n >= 2) mc_nontrivial();
            if (st != CARQUET_OK) mc_count("rle.encoder_rejected", 1);
            else { uint8_t* enc = mc_exact(b.data, b.size); uint32_t got[64]; memset(got, 0xEE, sizeof got); size_t used = 0;
                int64_t g = C12 ? ref_hybrid_decode(enc, b.size, 2, got, n, &used) : carquet_rle_decode_all(enc, b.size, 2, got, n);
                if (g != n || memcmp(got, want, sizeof(uint32_t) * (size_t)n)) FAILF(C12 ? "rle-encoder.carquet-encoded.values" : "rle-encoder.self.values", "%s: %d values were put, the stream %s decodes to %lld: %s", d, n, mc_hex(enc, b.size, 16), (long long)g, seq_u32(got, g > 0 && g < 64 ? (int)g : 0));
                free(enc); }
            carquet_buffer_destroy(&b);
        } }
}
static void stage_append(void) {
    static const char* KN[] = { "plain-boolean", "plain-int32", "plain-int64", "plain-int96", "plain-float", "plain-double", "plain-byte-array", "plain-flba", "rle-encode-all", "rle-encode-levels", "rle-encoder", "delta-length", "delta-strings", "dict-int32", "dict-int64", "dict-float", "dict-double", "dict-byte-array" };
    static const int NN[] = { 0, 1, 2, 7, 8, 9, 17, 64, 100 }; static const int PP[] = { 1, 6, 4093 };
    mc_stage("encoders.append-to-a-buffer-that-holds-bytes");
    for (int k = 0; k < 18; k++) for (int ni = 0; ni < 9; ni++) for (int pi = 0; pi < 3; pi++) for (int which = 0; which < (k >= 13 ? 3 : 1); which++) {
        if (!mc_next()) continue;
        int n = NN[ni], P = PP[pi]; mc_desc("append:%s;n=%d;prefix=%d;%s", KN[k], n, P, which == 0 ? "first-buffer" : which == 1 ? "second-buffer" : "both"); mc_case_key(mc_mix(0xa99, ((uint64_t)k << 24) | ((uint64_t)ni << 16) | ((uint64_t)pi << 8) | (uint64_t)which)); if (n >= 2) mc_nontrivial();
        carquet_buffer_t e1, e2, p1, p2; carquet_buffer_init(&e1); carquet_buffer_init(&e2); carquet_buffer_init(&p1); carquet_buffer_init(&p2); uint8_t pre[4096]; for (int i = 0; i < P; i++) pre[i] = (uint8_t)(0xA5 ^ i);
        bool f1 = which != 1, f2 = k >= 13 && which >= 1; if (f1) carquet_buffer_append(&p1, pre, (size_t)P); if (f2) carquet_buffer_append(&p2, pre, (size_t)P);
        int s0 = enc_into(k, n, &e1, &e2), s1 = enc_into(k, n, &p1, &p2); char key[96];
        if (s0 != s1) { snprintf(key, sizeof key, "append.%s.status-differs", KN[k]); FAILF(key, "n=%d prefix=%d: status %d into an empty buffer, %d into a buffer holding %d bytes", n, P, s0, s1, P); }
        else if (s0 == CARQUET_OK) {
            size_t o1 = f1 ? (size_t)P : 0, o2 = f2 ? (size_t)P : 0;
            if ((f1 && (p1.size < o1 || memcmp(p1.data, pre, o1))) || (f2 && (p2.size < o2 || memcmp(p2.data, pre, o2)))) { snprintf(key, sizeof key, "append.%s.existing-bytes-changed", KN[k]); FAILF(key, "n=%d: the %d bytes already in the buffer were modified: %s", n, P, mc_hex(f1 ? p1.data : p2.data, (size_t)(P < 12 ? P : 12), 12)); }
            else if (p1.size - o1 != e1.size || (e1.size && memcmp(p1.data + o1, e1.data, e1.size)) || (k >= 13 && (p2.size - o2 != e2.size || (e2.size && memcmp(p2.data + o2, e2.data, e2.size))))) { snprintf(key, sizeof key, "append.%s.appended-bytes-differ", KN[k]); FAILF(key, "n=%d prefix=%d: appended %zu bytes %s, into an empty buffer %zu bytes %s", n, P, p1.size - o1, mc_hex(p1.data + o1, p1.size - o1, 16), e1.size, mc_hex(e1.data, e1.size, 16)); }
        }
        carquet_buffer_destroy(&e1); carquet_buffer_destroy(&e2); carquet_buffer_destroy(&p1); carquet_buffer_destroy(&p2);
    }
    /* level decoder: output pointer at every int16 alignment within 16 bytes (it is only required to be aligned for int16_t) */
    mc_stage("decoders.output-pointer-alignment");
    for (int form = 0; form < REF_H_NFORMS; form++) for (int n = 0; n <= 70; n++) for (int off = 0; off < 8; off++) for (int bw = 1; bw <= 3; bw += 2) {
        if (!mc_next()) continue;
        mc_desc("align:levels;form=%s;n=%d;bw=%d;output-offset=%d-int16", ref_hybrid_form_name[form], n, bw, off); mc_case_key(mc_mix(0xa9a, ((uint64_t)form << 24) | ((uint64_t)n << 8) | ((uint64_t)off << 4) | (uint64_t)bw)); if (n >= 2) mc_nontrivial();
        uint32_t v[80]; for (int i = 0; i < n; i++) v[i] = (uint32_t)((i / 11) % 2 ? (i & 1) : (i < 45 ? 1 : 0)) & ((1u << bw) - 1);
        ref_buf rb; ref_buf_init(&rb); ref_hybrid_encode(v, n, bw, form, &rb); uint8_t* enc = mc_exact(rb.p, rb.n);
        int16_t* base = aligned_alloc(64, 64 + 2 * 96); int16_t* out = base + off; int16_t* exact = mc_exact(NULL, (size_t)(n ? n : 1) * 2);
        int64_t g1 = carquet_rle_decode_levels(enc, rb.n, bw, out, n), g2 = carquet_rle_decode_levels(enc, rb.n, bw, exact, n); bool ok = g1 == n && g2 == n;
        for (int i = 0; ok && i < n; i++) ok = out[i] == (int16_t)v[i] && exact[i] == (int16_t)v[i];
        if (!ok) FAILF("align.rle-decode-levels.values", "form=%s n=%d bw=%d offset=%d: returned %lld / %lld", ref_hybrid_form_name[form], n, bw, off, (long long)g1, (long long)g2);
        uint32_t* b32 = aligned_alloc(64, 64 + 4 * 96); uint32_t* o32 = b32 + (off & 3); int64_t g3 = carquet_rle_decode_all(enc, rb.n, bw, o32, n); ok = g3 == n; for (int i = 0; ok && i < n; i++) ok = o32[i] == v[i];
        if (!ok) FAILF("align.rle-decode-all.values", "form=%s n=%d bw=%d offset=%d: returned %lld", ref_hybrid_form_name[form], n, bw, off & 3, (long long)g3);
        free(base); free(b32); free(exact); free(enc); ref_buf_free(&rb);
    }
}
static void stage_bitio(void) {
    mc_stage("bitio.writer-reader.all-width-sequences");
    static const int W[] = { 1, 2, 3, 7, 8, 11, 16, 24, 31, 32, 33, 48, 64 }; int L = mc_thorough() ? 6 : 5; int idx[8];
    for (int len = 1; len <= L; len++) { long tot = 1; for (int i = 0; i < len; i++) tot *= 13;
        for (long code = 0; code < tot; code++) {
            if (!mc_next()) continue;
            long v = code; int bits = 0; for (int i = 0; i < len; i++) { idx[i] = (int)(v % 13); v /= 13; bits += W[idx[i]]; }
            mc_desc("bitio:widths=%d,%d,%d,%d,%d,%d;n=%d", W[idx[0]], len > 1 ? W[idx[1]] : 0, len > 2 ? W[idx[2]] : 0, len > 3 ? W[idx[3]] : 0, len > 4 ? W[idx[4]] : 0, len > 5 ? W[idx[5]] : 0, len); mc_case_key(mc_mix(0x5b1, ((uint64_t)len << 40) | (uint64_t)code)); if (len >= 2) mc_nontrivial();
            size_t nb = (size_t)(bits + 7) / 8; uint8_t* out = mc_exact(NULL, nb + 1); memset(out, 0, nb + 1); uint8_t* model = calloc(1, nb + 1); uint64_t vals[8]; int pos = 0;
            carquet_bit_writer_t bw; carquet_bit_writer_init(&bw, out, nb);
            for (int i = 0; i < len; i++) { int w = W[idx[i]]; uint64_t x = 0xD6E8FEB86659FD93ull * (uint64_t)(i + 1) ^ 0xDEADBEEFCAFEF00Dull; if (w < 64) x &= (1ull << w) - 1; vals[i] = x;
                for (int b = 0; b < w; b++, pos++) if ((x >> b) & 1) model[pos >> 3] |= (uint8_t)(1u << (pos & 7));
                if (w == 1 && (i & 1)) carquet_bit_writer_write_bit(&bw, (int)x); else if (w <= 32) carquet_bit_writer_write_bits(&bw, (uint32_t)x, w); else carquet_bit_writer_write_bits64(&bw, x, w); }
            carquet_bit_writer_flush(&bw);
            if (carquet_bit_writer_bytes_written(&bw) != nb) FAILF("bitio.writer.bytes-written", "%d bits written as %zu bytes, expected %zu", bits, carquet_bit_writer_bytes_written(&bw), nb);
            else if (memcmp(out, model, nb)) FAILF("bitio.writer.bytes", "written %s, LSB-first packing of the fields is %s", mc_hex(out, nb, 24), mc_hex(model, nb, 24));
            carquet_bit_reader_t br; carquet_bit_reader_init(&br, model, nb);
            for (int i = 0; i < len; i++) { int w = W[idx[i]]; uint64_t g = (w == 1 && (i & 1)) ? (uint64_t)carquet_bit_reader_read_bit(&br) : w <= 32 ? carquet_bit_reader_read_bits(&br, w) : carquet_bit_reader_read_bits64(&br, w);
                if (g != vals[i]) { FAILF("bitio.reader.values", "field %d of width %d read as %llx, packed %llx", i, w, (unsigned long long)g, (unsigned long long)vals[i]); break; } }
            free(out); free(model);
        } }
}

static void enumerate(void) {
    C12 = !strcmp(mc_mode(), "c12");
    if (!C12) {
        mc_rule("C11: every sequence of the stated small-scope families is encoded by carquet and decoded by carquet's own decoder "
                "(values, reported sizes); the streaming RLE decoder is explored as a state machine (BFS over get/get_batch/skip, "
                "states = digest of the decoder struct, every transition executed on the real decoder and compared with the one-shot decode). "
                "Non-trivial = at least two runs / two values or a run of >= 8; distinctness by (family, length, code) key.");
    } else {
        mc_rule("C12: same sequence families, both directions against the reference implementations written from the Parquet encoding "
                "specification: carquet-encode -> ref-decode, ref-encode (7 hybrid forms, 4 delta forms) -> carquet-decode. "
                "Non-trivial = at least two runs / two values or a run of >= 8; distinctness by (family, length, code) key.");
        mc_assume("reference encoders/decoders in /verif/ref follow the Parquet encodings specification; they were cross-checked against each other (ref encode -> ref decode) by bin/selftest");
    }
    stage_hybrid();
    stage_stream();      /* C12: reference-encoded streams (multi-group bit-packed runs, padded and zero-length runs) through the streaming decoder under every chunking */
    stage_bitpack();
    stage_bitio();
    stage_delta();
    stage_strings();
    stage_bss();
    stage_plain();
    stage_dict();
    stage_scale();
    stage_append();
    stage_delta_miniblocks();
    stage_put_repeat();
}

int main(int argc, char** argv) { return mc_main(argc, argv, "enc", enumerate); }
