/* rd.c — C02 (mode c02: what a reader returns does not depend on how the
 * caller consumes it) and C03 (mode c03: fread, mmap and buffer reading are
 * observationally equivalent).  Files come from the reference writer. */
#define _GNU_SOURCE
#include "mc/mc.h"
#include "reftbl.h"
#include <carquet/carquet.h>
#include "reader/reader_internal.h"
#include <stdio.h>
#include <errno.h>
#include <fcntl.h>
#include <stdlib.h>
#include <string.h>
#include <unistd.h>

static ref_arena RA;
static char g_path[300];
static int C03;

static carquet_reader_t* open_mode(int mode, const uint8_t* img, size_t n, int verify, carquet_error_t* err) {
    carquet_reader_options_t o; carquet_reader_options_init(&o); o.verify_checksums = verify != 0;
    if (mode == 3) return carquet_reader_open_buffer(img, n, NULL, NULL);      /* 3, 4: options and error argument omitted (both documented as "may be NULL") */
    if (mode == 4) return carquet_reader_open(g_path, NULL, NULL);
    if (mode == 0) return carquet_reader_open_buffer(img, n, &o, err);
    o.use_mmap = mode == 2; return carquet_reader_open(g_path, &o, err);
}
static void put_file(const uint8_t* img, size_t n) { FILE* f = fopen(g_path, "wb"); if (!f || fwrite(img, 1, n, f) != n) mc_harness_error("cannot write scratch file %s", g_path); fclose(f); }

/* ---- reference cursor ---------------------------------------------------------- */
typedef struct { const ref_coldata* c; int64_t pos, vpos; } cursor_t;
static int64_t cur_nn(const cursor_t* q, int64_t n) { int64_t k = 0; for (int64_t i = 0; i < n; i++) if (q->c->max_def == 0 || q->c->def[q->pos + i] == q->c->max_def) k++; return k; }

/* one read_batch call checked against the cursor; returns false after a failure */
static bool do_read(carquet_column_reader_t* cr, cursor_t* q, int64_t k, bool with_levels, const char* ctx) {
    const ref_coldata* c = q->c; int w = ref_type_width(c->ptype, c->type_length); size_t vs = c->ptype == PT_BYTE_ARRAY ? sizeof(carquet_byte_array_t) : (size_t)w;
    int64_t rem = c->nlevels - q->pos, want = k < rem ? k : rem;
    uint8_t* vb = mc_exact(NULL, vs * (size_t)(k > 0 ? k : 1)); int16_t* db = mc_exact(NULL, sizeof(int16_t) * (size_t)(k > 0 ? k : 1));
    memset(vb, 0xEE, vs * (size_t)(k > 0 ? k : 1)); memset(db, 0x7f, sizeof(int16_t) * (size_t)(k > 0 ? k : 1));
    errno = EBADF; int64_t n = carquet_column_read_batch(cr, vb, k, with_levels ? db : NULL, NULL);
    bool ok = true; char key[160];
    const char* feat = c->max_def ? "nullable" : "required";
    if (n != want) { snprintf(key, sizeof key, "column.read.count.%s", feat); mc_fail(key, "%s: read_batch(%lld) at row %lld returned %lld, expected %lld", ctx, (long long)k, (long long)q->pos, (long long)n, (long long)want); ok = false; }
    else {
        int64_t nn = cur_nn(q, n);
        if (with_levels && c->max_def) for (int64_t i = 0; i < n; i++) if (db[i] != c->def[q->pos + i]) { snprintf(key, sizeof key, "column.read.levels.%s", feat); mc_fail(key, "%s: read_batch(%lld) at row %lld: def[%lld]=%d, expected %d", ctx, (long long)k, (long long)q->pos, (long long)i, db[i], c->def[q->pos + i]); ok = false; break; }
        if (with_levels && !c->max_def) for (int64_t i = 0; i < n; i++) if (db[i] != 0) { mc_fail("column.read.levels.required-not-zero", "%s: def[%lld]=%d for a REQUIRED column", ctx, (long long)i, db[i]); ok = false; break; }
        if (ok) {
            if (c->ptype == PT_BYTE_ARRAY) { carquet_byte_array_t* ba = (carquet_byte_array_t*)vb;
                for (int64_t i = 0; i < nn; i++) if ((uint32_t)ba[i].length != c->strs[q->vpos + i].n || (ba[i].length && memcmp(ba[i].data, c->strs[q->vpos + i].p, (size_t)ba[i].length))) { snprintf(key, sizeof key, "column.read.values.%s", feat); mc_fail(key, "%s: read_batch(%lld) at row %lld: value %lld has %d bytes, expected %u", ctx, (long long)k, (long long)q->pos, (long long)i, ba[i].length, c->strs[q->vpos + i].n); ok = false; break; } }
            else if (nn && memcmp(vb, c->fixed + q->vpos * w, (size_t)nn * (size_t)w)) { snprintf(key, sizeof key, "column.read.values.%s", feat); mc_fail(key, "%s: read_batch(%lld) at row %lld: values %s, expected %s", ctx, (long long)k, (long long)q->pos, mc_hex(vb, (size_t)nn * (size_t)w, 24), mc_hex(c->fixed + q->vpos * w, (size_t)nn * (size_t)w, 24)); ok = false; }
        }
        q->pos += n; q->vpos += nn;
    }
    free(vb); free(db);
    return ok;
}
static bool do_skip(carquet_column_reader_t* cr, cursor_t* q, int64_t k, const char* ctx) {
    int64_t rem = q->c->nlevels - q->pos, want = k < rem ? k : rem; if (k <= 0) want = 0;
    int64_t n = carquet_column_skip(cr, k);
    if (n != want) { mc_fail(q->c->max_def ? "column.skip.count.nullable" : "column.skip.count.required", "%s: skip(%lld) at row %lld returned %lld, expected %lld", ctx, (long long)k, (long long)q->pos, (long long)n, (long long)want); return false; }
    q->vpos += cur_nn(q, n); q->pos += n; return true;
}
static bool check_queries(carquet_column_reader_t* cr, const cursor_t* q, const char* ctx) {
    int64_t rem = q->c->nlevels - q->pos;
    if (carquet_column_remaining(cr) != rem) { mc_fail("column.remaining", "%s: remaining() = %lld at row %lld of %lld", ctx, (long long)carquet_column_remaining(cr), (long long)q->pos, (long long)q->c->nlevels); return false; }
    if (carquet_column_has_next(cr) != (rem > 0)) { mc_fail("column.has_next", "%s: has_next() = %d with %lld rows left", ctx, carquet_column_has_next(cr), (long long)rem); return false; }
    return true;
}

/* layer (i): every history over read/skip for one column chunk */
static uint64_t all_histories(carquet_reader_t* rd, int rg, int ci, const ref_coldata* c, const char* fdesc) {
    int N = (int)c->nlevels; uint64_t ops = 0; carquet_error_t err = CARQUET_ERROR_INIT; char ctx[200];
    uint32_t ncomp = N > 0 ? (1u << (N - 1)) : 1;
    for (uint32_t comp = 0; comp < ncomp; comp++) {
        int parts[64]; int np = N > 0 ? mc_composition(N, comp, parts) : 0;
        for (uint32_t kinds = 0; kinds < (1u << np); kinds++)
            for (int variant = 0; variant < 3; variant++) {      /* 0 plain, 1 zero-size read before every call, 2 last call overshoots / levels omitted on reads */
                carquet_column_reader_t* cr = carquet_reader_get_column(rd, rg, ci, &err);
                if (!cr) { mc_fail("column.open-failed", "%s: code %d %s", fdesc, err.code, err.message); return ops; }
                cursor_t q = { c, 0, 0 }; bool ok = check_queries(cr, &q, "fresh reader");
                snprintf(ctx, sizeof ctx, "comp=0x%x kinds=0x%x variant=%d", comp, kinds, variant);
                mc_desc("%s;hist:%s", fdesc, ctx);
                for (int j = 0; j < np && ok; j++) {
                    if (variant == 1) { ok = do_read(cr, &q, 0, true, ctx) && check_queries(cr, &q, ctx); ops++; if (!ok) break; }
                    int64_t k = parts[j] + ((variant == 2 && j == np - 1) ? 1 : 0);
                    if ((kinds >> j) & 1) ok = do_skip(cr, &q, k, ctx); else ok = do_read(cr, &q, k, variant != 2, ctx);
                    ops++;
                    ok = ok && check_queries(cr, &q, ctx);
                }
                if (ok) { ok = do_read(cr, &q, 3, true, "after end") && do_skip(cr, &q, 2, "after end") && check_queries(cr, &q, "after end"); ops += 2; }
                carquet_column_reader_free(cr);
                if (!ok) return ops;        /* one failing history per file is enough; keys are per symptom */
            }
    }
    return ops;
}

/* layer (ii): explicit-state search; states are digests of the column reader's internal cursor */
static uint64_t reader_digest(const carquet_column_reader_t* r) {
    uint64_t h = 0x77; size_t vs;
    h = mc_mix(h, (uint64_t)r->values_remaining); h = mc_mix(h, r->page_loaded); h = mc_mix(h, (uint64_t)r->current_page);
    h = mc_mix(h, r->has_dictionary); h = mc_mix(h, (uint64_t)r->decoded_ownership * (r->page_loaded ? 1 : 0));
    if (r->page_loaded) {
        h = mc_mix(h, (uint64_t)r->page_num_values); h = mc_mix(h, (uint64_t)r->page_values_read); h = mc_mix(h, (uint64_t)r->page_nonnull_read);
        int nn = r->page_num_values;
        if (r->max_def_level > 0 && r->decoded_def_levels) { nn = 0; for (int i = 0; i < r->page_num_values; i++) { h = mc_mix(h, (uint64_t)r->decoded_def_levels[i]); if (r->decoded_def_levels[i] == r->max_def_level) nn++; } }
        if (r->type == CARQUET_PHYSICAL_BYTE_ARRAY) { const carquet_byte_array_t* ba = (const carquet_byte_array_t*)r->decoded_values; for (int i = 0; i < nn; i++) { h = mc_mix(h, (uint64_t)ba[i].length); if (ba[i].length > 0) h = mc_mix(h, mc_hash(ba[i].data, (size_t)ba[i].length, 1)); } }
        else { vs = r->type == CARQUET_PHYSICAL_BOOLEAN ? 1 : r->type == CARQUET_PHYSICAL_INT96 ? 12 : r->type == CARQUET_PHYSICAL_FIXED_LEN_BYTE_ARRAY ? (size_t)r->type_length : (r->type == CARQUET_PHYSICAL_INT32 || r->type == CARQUET_PHYSICAL_FLOAT) ? 4 : 8; h = mc_mix(h, mc_hash(r->decoded_values, vs * (size_t)nn, 2)); }
    }
    return h;
}
typedef struct { uint8_t ops[96]; int len; uint64_t digest; } xstate_t;
static const struct { int kind; int k; } XOPS[] = { {0,0},{0,1},{0,2},{0,3},{0,5},{0,8},{0,-1},{1,1},{1,4},{2,1},{2,2},{2,7},{2,-1} };   /* kind 0 read with levels, 1 read without levels, 2 skip; k=-1 => N+1 */
#define NXOPS 13
static bool apply_op(carquet_column_reader_t* cr, cursor_t* q, int op, const char* ctx) {
    int64_t k = XOPS[op].k < 0 ? q->c->nlevels + 1 : XOPS[op].k;
    bool ok = XOPS[op].kind == 2 ? do_skip(cr, q, k, ctx) : do_read(cr, q, k, XOPS[op].kind == 0, ctx);
    return ok && check_queries(cr, q, ctx);
}
static void explore_states(carquet_reader_t* rd, int rg, int ci, const ref_coldata* c, const char* fdesc) {
    enum { MAXS = 1024 }; static xstate_t st[MAXS]; int ns = 0, head = 0; carquet_error_t err = CARQUET_ERROR_INIT; uint64_t transitions = 0, partial = 0; char ctx[160];
    carquet_column_reader_t* cr = carquet_reader_get_column(rd, rg, ci, &err); if (!cr) { mc_fail("column.open-failed", "%s", fdesc); return; }
    st[0].len = 0; st[0].digest = reader_digest(cr); ns = 1; carquet_column_reader_free(cr);
    while (head < ns) {
        xstate_t cur = st[head++];
        for (int op = 0; op < NXOPS; op++) {
            cr = carquet_reader_get_column(rd, rg, ci, &err); if (!cr) { mc_fail("column.open-failed", "%s", fdesc); return; }
            cursor_t q = { c, 0, 0 }; bool ok = true;
            for (int i = 0; i < cur.len && ok; i++) ok = apply_op(cr, &q, cur.ops[i], "replay");
            if (!ok) { carquet_column_reader_free(cr); return; }
            if (reader_digest(cr) != cur.digest) mc_harness_error("replay of a recorded history reached a different reader state (%s)", fdesc);
            snprintf(ctx, sizeof ctx, "state#%d(depth %d, row %lld) op=%s(%d)", head - 1, cur.len, (long long)q.pos, XOPS[op].kind == 2 ? "skip" : XOPS[op].kind ? "read-nolevels" : "read", XOPS[op].k);
            mc_desc("%s;bfs:%s", fdesc, ctx);
            ok = apply_op(cr, &q, op, ctx); transitions++;
            if (!ok) { carquet_column_reader_free(cr); mc_count("states", (uint64_t)ns); mc_count("transitions", transitions); return; }
            uint64_t dg = reader_digest(cr); int seen = 0; for (int i = 0; i < ns; i++) if (st[i].digest == dg) { seen = 1; break; }
            if (!seen) { if (ns >= MAXS || cur.len >= 95) mc_harness_error("state table full (%s)", fdesc); st[ns] = cur; st[ns].ops[st[ns].len++] = (uint8_t)op; st[ns].digest = dg; ns++; if (cr->page_loaded && cr->page_values_read > 0 && cr->page_values_read < cr->page_num_values) partial++; }
            carquet_column_reader_free(cr);
        }
    }
    mc_count("states", (uint64_t)ns); mc_count("transitions", transitions); mc_count("states.cursor-inside-page", partial);
}

/* ---- batch reader ------------------------------------------------------------------ */
static int g_polarity = -1;    /* learned: value of the bitmap bit for a NULL row */
typedef struct { ref_buf dump; } sink_t;
static void check_batches(carquet_reader_t* rd, const rfile_t* f, const ref_coldata* cols, int64_t batch_size, const int* proj, int nproj, int by_name, const char* fdesc, ref_buf* dump) {     /* by_name: 0 indices, 1 names, 2 both given (indices take precedence; a different number of names) */
    carquet_batch_reader_config_t cfg; carquet_batch_reader_config_init(&cfg); cfg.batch_size = batch_size; cfg.num_threads = 1;
    int32_t idx[RF_MAXC]; const char* names[RF_MAXC]; static const char* DN[] = { "k1x", "k1", "k", "k1xy" };     /* later names are prefixes of earlier ones: a lookup that matches prefixes picks the wrong column */
    for (int i = 0; i < nproj; i++) { idx[i] = proj[i]; names[i] = f->col[proj[i]].name ? f->col[proj[i]].name : DN[proj[i]]; }
    static const char* other[RF_MAXC + 1]; int nother = 0;
    if (nproj > 0) { if (by_name == 1) { cfg.column_names = names; cfg.num_column_names = nproj; } else { cfg.column_indices = idx; cfg.num_columns = nproj; }
        if (by_name == 2) { if (nproj > 1) { other[0] = names[nproj - 1]; nother = 1; } else { for (int c = 0; c < f->ncols && nother < RF_MAXC; c++) other[nother++] = f->col[c].name ? f->col[c].name : DN[c]; if (nother == nproj) other[nother++] = DN[0]; } cfg.column_names = other; cfg.num_column_names = nother; } }
    int np = nproj > 0 ? nproj : f->ncols; int pr[RF_MAXC]; for (int i = 0; i < np; i++) pr[i] = nproj > 0 ? proj[i] : i;
    carquet_error_t err = CARQUET_ERROR_INIT; carquet_batch_reader_t* br = carquet_batch_reader_create(rd, &cfg, &err);
    char ctx[200]; snprintf(ctx, sizeof ctx, "batch_size=%lld proj=%s[%d,%d,%d]/%d", (long long)batch_size, by_name == 1 ? "names" : by_name == 2 ? "idx+names" : "idx", pr[0], np > 1 ? pr[1] : -1, np > 2 ? pr[2] : -1, np);
    if (!dump) mc_desc("%s;batch:%s", fdesc, ctx);
    if (!br) { mc_fail("batch.create-failed", "%s: code %d %s", ctx, err.code, err.message); return; }
    int nrg = f->nrg ? f->nrg : 1; int64_t total = (int64_t)f->N * nrg, done = 0; int64_t vdone[RF_MAXC] = { 0 }; int guard = 0;
    carquet_row_batch_t* kept[128]; int nkept = 0; uint64_t kept_hash[128];
    for (;;) {
        carquet_row_batch_t* b = NULL; errno = ENOENT; carquet_status_t st = carquet_batch_reader_next(br, &b);
        if (st == CARQUET_ERROR_END_OF_DATA || (st == CARQUET_OK && !b)) break;
        if (st != CARQUET_OK) { mc_fail("batch.next-error", "%s: status %d after %lld rows", ctx, st, (long long)done); break; }
        if (++guard > 4 * (int)total + 8) { mc_fail("batch.no-progress", "%s: more than %d batches", ctx, guard); carquet_row_batch_free(b); break; }
        int64_t rows = carquet_row_batch_num_rows(b);
        if (carquet_row_batch_num_columns(b) != np) mc_fail("batch.num-columns", "%s: %d columns, projected %d", ctx, carquet_row_batch_num_columns(b), np);
        if (rows == 0) { carquet_row_batch_free(b); continue; }
        if (rows > batch_size) mc_fail("batch.too-many-rows", "%s: batch of %lld rows", ctx, (long long)rows);
        uint64_t bh = 0x5151;
        for (int i = 0; i < np; i++) {
            const void* data; const uint8_t* nulls; int64_t cnt;
            if (carquet_row_batch_column(b, i, &data, &nulls, &cnt) != CARQUET_OK) { mc_fail("batch.column-error", "%s col %d", ctx, i); continue; }
            if (cnt != rows) { char key[96]; snprintf(key, sizeof key, "batch.rows-differ-between-columns"); mc_fail(key, "%s: batch at row %lld: column %d has %lld rows, batch has %lld", ctx, (long long)done, i, (long long)cnt, (long long)rows); continue; }
            int ci = pr[i]; int rg = (int)(done / f->N); int64_t off = done % f->N;    /* batches never span row groups */
            if (off + cnt > f->N) { mc_fail("batch.spans-row-groups", "%s: batch at row %lld has %lld rows", ctx, (long long)done, (long long)cnt); continue; }
            const ref_coldata* c = &cols[rg * f->ncols + ci]; int w = ref_type_width(c->ptype, c->type_length); int64_t nn = 0; (void)vdone;
            for (int64_t r = 0; r < cnt; r++) {
                int isnull = c->max_def && c->def[off + r] != c->max_def; int bit = nulls ? (nulls[r >> 3] >> (r & 7)) & 1 : 0;
                if (isnull && g_polarity < 0) g_polarity = bit;
                int p = g_polarity < 0 ? 1 : g_polarity;      /* until a null is seen the documented polarity (bit set = null) cannot be contradicted by present rows only if bit==!p */
                if (g_polarity >= 0 && bit != (isnull ? p : !p)) { mc_fail(c->max_def ? "batch.null-bitmap.nullable" : "batch.null-bitmap.required", "%s: row %lld of column %d: bitmap bit %d, row is %s (polarity learned: null=%d)", ctx, (long long)(done + r), ci, bit, isnull ? "null" : "present", p); break; }
                if (!isnull) nn++;
            }
            int64_t v0 = 0; for (int64_t r = 0; r < off; r++) if (!c->max_def || c->def[r] == c->max_def) v0++;
            if (c->ptype == PT_BYTE_ARRAY) { const carquet_byte_array_t* ba = data; for (int64_t k = 0; k < nn; k++) { if ((uint32_t)ba[k].length != c->strs[v0 + k].n || (ba[k].length && memcmp(ba[k].data, c->strs[v0 + k].p, (size_t)ba[k].length))) { mc_fail("batch.values", "%s: column %d batch at row %lld: value %lld differs", ctx, ci, (long long)done, (long long)k); break; } } }
            else { bh = mc_mix(bh, mc_hash(data, (size_t)nn * (size_t)w, 4)); if (nn && memcmp(data, c->fixed + v0 * w, (size_t)nn * (size_t)w)) mc_fail("batch.values", "%s: column %d batch at row %lld: %s, expected %s", ctx, ci, (long long)done, mc_hex(data, (size_t)nn * (size_t)w, 16), mc_hex(c->fixed + v0 * w, (size_t)nn * (size_t)w, 16)); }
            if (dump) { char tag[64]; snprintf(tag, sizeof tag, "|b@%lld c%d n%lld|", (long long)done, ci, (long long)cnt); ref_buf_put(dump, tag, strlen(tag)); if (nulls) ref_buf_put(dump, nulls, (size_t)(cnt + 7) / 8);
                if (c->ptype == PT_BYTE_ARRAY) { const carquet_byte_array_t* ba = data; for (int64_t k = 0; k < nn; k++) { ref_buf_u32le(dump, (uint32_t)ba[k].length); ref_buf_put(dump, ba[k].data, (size_t)(ba[k].length > 0 ? ba[k].length : 0)); } } else ref_buf_put(dump, data, (size_t)nn * (size_t)w); }
        }
        done += rows;
        if (C03 && nkept < 128) { kept[nkept] = b; kept_hash[nkept] = bh; nkept++; } else carquet_row_batch_free(b);
    }
    if (done != total) mc_fail("batch.total-rows", "%s: batches delivered %lld rows of %lld", ctx, (long long)done, (long long)total);
    /* C03 lifetime: data handed out must stay valid until the reader is closed: re-hash everything now */
    for (int k = 0; k < nkept; k++) {
        carquet_row_batch_t* b = kept[k]; uint64_t bh = 0x5151; int64_t rows = carquet_row_batch_num_rows(b);
        for (int i = 0; i < np; i++) { const void* data; const uint8_t* nulls; int64_t cnt; if (carquet_row_batch_column(b, i, &data, &nulls, &cnt) != CARQUET_OK || cnt != rows) continue;
            int64_t nn = 0; for (int64_t r = 0; r < cnt; r++) if (!nulls || !((nulls[r >> 3] >> (r & 7)) & 1)) nn++;
            const ref_coldata* c = &cols[pr[i]]; int w = ref_type_width(c->ptype, c->type_length);
            if (c->ptype == PT_BYTE_ARRAY) { /* byte-array values point into page buffers of the column reader, not into zero-copy data: not part of the C03 lifetime clause */ }
            else bh = mc_mix(bh, mc_hash(data, (size_t)nn * (size_t)w, 4)); }
        if (bh != kept_hash[k]) mc_fail("batch.data-changed-before-close", "%s: batch %d content changed while later batches were read", ctx, k);
        carquet_row_batch_free(b);
    }
    carquet_batch_reader_free(br);
}

/* ---- C03 dump ---------------------------------------------------------------------- */
static void dump_reader(carquet_reader_t* rd, const rfile_t* f, const ref_coldata* cols, const char* fdesc, ref_buf* d);
static void dump_mode(int mode, int verify, const uint8_t* img, size_t n, const rfile_t* f, const ref_coldata* cols, const char* fdesc, ref_buf* d) {
    carquet_error_t err = CARQUET_ERROR_INIT; carquet_reader_t* rd = open_mode(mode, img, n, verify, &err); char t[128];
    if (!rd) { snprintf(t, sizeof t, "|open failed code=%d|", err.code); ref_buf_put(d, t, strlen(t)); return; }
    dump_reader(rd, f, cols, fdesc, d); carquet_reader_close(rd);
}
static void dump_reader(carquet_reader_t* rd, const rfile_t* f, const ref_coldata* cols, const char* fdesc, ref_buf* d) {
    carquet_error_t err = CARQUET_ERROR_INIT; char t[128];
    errno = ENOENT;      /* the caller's errno is whatever an unrelated earlier call left behind: successful library calls must not read it */
    snprintf(t, sizeof t, "|rows=%lld rg=%d cols=%d|", (long long)carquet_reader_num_rows(rd), carquet_reader_num_row_groups(rd), carquet_reader_num_columns(rd)); ref_buf_put(d, t, strlen(t));
    const carquet_schema_t* sc = carquet_reader_schema(rd);
    for (int i = 0; i < carquet_schema_num_elements(sc); i++) { const carquet_schema_node_t* nd = carquet_schema_get_element(sc, i); snprintf(t, sizeof t, "|el%d %s leaf%d t%d r%d tl%d d%d p%d|", i, carquet_schema_node_name(nd), carquet_schema_node_is_leaf(nd), carquet_schema_node_is_leaf(nd) ? (int)carquet_schema_node_physical_type(nd) : -1, (int)carquet_schema_node_repetition(nd), carquet_schema_node_type_length(nd), carquet_schema_node_is_leaf(nd) ? carquet_schema_node_max_def_level(nd) : -1, carquet_schema_node_is_leaf(nd) ? carquet_schema_node_max_rep_level(nd) : -1); ref_buf_put(d, t, strlen(t)); }
    for (int g = 0; g < carquet_reader_num_row_groups(rd); g++) { carquet_row_group_metadata_t md; if (carquet_reader_row_group_metadata(rd, g, &md) == CARQUET_OK) { snprintf(t, sizeof t, "|rg%d rows%lld b%lld c%lld|", g, (long long)md.num_rows, (long long)md.total_byte_size, (long long)md.total_compressed_size); ref_buf_put(d, t, strlen(t)); } }
    /* column content under every read-size composition (N <= 6), recorded verbatim */
    int nrg = f->nrg > 0 ? f->nrg : f->nrg < 0 ? 0 : 1;
    for (int g = 0; g < nrg; g++) for (int c = 0; c < f->ncols; c++) {
        int N = f->N; uint32_t ncomp = (N > 0 && N <= 6) ? (1u << (N - 1)) : 1; int w = ref_type_width(f->col[c].ptype, f->col[c].tlen);
        for (uint32_t comp = 0; comp < ncomp; comp++) {
            int parts[64]; int np = N > 0 && N <= 60 ? mc_composition(N, N <= 6 ? comp : 0x92492492u, parts) : 0; if (N > 60) continue;      /* long columns: see the whole-chunk reads below */
            carquet_column_reader_t* cr = carquet_reader_get_column(rd, g, c, &err); if (!cr) { snprintf(t, sizeof t, "|col open failed rg%d c%d code%d|", g, c, err.code); ref_buf_put(d, t, strlen(t)); continue; }
            for (int j = 0; j <= np; j++) {
                int64_t k = j < np ? parts[j] : 2; size_t vs = f->col[c].ptype == PT_BYTE_ARRAY ? sizeof(carquet_byte_array_t) : (size_t)w;
                uint8_t* vb = mc_exact(NULL, vs * (size_t)k); int16_t* db = mc_exact(NULL, 2 * (size_t)k); memset(vb, 0, vs * (size_t)k); memset(db, 0, 2 * (size_t)k);
                errno = ENOENT; int64_t n2 = carquet_column_read_batch(cr, vb, k, db, NULL);
                snprintf(t, sizeof t, "|rg%d c%d comp%x read(%lld)=%lld rem%lld|", g, c, comp, (long long)k, (long long)n2, (long long)carquet_column_remaining(cr)); ref_buf_put(d, t, strlen(t));
                if (n2 > 0) { int64_t nn = 0; for (int64_t r = 0; r < n2; r++) if (!f->col[c].opt || db[r] == 1) nn++; ref_buf_put(d, db, 2 * (size_t)n2);
                    if (f->col[c].ptype == PT_BYTE_ARRAY) { carquet_byte_array_t* ba = (carquet_byte_array_t*)vb; for (int64_t q = 0; q < nn; q++) { ref_buf_u32le(d, (uint32_t)ba[q].length); if (ba[q].length > 0 && ba[q].length < 100000) ref_buf_put(d, ba[q].data, (size_t)ba[q].length); } } else ref_buf_put(d, vb, (size_t)nn * (size_t)w); }
                free(vb); free(db);
            }
            carquet_column_reader_free(cr);
        }
        if (N > 6) {      /* one read for the whole chunk (spans every page) and a skip past half of it */
            for (int hist = 0; hist < 2; hist++) { carquet_column_reader_t* cr = carquet_reader_get_column(rd, g, c, &err); if (!cr) continue; size_t vs = f->col[c].ptype == PT_BYTE_ARRAY ? sizeof(carquet_byte_array_t) : (size_t)w;
                int64_t want = N; if (hist) { int64_t sk = carquet_column_skip(cr, N / 2 + 1); snprintf(t, sizeof t, "|rg%d c%d skip(%d)=%lld|", g, c, N / 2 + 1, (long long)sk); ref_buf_put(d, t, strlen(t)); want = N - (N / 2 + 1); }
                uint8_t* vb = mc_exact(NULL, vs * (size_t)(want + 1)); int16_t* db = mc_exact(NULL, 2 * (size_t)(want + 1)); memset(vb, 0, vs * (size_t)(want + 1)); int64_t n2 = carquet_column_read_batch(cr, vb, want, db, NULL);
                snprintf(t, sizeof t, "|rg%d c%d whole read(%lld)=%lld|", g, c, (long long)want, (long long)n2); ref_buf_put(d, t, strlen(t));
                if (n2 > 0) { int64_t nn = 0; for (int64_t r = 0; r < n2; r++) if (!f->col[c].opt || db[r] == 1) nn++; ref_buf_put(d, db, 2 * (size_t)n2);
                    if (f->col[c].ptype == PT_BYTE_ARRAY) { carquet_byte_array_t* ba = (carquet_byte_array_t*)vb; for (int64_t q = 0; q < nn; q++) { ref_buf_u32le(d, (uint32_t)ba[q].length); if (ba[q].length > 0 && ba[q].length < 100000) ref_buf_put(d, ba[q].data, (size_t)ba[q].length); } } else ref_buf_put(d, vb, (size_t)nn * (size_t)w); }
                free(vb); free(db); carquet_column_reader_free(cr); }
        }
    }
    for (int64_t bs = 1; bs <= f->N + 1; bs++) { static const int P01[] = { 0, 1 }, P10[] = { 1, 0 }; if (f->N > 60 && !(bs == 7 || bs == f->N / 2 || bs == f->N || bs == f->N + 1)) continue; snprintf(t, sizeof t, "|batches bs%lld|", (long long)bs); ref_buf_put(d, t, strlen(t));
        check_batches(rd, f, cols, bs, NULL, 0, false, fdesc, d);
        if (f->ncols >= 2) { check_batches(rd, f, cols, bs, P10, 2, false, fdesc, d); check_batches(rd, f, cols, bs, P01, 2, true, fdesc, d); } }
}

/* ---- enumeration -------------------------------------------------------------------- */
/* remaining() / has_next() are queried again after every call in straight-line code, the way an optimising compiler sees a caller's loop: the header must not declare them as
 * functions of their argument value alone (a `const` attribute lets the compiler reuse the first answer) */
static void requery_after_each_call(carquet_reader_t* rd, const ref_coldata* c, const char* fdesc) {
    carquet_error_t err = CARQUET_ERROR_INIT; carquet_column_reader_t* cr = carquet_reader_get_column(rd, 0, 0, &err); if (!cr) return; int64_t N = c->nlevels; if (N < 2) { carquet_column_reader_free(cr); return; }
    int w = ref_type_width(c->ptype, c->type_length); size_t vs = c->ptype == PT_BYTE_ARRAY ? sizeof(carquet_byte_array_t) : (size_t)w; uint8_t* vb = mc_exact(NULL, vs * 2); int16_t db[2];
    int64_t r0 = carquet_column_remaining(cr); bool h0 = carquet_column_has_next(cr);
    int64_t g1 = carquet_column_read_batch(cr, vb, 1, db, NULL);
    int64_t r1 = carquet_column_remaining(cr); bool h1 = carquet_column_has_next(cr);
    int64_t g2 = carquet_column_skip(cr, N - 1);
    int64_t r2 = carquet_column_remaining(cr); bool h2 = carquet_column_has_next(cr);
    if (g1 == 1 && g2 == N - 1 && (r0 != N || r1 != N - 1 || r2 != 0 || !h0 || !h1 || h2)) mc_fail("column.remaining.requeried-in-straight-line-code", "%s: remaining() = %lld, %lld, %lld and has_next() = %d, %d, %d before / after read(1) / after skip(rest) of %lld rows", fdesc, (long long)r0, (long long)r1, (long long)r2, h0, h1, h2, (long long)N);
    free(vb); carquet_column_reader_free(cr);
}
static void c02_file(const rfile_t* f0, uint64_t key, bool deep) {
    if (!mc_next()) return;
    /* by case key: the I/O path (buffer, stdio, mmap, buffer and path with options omitted), the parquet-mr convention for absent levels, a logical-type annotation */
    rfile_t fv = *f0; int iomode = (int)(key % 5); fv.absent_levels_bit_packed = (key / 5) & 1; for (int c = 0; c < fv.ncols; c++) fv.logical[c] = (int)((key / 10 + (uint64_t)c) % 7); const rfile_t* f = &fv;
    const char* fd = rf_desc(f); mc_desc("c02:%s", fd); mc_case_key(key); mc_nontrivial();
    ref_buf img; ref_buf_init(&img); static ref_coldata cols[4 * RF_MAXC]; int np = 0;
    if (rf_build(&RA, f, &img, NULL, 0, &np, cols)) mc_harness_error("reference writer failed: %s", fd);
    uint8_t* x = mc_exact(img.p, img.n); carquet_error_t err = CARQUET_ERROR_INIT; if (iomode != 0 && iomode != 3) put_file(x, img.n);
    carquet_reader_t* rd = open_mode(iomode, x, img.n, 1, &err);
    if (!rd) mc_fail("open.failed", "code %d %s", err.code, err.message);
    else {
        static const char* IOM[] = { "buffer", "stdio", "mmap", "buffer-default-options", "path-default-options" };
        char fdc[640]; snprintf(fdc, sizeof fdc, "c02:%s;io=%s", fd, IOM[iomode]);
        requery_after_each_call(rd, &cols[0], fdc);
        if (f->ncols == 1) { uint64_t ops = all_histories(rd, 0, 0, &cols[0], fdc); mc_count("transitions", ops); mc_count("states", (uint64_t)(f->N + 1)); if (np > 1) mc_count("files.multi-page", 1); if (deep) explore_states(rd, 0, 0, &cols[0], fdc); }
        else {
            int perms[15][3] = { {0,-1,-1},{1,-1,-1},{2,-1,-1},{0,1,-1},{1,0,-1},{0,2,-1},{2,0,-1},{1,2,-1},{2,1,-1},{0,1,2},{0,2,1},{1,0,2},{1,2,0},{2,0,1},{2,1,0} };
            for (int64_t bs = 1; bs <= f->N + 1; bs++) { check_batches(rd, f, cols, bs, NULL, 0, false, fdc, NULL); mc_count("transitions", 1);
                for (int p = 0; p < 15; p++) { int n = perms[p][1] < 0 ? 1 : perms[p][2] < 0 ? 2 : 3; bool fit = true; for (int i = 0; i < n; i++) if (perms[p][i] >= f->ncols) fit = false; if (!fit) continue;
                    check_batches(rd, f, cols, bs, perms[p], n, 0, fdc, NULL); check_batches(rd, f, cols, bs, perms[p], n, 1, fdc, NULL); check_batches(rd, f, cols, bs, perms[p], n, 2, fdc, NULL); mc_count("transitions", 3); } }
        }
        carquet_reader_close(rd);
    }
    if (iomode != 0 && iomode != 3) unlink(g_path);
    free(x); ref_buf_free(&img); ref_arena_free(&RA);
}
static void c03_file(const rfile_t* f0, uint64_t key) {
    if (!mc_next()) return;
    /* stages that leave the hybrid forms at their default cycle through all seven forms (RLE runs only, bit-packed groups only, mixed, short runs, zero-length runs, padded groups, single groups) by case key */
    rfile_t fv = *f0; if (fv.level_form == 0 && fv.index_form == 0) { fv.level_form = (int)(key % REF_H_NFORMS); fv.index_form = (int)((key / REF_H_NFORMS) % REF_H_NFORMS); }
    fv.absent_levels_bit_packed = (key / 49) & 1; for (int c = 0; c < fv.ncols; c++) fv.logical[c] = (int)((key / 98 + (uint64_t)c) % 7);
    { bool dict = false; for (int c = 0; c < fv.ncols; c++) if (fv.enc[c] != ENC_PLAIN) dict = true;      /* dictionary chunks: the three layouts of the two offsets that writers produce (both set; no dictionary_page_offset and data_page_offset at the dictionary page; both set with data_page_offset at the dictionary page) */
      if (dict && fv.dict_offset_present && !fv.data_offset_at_dict) { int lay = (int)((key / 686) % 3); if (lay == 1) { fv.dict_offset_present = false; fv.data_offset_at_dict = true; } else if (lay == 2) fv.data_offset_at_dict = true; } }      /* also by key: the parquet-mr convention for absent levels, logical-type annotations */
    const rfile_t* f = &fv;
    const char* fd = rf_desc(f); mc_desc("c03:%s", fd); mc_case_key(key); mc_nontrivial();
    ref_buf img; ref_buf_init(&img); static ref_coldata cols[4 * RF_MAXC]; int np = 0;
    if (rf_build(&RA, f, &img, NULL, 0, &np, cols)) mc_harness_error("reference writer failed: %s", fd);
    uint8_t* x = mc_exact(img.p, img.n); put_file(x, img.n);
    ref_buf d[8]; char fdc[640]; snprintf(fdc, sizeof fdc, "c03:%s", fd);
    for (int m = 0; m < 3; m++) for (int v = 0; v < 2; v++) { ref_buf_init(&d[m * 2 + v]); g_polarity = -1; dump_mode(m, v, x, img.n, f, cols, fdc, &d[m * 2 + v]); }
    for (int m = 3; m < 5; m++) { ref_buf_init(&d[m + 3]); g_polarity = -1; dump_mode(m, 1, x, img.n, f, cols, fdc, &d[m + 3]); }
    static const char* MN[] = { "buffer", "fread", "mmap", "buffer-default-options", "path-default-options" };
    for (int i = 1; i < 8; i++) if (d[i].n != d[0].n || memcmp(d[i].p, d[0].p, d[0].n)) {
        size_t k = 0; while (k < d[0].n && k < d[i].n && d[0].p[k] == d[i].p[k]) k++;
        size_t tag = k; while (tag > 0 && d[0].p[tag] != '|') tag--; size_t tag0 = tag; while (tag0 > 0 && d[0].p[tag0 - 1] != '|') tag0--;
        char lbl[80]; size_t L = tag - tag0 < 79 ? tag - tag0 : 79; memcpy(lbl, d[0].p + tag0, L); lbl[L] = 0;
        char key2[128]; snprintf(key2, sizeof key2, "modes-differ.%s-vs-buffer.%s", MN[i < 6 ? i / 2 : i - 3], strstr(lbl, "b@") ? "batch-reader" : strstr(lbl, "read(") ? "column-reader" : "metadata");
        mc_fail(key2, "%s(verify=%d) differs from buffer(verify=0) at dump offset %zu near [%s]: %s vs %s", MN[i < 6 ? i / 2 : i - 3], i < 6 ? (i & 1) : 1, k, lbl, mc_hex(d[i].p + (k > 8 ? k - 8 : 0), d[i].n - (k > 8 ? k - 8 : 0), 24), mc_hex(d[0].p + (k > 8 ? k - 8 : 0), d[0].n - (k > 8 ? k - 8 : 0), 24));
        break;
    }
    for (int i = 0; i < 8; i++) ref_buf_free(&d[i]);
    unlink(g_path); free(x); ref_buf_free(&img); ref_arena_free(&RA);
}

/* two readers on the same file alive at the same time, in every ordered pair of I/O paths: the second is read after the first has been closed */
static void c03_two_readers(const rfile_t* f, uint64_t key) {
    if (!mc_next()) return;
    const char* fd = rf_desc(f); mc_desc("c03:two-readers:%s", fd); mc_case_key(key); mc_nontrivial();
    ref_buf img; ref_buf_init(&img); static ref_coldata cols[4 * RF_MAXC]; int np = 0; if (rf_build(&RA, f, &img, NULL, 0, &np, cols)) mc_harness_error("reference writer failed: %s", fd);
    uint8_t* x = mc_exact(img.p, img.n); put_file(x, img.n); char fdc[640]; snprintf(fdc, sizeof fdc, "c03:two-readers:%s", fd);
    ref_buf base; ref_buf_init(&base); g_polarity = -1; dump_mode(0, 1, x, img.n, f, cols, fdc, &base); static const char* MN[] = { "buffer", "fread", "mmap" };
    int fds_before = 0; for (int q = 0; q < 256; q++) if (fcntl(q, F_GETFD) != -1) fds_before++;
    for (int m1 = 0; m1 < 3; m1++) for (int m2 = 0; m2 < 3; m2++) for (int order = 0; order < 2; order++) {
        carquet_error_t e1 = CARQUET_ERROR_INIT, e2 = CARQUET_ERROR_INIT; carquet_reader_t* r1 = open_mode(m1, x, img.n, 1, &e1); carquet_reader_t* r2 = open_mode(m2, x, img.n, 1, &e2);
        if (!r1 || !r2) { mc_fail("two-readers.open-failed", "%s: %s then %s", fdc, MN[m1], MN[m2]); if (r1) carquet_reader_close(r1); if (r2) carquet_reader_close(r2); continue; }
        ref_buf d; ref_buf_init(&d); g_polarity = -1;
        if (order == 0) { carquet_reader_close(r1); dump_reader(r2, f, cols, fdc, &d); carquet_reader_close(r2); }      /* close the first, then use the second */
        else { ref_buf d1; ref_buf_init(&d1); dump_reader(r1, f, cols, fdc, &d1); g_polarity = -1; dump_reader(r2, f, cols, fdc, &d); carquet_reader_close(r2); carquet_reader_close(r1); if (d1.n != base.n || memcmp(d1.p, base.p, base.n)) { char k2[96]; snprintf(k2, sizeof k2, "two-readers.first-differs.%s-with-%s", MN[m1], MN[m2]); mc_fail(k2, "%s", fdc); } ref_buf_free(&d1); }
        if (d.n != base.n || memcmp(d.p, base.p, base.n)) { char k2[96]; snprintf(k2, sizeof k2, "two-readers.second-differs.%s-after-%s-%s", MN[m2], MN[m1], order ? "was-read" : "was-closed"); mc_fail(k2, "%s: the %s reader opened while a %s reader was alive delivers different content (dump %zu vs %zu bytes)", fdc, MN[m2], MN[m1], d.n, base.n); }
        ref_buf_free(&d);
    }
    int fds_after = 0; for (int q = 0; q < 256; q++) if (fcntl(q, F_GETFD) != -1) fds_after++;
    if (fds_after != fds_before) mc_fail("two-readers.descriptors", "%s: %d descriptors open before, %d after all readers were closed", fdc, fds_before, fds_after);
    ref_buf_free(&base); unlink(g_path); free(x); ref_buf_free(&img); ref_arena_free(&RA);
}
static void set_pages(rfile_t* f, int c, int N, uint32_t comp) { int parts[64]; int np = N > 0 ? mc_composition(N, comp, parts) : 0; f->npages[c] = np; for (int i = 0; i < np && i < 8; i++) f->page_levels[c][i] = parts[i]; }
static int popc(uint32_t x) { return __builtin_popcount(x); }

static void enumerate(void) {
    C03 = !strcmp(mc_mode(), "c03");
    const char* sd = getenv("VERIF_SCRATCH"); snprintf(g_path, sizeof g_path, "%s/rd_%d.parquet", sd ? sd : "/dev/shm", (int)getpid());
    rfile_t f;
    static const int TYPES[8] = { PT_INT32, PT_BOOLEAN, PT_BYTE_ARRAY, PT_INT64, PT_INT96, PT_FLOAT, PT_DOUBLE, PT_FLBA };
    if (!C03) {
        mc_rule("C02: files from the reference writer (8 physical types x REQUIRED/OPTIONAL, every null mask, every split of the rows into <= 4 pages, PLAIN and dictionary). Layer (i): for every file EVERY call history - all compositions "
                "of the rows into calls, each call a read or a skip, with/without a zero-size read before every call, with the last call overshooting and level buffers omitted - is executed on a fresh column reader and every call compared with a "
                "reference cursor (count = min(k, remaining), levels, dense values, remaining(), has_next()). Layer (ii): explicit-state BFS over 13 operations, states = digest of the column reader's internal cursor and decoded page, every "
                "transition replayed on a fresh reader (replay digests asserted equal). Batch reader: every batch size 1..N+1 x every ordered projection of <= 3 columns by index and by name. states/transitions count reader positions and checked API calls.");
        int NMAX = mc_thorough() ? 6 : 5;
        mc_stage("c02.single-column.all-masks.all-page-splits.all-histories");
        for (int t = 0; t < 8; t++) for (int opt = 0; opt < 2; opt++) for (int N = 1; N <= NMAX; N++)
            for (uint64_t m = 0; m < (opt ? (1ull << N) : 1); m++) for (uint32_t pc = 0; pc < (1u << (N - 1)); pc++) for (int enc = 0; enc < 2; enc++) {
                if (popc(pc) > 3) continue; if (enc && TYPES[t] == PT_BOOLEAN) continue;
                memset(&f, 0, sizeof f); f.ncols = 1; f.col[0].ptype = TYPES[t]; f.col[0].tlen = TYPES[t] == PT_FLBA ? 3 : 0; f.col[0].opt = opt; f.N = N; f.mask[0] = m; set_pages(&f, 0, N, pc); f.enc[0] = enc ? ENC_RLE_DICT : ENC_PLAIN; f.dict_offset_present = true; f.crc = true; f.level_form = REF_H_MIXED; f.index_form = REF_H_MIXED;
                c02_file(&f, mc_mix(0xc02, ((uint64_t)t << 56) | ((uint64_t)opt << 55) | ((uint64_t)N << 48) | (m << 16) | ((uint64_t)pc << 1) | (uint64_t)enc), N == NMAX && pc == (1u << (N / 2)) );
            }
        mc_stage("c02.codecs.long-columns.explicit-state");
        { static const int CD[] = { CODEC_NONE, CODEC_SNAPPY, CODEC_GZIP, CODEC_ZSTD, CODEC_LZ4_RAW }; static const int NL[] = { 8, 17, 40 };
          for (int t = 0; t < 8; t++) for (int opt = 0; opt < 2; opt++) for (int ni = 0; ni < 3; ni++) for (int cd = 0; cd < 5; cd++) for (int enc = 0; enc < 2; enc++) for (int pgs = 1; pgs <= 5; pgs += 2) {
              if (enc && TYPES[t] == PT_BOOLEAN) continue; if (ni == 0 && cd > 1) continue;
              int N = NL[ni]; memset(&f, 0, sizeof f); f.ncols = 1; f.col[0].ptype = TYPES[t]; f.col[0].tlen = TYPES[t] == PT_FLBA ? 3 : 0; f.col[0].opt = opt; f.N = N; f.mask[0] = opt ? 0x5a5a5a96c3ull & ((1ull << N) - 1) : 0;
              f.npages[0] = pgs; int left = N; for (int p = 0; p < pgs; p++) { int k = p == pgs - 1 ? left : (N / pgs) + (p % 2); f.page_levels[0][p] = k; left -= k; }
              f.enc[0] = enc ? ENC_PLAIN_DICT : ENC_PLAIN; f.codec = CD[cd]; f.dict_offset_present = true; f.crc = true; f.level_form = REF_H_SINGLE_GROUPS; f.index_form = REF_H_BP_ONLY; f.pattern = 0;
              if (!mc_next()) continue;
              const char* fd = rf_desc(&f); mc_desc("c02x:%s", fd); mc_case_key(mc_mix(0xc02b, ((uint64_t)t << 40) | ((uint64_t)opt << 39) | ((uint64_t)ni << 32) | ((uint64_t)cd << 16) | ((uint64_t)enc << 8) | (uint64_t)pgs)); mc_nontrivial();
              ref_buf img; ref_buf_init(&img); static ref_coldata cols[RF_MAXC]; int np = 0; if (rf_build(&RA, &f, &img, NULL, 0, &np, cols)) mc_harness_error("reference writer failed");
              uint8_t* x = mc_exact(img.p, img.n); put_file(x, img.n);
              for (int io = 0; io < 3; io++) { carquet_error_t err = CARQUET_ERROR_INIT; carquet_reader_t* rd = open_mode(io, x, img.n, 1, &err);
                  if (!rd) mc_fail("open.failed", "code %d %s", err.code, err.message); else { char fdc[640]; snprintf(fdc, sizeof fdc, "c02x:%s;io=%d", fd, io); explore_states(rd, 0, 0, &cols[0], fdc); carquet_reader_close(rd); } }
              unlink(g_path); free(x); ref_buf_free(&img); ref_arena_free(&RA);
          } }
        /* chunks of many short pages (2 or 3 rows each, 9..20 pages): one call crosses every number of page boundaries up to the whole chunk */
        mc_stage("c02.many-short-pages.explicit-state");
        { static const int CDM[] = { CODEC_NONE, CODEC_SNAPPY, CODEC_ZSTD }; static const int TM[] = { PT_BYTE_ARRAY, PT_INT32, PT_FLBA };
          for (int t = 0; t < 3; t++) for (int opt = 0; opt < 2; opt++) for (int cd = 0; cd < 3; cd++) for (int enc = 0; enc < 2; enc++) for (int up = 2; up <= 3; up++) for (int N = 27; N <= 40; N += 13) {
              if (!mc_next()) continue;
              memset(&f, 0, sizeof f); f.ncols = 1; f.col[0].ptype = TM[t]; f.col[0].tlen = TM[t] == PT_FLBA ? 3 : 0; f.col[0].opt = opt; f.N = N; f.mask[0] = opt ? 0x5a5a5a96c3ull & ((1ull << N) - 1) : 0; f.uniform_page[0] = up;
              f.enc[0] = enc ? ENC_RLE_DICT : ENC_PLAIN; f.codec = CDM[cd]; f.dict_offset_present = true; f.crc = true; f.level_form = REF_H_MIXED; f.index_form = REF_H_MIXED; f.pattern = 0;
              const char* fd = rf_desc(&f); mc_desc("c02m:%s", fd); mc_case_key(mc_mix(0xc02e, ((uint64_t)t << 40) | ((uint64_t)opt << 39) | ((uint64_t)N << 32) | ((uint64_t)cd << 16) | ((uint64_t)enc << 8) | (uint64_t)up)); mc_nontrivial(); mc_budget_ms(30000);
              ref_buf img; ref_buf_init(&img); static ref_coldata cols[RF_MAXC]; int np = 0; if (rf_build(&RA, &f, &img, NULL, 0, &np, cols)) mc_harness_error("reference writer failed (many short pages)");
              uint8_t* x = mc_exact(img.p, img.n); put_file(x, img.n);
              for (int io = 0; io < 3; io++) { carquet_error_t err = CARQUET_ERROR_INIT; carquet_reader_t* rd = open_mode(io, x, img.n, 1, &err);
                  if (!rd) mc_fail("open.failed", "code %d %s", err.code, err.message);
                  else { char fdc[640]; snprintf(fdc, sizeof fdc, "c02m:%s;io=%d", fd, io); explore_states(rd, 0, 0, &cols[0], fdc);
                         int proj[1] = { 0 }; static const int64_t BSM[] = { 1, 5, 19, 64 }; for (int b = 0; b < 4; b++) check_batches(rd, &f, cols, BSM[b], proj, 1, 0, fdc, NULL);
                         carquet_reader_close(rd); } }
              unlink(g_path); free(x); ref_buf_free(&img); ref_arena_free(&RA);
          } }
        /* pages with 2^15 / 2^16 and more values followed by further pages, consumed through a fixed menu of histories (one call for the
         * whole chunk, calls ending at / one short of / one past the page boundary, blocks of 4096 and 30000, skips over the boundary) */
        mc_stage("c02.long-pages.history-menu");
        { static const int PL[] = { 32767, 32768, 40000, 65535, 65536, 70000 }; static const int CDL[] = { CODEC_NONE, CODEC_SNAPPY };
          for (int pi = 0; pi < 6; pi++) for (int kind = 0; kind < 4; kind++) for (int lay = 0; lay < 2; lay++) for (int cd = 0; cd < 2; cd++) {
              if (!mc_next()) continue;
              int P = PL[pi], N = lay ? P + 1300 : P + 1000; memset(&f, 0, sizeof f); f.ncols = 1; f.N = N; f.nrg = 1; f.codec = CDL[cd]; f.crc = true; f.dict_offset_present = true; f.pattern = kind == 3 ? 0 : 3; f.level_form = REF_H_MIXED; f.index_form = REF_H_MIXED;
              f.col[0].ptype = kind == 2 ? PT_INT64 : kind == 3 ? PT_BYTE_ARRAY : PT_INT32; f.col[0].opt = kind == 1 || kind == 3; f.mask[0] = f.col[0].opt ? 0x1111111111111111ull : 0; f.enc[0] = kind == 3 ? ENC_RLE_DICT : ENC_PLAIN;
              if (lay) { f.npages[0] = 3; f.page_levels[0][0] = 300; f.page_levels[0][1] = P; f.page_levels[0][2] = 1000; } else { f.npages[0] = 2; f.page_levels[0][0] = P; f.page_levels[0][1] = 1000; }
              const char* fd = rf_desc(&f); mc_desc("c02L:%s", fd); mc_case_key(mc_mix(0xc02d, ((uint64_t)pi << 16) | ((uint64_t)kind << 8) | ((uint64_t)lay << 1) | (uint64_t)cd)); mc_nontrivial(); mc_budget_ms(30000);
              ref_buf img; ref_buf_init(&img); static ref_coldata cols[RF_MAXC]; int np = 0; if (rf_build(&RA, &f, &img, NULL, 0, &np, cols)) mc_harness_error("reference writer failed (long pages)");
              uint8_t* x = mc_exact(img.p, img.n); carquet_error_t err = CARQUET_ERROR_INIT; carquet_reader_t* rd = open_mode(0, x, img.n, 1, &err);
              if (!rd) mc_fail("open.failed", "code %d %s", err.code, err.message);
              else {
                  int first = lay ? 300 : 0; int64_t B = first + P;      /* B = row at which the long page ends */
                  const int64_t H[][6] = { { N, 0 }, { N + 5, 0 }, { B, N, 0 }, { B - 1, N, 0 }, { B + 1, N, 0 }, { -4096, 0 }, { -30000, 0 }, { -(1 << 20) - 13, N, 0 }, { -(1 << 20) - B, N, 0 }, { 100, -(1 << 20) - P, N, 0 }, { first ? first : 7, N, 0 }, { -32768, 0 } };
                  /* entries: k > 0 read(k); -(2^20)-k skip(k); other negative: repeat read(|k|) until the end */
                  for (int h = 0; h < 12; h++) {
                      carquet_column_reader_t* cr = carquet_reader_get_column(rd, 0, 0, &err); if (!cr) { mc_fail("column.open-failed", "code %d %s", err.code, err.message); break; }
                      cursor_t q = { &cols[0], 0, 0 }; char ctx[64]; snprintf(ctx, sizeof ctx, "long-pages history %d", h); bool ok = check_queries(cr, &q, ctx);
                      for (int j = 0; ok && j < 6 && H[h][j]; j++) { int64_t k = H[h][j];
                          if (k > 0) ok = do_read(cr, &q, k, (h & 1) == 0, ctx);
                          else if (k <= -(1 << 20)) ok = do_skip(cr, &q, -k - (1 << 20), ctx);
                          else while (ok && q.pos < cols[0].nlevels) ok = do_read(cr, &q, -k, true, ctx);
                          ok = ok && check_queries(cr, &q, ctx); }
                      carquet_column_reader_free(cr); mc_count("transitions", 3);
                  }
                  static const int64_t BS[] = { 0, 4096, 32768, 65536 }; int proj[1] = { 0 };
                  for (int b = 0; b < 4; b++) check_batches(rd, &f, cols, BS[b] ? BS[b] : N, proj, 1, 0, fd, NULL);
                  carquet_reader_close(rd);
              }
              free(x); ref_buf_free(&img); ref_arena_free(&RA);
          } }
        mc_stage("c02.batch-reader.three-columns.all-batch-sizes.all-projections");
        { static const int TR[][3] = { { PT_INT32, PT_BYTE_ARRAY, PT_DOUBLE }, { PT_BOOLEAN, PT_INT64, PT_FLBA }, { PT_FLOAT, PT_INT96, PT_INT32 } };
          for (int tr = 0; tr < 3; tr++) for (int optm = 0; optm < 8; optm++) for (int N = 1; N <= 7; N += 2) for (int pc = 0; pc < 4; pc++) for (int nrg = 1; nrg <= 2; nrg++) for (int cd = 0; cd < 2; cd++) {
              memset(&f, 0, sizeof f); f.ncols = 3; f.N = N; f.nrg = nrg; f.codec = cd ? CODEC_SNAPPY : CODEC_NONE; f.crc = true; f.pattern = 3;
              for (int c = 0; c < 3; c++) { f.col[c].ptype = TR[tr][c]; f.col[c].tlen = TR[tr][c] == PT_FLBA ? 2 : 0; f.col[c].opt = (optm >> c) & 1; f.mask[c] = f.col[c].opt ? (0x2du >> c) & ((1u << N) - 1) : 0; f.enc[c] = ENC_PLAIN;
                  uint32_t comp = pc == 0 ? 0 : pc == 1 ? (1u << (N - 1)) - 1 : pc == 2 ? (0x5u << c) & ((1u << (N - 1)) - 1) : (c == 1 ? (1u << (N - 1)) - 1 : 0); while (popc(comp) > 7) comp &= comp - 1; set_pages(&f, c, N, comp); }
              c02_file(&f, mc_mix(0xc02c, ((uint64_t)tr << 40) | ((uint64_t)optm << 32) | ((uint64_t)N << 24) | ((uint64_t)pc << 16) | ((uint64_t)nrg << 8) | (uint64_t)cd), false);
          } }
        return;
    }
    mc_rule("C03: every file of the enumerated space (column mixes putting zero-copy-eligible REQUIRED fixed-width uncompressed columns next to nullable / byte-array / compressed ones, every page split with pages smaller than the batch, 1-2 row groups) "
            "is opened from a buffer, by path with stdio and by path with mmap, each with verify_checksums on and off; the complete observable behaviour - metadata accessors, column-reader output under every read-size composition, batch-reader output for "
            "every batch size and three projections - is recorded verbatim and compared byte for byte across the six runs; all batches are kept until just before close and re-hashed. Non-trivial = every file; distinct by layout key.");
    mc_stage("c03.column-mixes.all-page-splits");
    { static const int MIX[][2] = { { PT_INT32, PT_INT32 }, { PT_INT64, PT_BYTE_ARRAY }, { PT_DOUBLE, PT_BOOLEAN }, { PT_FLBA, PT_FLOAT }, { PT_INT96, PT_INT64 }, { PT_BYTE_ARRAY, PT_INT32 } };
      int NM = mc_thorough() ? 6 : 5;
      for (int mx = 0; mx < 6; mx++) for (int o1 = 0; o1 < 2; o1++) for (int N = 1; N <= NM; N++) for (uint32_t pa = 0; pa < (1u << (N - 1)); pa++) for (uint32_t pb = 0; pb < (1u << (N - 1)); pb += (mc_thorough() ? 1 : 3))
          for (int cd = 0; cd < 2; cd++) for (int nrg = 1; nrg <= 2; nrg++) {
              if (popc(pa) > 7 || popc(pb) > 7) continue;
              memset(&f, 0, sizeof f); f.ncols = 2; f.N = N; f.nrg = nrg; f.codec = cd ? CODEC_SNAPPY : CODEC_NONE; f.crc = true; f.pattern = 3;
              f.col[0].ptype = MIX[mx][0]; f.col[0].tlen = MIX[mx][0] == PT_FLBA ? 4 : 0; f.col[0].opt = 0; f.col[1].ptype = MIX[mx][1]; f.col[1].tlen = 0; f.col[1].opt = o1; f.mask[1] = o1 ? 0x16u & ((1u << N) - 1) : 0;
              set_pages(&f, 0, N, pa); set_pages(&f, 1, N, pb); f.enc[0] = ENC_PLAIN; f.enc[1] = (mx == 1 && cd) ? ENC_RLE_DICT : ENC_PLAIN; f.dict_offset_present = true;
              c03_file(&f, mc_mix(0xc03, ((uint64_t)mx << 56) | ((uint64_t)o1 << 55) | ((uint64_t)N << 48) | ((uint64_t)pa << 32) | ((uint64_t)pb << 8) | ((uint64_t)cd << 4) | (uint64_t)nrg));
          } }
    mc_stage("c03.many-pages.long-columns");
    for (int t = 0; t < 8; t++) for (int opt = 0; opt < 2; opt++) for (int cd = 0; cd < 2; cd++) for (int v = 0; v < 2; v++) {
        memset(&f, 0, sizeof f); f.ncols = 2; f.N = v ? 3000 : 200; f.nrg = 1; f.codec = cd ? CODEC_SNAPPY : CODEC_NONE; f.crc = true; f.pattern = 3; f.dict_offset_present = true;
        f.col[0].ptype = TYPES[t]; f.col[0].tlen = TYPES[t] == PT_FLBA ? 5 : 0; f.col[0].opt = opt; f.mask[0] = opt ? 0x2d96c3a5a5ull : 0; f.uniform_page[0] = v ? 0 : 2;       /* 100 pages of 2 rows / one page of 3000 rows */
        f.col[1].ptype = PT_INT32; f.uniform_page[1] = v ? 1000 : 50;
        c03_file(&f, mc_mix(0xc03e, ((uint64_t)t << 16) | ((uint64_t)opt << 8) | ((uint64_t)cd << 4) | (uint64_t)v));
    }
    mc_stage("c03.long-page-headers");
    { enum { NLN = 32 }; static uint8_t lb[1100000]; memset(lb, 'q', sizeof lb); static ref_stats ls[NLN];      /* header = 2 x LN + ~30 bytes: around the stdio path's header windows (256 bytes, 8 KiB, 128 KiB, 2 MiB; before the repair 8 KiB and 1 MiB) and beyond */
      static const int LN[NLN] = { 10, 100, 118, 125, 200, 390, 4000, 4070, 4075, 4078, 4079, 4080, 4081, 4082, 4083, 4084, 4085, 4086, 4090, 4100, 5000, 40000, 65500, 65515, 65521, 65530, 524260, 524290, 650000, 1048550, 1048565, 1090000 };
      for (int li = 0; li < NLN; li++) for (int cd = 0; cd < 2; cd++) for (int enc = 0; enc < 2; enc++) {
          if (LN[li] > 60000 && (cd || enc)) continue;
          memset(&ls[li], 0, sizeof ls[li]); ls[li].min_value = (ref_bin){ lb, LN[li], true }; ls[li].max_value = (ref_bin){ lb, LN[li], true }; ls[li].has_null_count = true;
          memset(&f, 0, sizeof f); f.ncols = 2; f.N = 6; f.nrg = 1; f.codec = cd ? CODEC_SNAPPY : CODEC_NONE; f.crc = true; f.dict_offset_present = true;
          f.col[0].ptype = PT_BYTE_ARRAY; f.col[0].opt = 1; f.mask[0] = 0x12; f.enc[0] = enc ? ENC_RLE_DICT : ENC_PLAIN; f.npages[0] = 2; f.page_levels[0][0] = 4; f.page_levels[0][1] = 2; f.page_stats[0] = &ls[li];
          f.col[1].ptype = PT_INT64; f.page_stats[1] = &ls[li];
          c03_file(&f, mc_mix(0xc03d, ((uint64_t)li << 16) | ((uint64_t)cd << 8) | (uint64_t)enc));
      } }
    /* pages that decompress to more bytes than the whole file holds (constant columns), with real matches in the Snappy and LZ4 streams */
    mc_stage("c03.highly-compressible-pages");
    { static const int CD[] = { CODEC_SNAPPY, CODEC_GZIP, CODEC_ZSTD, CODEC_LZ4_RAW };
      for (int t = 0; t < 3; t++) for (int cd = 0; cd < 4; cd++) for (int pgs = 1; pgs <= 3; pgs += 2) for (int opt = 0; opt < 2; opt++) {
          memset(&f, 0, sizeof f); f.ncols = 2; f.N = 5000; f.nrg = 1; f.codec = CD[cd]; f.crc = true; f.dict_offset_present = true; f.pattern = 10 + t;
          f.col[0].ptype = t == 0 ? PT_INT32 : t == 1 ? PT_INT64 : PT_FLBA; f.col[0].tlen = t == 2 ? 12 : 0; f.col[0].opt = opt; f.mask[0] = opt ? 0x8000000000000001ull : 0; f.uniform_page[0] = pgs == 1 ? 0 : 1700; f.col[1].ptype = PT_DOUBLE;
          ref_compress_form = 2; c03_file(&f, mc_mix(0xc03e, ((uint64_t)t << 16) | ((uint64_t)cd << 8) | ((uint64_t)pgs << 1) | (uint64_t)opt)); ref_compress_form = 0;
      } }
    mc_stage("c03.two-readers-alive.every-pair-of-paths");
    { static const int CD[] = { CODEC_NONE, CODEC_SNAPPY };
      for (int cd = 0; cd < 2; cd++) for (int enc = 0; enc < 2; enc++) for (int big = 0; big < 2; big++) {
          memset(&f, 0, sizeof f); f.ncols = 2; f.N = big ? 3000 : 9; f.nrg = big ? 1 : 2; f.codec = CD[cd]; f.crc = true; f.dict_offset_present = true; f.pattern = enc ? 0 : 3;
          f.col[0].ptype = PT_INT64; f.enc[0] = ENC_PLAIN; f.uniform_page[0] = big ? 700 : 4; f.col[1].ptype = PT_BYTE_ARRAY; f.col[1].opt = 1; f.mask[1] = 0x1248; f.enc[1] = enc ? ENC_RLE_DICT : ENC_PLAIN; f.uniform_page[1] = big ? 1000 : 5;
          c03_two_readers(&f, mc_mix(0xc03f, ((uint64_t)cd << 8) | ((uint64_t)enc << 1) | (uint64_t)big));
      } }
    mc_stage("c03.files-without-row-groups");
    for (int nc = 1; nc <= 4; nc++) for (int tf = 0; tf < 4; tf++) for (int kv = 0; kv < 2; kv++) {
        memset(&f, 0, sizeof f); f.ncols = nc; f.N = 0; f.nrg = -1; for (int c = 0; c < nc; c++) { f.col[c].ptype = TYPES[(c * 3 + nc) % 8]; f.col[c].tlen = f.col[c].ptype == PT_FLBA ? 5 : 0; f.col[c].opt = c & 1; }
        f.fl.tform.long_field_headers = tf & 1; f.fl.tform.long_list_headers = (tf >> 1) & 1; f.fl.kv = kv;
        c03_file(&f, mc_mix(0xc03c, ((uint64_t)nc << 16) | ((uint64_t)tf << 8) | (uint64_t)kv));
    }
    mc_stage("c03.all-types.codecs.long");
    { static const int CD[] = { CODEC_NONE, CODEC_SNAPPY, CODEC_GZIP, CODEC_ZSTD, CODEC_LZ4_RAW };
      for (int t = 0; t < 8; t++) for (int opt = 0; opt < 2; opt++) for (int cd = 0; cd < 5; cd++) for (int enc = 0; enc < 2; enc++) for (int pgs = 1; pgs <= 4; pgs++) {
          if (enc && TYPES[t] == PT_BOOLEAN) continue;
          memset(&f, 0, sizeof f); f.ncols = 2; f.N = 23; f.nrg = 2; f.codec = CD[cd]; f.crc = pgs != 2; f.pattern = enc ? 0 : 3;
          f.col[0].ptype = PT_INT64; f.col[0].opt = 0; f.enc[0] = ENC_PLAIN; f.npages[0] = 3; f.page_levels[0][0] = 10; f.page_levels[0][1] = 1; f.page_levels[0][2] = 12;
          f.col[1].ptype = TYPES[t]; f.col[1].tlen = TYPES[t] == PT_FLBA ? 5 : 0; f.col[1].opt = opt; f.mask[1] = opt ? 0x2d96c3u & ((1u << 23) - 1) : 0; f.enc[1] = enc ? ENC_RLE_DICT : ENC_PLAIN; f.dict_offset_present = true;
          f.npages[1] = pgs; int left = 23; for (int p = 0; p < pgs; p++) { int k = p == pgs - 1 ? left : 23 / pgs; f.page_levels[1][p] = k; left -= k; }
          c03_file(&f, mc_mix(0xc03b, ((uint64_t)t << 32) | ((uint64_t)opt << 24) | ((uint64_t)cd << 16) | ((uint64_t)enc << 8) | (uint64_t)pgs));
      } }
}
int main(int argc, char** argv) { return mc_main(argc, argv, "rd", enumerate); }
