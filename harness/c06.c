#define _FILE_OFFSET_BITS 64
/* c06.c — C06: spec-valid files from an independent writer decode to the
 * values stored in them.  Files come from /verif/ref (ref_pq_write); carquet
 * must return exactly the definition levels, repetition levels and values
 * handed to the reference writer; unsupported features must be refused, never
 * decoded to different values. */
#define _GNU_SOURCE
#include "mc/mc.h"
#include "reftbl.h"
#include <carquet/carquet.h>
#include <stdio.h>
#include <unistd.h>
#include <stdlib.h>
#include <string.h>

static ref_arena RA;
enum { D_TYPE, D_CTX, D_CONTENT, D_ENC, D_LFORM, D_IFORM, D_BW, D_PAGES, D_CODEC, D_CRC, D_STATS, D_DOFS, D_UNKNOWN, D_TFORM, D_PATTERN, D_NRG, D_UNSUP, D_LOGICAL, D_ABSENT, ND };
static const int DSZ[ND] = { 8, 8, 12, 3, 7, 7, 7, 4, 9, 2, 7, 2, 33, 4, 7, 2, 10, 7, 2 };
static const char* DN[ND] = { "type", "ctx", "content", "enc", "level_form", "index_form", "index_bw", "pages", "codec", "crc", "stats", "dict_offset", "unknown", "thrift_form", "pattern", "row_groups", "unsupported", "logical_type", "absent_levels_announced_bit_packed" };
static const char* UNSUP[] = { "", "delta-binary-packed", "delta-length-byte-array", "delta-byte-array", "byte-stream-split", "data-page-v2", "bit-packed-levels", "codec-lzo", "codec-brotli", "codec-99" };

/* valid level sequences for a context, enumerated in a fixed order */
typedef struct { int n; int16_t def[8], rep[8]; } lvseq_t;
static int gen_levels(int ctx, int opt, int N, lvseq_t* out, int cap) {
    int D, R, th[3]; rf_ctx_levels(ctx, opt, &D, &R, th); int base = (D + 1) * (R + 1), cnt = 0; long tot = 1; for (int i = 0; i < N; i++) tot *= base;
    for (long c = 0; c < tot; c++) {
        lvseq_t s; s.n = N; long v = c; bool ok = true;
        for (int i = 0; i < N; i++) { int e = (int)(v % base); v /= base; s.def[i] = (int16_t)(e % (D + 1)); s.rep[i] = (int16_t)(e / (D + 1)); }
        for (int i = 0; i < N && ok; i++) { int r = s.rep[i]; if (i == 0 && r) ok = false; if (r > 0 && (s.def[i] < th[r - 1] || s.def[i - 1] < th[r - 1])) ok = false; }
        if (!ok) continue;
        if (cnt < cap) out[cnt] = s; cnt++;
    }
    return cnt;
}

static int g_cform;
static const ref_stats* stat_new(void) { static ref_stats s; s.max_value = (ref_bin){ (const uint8_t*)"\xff\xff\xff\x7f", 4, true }; s.min_value = (ref_bin){ (const uint8_t*)"\x00\x00\x00\x80", 4, true }; s.has_null_count = true; s.null_count = 2; return &s; }
static const ref_stats* stat_old(void) { static ref_stats s; s.max = (ref_bin){ (const uint8_t*)"zz", 2, true }; s.min = (ref_bin){ (const uint8_t*)"", 0, true }; s.has_distinct = true; s.distinct = 3; return &s; }
/* long binary statistics: a page header of about 150 / 330 bytes (a reader must not assume headers fit a small fixed window) */
static uint8_t g_longstat[200];
static const ref_stats* stat_long(int n) { static ref_stats s[2]; ref_stats* r = &s[n > 100]; memset(g_longstat, 'm', sizeof g_longstat); r->max_value = (ref_bin){ g_longstat, n, true }; r->min_value = (ref_bin){ g_longstat, n, true }; r->has_null_count = true; r->null_count = 0; return r; }
static const ref_stats* stat_both(void) { static ref_stats s; s.max = (ref_bin){ (const uint8_t*)"\x09", 1, true }; s.min = (ref_bin){ (const uint8_t*)"\x01", 1, true }; s.max_value = s.max; s.min_value = s.min; s.has_null_count = true; s.has_max_exact = true; s.max_exact = true; s.has_min_exact = true; return &s; }

static void build(const int* ch, rfile_t* f, const lvseq_t* explicit_seq) {
    static const int TY[] = { PT_INT32, PT_BOOLEAN, PT_INT64, PT_INT96, PT_FLOAT, PT_DOUBLE, PT_BYTE_ARRAY, PT_FLBA };
    static lvseq_t cache[RF_NCTX + 1][2][4096]; static int ncache[RF_NCTX + 1][2]; static int16_t ldef[8], lrep[8];
    memset(f, 0, sizeof *f); f->ncols = 1; f->col[0].ptype = TY[ch[D_TYPE]]; f->col[0].tlen = f->col[0].ptype == PT_FLBA ? 3 : 0;
    /* ctx alphabet: 0 flat optional (default), 1 flat required, 2.. nested */
    int ctx = ch[D_CTX] <= 1 ? RF_CTX_FLAT : ch[D_CTX] - 1; f->col[0].opt = ch[D_CTX] == 0; f->ctx[0] = ctx;
    int N = 6;
    if (explicit_seq) { N = explicit_seq->n; memcpy(ldef, explicit_seq->def, sizeof ldef); memcpy(lrep, explicit_seq->rep, sizeof lrep); }
    else {
        int o = f->col[0].opt; if (!ncache[ctx][o]) { ncache[ctx][o] = gen_levels(ctx, o, 5, cache[ctx][o], 4096); if (ncache[ctx][o] > 4096) ncache[ctx][o] = 4096; }
        int n = ncache[ctx][o]; int pick = ch[D_CONTENT] == 0 ? n / 2 : (int)(((long)(ch[D_CONTENT] - 1) * (n - 1)) / 10); const lvseq_t* s = &cache[ctx][o][pick];
        N = 6; for (int i = 0; i < 5; i++) { ldef[i] = s->def[i]; lrep[i] = s->rep[i]; } int D, R, th[3]; rf_ctx_levels(ctx, o, &D, &R, th); ldef[5] = (int16_t)D; lrep[5] = 0;   /* a sixth, fully defined, new record */
    }
    f->N = N; f->defs[0] = ldef; f->reps[0] = lrep;
    f->enc[0] = ch[D_ENC] == 0 ? ENC_PLAIN : ch[D_ENC] == 1 ? ENC_PLAIN_DICT : ENC_RLE_DICT; if (f->col[0].ptype == PT_BOOLEAN) f->enc[0] = ENC_PLAIN;
    static const int FORMS[] = { REF_H_MIXED, REF_H_RLE_ONLY, REF_H_BP_ONLY, REF_H_SHORT_RLE, REF_H_ZERO_RUNS, REF_H_PADDED_ONES, REF_H_SINGLE_GROUPS };
    f->level_form = FORMS[ch[D_LFORM]]; f->index_form = FORMS[ch[D_IFORM]];
    static const int BW[] = { 0, 1, 2, 108, 109, 116, 132 }; f->index_bw_extra = BW[ch[D_BW]];
    switch (ch[D_PAGES]) { case 1: f->npages[0] = 2; f->page_levels[0][0] = N / 2; f->page_levels[0][1] = N - N / 2; break; case 2: f->npages[0] = 3; f->page_levels[0][0] = 1; f->page_levels[0][1] = N - 2; f->page_levels[0][2] = 1; break;
                          case 3: f->npages[0] = N > 8 ? 8 : N; for (int i = 0; i < f->npages[0]; i++) f->page_levels[0][i] = 1; f->page_levels[0][f->npages[0] - 1] += N - f->npages[0]; break; default: break; }
    static const int CD[] = { CODEC_NONE, CODEC_SNAPPY, CODEC_GZIP, CODEC_ZSTD, CODEC_LZ4_RAW, CODEC_SNAPPY, CODEC_ZSTD, CODEC_SNAPPY, CODEC_LZ4_RAW }; f->codec = CD[ch[D_CODEC]]; g_cform = ch[D_CODEC] >= 7 ? 2 : ch[D_CODEC] >= 5;      /* 5, 6: the other valid stream forms (one-literal Snappy, Zstd frame without content size); 7, 8: streams of a greedy matcher (real copies) */
    f->crc = ch[D_CRC] == 0;
    switch (ch[D_STATS]) { case 1: f->chunk_stats[0] = stat_new(); break; case 2: f->chunk_stats[0] = stat_old(); break; case 3: f->chunk_stats[0] = stat_both(); f->page_stats[0] = stat_new(); break; case 4: f->page_stats[0] = stat_both(); break; case 5: f->page_stats[0] = stat_long(60); f->chunk_stats[0] = stat_long(60); break; case 6: f->page_stats[0] = stat_long(150); break; default: break; }
    f->dict_offset_present = ch[D_DOFS] == 0; f->data_offset_at_dict = ch[D_DOFS] == 1;
    if (ch[D_UNKNOWN]) { f->fl.unknown_kind = (ch[D_UNKNOWN] - 1) % 16 + 1; f->fl.unknown_at_end = (ch[D_UNKNOWN] - 1) / 16; }
    f->fl.tform.long_field_headers = ch[D_TFORM] & 1; f->fl.tform.long_list_headers = (ch[D_TFORM] >> 1) & 1; f->fl.created_by = "ref_pq"; f->fl.kv = ch[D_TFORM] >= 2;
    f->logical[0] = ch[D_LOGICAL]; f->absent_levels_bit_packed = ch[D_ABSENT] != 0;
    f->pattern = ch[D_PATTERN] >= 4 ? ch[D_PATTERN] + 6 : ch[D_PATTERN]; f->nrg = ch[D_NRG] ? 2 : 1;      /* 4..6 -> patterns 10..12: values repeating with a period of 1, 2, 3 rows */
    switch (ch[D_UNSUP]) { case 1: f->enc[0] = ENC_DELTA_BINARY; break; case 2: f->enc[0] = ENC_DELTA_LENGTH; break; case 3: f->enc[0] = ENC_DELTA_BYTE_ARRAY; break; case 4: f->enc[0] = ENC_BSS; break; case 5: f->v2 = true; break;
                          case 6: f->level_encoding = ENC_BIT_PACKED; break; default: break; }
}
static bool unsupported_applies(const int* ch, const rfile_t* f) {
    int t = f->col[0].ptype;
    switch (ch[D_UNSUP]) { case 1: return t == PT_INT32 || t == PT_INT64; case 2: case 3: return t == PT_BYTE_ARRAY; case 4: return t != PT_BOOLEAN && t != PT_BYTE_ARRAY; default: return true; }
}

static void verify(const rfile_t* f, const int* ch, const uint8_t* img, size_t n, const ref_coldata* cols, int unsup) {
    char key[200]; carquet_error_t err = CARQUET_ERROR_INIT; carquet_reader_options_t o; carquet_reader_options_init(&o);
    uint8_t* x = mc_exact(img, n);
    /* the three I/O paths in turn (the stdio loaders are separate code); from memory for the first case of each process so that a fault names the simplest path */
    static unsigned turn; int io = (int)(turn++ % 3); static char path[300]; if (!path[0]) { const char* sd = getenv("VERIF_SCRATCH"); snprintf(path, sizeof path, "%s/c06_%d.parquet", sd ? sd : "/dev/shm", (int)getpid()); }
    carquet_reader_t* rd;
    if (io == 0) rd = carquet_reader_open_buffer(x, n, &o, &err);
    else { FILE* pf = fopen(path, "wb"); if (!pf || fwrite(img, 1, n, pf) != n) mc_harness_error("scratch write failed"); fclose(pf); o.use_mmap = io == 2; rd = carquet_reader_open(path, &o, &err); unlink(path); }
    const char* feat = unsup ? UNSUP[unsup] : "supported";
    if (!rd) { if (unsup) mc_outcome("unsupported.rejected-at-open"); else { snprintf(key, sizeof key, "open-failed.%s", ch[D_UNKNOWN] ? "unknown-fields" : ch[D_TFORM] ? "long-headers" : "plain"); mc_fail(key, "code %d %s", err.code, err.message); } free(x); return; }
    int nrg = f->nrg ? f->nrg : 1;
    if (carquet_reader_num_rows(rd) != 0 && carquet_reader_num_row_groups(rd) != nrg) mc_fail("metadata.row-groups", "%d row groups, file has %d", carquet_reader_num_row_groups(rd), nrg);
    for (int g = 0; g < nrg; g++) {
        const ref_coldata* c = &cols[g]; int w = ref_type_width(c->ptype, c->type_length); int64_t N = c->nlevels;
        carquet_column_reader_t* cr = carquet_reader_get_column(rd, g, 0, &err);
        if (!cr) { if (unsup) mc_outcome("unsupported.rejected-at-get-column"); else mc_fail("column.open-failed", "rg %d: code %d %s", g, err.code, err.message); continue; }
        size_t vs = c->ptype == PT_BYTE_ARRAY ? sizeof(carquet_byte_array_t) : (size_t)w; int64_t done = 0, vdone = 0; bool errored = false, wrong = false;
        for (int call = 0; call < 4 && !errored && !wrong; call++) {
            int64_t k = N + 1 - done; if (k <= 0) k = 1;
            uint8_t* vb = mc_exact(NULL, vs * (size_t)k); int16_t* db = mc_exact(NULL, 2 * (size_t)k); int16_t* rb = mc_exact(NULL, 2 * (size_t)k); memset(vb, 0xEE, vs * (size_t)k); memset(db, 0x7f, 2 * (size_t)k); memset(rb, 0x7f, 2 * (size_t)k);
            int64_t got = carquet_column_read_batch(cr, vb, k, db, rb);
            if (got < 0) errored = true;
            else if (got == 0) { free(vb); free(db); free(rb); break; }
            else if (done + got > N) { wrong = true; snprintf(key, sizeof key, "%s.too-many-rows", feat); mc_fail(key, "rg %d: %lld level entries delivered, chunk has %lld", g, (long long)(done + got), (long long)N); }
            else {
                int64_t nn = 0;
                for (int64_t i = 0; i < got && !wrong; i++) {
                    if (db[i] != (c->max_def ? c->def[done + i] : 0)) { wrong = true; snprintf(key, sizeof key, "%s.def-levels.ctx%d", feat, f->ctx[0]); mc_fail(key, "rg %d entry %lld: def %d, stored %d", g, (long long)(done + i), db[i], c->def[done + i]); }
                    else if (rb[i] != (c->max_rep ? c->rep[done + i] : 0)) { wrong = true; snprintf(key, sizeof key, "%s.rep-levels.ctx%d", feat, f->ctx[0]); mc_fail(key, "rg %d entry %lld: rep %d, stored %d", g, (long long)(done + i), rb[i], c->rep[done + i]); }
                    if (c->def[done + i] == c->max_def) nn++;
                }
                if (!wrong) {
                    if (c->ptype == PT_BYTE_ARRAY) { carquet_byte_array_t* ba = (carquet_byte_array_t*)vb; for (int64_t i = 0; i < nn; i++) if ((uint32_t)ba[i].length != c->strs[vdone + i].n || (ba[i].length && memcmp(ba[i].data, c->strs[vdone + i].p, (size_t)ba[i].length))) { wrong = true; snprintf(key, sizeof key, "%s.values.enc%d", feat, f->enc[0]); mc_fail(key, "rg %d value %lld: %d bytes, stored %u bytes", g, (long long)(vdone + i), ba[i].length, c->strs[vdone + i].n); break; } }
                    else if (nn && memcmp(vb, c->fixed + vdone * w, (size_t)nn * (size_t)w)) { wrong = true; snprintf(key, sizeof key, "%s.values.enc%d", feat, f->enc[0]); mc_fail(key, "rg %d: values %s, stored %s", g, mc_hex(vb, (size_t)nn * (size_t)w, 20), mc_hex(c->fixed + vdone * w, (size_t)nn * (size_t)w, 20)); }
                }
                done += got; vdone += nn;
            }
            free(vb); free(db); free(rb);
        }
        /* the level buffers are optional ("may be NULL if not needed"): a second reader of the chunk asks for the values only, in two calls, and gets the same dense values */
        if (!wrong && !errored && done == N && !unsup && N > 0) {
            carquet_column_reader_t* c2 = carquet_reader_get_column(rd, g, 0, &err);
            if (c2) { int64_t k1 = N / 2 + 1; uint8_t* vb = mc_exact(NULL, vs * (size_t)(N + 1)); memset(vb, 0xEE, vs * (size_t)(N + 1)); bool same = true; int64_t doneL = 0, doneV = 0, gsum[2] = { 0, 0 };
                for (int call = 0; call < 2 && same; call++) {      /* byte-array views are valid until the next call on the reader: each call is compared before the next one is made */
                    int64_t k = call == 0 ? k1 : N + 1 - doneL; if (k <= 0) break; int64_t gk = carquet_column_read_batch(c2, vb, k, NULL, NULL); gsum[call] = gk; if (gk < 0 || doneL + gk > N) { same = false; break; }
                    int64_t nn = 0; for (int64_t i = 0; i < gk; i++) if (c->def[doneL + i] == c->max_def) nn++;
                    if (c->ptype == PT_BYTE_ARRAY) { carquet_byte_array_t* ba = (carquet_byte_array_t*)vb; for (int64_t i = 0; same && i < nn; i++) same = (uint32_t)ba[i].length == c->strs[doneV + i].n && (!ba[i].length || !memcmp(ba[i].data, c->strs[doneV + i].p, (size_t)ba[i].length)); }
                    else if (nn) same = !memcmp(vb, c->fixed + doneV * w, (size_t)nn * (size_t)w);
                    doneL += gk; doneV += nn; }
                if (same && doneL != N) same = false;
                if (!same) { snprintf(key, sizeof key, "%s.values-without-level-buffers", feat); mc_fail(key, "rg %d: read_batch(%lld) + read_batch(rest) with def_levels = rep_levels = NULL returned %lld + %lld entries or other values than with level buffers", g, (long long)k1, (long long)gsum[0], (long long)gsum[1]); wrong = true; }
                free(vb); carquet_column_reader_free(c2); }
        }
        if (!wrong) {
            if (done == N && !errored) mc_outcome(unsup ? "unsupported.decoded-correctly" : "decoded");
            else if (errored) { if (unsup) mc_outcome("unsupported.rejected-at-read"); else { snprintf(key, sizeof key, "read-error.%s", f->enc[0] == ENC_PLAIN ? "plain" : (f->dict_offset_present ? "dictionary" : "dictionary.no-dictionary-page-offset")); mc_fail(key, "rg %d: read_batch failed after %lld of %lld entries", g, (long long)done, (long long)N); } }
            else { snprintf(key, sizeof key, "%s.silent-truncation", feat); mc_fail(key, "rg %d: reader reported end of data after %lld of %lld entries without an error", g, (long long)done, (long long)N); }
        }
        carquet_column_reader_free(cr);
    }
    carquet_reader_close(rd); free(x);
}

static void run(const int* ch, int ndev, void* ctxp) {
    (void)ndev; rfile_t f; build(ch, &f, (const lvseq_t*)ctxp);
    if (ch[D_UNSUP] && !unsupported_applies(ch, &f)) { mc_count("skipped.unsupported-feature-not-applicable-to-type", 1); return; }
    if (ch[D_DOFS] && f.enc[0] == ENC_PLAIN) { mc_count("skipped.dict-offset-without-dictionary", 1); }
    ref_buf img; ref_buf_init(&img); static ref_coldata cols[4]; int np = 0;
    if (ch[D_UNSUP] >= 7) f.codec = CODEC_NONE;
    ref_compress_form = g_cform; int wrc = rf_build(&RA, &f, &img, NULL, 0, &np, cols); ref_compress_form = 0;
    if (wrc) mc_harness_error("reference writer failed: %s", rf_desc(&f));
    if (!ch[D_UNSUP]) { ref_file rf; if (ref_pq_read(&RA, img.p, img.n, &rf, REF_RD_CHECK_TOTALS)) mc_harness_error("reference reader rejects the reference writer's file: %s (%s)", rf.err, rf_desc(&f)); }
    if (ch[D_UNSUP] >= 7) {     /* patch the codec id in the footer: uncompressed pages tagged with a codec carquet does not implement */
        /* rebuild with a marker codec is not possible (ref_compress refuses); flip the i32 field value in place: codec NONE is zigzag 0 at a known spot found by re-encoding */
        int want = ch[D_UNSUP] == 7 ? CODEC_LZO : ch[D_UNSUP] == 8 ? CODEC_BROTLI : 99; (void)want;
        ref_file rf; if (ref_pq_read(&RA, img.p, img.n, &rf, 0)) mc_harness_error("reference reader failed");
        for (int g = 0; g < rf.meta.nrg; g++) rf.meta.rgs[g].cols[0].meta.codec = want;
        ref_tval t = ref_meta_file_to_tree(&RA, &rf.meta); ref_buf nb; ref_buf_init(&nb); ref_buf_put(&nb, img.p, rf.footer_start); size_t fs = nb.n; ref_thrift_encode(&t, NULL, &nb); ref_buf_u32le(&nb, (uint32_t)(nb.n - fs)); ref_buf_put(&nb, "PAR1", 4);
        ref_buf_free(&img); img = nb;
    }
    mc_log("file: %s (%zu bytes) %s", rf_desc(&f), img.n, mc_hex(img.p, img.n, 200));
    verify(&f, ch, img.p, img.n, cols, ch[D_UNSUP]);
    ref_buf_free(&img); ref_arena_free(&RA);
}

static void enumerate(void) {
    mc_rule("C06: files written by the independent reference writer. Stage 1: every valid (repetition, definition) level sequence of up to 5/6 entries for each of 8 nesting contexts (flat required/optional, optional group, repeated leaf, 3-level list, "
            "doubly repeated, required>optional>repeated) under three base layouts. Stage 2: every file with at most 3 (quick) / 4 (thorough) of 17 layout dimensions off the default, each deviating dimension over its whole alphabet: physical type (8 incl. INT96), "
            "nesting context, content, value encoding (PLAIN / PLAIN_DICTIONARY / RLE_DICTIONARY), 7 hybrid forms for levels and for indices, index bit width (minimal..32), page split, codec (5 + the one-literal Snappy form, the Zstd frame without content size, and Snappy/LZ4 streams of a greedy matcher with real copies), CRC, statistics (new/deprecated/both/page), "
            "dictionary_page_offset present/absent, unknown Thrift fields (16 kinds x 2 positions in every struct), long-form headers, value pattern, row groups, a logical-type annotation of the leaf (date, time and timestamp in every unit, decimal, integer widths, string/json/enum/bson), the parquet-mr convention of announcing a level the column does not have as BIT_PACKED, and one unsupported feature (4 encodings, data page v2, BIT_PACKED levels, 3 codec ids). "
            "Oracle: carquet_column_read_batch returns exactly the stored def levels, rep levels and dense values; for unsupported features: an error or the correct values, never other values and never a silent end of data. "
            "Every reference file is first validated by the reference reader. Non-trivial = every file; distinct by choice-vector hash.");
    mc_assume("/verif/ref writer and reader follow the Parquet specification; they are cross-checked against each other on every generated file");
    /* stage 1: all valid level sequences per context */
    int NL = mc_thorough() ? 6 : 5; static lvseq_t seqs[600000];
    mc_stage("all-level-sequences.per-context");
    for (int cx = 0; cx < 8; cx++) for (int N = 1; N <= NL; N++) {
        int ctx = cx <= 1 ? RF_CTX_FLAT : cx - 1; int n = gen_levels(ctx, cx == 0, N, seqs, 600000); if (n > 600000) mc_harness_error("sequence table too small");
        for (int i = 0; i < n; i++) for (int base = 0; base < 3; base++) {
            if (!mc_next()) continue;
            int ch[ND]; memset(ch, 0, sizeof ch); ch[D_CTX] = cx; if (base == 1) { ch[D_ENC] = 2; ch[D_TYPE] = 6; ch[D_PATTERN] = 0; } if (base == 2) { ch[D_PAGES] = 3; ch[D_LFORM] = 2; ch[D_CODEC] = 1; }
            char d[160]; int k = 0; for (int q = 0; q < N; q++) k += snprintf(d + k, sizeof d - (size_t)k, "%d.%d ", seqs[i].rep[q], seqs[i].def[q]);
            mc_desc("c06:levels;ctx=%d;n=%d;seq=[%s];base=%d", cx, N, d, base); mc_case_key(mc_mix(0xc06, ((uint64_t)cx << 56) | ((uint64_t)N << 48) | ((uint64_t)i << 8) | (uint64_t)base)); mc_nontrivial();
            run(ch, 0, &seqs[i]);
        }
    }
    mc_deviations(DSZ, ND, mc_thorough() ? 4 : 3, "c06", DN, run, NULL);
    /* pages of 60 000 .. 80 000 bytes (literal and block lengths that need a third length byte), in every codec form */
    mc_stage("large-pages.codec-forms");
    { static const int NN[] = { 15000, 16383, 16384, 16385, 20000 }; static const int CDF[][2] = { { CODEC_NONE, 0 }, { CODEC_SNAPPY, 0 }, { CODEC_SNAPPY, 1 }, { CODEC_GZIP, 0 }, { CODEC_ZSTD, 0 }, { CODEC_ZSTD, 1 }, { CODEC_LZ4_RAW, 0 } };
      for (int ni = 0; ni < 5; ni++) for (int ci = 0; ci < 7; ci++) for (int ty = 0; ty < 2; ty++) for (int enc = 0; enc < 2; enc++) {
          if (!mc_next()) continue;
          rfile_t f; memset(&f, 0, sizeof f); f.ncols = 1; f.N = NN[ni]; f.nrg = 1; f.codec = CDF[ci][0]; f.crc = true; f.dict_offset_present = true; f.pattern = enc ? 0 : 3; f.col[0].ptype = ty ? PT_INT64 : PT_INT32; f.enc[0] = enc ? ENC_RLE_DICT : ENC_PLAIN;
          mc_desc("c06:large-page;n=%d;type=%s;enc=%s;codec=%d;form=%d", f.N, ty ? "i64" : "i32", enc ? "dict" : "plain", CDF[ci][0], CDF[ci][1]); mc_case_key(mc_mix(0xc06b, ((uint64_t)ni << 16) | ((uint64_t)ci << 8) | ((uint64_t)ty << 1) | (uint64_t)enc)); mc_nontrivial(); mc_budget_ms(30000);
          ref_buf img; ref_buf_init(&img); static ref_coldata cols[4]; int np = 0; ref_compress_form = CDF[ci][1]; int wrc = rf_build(&RA, &f, &img, NULL, 0, &np, cols); ref_compress_form = 0; if (wrc) mc_harness_error("reference writer failed (large page)");
          uint8_t* x = mc_exact(img.p, img.n); carquet_error_t err = CARQUET_ERROR_INIT; carquet_reader_t* rd = carquet_reader_open_buffer(x, img.n, NULL, &err);
          if (!rd) mc_fail("large-page.open-failed", "code %d %s", err.code, err.message);
          else { carquet_column_reader_t* cr = carquet_reader_get_column(rd, 0, 0, &err); int w = ty ? 8 : 4;
              if (!cr) mc_fail("large-page.column-open-failed", "code %d %s", err.code, err.message);
              else { uint8_t* vb = mc_exact(NULL, (size_t)w * (size_t)f.N); int64_t got = carquet_column_read_batch(cr, vb, f.N, NULL, NULL);
                  if (got != f.N || memcmp(vb, cols[0].fixed, (size_t)w * (size_t)f.N)) { char key[96]; snprintf(key, sizeof key, "large-page.read.%s.%s", CDF[ci][0] == CODEC_SNAPPY ? "snappy" : CDF[ci][0] == CODEC_ZSTD ? "zstd" : CDF[ci][0] == CODEC_GZIP ? "gzip" : CDF[ci][0] == CODEC_LZ4_RAW ? "lz4" : "uncompressed", CDF[ci][1] ? "alternative-stream-form" : "default-stream-form"); mc_fail(key, "read_batch(%d) returned %lld or wrong values", f.N, (long long)got); }
                  free(vb); carquet_column_reader_free(cr); }
              carquet_reader_close(rd); }
          free(x); ref_buf_free(&img); ref_arena_free(&RA);
      } }
    /* chunks at file offsets beyond 2^31 and 2^32: a sparse file with a hole in front of the second row group */
    mc_stage("chunks-beyond-2GiB-and-4GiB.sparse-files");
    { static const uint64_t GAP[] = { ((uint64_t)1 << 31) - 300, ((uint64_t)1 << 31) + 4096, ((uint64_t)1 << 32) - 300, ((uint64_t)1 << 32) + 4096 };
      for (int gi = 0; gi < 4; gi++) for (int enc = 0; enc < 3; enc++) for (int io = 1; io <= 2; io++) {
          if (!mc_next()) continue;
          rfile_t f; memset(&f, 0, sizeof f); f.ncols = 2; f.N = 12; f.nrg = 2; f.codec = enc == 2 ? CODEC_SNAPPY : CODEC_NONE; f.crc = true; f.dict_offset_present = enc != 0; f.pattern = enc ? 0 : 3; f.col[0].ptype = PT_INT32; f.enc[0] = enc ? ENC_RLE_DICT : ENC_PLAIN; f.col[1].ptype = PT_BYTE_ARRAY; f.col[1].opt = 1; f.mask[1] = 0x124; f.enc[1] = enc ? ENC_PLAIN_DICT : ENC_PLAIN;
          mc_desc("c06:sparse;hole=%llu;enc=%d;io=%s", (unsigned long long)GAP[gi], enc, io == 1 ? "stdio" : "mmap"); mc_case_key(mc_mix(0xc06d, ((uint64_t)gi << 8) | ((uint64_t)enc << 2) | (uint64_t)io)); mc_nontrivial(); mc_budget_ms(60000);
          ref_buf img; ref_buf_init(&img); static ref_coldata cols[8]; int np = 0; ref_pq_gap_before_rg = 1; ref_pq_gap_bytes = GAP[gi]; int wrc = rf_build(&RA, &f, &img, NULL, 0, &np, cols); ref_pq_gap_before_rg = -1; if (wrc) mc_harness_error("reference writer failed (sparse)");
          char path[300]; const char* sd = getenv("VERIF_SCRATCH"); snprintf(path, sizeof path, "%s/c06_sparse_%d.parquet", sd ? sd : "/dev/shm", (int)getpid());
          FILE* pf = fopen(path, "wb"); if (!pf || fwrite(img.p, 1, ref_pq_gap_pos, pf) != ref_pq_gap_pos || fseeko(pf, (off_t)GAP[gi], SEEK_CUR) || fwrite(img.p + ref_pq_gap_pos, 1, img.n - ref_pq_gap_pos, pf) != img.n - ref_pq_gap_pos || fclose(pf)) { mc_count("sparse.file-not-writable", 1); unlink(path); ref_buf_free(&img); ref_arena_free(&RA); continue; }
          carquet_error_t err = CARQUET_ERROR_INIT; carquet_reader_options_t o; carquet_reader_options_init(&o); o.use_mmap = io == 2; carquet_reader_t* rd = carquet_reader_open(path, &o, &err); unlink(path);
          if (!rd) mc_fail("sparse.open-failed", "hole of %llu bytes: code %d %s", (unsigned long long)GAP[gi], err.code, err.message);
          else { for (int g = 0; g < 2; g++) for (int c = 0; c < 2; c++) { const ref_coldata* cd = &cols[g * 2 + c]; carquet_column_reader_t* cr = carquet_reader_get_column(rd, g, c, &err); char key[96]; snprintf(key, sizeof key, "sparse.chunk-beyond-%s.%s", GAP[gi] >= ((uint64_t)1 << 32) - 300 ? "4GiB" : "2GiB", enc ? "dictionary" : "plain");
                  if (!cr) { mc_fail(key, "row group %d column %d: get_column failed: %d %s", g, c, err.code, err.message); continue; }
                  size_t vs = c ? sizeof(carquet_byte_array_t) : 4; uint8_t* vb = mc_exact(NULL, vs * 13); int16_t db[13]; int64_t got = carquet_column_read_batch(cr, vb, 13, db, NULL); bool ok = got == cd->nlevels;
                  if (ok && c == 0) ok = !memcmp(vb, cd->fixed, 4 * (size_t)cd->nvalues); if (ok && c == 1) { carquet_byte_array_t* ba = (carquet_byte_array_t*)vb; for (int64_t i = 0; ok && i < cd->nvalues; i++) ok = (uint32_t)ba[i].length == cd->strs[i].n && (!ba[i].length || !memcmp(ba[i].data, cd->strs[i].p, (size_t)ba[i].length)); }
                  if (!ok) mc_fail(key, "row group %d (%s the hole of %llu bytes) column %d: read_batch returned %lld of %lld entries or other values", g, g ? "behind" : "before", (unsigned long long)GAP[gi], c, (long long)got, (long long)cd->nlevels);
                  free(vb); carquet_column_reader_free(cr); }
              carquet_reader_close(rd); }
          ref_buf_free(&img); ref_arena_free(&RA);
      } }
    /* pages whose values repeat with a short period, compressed by a reference compressor that emits real matches: copy distances of
     * width x period bytes (1..48) with long lengths, in Snappy and LZ4 */
    /* dictionaries of 600..40 000 entries: index bit widths 10..16 (two-byte and three-byte fields at every bit offset), every entry referenced, in the three run forms */
    mc_stage("large-dictionaries.index-widths-10-to-16");
    { static const int NL[] = { 600, 1500, 3000, 5000, 12000, 20000, 40000 }; static const int TL[] = { PT_INT32, PT_INT64 }; static const int IF[] = { REF_H_BP_ONLY, REF_H_MIXED, REF_H_SINGLE_GROUPS };
      for (int ni = 0; ni < 7; ni++) for (int ti = 0; ti < 2; ti++) for (int fi = 0; fi < 3; fi++) for (int pg = 0; pg < 2; pg++) for (int opt = 0; opt < 2; opt++) {
          if (ni >= 4 && (ti || pg || opt) && !mc_thorough()) continue;      /* quick: the largest dictionaries (the reference writer's dictionary search is quadratic) in the three run forms only */
          if (!mc_next()) continue;
          rfile_t f; memset(&f, 0, sizeof f); f.ncols = 1; f.N = NL[ni]; f.nrg = 1; f.codec = CODEC_NONE; f.crc = true; f.dict_offset_present = true; f.pattern = 3; f.col[0].ptype = TL[ti]; f.enc[0] = ENC_RLE_DICT; f.index_form = IF[fi]; f.level_form = REF_H_MIXED;
          f.col[0].opt = opt; f.mask[0] = opt ? 0x8000400020001ull : 0;
          if (pg) { f.npages[0] = 2; f.page_levels[0][0] = f.N / 3 + 1; f.page_levels[0][1] = f.N - f.N / 3 - 1; }
          mc_desc("c06:large-dictionary;n=%d;type=%s;index-form=%d;pages=%d;opt=%d", f.N, ti ? "i64" : "i32", IF[fi], pg + 1, opt); mc_case_key(mc_mix(0xc06d, ((uint64_t)ni << 24) | ((uint64_t)ti << 16) | ((uint64_t)fi << 8) | ((uint64_t)pg << 1) | (uint64_t)opt)); mc_nontrivial(); mc_budget_ms(20000);
          ref_buf img; ref_buf_init(&img); static ref_coldata cols[4]; int np = 0; if (rf_build(&RA, &f, &img, NULL, 0, &np, cols)) mc_harness_error("reference writer failed (large dictionary)");
          uint8_t* x = mc_exact(img.p, img.n); carquet_error_t err = CARQUET_ERROR_INIT; carquet_reader_t* rd = carquet_reader_open_buffer(x, img.n, NULL, &err);
          if (!rd) mc_fail("large-dictionary.open-failed", "code %d %s", err.code, err.message);
          else { carquet_column_reader_t* cr = carquet_reader_get_column(rd, 0, 0, &err); int w = ref_type_width(TL[ti], 0);
              if (!cr) mc_fail("large-dictionary.column-open-failed", "code %d %s", err.code, err.message);
              else { uint8_t* vb = mc_exact(NULL, (size_t)w * (size_t)f.N); int16_t* db = mc_exact(NULL, 2 * (size_t)f.N); int64_t got = carquet_column_read_batch(cr, vb, f.N, db, NULL);
                  if (got != f.N || memcmp(vb, cols[0].fixed, (size_t)w * (size_t)cols[0].nvalues)) { int64_t at = -1; for (int64_t q = 0; q < cols[0].nvalues && at < 0; q++) if (memcmp(vb + q * w, cols[0].fixed + q * w, (size_t)w)) at = q;
                      mc_fail("large-dictionary.read", "read_batch(%d) returned %lld; first wrong value: #%lld of %lld (dictionary of %lld entries)", f.N, (long long)got, (long long)at, (long long)cols[0].nvalues, (long long)cols[0].nvalues); }
                  free(vb); free(db); carquet_column_reader_free(cr); }
              carquet_reader_close(rd); }
          free(x); ref_buf_free(&img); ref_arena_free(&RA);
      } }
    /* a dictionary chunk in which some data pages are PLAIN (what other writers do when the dictionary grows too large, and legal in any order): every subset of
     * three pages, page sizes growing / shrinking / equal, fixed-width and string columns, REQUIRED and OPTIONAL, two codecs, read from a buffer and through mmap,
     * in one call and in calls of 3 */
    mc_stage("dictionary-chunks-with-plain-pages.every-page-subset");
    { static const int PL[3][3] = { { 8, 4, 8 }, { 4, 8, 8 }, { 6, 6, 6 } }; static const int TL[] = { PT_INT32, PT_INT64, PT_BYTE_ARRAY };
      for (unsigned pm = 0; pm < 8; pm++) for (int pl = 0; pl < 3; pl++) for (int ti = 0; ti < 3; ti++) for (int opt = 0; opt < 2; opt++) for (int cd = 0; cd < 2; cd++) for (int io = 0; io < 2; io++) for (int step = 0; step < 2; step++) {
          if (!mc_next()) continue;
          rfile_t f; memset(&f, 0, sizeof f); f.ncols = 1; f.N = PL[pl][0] + PL[pl][1] + PL[pl][2]; f.nrg = 1; f.codec = cd ? CODEC_SNAPPY : CODEC_NONE; f.crc = true; f.dict_offset_present = true; f.pattern = 0; f.col[0].ptype = TL[ti]; f.enc[0] = ENC_RLE_DICT; f.index_form = REF_H_MIXED; f.level_form = REF_H_MIXED;
          f.col[0].opt = opt; f.mask[0] = opt ? 0x21084ull : 0; f.npages[0] = 3; for (int q = 0; q < 3; q++) f.page_levels[0][q] = PL[pl][q]; f.plain_pages[0] = pm;
          mc_desc("c06:dict-with-plain-pages;plain-mask=%u;pages=%d+%d+%d;type=%d;opt=%d;codec=%d;io=%s;step=%d", pm, PL[pl][0], PL[pl][1], PL[pl][2], TL[ti], opt, f.codec, io ? "mmap" : "buffer", step ? 3 : f.N); mc_case_key(mc_mix(0xc06e, ((uint64_t)pm << 24) | ((uint64_t)pl << 20) | ((uint64_t)ti << 16) | ((uint64_t)opt << 8) | ((uint64_t)cd << 4) | ((uint64_t)io << 1) | (uint64_t)step)); mc_nontrivial();
          ref_buf img; ref_buf_init(&img); static ref_coldata cols[4]; int np = 0; if (rf_build(&RA, &f, &img, NULL, 0, &np, cols)) mc_harness_error("reference writer failed (plain pages in a dictionary chunk)");
          uint8_t* x = mc_exact(img.p, img.n); carquet_error_t err = CARQUET_ERROR_INIT; carquet_reader_t* rd = NULL; char path[256]; path[0] = 0;
          if (io) { const char* sd = getenv("VERIF_SCRATCH"); snprintf(path, sizeof path, "%s/c06pp_%d.parquet", sd ? sd : "/dev/shm", (int)getpid()); FILE* fp = fopen(path, "wb"); if (!fp || fwrite(img.p, 1, img.n, fp) != img.n) mc_harness_error("scratch write failed"); fclose(fp); carquet_reader_options_t ro; carquet_reader_options_init(&ro); ro.use_mmap = true; rd = carquet_reader_open(path, &ro, &err); }
          else rd = carquet_reader_open_buffer(x, img.n, NULL, &err);
          if (!rd) mc_fail("dict-with-plain-pages.open-failed", "code %d %s", err.code, err.message);
          else { carquet_column_reader_t* cr = carquet_reader_get_column(rd, 0, 0, &err); int w = TL[ti] == PT_BYTE_ARRAY ? (int)sizeof(carquet_byte_array_t) : ref_type_width(TL[ti], 0);
              if (!cr) mc_fail("dict-with-plain-pages.column-open-failed", "code %d %s", err.code, err.message);
              else { uint8_t* vb = mc_exact(NULL, (size_t)w * (size_t)f.N); int16_t* db = mc_exact(NULL, 2 * (size_t)f.N); int64_t rows = 0, nv = 0; bool bad = false; int st = step ? 3 : f.N;
                  while (rows < f.N && !bad) { int64_t got = carquet_column_read_batch(cr, vb + nv * w, st, opt ? db + rows : NULL, NULL); if (got <= 0) { mc_fail("dict-with-plain-pages.read-stopped", "read_batch(%d) returned %lld after %lld of %d rows", st, (long long)got, (long long)rows, f.N); bad = true; break; }
                      int64_t nv0 = nv; for (int64_t q = 0; q < got; q++) if (!opt || db[rows + q] == 1) nv++; rows += got;
                      /* byte-array views are judged before the next call (they need not outlive it for pages that were decompressed or decoded) */
                      for (int64_t q = nv0; q < nv && q < cols[0].nvalues && !bad; q++) { bool same; if (TL[ti] == PT_BYTE_ARRAY) { const carquet_byte_array_t* b = (const carquet_byte_array_t*)vb + q; same = (size_t)b->length == cols[0].strs[q].n && (b->length == 0 || !memcmp(b->data, cols[0].strs[q].p, (size_t)b->length)); } else same = !memcmp(vb + q * w, cols[0].fixed + q * w, (size_t)w);
                          if (!same) { mc_fail("dict-with-plain-pages.values", "value #%lld of %lld differs from the stored one", (long long)q, (long long)cols[0].nvalues); bad = true; } } }
                  if (!bad) { if (rows != f.N || nv != cols[0].nvalues) mc_fail("dict-with-plain-pages.counts", "%lld rows, %lld values; stored %d rows, %lld values", (long long)rows, (long long)nv, f.N, (long long)cols[0].nvalues);
                      else { for (int64_t q = 0; q < rows && opt; q++) if (db[q] != cols[0].def[q]) { mc_fail("dict-with-plain-pages.def-levels", "row %lld: level %d, stored %d", (long long)q, db[q], cols[0].def[q]); break; } } }
                  free(vb); free(db); carquet_column_reader_free(cr); }
              carquet_reader_close(rd); }
          if (path[0]) remove(path);
          free(x); ref_buf_free(&img); ref_arena_free(&RA);
      } }
    mc_stage("repeating-values.real-matches");
    { static const struct { int pt, tl; const char* n; } TYS[] = { { PT_INT32, 0, "i32" }, { PT_INT64, 0, "i64" }, { PT_DOUBLE, 0, "f64" }, { PT_INT96, 0, "i96" }, { PT_FLBA, 1, "flba1" }, { PT_FLBA, 3, "flba3" }, { PT_FLBA, 5, "flba5" }, { PT_FLBA, 7, "flba7" }, { PT_FLBA, 16, "flba16" } };
      static const int NN[] = { 8, 40, 300, 5000 }; static const int CDF[] = { CODEC_SNAPPY, CODEC_LZ4_RAW };
      for (int ti = 0; ti < 9; ti++) for (int per = 1; per <= 3; per++) for (int ni = 0; ni < 4; ni++) for (int ci = 0; ci < 2; ci++) for (int pg = 0; pg < 2; pg++) {
          if (!mc_next()) continue;
          rfile_t f; memset(&f, 0, sizeof f); f.ncols = 1; f.N = NN[ni]; f.nrg = 1; f.codec = CDF[ci]; f.crc = true; f.dict_offset_present = true; f.pattern = 9 + per; f.col[0].ptype = TYS[ti].pt; f.col[0].tlen = TYS[ti].tl; f.enc[0] = ENC_PLAIN;
          if (pg) { f.npages[0] = 2; f.page_levels[0][0] = f.N / 2 + 1; f.page_levels[0][1] = f.N - f.N / 2 - 1; }
          mc_desc("c06:repeating;n=%d;type=%s;period=%d-rows;codec=%d;pages=%d", f.N, TYS[ti].n, per, CDF[ci], pg + 1); mc_case_key(mc_mix(0xc06c, ((uint64_t)ti << 24) | ((uint64_t)per << 16) | ((uint64_t)ni << 8) | ((uint64_t)ci << 1) | (uint64_t)pg)); mc_nontrivial();
          ref_buf img; ref_buf_init(&img); static ref_coldata cols[4]; int np = 0; ref_compress_form = 2; int wrc = rf_build(&RA, &f, &img, NULL, 0, &np, cols); ref_compress_form = 0; if (wrc) mc_harness_error("reference writer failed (repeating values)");
          uint8_t* x = mc_exact(img.p, img.n); carquet_error_t err = CARQUET_ERROR_INIT; carquet_reader_t* rd = carquet_reader_open_buffer(x, img.n, NULL, &err);
          if (!rd) mc_fail("repeating.open-failed", "code %d %s", err.code, err.message);
          else { carquet_column_reader_t* cr = carquet_reader_get_column(rd, 0, 0, &err); int w = ref_type_width(TYS[ti].pt, TYS[ti].tl);
              if (!cr) mc_fail("repeating.column-open-failed", "code %d %s", err.code, err.message);
              else { uint8_t* vb = mc_exact(NULL, (size_t)w * (size_t)f.N); int64_t got = carquet_column_read_batch(cr, vb, f.N, NULL, NULL);
                  if (got != f.N || memcmp(vb, cols[0].fixed, (size_t)w * (size_t)f.N)) { char key[96]; snprintf(key, sizeof key, "repeating.read.%s", CDF[ci] == CODEC_SNAPPY ? "snappy" : "lz4"); mc_fail(key, "read_batch(%d) returned %lld or wrong values (copy distance %d bytes)", f.N, (long long)got, w * per); }
                  free(vb); carquet_column_reader_free(cr); }
              carquet_reader_close(rd); }
          free(x); ref_buf_free(&img); ref_arena_free(&RA);
      } }
}
int main(int argc, char** argv) { return mc_main(argc, argv, "c06", enumerate); }
