#include "reftbl.h"
#include <stdio.h>
#include <string.h>
#include <limits.h>
static uint8_t g_s300[300];
void rf_value(int ptype, int tlen, int ci, int r, int p, uint8_t* out, ref_str* s) {
    static const int32_t P32[] = { 0, 1, -1, INT32_MIN, INT32_MAX, 42, 1000000 };
    static const int64_t P64[] = { 0, 1, -1, INT64_MIN, INT64_MAX, 4294967296LL, -42 };
    static const uint32_t PF[] = { 0x00000000u, 0x80000000u, 0x3f800000u, 0x7f800000u, 0xff800000u, 0x7fc00000u, 0x7fa00001u, 0xc2f70000u };
    static const uint64_t PD[] = { 0, 0x8000000000000000ull, 0x3ff0000000000000ull, 0x7ff0000000000000ull, 0xfff0000000000000ull, 0x7ff8000000000000ull, 0x7ff4000000000001ull, 0xc05ec00000000000ull };
    static const struct { const char* p; uint32_t n; } SP[] = { { "", 0 }, { "a", 1 }, { (const char*)g_s300, 300 }, { "\x00", 1 }, { "\xff\xfe", 2 }, { "hello", 5 }, { "ab", 2 } };
    if (!g_s300[0]) memset(g_s300, 'L', 300);
    /* pattern 3: every row distinct (tags); patterns 0..2: small pools so dictionaries have repeats; patterns 10+q: the tags of pattern 3 repeating with a period of q+1 rows */
    if (p >= 10) { r = r % (p - 9); p = 3; }
    unsigned k = (unsigned)(r * (p == 2 ? 3 : 1) + p * 2 + ci);
    switch (ptype) {
    case PT_BOOLEAN: out[0] = (uint8_t)((p == 1 ? 1 : (r ^ (r >> 1) ^ ci)) & 1); break;
    case PT_INT32: if (p == 3) { int32_t v = 1000 + r * 7 + ci; memcpy(out, &v, 4); } else memcpy(out, &P32[k % 7], 4); break;
    case PT_INT64: if (p == 3) { int64_t v = 100000000000LL + r * 7 + ci; memcpy(out, &v, 8); } else memcpy(out, &P64[k % 7], 8); break;
    case PT_INT96: for (int i = 0; i < 12; i++) out[i] = (uint8_t)(p == 3 ? (r * 13 + i + ci) : ((k % 3) * 85 + i * (k % 3))); break;
    case PT_FLOAT: if (p == 3) { float v = (float)r + 0.5f; memcpy(out, &v, 4); } else memcpy(out, &PF[k % 8], 4); break;
    case PT_DOUBLE: if (p == 3) { double v = (double)r * 1.25 - 3; memcpy(out, &v, 8); } else memcpy(out, &PD[k % 8], 8); break;
    case PT_FLBA: for (int i = 0; i < tlen; i++) out[i] = (uint8_t)(p == 3 ? (r * 37 + i * 11 + ci + 1) : ((k % 3) * 100 + i)); break;
    default: if (p == 3) { static char b[64][16]; static int q; char* o = b[q++ & 63]; s->n = (uint32_t)sprintf(o, "v%d_%d", r, ci); s->p = (const uint8_t*)o; } else { s->p = (const uint8_t*)SP[k % 7].p; s->n = SP[k % 7].n; } break;
    }
}
/* chains: rep codes of the groups above the leaf, then the leaf's own repetition (0 req, 1 opt, 2 repeated) */
static const int CHAIN[RF_NCTX][4] = { { -1 }, { 1, 0, -1 }, { 1, 1, -1 }, { 2, -1 }, { 1, 2, 1, -1 }, { 2, 2, -1 }, { 0, 1, 2, -1 } };
void rf_ctx_levels(int ctx, int opt, int* md, int* mr, int th[3]) {
    int d = 0, r = 0; th[0] = th[1] = th[2] = 0;
    if (ctx == RF_CTX_FLAT) { *md = opt ? 1 : 0; *mr = 0; return; }
    for (int i = 0; CHAIN[ctx][i] >= 0; i++) { if (CHAIN[ctx][i] == 1) d++; else if (CHAIN[ctx][i] == 2) { d++; r++; th[r - 1] = d; } }
    *md = d; *mr = r;
}
void rf_column(ref_arena* a, const rfile_t* f, int ci, int rg, ref_coldata* o) {
    if (f->ctx[ci] != RF_CTX_FLAT || f->defs[ci]) {
        int w = ref_type_width(f->col[ci].ptype, f->col[ci].tlen); int N = f->N, th[3];
        memset(o, 0, sizeof *o); o->ptype = f->col[ci].ptype; o->type_length = f->col[ci].tlen; rf_ctx_levels(f->ctx[ci], f->col[ci].opt, &o->max_def, &o->max_rep, th); o->nlevels = N;
        o->def = ref_alloc(a, sizeof(int16_t) * (size_t)(N + 1)); o->rep = ref_alloc(a, sizeof(int16_t) * (size_t)(N + 1));
        o->fixed = ref_alloc(a, (size_t)(w ? w : 1) * (size_t)(N + 1)); o->strs = ref_alloc(a, sizeof(ref_str) * (size_t)(N + 1));
        for (int r = 0; r < N; r++) {
            o->def[r] = f->defs[ci] ? f->defs[ci][r] : (int16_t)o->max_def; o->rep[r] = f->reps[ci] ? f->reps[ci][r] : 0; if (o->def[r] != o->max_def) continue;
            ref_str s = { 0, 0 }; rf_value(o->ptype, o->type_length, ci, r + rg * N, f->pattern, o->fixed + o->nvalues * (w ? w : 1), &s);
            if (o->ptype == PT_BYTE_ARRAY) { uint8_t* cp = ref_alloc(a, s.n + 1); memcpy(cp, s.p, s.n); o->strs[o->nvalues].p = cp; o->strs[o->nvalues].n = s.n; }
            o->nvalues++;
        }
        return;
    }
    int w = ref_type_width(f->col[ci].ptype, f->col[ci].tlen); int N = f->N;
    memset(o, 0, sizeof *o); o->ptype = f->col[ci].ptype; o->type_length = f->col[ci].tlen; o->max_def = f->col[ci].opt; o->nlevels = N;
    o->def = ref_alloc(a, sizeof(int16_t) * (size_t)(N + 1)); o->rep = ref_alloc(a, sizeof(int16_t) * (size_t)(N + 1));
    o->fixed = ref_alloc(a, (size_t)(w ? w : 1) * (size_t)(N + 1)); o->strs = ref_alloc(a, sizeof(ref_str) * (size_t)(N + 1));
    for (int r = 0; r < N; r++) {
        bool null = f->col[ci].opt && ((f->mask[ci] >> (r & 63)) & 1); o->def[r] = f->col[ci].opt ? (null ? 0 : 1) : 0; if (null) continue;
        ref_str s = { 0, 0 }; rf_value(o->ptype, o->type_length, ci, r + rg * N, f->pattern, o->fixed + o->nvalues * (w ? w : 1), &s);
        if (o->ptype == PT_BYTE_ARRAY) { uint8_t* cp = ref_alloc(a, s.n + 1); memcpy(cp, s.p, s.n); o->strs[o->nvalues].p = cp; o->strs[o->nvalues].n = s.n; }
        o->nvalues++;
    }
}
/* logical-type annotations per physical type: INT32 date, time(ms,utc), int(8,signed), decimal(9,2), int(16,unsigned), int(32,unsigned); INT64 timestamp(ms,utc), timestamp(us), timestamp(ns,utc), time(us), time(ns,utc), int(64,signed);
 * BYTE_ARRAY string, json, enum, bson; FLBA decimal(precision by width) */
static void rf_logical(int ptype, int k, ref_schema_elem* e) {
    if (k <= 0) return; ref_logical* l = &e->logical; memset(l, 0, sizeof *l);
    switch (ptype) {
    case PT_INT32: switch ((k - 1) % 6) { case 0: l->id = 6; break; case 1: l->id = 7; l->unit = 1; l->utc = true; break; case 2: l->id = 10; l->bit_width = 8; l->is_signed = true; break; case 3: l->id = 5; l->precision = 9; l->scale = 2; break; case 4: l->id = 10; l->bit_width = 16; break; default: l->id = 10; l->bit_width = 32; break; } break;
    case PT_INT64: switch ((k - 1) % 6) { case 0: l->id = 8; l->unit = 1; l->utc = true; break; case 1: l->id = 8; l->unit = 2; break; case 2: l->id = 8; l->unit = 3; l->utc = true; break; case 3: l->id = 7; l->unit = 2; break; case 4: l->id = 7; l->unit = 3; l->utc = true; break; default: l->id = 10; l->bit_width = 64; l->is_signed = true; break; } break;
    case PT_BYTE_ARRAY: { static const int ID[] = { 1, 12, 4, 13 }; l->id = ID[(k - 1) % 4]; break; }
    case PT_FLBA: l->id = 5; l->precision = e->type_length >= 4 ? 9 : 2; l->scale = 0; break;
    default: return;
    }
    e->has_logical = true;
}
int rf_build(ref_arena* a, const rfile_t* f, ref_buf* img, ref_pageinfo* pages, int maxpages, int* npages, ref_coldata* cols) {
    int nrg = f->nrg > 0 ? f->nrg : f->nrg < 0 ? 0 : 1;
    ref_schema_elem* sc = ref_alloc(a, sizeof(ref_schema_elem) * (size_t)(f->ncols * 4 + 1)); int ns = 1;
    sc[0].name = (ref_bin){ (const uint8_t*)"schema", 6, true }; sc[0].has_num_children = true; sc[0].num_children = f->ncols;
    static const char* DN[] = { "k1x", "k1", "k", "k1xy" };     /* later names are prefixes of earlier ones: a lookup that matches prefixes picks the wrong column */
    for (int c = 0; c < f->ncols; c++) {
        int leafrep = f->col[c].opt ? 1 : 0;
        if (f->ctx[c] != RF_CTX_FLAT) {
            int len = 0; while (CHAIN[f->ctx[c]][len] >= 0) len++;
            for (int i = 0; i < len - 1; i++) { ref_schema_elem* g = &sc[ns++]; char* nm = ref_alloc(a, 16); sprintf(nm, "g%d_%d", c, i); g->name = (ref_bin){ (const uint8_t*)nm, (int32_t)strlen(nm), true }; g->has_rep = true; g->rep = CHAIN[f->ctx[c]][i]; g->has_num_children = true; g->num_children = 1; }
            leafrep = CHAIN[f->ctx[c]][len - 1];
        }
        ref_schema_elem* e = &sc[ns++]; const char* nm = f->col[c].name ? f->col[c].name : DN[c]; e->name = (ref_bin){ (const uint8_t*)nm, (int32_t)strlen(nm), true };
        e->has_type = true; e->type = f->col[c].ptype; e->has_rep = true; e->rep = leafrep; if (f->col[c].ptype == PT_FLBA) { e->has_type_length = true; e->type_length = f->col[c].tlen; }
        rf_logical(f->col[c].ptype, f->logical[c], e);
    }
    ref_chunk_layout* L = ref_alloc(a, sizeof(ref_chunk_layout) * (size_t)(nrg * f->ncols)); int64_t* rows = ref_alloc(a, sizeof(int64_t) * (size_t)nrg);
    for (int g = 0; g < nrg; g++) { rows[g] = f->N;
        for (int c = 0; c < f->ncols; c++) { rf_column(a, f, c, g, &cols[g * f->ncols + c]); ref_chunk_layout* l = &L[g * f->ncols + c];
            l->codec = f->codec; l->value_encoding = f->enc[c]; l->plain_page_mask = f->plain_pages[c]; l->npages = f->npages[c]; memcpy(l->page_levels, f->page_levels[c], sizeof l->page_levels); l->uniform_page_levels = f->uniform_page[c]; l->level_form = f->level_form; l->index_form = f->index_form; l->index_bw_extra = f->index_bw_extra;
            if (c == 0) { int64_t r0 = 0; for (int64_t i = 0; i < cols[g * f->ncols].nlevels; i++) if (cols[g * f->ncols].max_rep == 0 || cols[g * f->ncols].rep[i] == 0) r0++; rows[g] = r0; }
            l->chunk_stats = f->chunk_stats[c]; l->page_stats = f->page_stats[c]; l->crc = f->crc; l->dict_offset_present = f->dict_offset_present; l->data_offset_at_dict = f->data_offset_at_dict; l->v2 = f->v2; l->level_encoding = f->level_encoding; l->absent_levels_bit_packed = f->absent_levels_bit_packed; } }
    ref_write_req rq; memset(&rq, 0, sizeof rq); rq.schema = sc; rq.nschema = ns; rq.nleaves = f->ncols; rq.nrg = nrg; rq.rg_rows = rows; rq.cols = cols; rq.layouts = L; rq.fl = f->fl;
    return ref_pq_write(a, &rq, img, pages, maxpages, npages);
}
const char* rf_desc(const rfile_t* f) {
    static char b[2][600]; static int r; char* o = b[r++ & 1]; int k = 0;
    static const char* T[] = { "bool", "i32", "i64", "i96", "f32", "f64", "str", "flba" };
    k += snprintf(o + k, 600 - (size_t)k, "cols=");
    for (int c = 0; c < f->ncols; c++) { k += snprintf(o + k, 600 - (size_t)k, "%s%s%s/e%d/m0x%llx/x%d", c ? "," : "", T[f->col[c].ptype], f->col[c].opt ? "?" : "", f->enc[c], (unsigned long long)f->mask[c], f->ctx[c]);
        if (f->defs[c]) { k += snprintf(o + k, 600 - (size_t)k, "/L"); for (int r = 0; r < f->N && k < 560; r++) k += snprintf(o + k, 600 - (size_t)k, "%d.%d,", f->reps[c] ? f->reps[c][r] : 0, f->defs[c][r]); }
        k += snprintf(o + k, 600 - (size_t)k, "/p");
        if (f->uniform_page[c]) k += snprintf(o + k, 600 - (size_t)k, "every%d", f->uniform_page[c]); else if (!f->npages[c]) k += snprintf(o + k, 600 - (size_t)k, "1"); for (int p = 0; p < f->npages[c] && !f->uniform_page[c]; p++) k += snprintf(o + k, 600 - (size_t)k, "%s%d", p ? "+" : "", f->page_levels[c][p]); }
    snprintf(o + k, 600 - (size_t)k, ";n=%d;rg=%d;codec=%d;crc=%d;lf=%d;if=%d;bwx=%d;pat=%d;dofs=%d%d;v2=%d;lenc=%d%s;tf=%d%d;unk=%d%s", f->N, f->nrg > 0 ? f->nrg : f->nrg < 0 ? 0 : 1, f->codec, f->crc, f->level_form, f->index_form, f->index_bw_extra, f->pattern,
             f->dict_offset_present, f->data_offset_at_dict, f->v2, f->level_encoding, f->absent_levels_bit_packed ? "+absent-bp" : "", f->fl.tform.long_field_headers, f->fl.tform.long_list_headers, f->fl.unknown_kind, f->fl.unknown_at_end ? "e" : "");
    return o;
}
