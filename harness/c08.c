/* c08.c — C08: component decoders are safe on arbitrary bytes and respect
 * capacities.  Every decoding entry point below the file layer is driven
 * directly with (i) all short byte strings, (ii) all short token sequences
 * over per-format token alphabets, (iii) the distance-1 mutation ball around
 * valid encodings, (iv) container-nesting and payload-free-count families;
 * crossed with bit widths, requested counts and output capacities.  Inputs and
 * outputs are exact-size heap blocks under ASan; the allocator is interposed
 * so that "failure never leaves memory allocated" is measured. */
#define _GNU_SOURCE
#include "mc/mc.h"
#include "mc/fault.h"
#include "ref/ref.h"
#include "ref/ref_thrift.h"
#include "cq_decl.h"
#include "thrift/parquet_types.h"
#include <stdio.h>
#include <stdlib.h>
#include <string.h>

static ref_arena RA;
enum { DEC_META, DEC_PAGEHDR, DEC_RLE_ALL, DEC_RLE_LEVELS, DEC_RLE_PREFIXED, DEC_RLE_STREAM, DEC_PLAIN, DEC_DELTA32, DEC_DELTA64, DEC_DLBA, DEC_DBA, DEC_BSS, DEC_DICT,
       DEC_SNAPPY, DEC_LZ4, DEC_GZIP, DEC_ZSTD, NDEC };
static const char* DNAME[NDEC] = { "thrift-file-metadata", "thrift-page-header", "rle-decode-all", "rle-decode-levels", "rle-decode-levels-prefixed", "rle-stream-decoder", "plain", "delta-int32", "delta-int64",
                                   "delta-length-byte-array", "delta-byte-array", "byte-stream-split", "dictionary", "snappy", "lz4", "gzip", "zstd" };
static const int BW[] = { 0, 1, 2, 3, 7, 8, 9, 15, 16, 17, 31, 32, 33, 64, 255 };
static const int CNT_SMALL[] = { 0, 1, 7, 8, 9, 33 };
static const int CNT_BIG[] = { 1023, 1024, 1025, 1500, 2048, 2049, 4095, 4096, 4097, 5000 };      /* around internal tile / scratch sizes */
static const int* CNT = CNT_SMALL;
static int g_bw_n = 15, g_cnt_n = 6;
static char g_cur[200];

static void leak_check(const char* dec, long live_before, bool failed) {
    long live = mcf_live();
    if (live != live_before) { char key[128]; snprintf(key, sizeof key, "%s.memory-left-allocated.%s", dec, failed ? "after-failure" : "after-success"); mc_fail(key, "%s: %ld blocks outstanding after the call (%ld before)", g_cur, live, live_before); }
}
#define CHECK_RANGE(dec, cond, ...) do { if (!(cond)) { char key_[128]; snprintf(key_, sizeof key_, "%s.reported-size-exceeds-capacity", dec); mc_fail(key_, __VA_ARGS__); } } while (0)

static void run_decoder_in(int d, uint8_t* in, size_t n);
static void run_decoder(int d, const uint8_t* bytes, size_t n) {
    uint8_t* in = mc_exact(bytes, n);          /* exact-size: any over-read is a heap-buffer-overflow */
    run_decoder_in(d, in, n); free(in);
    /* the encodings whose decoders contain vector code: once more with the input ending at a PROT_NONE page - vector loads through compiler builtins
     * (masked loads) are not instrumented by the address sanitizer, a fault is */
    if (d >= DEC_RLE_ALL && d <= DEC_DICT) { static mc_arena_t GA; static bool ga; if (!ga) { mc_arena_init(&GA, 1 << 18); ga = true; } if (n <= (1 << 17)) { uint8_t* g = mc_arena_tail(&GA, n); if (n) memcpy(g, bytes, n); run_decoder_in(d, g, n); } }
}
static void run_decoder_in(int d, uint8_t* in, size_t n) {
    const char* dn = DNAME[d]; long lb;
    switch (d) {
    case DEC_META: {
        carquet_arena_t ar; parquet_file_metadata_t m; carquet_error_t err = CARQUET_ERROR_INIT; lb = mcf_live(); mcf_on();
        { carquet_arena_t a2; parquet_file_metadata_t m2; if (carquet_arena_init(&a2) == CARQUET_OK) { (void)parquet_parse_file_metadata(in, n, &a2, &m2, NULL); carquet_arena_destroy(&a2); } }      /* the error argument is optional */
        if (carquet_arena_init(&ar) == CARQUET_OK) { carquet_status_t st = parquet_parse_file_metadata(in, n, &ar, &m, &err); if (st != CARQUET_OK && (err.code == CARQUET_OK || !memchr(err.message, 0, sizeof err.message))) mc_fail("thrift-file-metadata.error-contract", "%s: status %d but error struct code %d", g_cur, st, err.code); carquet_arena_destroy(&ar); }
        mcf_off(); leak_check(dn, lb, true); break; }
    case DEC_PAGEHDR: {
        parquet_page_header_t h; size_t used = 0; carquet_error_t err = CARQUET_ERROR_INIT; lb = mcf_live(); mcf_on();
        carquet_status_t st = parquet_parse_page_header(in, n, &h, &used, &err);
        { parquet_page_header_t h2; size_t u2 = 0; carquet_status_t s2 = parquet_parse_page_header(in, n, &h2, &u2, NULL); if ((s2 == CARQUET_OK) != (st == CARQUET_OK)) mc_fail("thrift-page-header.verdict-depends-on-error-argument", "%s: status %d with an error struct, %d without", g_cur, st, s2); }
        mcf_off();
        if (st == CARQUET_OK) CHECK_RANGE(dn, used <= n, "%s: bytes_read %zu of %zu", g_cur, used, n);
        leak_check(dn, lb, st != CARQUET_OK); break; }
    case DEC_RLE_ALL: case DEC_RLE_LEVELS: case DEC_RLE_PREFIXED: case DEC_RLE_STREAM:
        for (int bi = 0; bi < g_bw_n; bi++) for (int ci = 0; ci < g_cnt_n; ci++) {
            int bw = BW[bi]; int64_t cnt = CNT[ci]; lb = mcf_live(); mcf_on(); int64_t r = 0;
            if (d == DEC_RLE_ALL) { uint32_t* out = mc_exact(NULL, (size_t)cnt * 4); r = carquet_rle_decode_all(in, n, bw, out, cnt); free(out); }
            else if (d == DEC_RLE_LEVELS) { int16_t* out = mc_exact(NULL, (size_t)cnt * 2); r = carquet_rle_decode_levels(in, n, bw, out, cnt); free(out); }
            else if (d == DEC_RLE_PREFIXED) { int16_t* out = mc_exact(NULL, (size_t)cnt * 2); size_t used = 0; r = carquet_rle_decode_levels_prefixed(in, n, bw, out, cnt, &used); if (r >= 0) CHECK_RANGE(dn, used <= n, "%s bw=%d: consumed %zu of %zu", g_cur, bw, used, n); free(out); }
            else { carquet_rle_decoder_t dec; carquet_rle_decoder_init(&dec, in, n, bw); uint32_t* out = mc_exact(NULL, (size_t)cnt * 4); int64_t got = 0;
                   if (cnt > 2) { got += carquet_rle_decoder_get_batch(&dec, out, 2); got += carquet_rle_decoder_skip(&dec, 1); if (carquet_rle_decoder_has_next(&dec)) { (void)carquet_rle_decoder_get(&dec); got++; } got += carquet_rle_decoder_get_batch(&dec, out, cnt - got > 0 ? cnt - got : 0); } else got = carquet_rle_decoder_get_batch(&dec, out, cnt);
                   r = got > cnt ? cnt + 1 : got; free(out); }
            mcf_off(); CHECK_RANGE(dn, r <= cnt, "%s bw=%d count=%lld: returned %lld", g_cur, bw, (long long)cnt, (long long)r); leak_check(dn, lb, r < cnt);
        }
        break;
    case DEC_PLAIN:
        for (int t = 0; t < 8; t++) for (int ci = 0; ci < g_cnt_n; ci++) {
            int64_t cnt = CNT[ci]; int tl = t == 7 ? 3 : 0; size_t vs = t == 0 ? 1 : t == 1 || t == 4 ? 4 : t == 2 || t == 5 ? 8 : t == 3 ? 12 : t == 6 ? sizeof(carquet_byte_array_t) : 3;
            void* out = mc_exact(NULL, vs * (size_t)cnt); lb = mcf_live(); mcf_on(); int64_t r = carquet_decode_plain(in, n, (carquet_physical_type_t)t, tl, out, cnt); mcf_off();
            if (r >= 0) { CHECK_RANGE(dn, (size_t)r <= n, "%s type=%d count=%lld: consumed %lld of %zu", g_cur, t, (long long)cnt, (long long)r, n);
                if (t == 6) { carquet_byte_array_t* ba = out; for (int64_t i = 0; i < cnt; i++) if (ba[i].length < 0 || (ba[i].length > 0 && (ba[i].data < in || ba[i].data + ba[i].length > in + n))) { mc_fail("plain.byte-array-outside-input", "%s count=%lld: value %lld points outside the input", g_cur, (long long)cnt, (long long)i); break; } } }
            leak_check(dn, lb, r < 0); free(out);
        }
        break;
    case DEC_DELTA32: case DEC_DELTA64:
        for (int ci = 0; ci < g_cnt_n; ci++) { int32_t cnt = CNT[ci]; size_t used = 0; lb = mcf_live(); mcf_on(); carquet_status_t st;
            if (d == DEC_DELTA32) { int32_t* out = mc_exact(NULL, (size_t)cnt * 4); st = carquet_delta_decode_int32(in, n, out, cnt, &used); free(out); } else { int64_t* out = mc_exact(NULL, (size_t)cnt * 8); st = carquet_delta_decode_int64(in, n, out, cnt, &used); free(out); }
            mcf_off(); if (st == CARQUET_OK) CHECK_RANGE(dn, used <= n, "%s count=%d: consumed %zu of %zu", g_cur, cnt, used, n); leak_check(dn, lb, st != CARQUET_OK); }
        break;
    case DEC_DLBA: case DEC_DBA:
        for (int ci = 1; ci < g_cnt_n; ci++) for (int wk = 0; wk < 3; wk++) { int32_t cnt = CNT[ci]; size_t used = 0; carquet_byte_array_t* out = mc_exact(NULL, sizeof(carquet_byte_array_t) * (size_t)cnt); size_t wn = wk == 0 ? 0 : wk == 1 ? 5 : 4096; uint8_t* work = mc_exact(NULL, wn);
            if (d == DEC_DLBA && wk) { free(out); free(work); continue; }
            lb = mcf_live(); mcf_on(); carquet_status_t st = d == DEC_DLBA ? carquet_delta_length_decode(in, n, out, cnt, &used) : carquet_delta_strings_decode(in, n, out, cnt, work, wn, &used); mcf_off();
            if (st == CARQUET_OK) { CHECK_RANGE(dn, used <= n, "%s count=%d: consumed %zu of %zu", g_cur, cnt, used, n);
                for (int32_t i = 0; i < cnt; i++) { const uint8_t* lo = d == DEC_DLBA ? in : work; size_t ln = d == DEC_DLBA ? n : wn; if (out[i].length < 0 || (out[i].length > 0 && (out[i].data < lo || out[i].data + out[i].length > lo + ln))) { char key[96]; snprintf(key, sizeof key, "%s.value-outside-buffer", dn); mc_fail(key, "%s count=%d work=%zu: value %d (length %d) lies outside the %s", g_cur, cnt, wn, i, out[i].length, d == DEC_DLBA ? "input" : "work buffer"); break; } } }
            leak_check(dn, lb, st != CARQUET_OK); free(out); free(work); }
        break;
    case DEC_BSS:
        for (int w = 0; w < 4; w++) for (int ci = 0; ci < g_cnt_n; ci++) { int64_t cnt = CNT[ci]; int width = w == 0 ? 4 : w == 1 ? 8 : w == 2 ? 3 : 17; uint8_t* out = mc_exact(NULL, (size_t)width * (size_t)cnt); lb = mcf_live(); mcf_on(); carquet_status_t st;
            if (w == 0) st = carquet_byte_stream_split_decode_float(in, n, (float*)out, cnt); else if (w == 1) st = carquet_byte_stream_split_decode_double(in, n, (double*)out, cnt); else st = carquet_byte_stream_split_decode(in, n, width, out, cnt);
            mcf_off(); leak_check(dn, lb, st != CARQUET_OK); free(out); }
        break;
    case DEC_DICT:
        /* the input is the index stream; dictionaries of 1, 3 and 256 entries */
        for (int dc = 0; dc < 3; dc++) for (int t = 0; t < 4; t++) for (int ci = 0; ci < g_cnt_n; ci++) { int32_t dcount = dc == 0 ? 1 : dc == 1 ? 3 : 256; int w = (t == 0 || t == 2) ? 4 : 8; int64_t cnt = CNT[ci];
            uint8_t* dict = mc_exact(NULL, (size_t)w * (size_t)dcount); memset(dict, 0x42, (size_t)w * (size_t)dcount); uint8_t* out = mc_exact(NULL, (size_t)w * (size_t)cnt); lb = mcf_live(); mcf_on(); carquet_status_t st;
            switch (t) { case 0: st = carquet_dictionary_decode_int32(dict, (size_t)w * (size_t)dcount, dcount, in, n, (int32_t*)out, cnt); break; case 1: st = carquet_dictionary_decode_int64(dict, (size_t)w * (size_t)dcount, dcount, in, n, (int64_t*)out, cnt); break;
                         case 2: st = carquet_dictionary_decode_float(dict, (size_t)w * (size_t)dcount, dcount, in, n, (float*)out, cnt); break; default: st = carquet_dictionary_decode_double(dict, (size_t)w * (size_t)dcount, dcount, in, n, (double*)out, cnt); break; }
            mcf_off(); leak_check(dn, lb, st != CARQUET_OK); free(dict); free(out); }
        break;
    default:
        /* fixed capacities, then capacities around the stream's own decoded size (learnt from the largest run): exact, one short, and 1, 3, 7 bytes of slack */
        { size_t CAP[10] = { 70000, 0, 1, 8, 70 }; int ncap = 5;
        for (int ci = 0; ci < ncap; ci++) { size_t cap = CAP[ci]; uint8_t* out = mc_exact(NULL, cap); size_t on = 0; lb = mcf_live(); mcf_on(); int st;
            if (d == DEC_SNAPPY) st = (int)carquet_snappy_decompress(in, n, out, cap, &on); else if (d == DEC_LZ4) st = (int)carquet_lz4_decompress(in, n, out, cap, &on); else if (d == DEC_GZIP) st = carquet_gzip_decompress(in, n, out, cap, &on); else st = carquet_zstd_decompress(in, n, out, cap, &on);
            mcf_off(); if (st == 0) CHECK_RANGE(dn, on <= cap, "%s capacity=%zu: reported %zu", g_cur, cap, on); leak_check(dn, lb, st != 0); free(out);
            if (ci == 0 && st == 0 && on > 0 && on < 70000) { CAP[ncap++] = on; CAP[ncap++] = on - 1; CAP[ncap++] = on + 1; CAP[ncap++] = on + 3; CAP[ncap++] = on + 7; mc_count("codec-streams.decoded-at-natural-capacity", 1); } } }
        break;
    }
}

static void one(int d, const uint8_t* b, size_t n, const char* what, uint64_t key) {
    if (!mc_next()) return;
    snprintf(g_cur, sizeof g_cur, "%s:%s:%s", DNAME[d], what, mc_hex(b, n, 24));
    mc_desc("c08:%s", g_cur); mc_feature("%s", DNAME[d]); mc_case_key(mc_mix(key, (uint64_t)d)); if (n) mc_nontrivial();
    mc_budget_ms(400 + (unsigned)(n / 64));
    run_decoder(d, b, n);
}

/* ---- token alphabets --------------------------------------------------------------- */
typedef struct { const char* p; int n; } tok_t;
#define T(s) { s, (int)sizeof(s) - 1 }
static const tok_t TOK_RLE[] = { T("\x00"), T("\x02"), T("\x0e"), T("\x10"), T("\x12"), T("\xfe\xff\xff\xff\x0f"), T("\x01"), T("\x03"), T("\x05"), T("\xff\xff\xff\xff\x0f"), T("\x80"), T("\xff\xff\xff\xff\xff\x01"), T("\x00\x00"), T("\x01\x00"), T("\xff"), T("\xaa\x55\xaa") };
static const tok_t TOK_DELTA[] = { T("\x80\x01"), T("\x00"), T("\x01"), T("\x04"), T("\x08"), T("\x81\x01"), T("\x05"), T("\x20"), T("\x21"), T("\x3f"), T("\x40"), T("\x41"), T("\xff"), T("\xff\xff\xff\xff\x0f"), T("\xff\xff\xff\xff\xff\xff\xff\xff\xff\x01"), T("\x80"), T("\x00\x00\x00\x00"), T("\x02") };
static const tok_t TOK_SNAPPY[] = { T("\x00"), T("\x04"), T("\x00\x41"), T("\x0c\x41\x42\x43\x44"), T("\xf0"), T("\xf4\x05"), T("\xf8\x05\x00"), T("\xfc\xff\xff\xff\xff"), T("\x01"), T("\x01\x01"), T("\x1d\x04"), T("\x02"), T("\x02\x01\x00"), T("\xfe\x01\x00"), T("\x03"), T("\x03\x01\x00\x00\x00"), T("\xff\xff\xff\xff\x0f"), T("\x80"), T("\x02\x00\x00"), T("\x05\x00") };
static const tok_t TOK_LZ4[] = { T("\x00"), T("\x10\x41"), T("\x40\x41\x42\x43\x44"), T("\xf0"), T("\xf0\x00"), T("\xf0\xff"), T("\xf0\xff\xff\x00"), T("\x01"), T("\x0f"), T("\x1f\x41"), T("\x01\x00"), T("\x00\x00"), T("\xff\xff"), T("\x08\x00"), T("\xff"), T("\x00\xff\xff\x00"), T("\x41\x42\x43\x44\x45"), T("\x11\x41\x01\x00") };
/* LZ4 / Snappy with enough history for far matches (offset >= 8) whose copy ends at the end of the output */
static const tok_t TOK_LZ4X[] = { T("\x00"), T("\x10\x41"), T("\x40\x41\x42\x43\x44"), T("\xf0"), T("\xf0\x00"), T("\xf0\xff"), T("\xf0\xff\xff\x00"), T("\x01"), T("\x0f"), T("\x1f\x41"), T("\x01\x00"), T("\x00\x00"), T("\xff\xff"), T("\x08\x00"), T("\xff"), T("\x00\xff\xff\x00"), T("\x41\x42\x43\x44\x45"), T("\x11\x41\x01\x00"),
                                  T("\x80" "ABCDEFGH"), T("\x95" "ABCDEFGHI" "\x09\x00"), T("\x09\x00"), T("\x8f" "ABCDEFGH" "\x08\x00\x00") };
static const tok_t TOK_SNAPPYX[] = { T("\x00"), T("\x04"), T("\x00\x41"), T("\x0c\x41\x42\x43\x44"), T("\xf0"), T("\xf4\x05"), T("\xf8\x05\x00"), T("\xfc\xff\xff\xff\xff"), T("\x01"), T("\x01\x01"), T("\x1d\x04"), T("\x02"), T("\x02\x01\x00"), T("\xfe\x01\x00"), T("\x03"), T("\x03\x01\x00\x00\x00"), T("\xff\xff\xff\xff\x0f"), T("\x80"), T("\x02\x00\x00"), T("\x05\x00"),
                                     T("\x0d"), T("\x11"), T("\x1c" "ABCDEFGH"), T("\x05\x08"), T("\x22\x08\x00"),
                                     T("\xfc\x03\x00\x00\x80"), T("\xfc\xff\xff\xff\x7f"), T("\xf8\xff\xff\xff"), T("\xf4\xff\xff") };      /* literal lengths with the top bit of the last length byte set / clear */
static const tok_t TOK_THRIFT[] = { T("\x00"), T("\x15"), T("\x15\x02"), T("\x16\x02"), T("\x18\x01\x41"), T("\x18\xff\xff\xff\xff\x0f"), T("\x19"), T("\x19\x1c"), T("\x19\xfc\xff\xff\xff\x0f"), T("\x19\xf5\xff\xff\xff\x07"), T("\x1c"), T("\x2c"), T("\x1b"), T("\x1b\x01\x55"), T("\x1b\xff\xff\xff\xff\x0f\x88"), T("\x11"), T("\x12"),
                                    T("\x05\x80\x80\x01"), T("\x1d"), T("\x17"), T("\x29\x1c"), T("\x49\x1c"), T("\x48\x00"), T("\x35\x00"), T("\x19\x10"), T("\x19\x00"), T("\x1a\x1b"), T("\xff"), T("\x80\x80\x80\x80\x80\x80\x80\x80\x80\x80\x01"), T("\x2c\x15\x00\x00"),
                                    T("\x68\xff\xff\xff\xff\xff\xff\xff\xff\xff\x01"), T("\x18\xff\xff\xff\xff\xff\xff\xff\xff\xff\x01"), T("\x18\xfd\xff\xff\xff\xff\xff\xff\xff\xff\x01"), T("\x18\xf5\xff\xff\xff\xff\xff\xff\xff\xff\x01"), T("\xfc") };      /* binary lengths 2^64-1, -3, -11 (ten-byte varints: position + length wraps), a struct in an unknown field */
static const tok_t TOK_PLAIN[] = { T("\x00\x00\x00\x00"), T("\x01\x00\x00\x00"), T("\x41"), T("\xff\xff\xff\xff"), T("\xff\xff\xff\x7f"), T("\x00\x00\x00\x80"), T("\x05\x00\x00\x00"), T("\x41\x42\x43\x44\x45"), T("\x00"), T("\xff") };

static void token_sequences(int d, const tok_t* al, int na, int maxlen, uint64_t salt, const char* prefix, int prefix_n) {
    uint8_t buf[128]; int idx[6];
    for (int len = 1; len <= maxlen; len++) {
        long tot = 1; for (int i = 0; i < len; i++) tot *= na;
        for (long c = 0; c < tot; c++) {
            long v = c; int n = 0; if (prefix_n) { memcpy(buf, prefix, (size_t)prefix_n); n = prefix_n; }
            for (int i = 0; i < len; i++) { idx[i] = (int)(v % na); v /= na; memcpy(buf + n, al[idx[i]].p, (size_t)al[idx[i]].n); n += al[idx[i]].n; }
            char what[48]; snprintf(what, sizeof what, "tokens[%d]#%ld", len, c);
            one(d, buf, (size_t)n, what, mc_mix(salt, ((uint64_t)len << 40) | (uint64_t)c));
        }
    }
}

/* ---- valid seeds and their distance-1 mutation ball ---------------------------------- */
static void mutation_ball(int d, const uint8_t* s, size_t n, const char* seedname, uint64_t salt) {
    uint8_t* m = malloc(n + 2); char what[64]; static const uint8_t SUB[] = { 0x00, 0x01, 0x7f, 0x80, 0xff };
    snprintf(what, sizeof what, "seed[%s]", seedname); one(d, s, n, what, mc_mix(salt, 0));
    for (size_t cut = 0; cut < n; cut++) { snprintf(what, sizeof what, "seed[%s].truncate@%zu", seedname, cut); one(d, s, cut, what, mc_mix(salt, 0x1000000ull + cut)); }
    for (size_t i = 0; i < n; i++) {
        for (int k = 0; k < 7; k++) { uint8_t nv = k < 5 ? SUB[k] : k == 5 ? (uint8_t)(s[i] ^ 1) : (uint8_t)(s[i] + 1); if (nv == s[i]) continue; memcpy(m, s, n); m[i] = nv; snprintf(what, sizeof what, "seed[%s].sub@%zu=%02x", seedname, i, nv); one(d, m, n, what, mc_mix(salt, 0x2000000ull + i * 8 + (uint64_t)k)); }
        memcpy(m, s, i); memcpy(m + i, s + i + 1, n - i - 1); snprintf(what, sizeof what, "seed[%s].delete@%zu", seedname, i); one(d, m, n - 1, what, mc_mix(salt, 0x3000000ull + i));
        for (int k = 0; k < 3; k++) { memcpy(m, s, i); m[i] = k == 0 ? 0x00 : k == 1 ? 0xff : 0x80; memcpy(m + i + 1, s + i, n - i); snprintf(what, sizeof what, "seed[%s].insert@%zu=%02x", seedname, i, m[i]); one(d, m, n + 1, what, mc_mix(salt, 0x4000000ull + i * 4 + (uint64_t)k)); }
    }
    free(m);
}
static void seeds_and_balls(void) {
    ref_buf b; ref_buf_init(&b); char nm[48];
    /* hybrid streams in every reference form */
    static const uint32_t V1[] = { 1, 0, 1, 1, 1, 1, 1, 1, 1, 1, 1, 0, 0, 2, 3, 3, 3, 3, 3, 3, 3, 3, 3 };
    for (int f = 0; f < REF_H_NFORMS; f++) for (int bw = 2; bw <= 9; bw += 7) {
        ref_buf_clear(&b); ref_hybrid_encode(V1, 23, bw, f, &b); snprintf(nm, sizeof nm, "hybrid-%s-bw%d", ref_hybrid_form_name[f], bw);
        for (int d = DEC_RLE_ALL; d <= DEC_RLE_STREAM; d++) { if (d == DEC_RLE_PREFIXED) { ref_buf p; ref_buf_init(&p); ref_buf_u32le(&p, (uint32_t)b.n); ref_buf_put(&p, b.p, b.n); mutation_ball(d, p.p, p.n, nm, 0x801 + (uint64_t)f * 16 + (uint64_t)bw); ref_buf_free(&p); } else mutation_ball(d, b.p, b.n, nm, 0x800 + (uint64_t)d * 1000 + (uint64_t)f * 16 + (uint64_t)bw); }
        ref_buf p; ref_buf_init(&p); ref_buf_u8(&p, (uint8_t)bw); ref_buf_put(&p, b.p, b.n); mutation_ball(DEC_DICT, p.p, p.n, nm, 0x8100 + (uint64_t)f * 16 + (uint64_t)bw); ref_buf_free(&p);
    }
    /* delta streams */
    static const int64_t DV[][9] = { { 7, 8, 9, 10, 11, 12, 13, 14, 15 }, { 0, 1000000, -5, 2147483647LL, -2147483648LL, 3, 3, 3, 3 }, { 1, 4611686018427387904LL, -1, 0, 9223372036854775807LL, 0, 1, 2, 3 } };
    for (int s = 0; s < 3; s++) for (int cnt = 1; cnt <= 9; cnt += 4) { ref_delta_opts o = { 128, 4, s == 1 ? 0xAB : 0, s == 2 ? 64 : 32, 0 }; ref_buf_clear(&b); ref_delta_encode(DV[s], cnt, &o, &b); snprintf(nm, sizeof nm, "delta-%d-n%d", s, cnt);
        mutation_ball(DEC_DELTA32, b.p, b.n, nm, 0x8200 + (uint64_t)s * 16 + (uint64_t)cnt); mutation_ball(DEC_DELTA64, b.p, b.n, nm, 0x8300 + (uint64_t)s * 16 + (uint64_t)cnt); }
    { int64_t big[140]; for (int i = 0; i < 140; i++) big[i] = (int64_t)i * i * 1000003 % 100000; ref_delta_opts o = { 128, 4, 0, 32, 0 }; ref_buf_clear(&b); ref_delta_encode(big, 140, &o, &b); mutation_ball(DEC_DELTA32, b.p, b.n, "delta-140-values", 0x8280); }
    /* other block geometries (informational for C12, but memory safety is required for any header) */
    static const int GEO[][2] = { { 8, 4 }, { 8, 1 }, { 32, 1 }, { 64, 2 }, { 128, 1 }, { 16, 4 }, { 4, 4 }, { 256, 4 }, { 128, 8 } };
    for (int g = 0; g < 9; g++) { ref_delta_opts o = { GEO[g][0], GEO[g][1], 0, 32, 0 }; int64_t v[40]; for (int i = 0; i < 40; i++) v[i] = i * 37 % 11; ref_buf_clear(&b); ref_delta_encode(v, 40, &o, &b); snprintf(nm, sizeof nm, "delta-geometry-%dx%d", GEO[g][0], GEO[g][1]); mutation_ball(DEC_DELTA32, b.p, b.n, nm, 0x8400 + (uint64_t)g); mutation_ball(DEC_DELTA64, b.p, b.n, nm, 0x8500 + (uint64_t)g); }
    /* strings */
    static const char* SS[] = { "", "a", "ab", "abc", "abd", "b", "hello world", "hello there" }; ref_str sv[8]; for (int i = 0; i < 8; i++) { sv[i].p = (const uint8_t*)SS[i]; sv[i].n = (uint32_t)strlen(SS[i]); }
    ref_buf_clear(&b); ref_dlba_encode(sv, 8, &b); mutation_ball(DEC_DLBA, b.p, b.n, "dlba-8", 0x8600);
    ref_buf_clear(&b); ref_dba_encode(sv, 8, &b); mutation_ball(DEC_DBA, b.p, b.n, "dba-8", 0x8700);
    ref_buf_clear(&b); ref_plain_ba_encode(sv, 8, &b); mutation_ball(DEC_PLAIN, b.p, b.n, "plain-ba-8", 0x8800);
    /* compressed blocks of every codec */
    static const char TXT[] = "abcabcabcabcabcabcabcabcXYZabcabcabcabcabc-0123456789-0123456789-aaaaaaaaaaaaaaaaaaaaaaaaaaaaaaaa";
    for (int c = 0; c < 4; c++) { uint8_t out[400]; size_t on = 0; int st = c == 0 ? (int)carquet_snappy_compress((const uint8_t*)TXT, sizeof TXT - 1, out, sizeof out, &on) : c == 1 ? (int)carquet_lz4_compress((const uint8_t*)TXT, sizeof TXT - 1, out, sizeof out, &on) : c == 2 ? carquet_gzip_compress((const uint8_t*)TXT, sizeof TXT - 1, out, sizeof out, &on, 6) : carquet_zstd_compress((const uint8_t*)TXT, sizeof TXT - 1, out, sizeof out, &on, 3);
        if (st) mc_harness_error("seed compression failed"); snprintf(nm, sizeof nm, "%s-block", DNAME[DEC_SNAPPY + c]); mutation_ball(DEC_SNAPPY + c, out, on, nm, 0x8900 + (uint64_t)c); }
    /* thrift structures */
    { ref_file_meta m; memset(&m, 0, sizeof m); m.version = 2; m.nschema = 3; m.schema = ref_alloc(&RA, sizeof(ref_schema_elem) * 3); m.schema[0].name = (ref_bin){ (const uint8_t*)"schema", 6, true }; m.schema[0].has_num_children = true; m.schema[0].num_children = 2;
      for (int i = 1; i < 3; i++) { m.schema[i].name = (ref_bin){ (const uint8_t*)(i == 1 ? "a" : "bb"), i, true }; m.schema[i].has_type = true; m.schema[i].type = i; m.schema[i].has_rep = true; m.schema[i].rep = i - 1; m.schema[i].has_logical = i == 2; m.schema[i].logical.id = 8; m.schema[i].logical.unit = 2; }
      m.num_rows = 5; m.nrg = 1; m.rgs = ref_alloc(&RA, sizeof(ref_rg)); m.rgs[0].ncols = 2; m.rgs[0].cols = ref_alloc(&RA, sizeof(ref_chunk) * 2); m.rgs[0].num_rows = 5; m.rgs[0].total_byte_size = 100;
      for (int c = 0; c < 2; c++) { ref_chunk* k = &m.rgs[0].cols[c]; k->has_meta = true; k->meta.type = c + 1; k->meta.n_enc = 2; k->meta.encodings = ref_alloc(&RA, 8); k->meta.encodings[1] = 3; k->meta.n_path = 1; k->meta.path = ref_alloc(&RA, sizeof(ref_bin)); k->meta.path[0] = m.schema[c + 1].name; k->meta.num_values = 5; k->meta.total_compressed = 40; k->meta.total_uncompressed = 40; k->meta.data_page_offset = 4 + 40 * c;
          if (c) { k->meta.has_stats = true; k->meta.stats.max_value = (ref_bin){ (const uint8_t*)"\x09\x00\x00\x00\x00\x00\x00\x00", 8, true }; k->meta.stats.min_value = (ref_bin){ (const uint8_t*)"\x01\x00\x00\x00\x00\x00\x00\x00", 8, true }; k->meta.stats.has_null_count = true; k->meta.has_dict_page_offset = true; k->meta.dict_page_offset = 44; } }
      m.has_kv = true; m.n_kv = 1; m.kv = ref_alloc(&RA, sizeof(ref_kv)); m.kv[0].key = (ref_bin){ (const uint8_t*)"k", 1, true }; m.kv[0].value = (ref_bin){ (const uint8_t*)"v", 1, true }; m.created_by = (ref_bin){ (const uint8_t*)"seed", 4, true };
      ref_tval t = ref_meta_file_to_tree(&RA, &m); for (int form = 0; form < 2; form++) { ref_tform f = { form, form }; ref_buf_clear(&b); ref_thrift_encode(&t, &f, &b); snprintf(nm, sizeof nm, "file-metadata-form%d", form); mutation_ball(DEC_META, b.p, b.n, nm, 0x8a00 + (uint64_t)form); }
      ref_page_header h; memset(&h, 0, sizeof h); h.type = 0; h.uncompressed_size = 30; h.compressed_size = 20; h.has_crc = true; h.crc = 0x12345678; h.has_dph = true; h.dph.num_values = 5; h.dph.def_enc = 3; h.dph.rep_enc = 3; h.dph.has_stats = true; h.dph.stats.max_value = (ref_bin){ (const uint8_t*)"zz", 2, true }; h.dph.stats.has_null_count = true;
      ref_tval pt = ref_meta_page_to_tree(&RA, &h); ref_buf_clear(&b); ref_thrift_encode(&pt, NULL, &b); mutation_ball(DEC_PAGEHDR, b.p, b.n, "data-page-header", 0x8b00);
      memset(&h, 0, sizeof h); h.type = 2; h.uncompressed_size = 8; h.compressed_size = 8; h.has_dict = true; h.dict.num_values = 2; h.dict.has_sorted = true; pt = ref_meta_page_to_tree(&RA, &h); ref_buf_clear(&b); ref_thrift_encode(&pt, NULL, &b); mutation_ball(DEC_PAGEHDR, b.p, b.n, "dictionary-page-header", 0x8b01);
      ref_arena_free(&RA); }
    ref_buf_free(&b);
}

/* ---- nesting depth and payload-free counts -------------------------------------------- */
static void families(void) {
    static const long DEPTH[] = { 1, 10, 31, 32, 33, 100, 1000, 10000, 100000, 1000000 };
    uint8_t* buf = malloc(3200000);
    for (int di = 0; di < 10; di++) for (int kind = 0; kind < 5; kind++) for (int d = DEC_META; d <= DEC_PAGEHDR; d++) {
        if (!mc_next()) continue;
        long D = DEPTH[di]; size_t n = 0;
        /* an unknown field (id 15 via short header delta from 0) whose value nests D containers */
        switch (kind) {
        case 0: buf[n++] = 0xf9; for (long i = 0; i < D; i++) buf[n++] = 0x19; buf[n++] = 0x05; buf[n++] = 0x00; break;          /* list<list<...<i32>>> of 1 element each, innermost empty */
        case 1: buf[n++] = 0xfa; for (long i = 0; i < D; i++) buf[n++] = 0x1a; buf[n++] = 0x05; break;                             /* sets */
        case 2: buf[n++] = 0xfb; for (long i = 0; i < D; i++) { buf[n++] = 0x01; buf[n++] = 0x5b; buf[n++] = 0x00; } buf[n++] = 0x00; break; /* map<i32, map<...>> one entry each */
        case 3: buf[n++] = 0xfc; for (long i = 0; i < D; i++) buf[n++] = 0x1c; for (long i = 0; i <= D; i++) buf[n++] = 0x00; break; /* structs */
        default: buf[n++] = 0x29; buf[n++] = 0x1c; for (long i = 0; i < D && n < 2000000; i++) { buf[n++] = 0x19; buf[n++] = 0x1c; } break;   /* field 2 (schema): list<struct> whose first field is again a list<struct> ... */
        }
        snprintf(g_cur, sizeof g_cur, "%s:nesting kind=%d depth=%ld", DNAME[d], kind, D);
        mc_desc("c08:%s", g_cur); mc_feature("%s.nesting-depth", DNAME[d]); mc_case_key(mc_mix(0x8c00, ((uint64_t)di << 16) | ((uint64_t)kind << 8) | (uint64_t)d)); mc_nontrivial();
        mc_budget_ms(2000 + (unsigned)(n / 256));
        run_decoder(d, buf, n);
    }
    free(buf);
    static const uint64_t CNTS[] = { 0, 1, 2, 127, 128, 255, 256, 32767, 65535, 65536, 2147483647ull, 2147483648ull, 4294967295ull, 4294967296ull, 9223372036854775807ull, 18446744073709551615ull };
    /* a length / count field with nothing behind it, in every list, map and binary position reachable by the two thrift parsers, and in every stream header */
    for (int ci = 0; ci < 16; ci++) for (int where = 0; where < 14; where++) {
        ref_buf b; ref_buf_init(&b); int d = DEC_META;
        switch (where) {
        case 0: ref_buf_u8(&b, 0x29); ref_buf_u8(&b, 0xfc); ref_buf_uleb(&b, CNTS[ci]); break;                      /* FileMetaData.schema count */
        case 1: ref_buf_u8(&b, 0x49); ref_buf_u8(&b, 0xfc); ref_buf_uleb(&b, CNTS[ci]); break;                      /* row_groups count */
        case 2: ref_buf_u8(&b, 0x59); ref_buf_u8(&b, 0xfc); ref_buf_uleb(&b, CNTS[ci]); break;                      /* key_value count */
        case 3: ref_buf_u8(&b, 0x68); ref_buf_uleb(&b, CNTS[ci]); break;                                            /* created_by length */
        case 4: ref_buf_u8(&b, 0xfb); ref_buf_uleb(&b, CNTS[ci]); ref_buf_u8(&b, 0x55); break;                      /* unknown map count */
        case 5: ref_buf_put(&b, "\x49\x1c\x19\xfc", 4); ref_buf_uleb(&b, CNTS[ci]); break;                          /* RowGroup.columns count */
        case 6: ref_buf_put(&b, "\x49\x1c\x19\x1c\x3c\x29\xf5", 7); ref_buf_uleb(&b, CNTS[ci]); break;              /* ColumnMetaData.encodings count */
        case 7: ref_buf_put(&b, "\x49\x1c\x19\x1c\x3c\x39\xf8", 7); ref_buf_uleb(&b, CNTS[ci]); break;              /* path_in_schema count */
        case 8: d = DEC_PAGEHDR; ref_buf_put(&b, "\x15\x00\x15\x00\x15\x00\x5c\x5c\x58", 9); ref_buf_uleb(&b, CNTS[ci]); break;    /* page statistics binary length */
        case 9: d = DEC_SNAPPY; ref_buf_uleb(&b, CNTS[ci]); break;
        case 10: d = DEC_DELTA32; ref_buf_uleb(&b, 128); ref_buf_uleb(&b, 4); ref_buf_uleb(&b, CNTS[ci]); ref_buf_u8(&b, 0); break;
        case 11: d = DEC_RLE_ALL; ref_buf_uleb(&b, CNTS[ci] << 1); break;
        case 12: d = DEC_RLE_LEVELS; ref_buf_uleb(&b, (CNTS[ci] << 1) | 1); break;
        default: d = DEC_LZ4; ref_buf_u8(&b, 0xff); { uint64_t v = CNTS[ci] > 4000 ? 4000 : CNTS[ci]; while (v >= 255) { ref_buf_u8(&b, 255); v -= 255; } ref_buf_u8(&b, (uint8_t)v); } break;
        }
        char what[64]; snprintf(what, sizeof what, "payload-free-count where=%d count=%llu", where, (unsigned long long)CNTS[ci]);
        one(d, b.p, b.n, what, mc_mix(0x8d00, ((uint64_t)ci << 8) | (uint64_t)where));
        ref_buf_free(&b);
    }
}

static void enumerate(void) {
    mc_rule("C08: 17 decoding entry points (Thrift file metadata and page header; hybrid RLE values / levels / prefixed levels / streaming decoder; PLAIN for 8 types; DELTA_BINARY_PACKED 32/64; DELTA_LENGTH / DELTA_BYTE_ARRAY; BYTE_STREAM_SPLIT; "
            "dictionary indices; Snappy, LZ4, GZIP, ZSTD) are called directly with: all byte strings of length <= 2 (quick) / <= 3 (thorough, reduced parameter cross); all sequences of <= 3/4 tokens from per-format token alphabets (run headers with extreme counts, "
            "truncated varints, width bytes 0..255, every tag kind, huge lengths); the distance-1 mutation ball (substitute, delete, insert, truncate at every position) around valid encodings of every format; container nesting to depth 10^6 and payload-free "
            "counts up to 2^64-1. Each input is crossed with 15 bit widths, 6 requested counts and the capacities the entry point takes. Oracle: ASan with exact-size input and output blocks, CPU budget, reported sizes within capacity, returned byte-array values "
            "inside their buffer, allocation balance unchanged by the call. Non-trivial = non-empty input; distinct by (decoder, family, code).");
    mc_assume("UBSan is not part of the oracle: the property is about memory and termination");
    /* warm-up: lazily built tables and per-thread decompression contexts are process-lifetime caches */
    { uint8_t w[8] = { 0 }; size_t on; uint8_t o[8]; carquet_zstd_decompress(w, 8, o, 8, &on); carquet_gzip_decompress(w, 8, o, 8, &on); (void)carquet_init(); mcf_reset(); }
    int maxlen = 2;
    mc_stage("all-short-byte-strings");
    for (int d = 0; d < NDEC; d++) {
        uint8_t s[3];
        one(d, s, 0, "empty", 0x8000);
        for (int a = 0; a < 256; a++) { s[0] = (uint8_t)a; one(d, s, 1, "len1", mc_mix(0x8001, (uint64_t)a)); }
        for (int a = 0; a < 65536 && maxlen >= 2; a++) { s[0] = (uint8_t)a; s[1] = (uint8_t)(a >> 8); one(d, s, 2, "len2", mc_mix(0x8002, (uint64_t)a)); }
    }
    if (mc_thorough()) {
        mc_stage("all-3-byte-strings.reduced-parameters");
        g_bw_n = 15; g_cnt_n = 6; int save_b = g_bw_n, save_c = g_cnt_n; g_cnt_n = 3;
        for (int d = 0; d < NDEC; d++) { if (d == DEC_PLAIN || d == DEC_BSS) continue; uint8_t s[3]; for (int a = 0; a < (1 << 24); a += (d <= DEC_PAGEHDR || d >= DEC_SNAPPY || d == DEC_DELTA32) ? 1 : 7) { s[0] = (uint8_t)a; s[1] = (uint8_t)(a >> 8); s[2] = (uint8_t)(a >> 16); one(d, s, 3, "len3", mc_mix(0x8003, (uint64_t)a)); } }
        g_bw_n = save_b; g_cnt_n = save_c;
    }
    int TL = mc_thorough() ? 5 : 4;
    mc_stage("token-sequences");
    for (int d = DEC_RLE_ALL; d <= DEC_RLE_STREAM; d++) token_sequences(d, TOK_RLE, 16, TL, 0x8100 + (uint64_t)d, d == DEC_RLE_PREFIXED ? "\x06\x00\x00\x00" : NULL, d == DEC_RLE_PREFIXED ? 4 : 0);
    { static const char* PFX[] = { "\xff\xff\xff\xff", "\xfc\xff\xff\xff", "\xfb\xff\xff\xff", "\xf8\xff\xff\xff", "\xff\xff\xff\x7f", "\x00\x00\x00\x80", "\x00\x00\x00\x00", "\x01\x00\x00\x00", "\x02\x00\x00\x00", "\x07\x00\x00\x00" };
      for (int pi = 0; pi < 10; pi++) token_sequences(DEC_RLE_PREFIXED, TOK_RLE, 16, TL - 1, 0x8190 + (uint64_t)pi, PFX[pi], 4); }     /* the 4-byte length prefix itself: wrap-around and off-by-one values */
    token_sequences(DEC_DICT, TOK_RLE, 16, TL, 0x8180, "\x02", 1); token_sequences(DEC_DICT, TOK_RLE, 16, TL - 1, 0x8181, "\x20", 1);
    token_sequences(DEC_DELTA32, TOK_DELTA, 18, TL + 1, 0x8200, NULL, 0); token_sequences(DEC_DELTA64, TOK_DELTA, 18, TL + 1, 0x8201, NULL, 0);
    token_sequences(DEC_DLBA, TOK_DELTA, 18, TL, 0x8202, NULL, 0); token_sequences(DEC_DBA, TOK_DELTA, 18, TL, 0x8203, NULL, 0);
    token_sequences(DEC_SNAPPY, TOK_SNAPPYX, 29, TL, 0x8300, "\x08", 1); token_sequences(DEC_SNAPPY, TOK_SNAPPYX, 29, TL, 0x8301, NULL, 0);
    token_sequences(DEC_LZ4, TOK_LZ4X, 22, TL, 0x8400, NULL, 0);
    token_sequences(DEC_META, TOK_THRIFT, 35, TL, 0x8500, NULL, 0); token_sequences(DEC_PAGEHDR, TOK_THRIFT, 35, TL, 0x8501, NULL, 0);
    token_sequences(DEC_PLAIN, TOK_PLAIN, 10, TL, 0x8600, NULL, 0);
    token_sequences(DEC_GZIP, TOK_LZ4, 18, 2, 0x8700, "\x1f\x8b\x08\x00\x00\x00\x00\x00\x00\x03", 10); token_sequences(DEC_ZSTD, TOK_LZ4, 18, 2, 0x8701, "\x28\xb5\x2f\xfd", 4);
    /* requested counts around the decoders' internal tile and scratch sizes (1024, 4096), on inputs long enough to be decoded */
    mc_stage("large-counts.valid-streams");
    { CNT = CNT_BIG; g_cnt_n = 10; int save_bw = g_bw_n; g_bw_n = 4; ref_buf b; ref_buf_init(&b); char nm[64];
      for (int ci = 0; ci < 10; ci++) { int cnt = CNT_BIG[ci];
          /* RLE hybrid: one run of cnt, and cnt bit-packed values (bit width is the first byte for the dictionary decoders) */
          for (int form = 0; form < 2; form++) for (int bw = 1; bw <= 2; bw++) { ref_buf_clear(&b); if (form == 0) { ref_buf_uleb(&b, (uint64_t)cnt << 1); ref_buf_u8(&b, 1); } else { int ng = (cnt + 7) / 8; ref_buf_uleb(&b, ((uint64_t)ng << 1) | 1); for (int i = 0; i < ng * bw; i++) ref_buf_u8(&b, 0x55); }
              snprintf(nm, sizeof nm, "large:%s-of-%d;bw=%d", form ? "bit-packed" : "rle-run", cnt, bw);
              for (int d = DEC_RLE_ALL; d <= DEC_RLE_STREAM; d++) { if (d == DEC_RLE_PREFIXED) { ref_buf p; ref_buf_init(&p); ref_buf_u32le(&p, (uint32_t)b.n); ref_buf_put(&p, b.p, b.n); one(d, p.p, p.n, nm, mc_mix(0x8a1, ((uint64_t)ci << 8) | (uint64_t)(form * 4 + bw))); ref_buf_free(&p); } else one(d, b.p, b.n, nm, mc_mix(0x8a1, ((uint64_t)ci << 8) | (uint64_t)(form * 4 + bw)));  }
              ref_buf p; ref_buf_init(&p); ref_buf_u8(&p, (uint8_t)bw); ref_buf_put(&p, b.p, b.n); one(DEC_DICT, p.p, p.n, nm, mc_mix(0x8a2, ((uint64_t)ci << 8) | (uint64_t)(form * 4 + bw))); ref_buf_free(&p); }
          /* byte stream split and plain: cnt x 17 bytes of input serve every width */
          ref_buf_clear(&b); for (int i = 0; i < cnt * 17; i++) ref_buf_u8(&b, (uint8_t)(i * 7)); snprintf(nm, sizeof nm, "large:%d-values", cnt); one(DEC_BSS, b.p, b.n, nm, mc_mix(0x8a3, (uint64_t)ci)); one(DEC_PLAIN, b.p, b.n, nm, mc_mix(0x8a4, (uint64_t)ci));
          /* delta: a ramp with one outlier per block, from the reference encoder */
          { int64_t* v = malloc(sizeof(int64_t) * (size_t)cnt); for (int i = 0; i < cnt; i++) v[i] = (int64_t)i * 3 + ((i % 128) == 5 ? 1000 : 0); ref_delta_opts o; memset(&o, 0, sizeof o); o.block_size = 128; o.miniblocks = 4; o.bits = 64; ref_buf_clear(&b); ref_delta_encode(v, cnt, &o, &b); free(v);
            one(DEC_DELTA32, b.p, b.n, nm, mc_mix(0x8a5, (uint64_t)ci)); one(DEC_DELTA64, b.p, b.n, nm, mc_mix(0x8a6, (uint64_t)ci)); }
      }
      CNT = CNT_SMALL; g_cnt_n = 6; g_bw_n = save_bw; ref_buf_free(&b); }
    /* fixed-width decoders with the input exactly as long as the requested values need (and one byte shorter / longer): the last vector step of a kernel must not touch the byte behind the input */
    mc_stage("fixed-width.exact-input-sizes");
    { static int one_cnt[1]; static const int W[] = { 4, 8, 3, 17, 1, 12 }; static uint8_t ib[5000 * 17 + 32]; for (size_t i = 0; i < sizeof ib; i++) ib[i] = (uint8_t)(i * 11 + 3);
      for (int c = 0; c <= 70 + 10; c++) { int cnt = c <= 70 ? c : CNT_BIG[c - 71]; for (int wi = 0; wi < 6; wi++) for (int dl = -1; dl <= 1; dl++) {
          long n = (long)cnt * W[wi] + dl; if (n < 0) continue; one_cnt[0] = cnt; CNT = one_cnt; g_cnt_n = 1; char nm[64]; snprintf(nm, sizeof nm, "exact:%d-values-of-%d-bytes%+d", cnt, W[wi], dl);
          if (W[wi] != 1 && W[wi] != 12) one(DEC_BSS, ib, (size_t)n, nm, mc_mix(0x8b1, ((uint64_t)c << 16) | ((uint64_t)wi << 4) | (uint64_t)(dl + 1)));
          one(DEC_PLAIN, ib, (size_t)n, nm, mc_mix(0x8b2, ((uint64_t)c << 16) | ((uint64_t)wi << 4) | (uint64_t)(dl + 1))); }
      }
      CNT = CNT_SMALL; g_cnt_n = 6; }
    mc_stage("mutation-balls-around-valid-encodings");
    seeds_and_balls();
    mc_stage("nesting-depth-and-payload-free-counts");
    families();
}
int main(int argc, char** argv) { return mc_main(argc, argv, "c08", enumerate); }
