/* c04.c — C04: no input file can make the reader memory-unsafe, hang or leak.
 * Seeds are small valid files; the explored space is their structural
 * mutation ball: every Thrift integer field of the footer and of every page
 * header set to every value of a boundary alphabet (absolute and seed-relative),
 * booleans flipped, fields removed, lists and binaries resized or given a lying
 * count, same-typed fields swapped, every byte overwritten with 5 values,
 * nesting-depth and payload-free-count families; pairs of integer fields in the
 * thorough tier.  Every image is driven through the full reader API in the
 * three open paths under ASan with caller buffers sized from the schema. */
#define _GNU_SOURCE
#include "tbl.h"
#include "reftbl.h"
#include "mc/fault.h"
#include <unistd.h>

static ref_arena RA;
static char g_path[300];
static size_t g_cur_n; static bool g_warm;

/* ---- driver ------------------------------------------------------------------------- */
static int tw(int pt, int tl) { return pt == 6 ? (int)sizeof(carquet_byte_array_t) : ref_type_width(pt, tl); }
/* fresh: the batch was just returned.  Byte-array payloads live in the column reader's page buffers, which the library
 * documents as replaced by the following read; they are only read while the batch is fresh. */
static void touch_batch(carquet_row_batch_t* b, int pj, int ncols, int nleaf, const int* leaf_pt, const int* leaf_tl, bool fresh) {
    int nc = carquet_row_batch_num_columns(b); (void)carquet_row_batch_num_rows(b);
    for (int c = 0; c < nc && c < 8; c++) {
        const void* data; const uint8_t* nulls; int64_t cnt;
        if (carquet_row_batch_column(b, c, &data, &nulls, &cnt) != CARQUET_OK) continue;
        volatile uint8_t s = 0;
        if (nulls) for (int64_t i = 0; i < (cnt + 7) / 8 && i < 4096; i++) s ^= nulls[i];
        int fc = pj ? ncols - 1 : c;
        if (nleaf == ncols && fc >= 0 && fc < nleaf && data) {
            int64_t nn = 0; for (int64_t i = 0; i < cnt && nulls; i++) if (!((nulls[i >> 3] >> (i & 7)) & 1)) nn++;
            if (leaf_pt[fc] != 6) { int w = tw(leaf_pt[fc], leaf_tl[fc]); if (w > 0 && w <= 4096) for (int64_t i = 0; i < nn * w && i < 1 << 16; i++) s ^= ((const uint8_t*)data)[i]; }
            else { const carquet_byte_array_t* ba = (const carquet_byte_array_t*)data;
                for (int64_t i = 0; i < nn && i < 4096; i++) { if (ba[i].length < 0) { mc_fail("batch.negative-byte-array-length", "column %d value %lld of %lld non-null / %lld rows: length %d, fresh=%d", c, (long long)i, (long long)nn, (long long)cnt, ba[i].length, (int)fresh); break; } if (fresh && ba[i].length > 0) { s ^= ba[i].data[0]; s ^= ba[i].data[ba[i].length - 1]; } } }
        }
        (void)s;
    }
}
static void drive(carquet_reader_t* rd, const char* mode) {
    carquet_error_t err = CARQUET_ERROR_INIT; char key[160];
    int64_t rows = carquet_reader_num_rows(rd); int nrg = carquet_reader_num_row_groups(rd), ncols = carquet_reader_num_columns(rd); (void)rows;
    const carquet_schema_t* sc = carquet_reader_schema(rd); int nel = carquet_schema_num_elements(sc);
    int leaf_pt[64], leaf_tl[64], nleaf = 0;
    for (int i = 0; i < nel && i < 4096; i++) { const carquet_schema_node_t* nd = carquet_schema_get_element(sc, i); if (!nd) continue; const char* nm = carquet_schema_node_name(nd); if (nm) (void)strlen(nm);
        (void)carquet_schema_node_repetition(nd); (void)carquet_schema_node_logical_type(nd); (void)carquet_schema_node_max_def_level(nd); (void)carquet_schema_node_max_rep_level(nd);
        if (carquet_schema_node_is_leaf(nd) && nleaf < 64) { leaf_pt[nleaf] = (int)carquet_schema_node_physical_type(nd); leaf_tl[nleaf] = carquet_schema_node_type_length(nd); nleaf++; } }
    (void)carquet_schema_find_column(sc, "c0"); (void)carquet_schema_find_column(sc, ""); (void)carquet_schema_get_element(sc, -1); (void)carquet_schema_get_element(sc, nel);
    /* out-of-range indices are errors */
    carquet_row_group_metadata_t md; carquet_column_statistics_t stt; bool mm; uint8_t probe[16] = { 5 };
    if (carquet_reader_row_group_metadata(rd, -1, &md) == CARQUET_OK || carquet_reader_row_group_metadata(rd, nrg, &md) == CARQUET_OK) mc_fail("out-of-range.row_group_metadata-ok", "%s: out-of-range row group index accepted", mode);
    if (carquet_reader_get_column(rd, -1, 0, &err) || carquet_reader_get_column(rd, nrg, 0, &err) || (nrg > 0 && (carquet_reader_get_column(rd, 0, -1, &err) || carquet_reader_get_column(rd, 0, ncols, &err)))) mc_fail("out-of-range.get_column-non-null", "%s: out-of-range index gave a column reader", mode);
    else if (err.code == CARQUET_OK) mc_fail("error-contract.get_column-null-with-ok-code", "%s", mode);
    if (carquet_reader_column_statistics(rd, nrg, 0, &stt) == CARQUET_OK || carquet_reader_column_statistics(rd, 0, ncols, &stt) == CARQUET_OK || carquet_reader_column_statistics(rd, -1, -1, &stt) == CARQUET_OK) mc_fail("out-of-range.column_statistics-ok", "%s", mode);
    if (carquet_reader_row_group_matches(rd, nrg, 0, CARQUET_COMPARE_EQ, probe, 4, &mm) == CARQUET_OK) mc_fail("out-of-range.row_group_matches-ok", "%s", mode);
    int32_t idxs[8]; (void)carquet_reader_filter_row_groups(rd, 0, CARQUET_COMPARE_GT, probe, 4, idxs, 8);
    int grg = nrg < 4 ? nrg : 4, gc = ncols < 8 ? ncols : 8;
    for (int g = 0; g < grg; g++) {
        (void)carquet_reader_row_group_metadata(rd, g, &md);
        for (int c = 0; c < gc; c++) {
            (void)carquet_reader_can_zero_copy(rd, g, c);
            if (carquet_reader_column_statistics(rd, g, c, &stt) == CARQUET_OK && stt.has_min_max) { volatile uint8_t s = 0; for (int i = 0; i < stt.min_value_size && i < 64; i++) s ^= ((const uint8_t*)stt.min_value)[i]; for (int i = 0; i < stt.max_value_size && i < 64; i++) s ^= ((const uint8_t*)stt.max_value)[i]; (void)s; }
            uint8_t pv[16] = { 1, 2, 3, 4, 5, 6, 7, 8, 9, 10, 11, 12, 13, 14, 15, 16 }; for (int op = 0; op < 6; op++) (void)carquet_reader_row_group_matches(rd, g, c, (carquet_compare_op_t)op, pv, nleaf == ncols && c < nleaf && tw(leaf_pt[c], leaf_tl[c]) <= 16 && leaf_pt[c] != 6 ? tw(leaf_pt[c], leaf_tl[c]) : 8, &mm);
            if (nleaf != ncols || c >= nleaf) { mc_count("columns.schema-leaf-mismatch-not-read", 1); continue; }
            int w = tw(leaf_pt[c], leaf_tl[c]); if (w <= 0 || w > 4096 || leaf_pt[c] < 0 || leaf_pt[c] > 7) { mc_count("columns.type-width-unusable-not-read", 1); continue; }
            static const int64_t KS[] = { 0, 1, 3, 64 };
            for (int pass = 0; pass < 3; pass++) {      /* pass 2: skips beyond the reader's internal scratch size, then a read */
                carquet_column_reader_t* cr = carquet_reader_get_column(rd, g, c, &err);
                if (!cr) { if (err.code == CARQUET_OK) mc_fail("error-contract.get_column-null-with-ok-code", "%s rg %d col %d", mode, g, c); continue; }
                (void)carquet_column_has_next(cr); (void)carquet_column_remaining(cr);
                if (pass == 1) (void)carquet_column_skip(cr, 2);
                if (pass == 2) { if (carquet_column_remaining(cr) <= 1024) { carquet_column_reader_free(cr); continue; } (void)carquet_column_skip(cr, 1500); (void)carquet_column_skip(cr, 1024); (void)carquet_column_skip(cr, 1025); (void)carquet_column_skip(cr, 1LL << 40); }
                for (int ki = 0; ki < 4; ki++) {
                    int64_t k = KS[ki]; uint8_t* vb = mc_exact(NULL, (size_t)w * (size_t)k); int16_t* db = mc_exact(NULL, 2 * (size_t)k); int16_t* rb = mc_exact(NULL, 2 * (size_t)k);
                    int64_t n = carquet_column_read_batch(cr, vb, k, db, pass ? NULL : rb);
                    if (n > k) { snprintf(key, sizeof key, "read_batch.returns-more-than-requested"); mc_fail(key, "%s: read_batch(%lld) = %lld", mode, (long long)k, (long long)n); }
                    if (n > 0 && leaf_pt[c] == 6) { carquet_byte_array_t* ba = (carquet_byte_array_t*)vb; volatile uint8_t s = 0; int64_t nn = 0; for (int64_t i = 0; i < n; i++) if (db[i] >= carquet_schema_node_max_def_level(carquet_schema_get_element(sc, 0)) ) nn++;
                        /* dereference what was handed back: only the dense prefix that corresponds to non-null rows is defined; levels come from the same call */
                        int16_t maxd = 0; for (int i = 0, l = 0; i < nel; i++) { const carquet_schema_node_t* nd = carquet_schema_get_element(sc, i); if (nd && carquet_schema_node_is_leaf(nd)) { if (l == c) maxd = carquet_schema_node_max_def_level(nd); l++; } }
                        nn = 0; for (int64_t i = 0; i < n; i++) if (db[i] == maxd) nn++;
                        for (int64_t i = 0; i < nn; i++) { if (ba[i].length < 0) { mc_fail("read_batch.negative-byte-array-length", "%s", mode); break; } for (int32_t q = 0; q < ba[i].length && q < 1 << 20; q += (ba[i].length > 64 ? ba[i].length / 16 : 1)) s ^= ba[i].data[q]; if (ba[i].length > 0) s ^= ba[i].data[ba[i].length - 1]; } (void)s; }
                    free(vb); free(db); free(rb);
                    if (n < 0) break;
                }
                carquet_column_reader_free(cr);
            }
        }
    }
    static const int64_t BS[] = { 1, 4, 0 };
    for (int bi = 0; bi < 3; bi++) for (int pj = 0; pj < 2; pj++) {
        carquet_batch_reader_config_t cfg; carquet_batch_reader_config_init(&cfg); if (BS[bi]) cfg.batch_size = BS[bi]; cfg.num_threads = 1; int32_t pr[1] = { ncols - 1 }; if (pj && ncols > 0) { cfg.column_indices = pr; cfg.num_columns = 1; }
        carquet_batch_reader_t* br = carquet_batch_reader_create(rd, &cfg, &err); if (!br) continue;
        /* a batch belongs to the caller until it frees it: the previous one is read again after the following next(),
         * the last one after the batch reader is gone */
        carquet_row_batch_t* held = NULL;
        for (int guard = 0; guard < 40; guard++) {
            carquet_row_batch_t* b = NULL; carquet_status_t st = carquet_batch_reader_next(br, &b);
            if (held) { touch_batch(held, pj, ncols, nleaf, leaf_pt, leaf_tl, false); carquet_row_batch_free(held); held = NULL; }
            if (st != CARQUET_OK || !b) break;
            touch_batch(b, pj, ncols, nleaf, leaf_pt, leaf_tl, true);
            (void)carquet_row_batch_column(b, -1, &(const void*){ 0 }, &(const uint8_t*){ 0 }, &(int64_t){ 0 });
            held = b;
        }
        carquet_batch_reader_free(br);
        if (held) { touch_batch(held, pj, ncols, nleaf, leaf_pt, leaf_tl, false); carquet_row_batch_free(held); }
    }
}

static void try_image_inner(const uint8_t* img, size_t n, const char* what) {
    mc_desc("%s", what); g_cur_n = n; if (n == 0) return;
    mc_budget_ms((unsigned)(600 + n / 2));
    FILE* f = fopen(g_path, "wb"); if (!f || fwrite(img, 1, n, f) != n) mc_harness_error("scratch write failed"); fclose(f);
    uint8_t* x = mc_exact(img, n);
    { const char* dp = getenv("C04_DUMPIMG"); if (dp) { FILE* df = fopen(dp, "wb"); if (df) { fwrite(img, 1, n, df); fclose(df); } } }
    for (int mode = 0; mode < 3; mode++) {
        carquet_error_t err = CARQUET_ERROR_INIT; carquet_reader_options_t o; carquet_reader_options_init(&o); o.use_mmap = mode == 2; o.verify_checksums = (n & 1) != 0;
        long live0 = mcf_live(); mcf_on();
        carquet_reader_t* rd = mode == 0 ? carquet_reader_open_buffer(x, n, &o, &err) : carquet_reader_open(g_path, &o, &err);
        static const char* MN[] = { "buffer", "fread", "mmap" };
        if (!rd) { if (err.code == CARQUET_OK) mc_fail("error-contract.open-null-with-ok-code", "%s %s", what, MN[mode]); if (!memchr(err.message, 0, sizeof err.message)) mc_fail("error-contract.message-not-terminated", "%s", what); mc_outcome("rejected-at-open"); }
        else { mc_outcome("opened"); drive(rd, MN[mode]); carquet_reader_close(rd); }
        { carquet_reader_t* rn = mode == 0 ? carquet_reader_open_buffer(x, n, &o, NULL) : carquet_reader_open(g_path, &o, NULL);      /* the optional error argument omitted: same verdict, no fault */
          if ((rn != NULL) != (rd != NULL)) mc_fail("error-contract.verdict-depends-on-error-argument", "%s %s: open %s with an error struct and %s without", what, MN[mode], rd ? "succeeds" : "fails", rn ? "succeeds" : "fails");
          if (rn) carquet_reader_close(rn); }
        mcf_off();
        if (mcf_live() != live0 && !g_warm) { char lk[160]; mcf_live_since(0, lk, sizeof lk); char key[96]; snprintf(key, sizeof key, "leak.%s.%s", MN[mode], rd ? "after-close" : "after-failed-open"); mc_fail(key, "%s: %ld library blocks outstanding (%ld before) [%s]", what, mcf_live(), live0, lk); mcf_reset(); }
    }
    free(x); mc_count("images", 1);
}

#include <time.h>
static void try_image(const uint8_t* img, size_t n, const char* desc) {
    struct timespec a, b; clock_gettime(CLOCK_MONOTONIC, &a); try_image_inner(img, n, desc); clock_gettime(CLOCK_MONOTONIC, &b);
    double ms = (b.tv_sec - a.tv_sec) * 1e3 + (b.tv_nsec - a.tv_nsec) / 1e6; const char* lf = getenv("C04_SLOWLOG");
    if (lf && ms > 30) { FILE* f = fopen(lf, "a"); if (f) { fprintf(f, "%.1f ms %s\n", ms, desc); fclose(f); } }
}

/* ---- seeds --------------------------------------------------------------------------- */
#define NSEED 13
static int make_seed(int k, ref_buf* img) {
    rfile_t f; memset(&f, 0, sizeof f); static ref_coldata cols[16]; int np; static ref_stats st1, st2;
    f.ncols = 2; f.N = 6; f.nrg = 1; f.crc = true; f.dict_offset_present = true; f.fl.created_by = "seed";
    f.col[0].ptype = PT_INT32; f.col[1].ptype = PT_BYTE_ARRAY; f.col[1].opt = 1; f.mask[1] = 0x12; f.npages[0] = 2; f.page_levels[0][0] = 4; f.page_levels[0][1] = 2;
    if (k >= 100) f.crc = false;                     /* body-mutation seeds: no page checksums, uncompressed, so that the decoders see the changed bytes */
    if (k >= 103) { f.level_form = REF_H_BP_ONLY; f.index_form = REF_H_MIXED; f.col[0].opt = 1; f.mask[0] = 0x0a; }      /* 103, 104: seeds 100, 101 with bit-packed level groups, mixed index runs and a nullable first column */
    switch (k >= 100 ? (k == 100 || k == 103 ? 0 : k == 101 || k == 104 ? 201 : 5) : k) {
    case 0: break;
    case 201: f.enc[0] = ENC_RLE_DICT; f.enc[1] = ENC_RLE_DICT; break;
    case 1: f.enc[0] = ENC_RLE_DICT; f.enc[1] = ENC_RLE_DICT; f.codec = CODEC_SNAPPY; break;
    case 2: f.codec = CODEC_GZIP; f.col[0].ptype = PT_INT64; f.col[0].opt = 1; f.mask[0] = 0x21; break;
    case 3: f.codec = CODEC_ZSTD; f.col[0].ptype = PT_DOUBLE; f.enc[1] = ENC_PLAIN_DICT; break;
    case 4: f.codec = CODEC_LZ4_RAW; f.col[0].ptype = PT_FLBA; f.col[0].tlen = 5; f.nrg = 2; break;
    case 5: { static const int16_t d1[] = { 3, 3, 2, 1, 0, 3 }, r1[] = { 0, 1, 1, 0, 0, 0 }, d2[] = { 2, 2, 1, 2, 0, 2 }, r2[] = { 0, 2, 1, 0, 0, 0 }; f.ctx[0] = RF_CTX_LIST3; f.defs[0] = d1; f.reps[0] = r1; f.ctx[1] = RF_CTX_REP_REP; f.defs[1] = d2; f.reps[1] = r2; f.col[1].opt = 0; f.mask[1] = 0; f.npages[0] = 0; break; }
    case 6: st1.max_value = (ref_bin){ (const uint8_t*)"\x40\x42\x0f\x00", 4, true }; st1.min_value = (ref_bin){ (const uint8_t*)"\x00\x00\x00\x80", 4, true }; st1.has_null_count = true; st2.max = (ref_bin){ (const uint8_t*)"zz", 2, true }; st2.min = (ref_bin){ (const uint8_t*)"a", 1, true }; st2.has_distinct = true; st2.distinct = 3;
            f.chunk_stats[0] = &st1; f.chunk_stats[1] = &st2; f.page_stats[0] = &st1; break;
    case 7: f.N = 0; f.npages[0] = 0; f.mask[1] = 0; break;
    case 8: { hist_t h; memset(&h, 0, sizeof h); h.ncols = 3; h.cols[0] = TBL_KINDS[1]; h.cols[1] = TBL_KINDS[5]; h.cols[2] = TBL_KINDS[3]; h.cols[0].name = "x"; h.cols[1].name = "y"; h.cols[2].name = "z"; h.N = 7; h.nrg = 3; h.rg_rows[0] = 3; h.rg_rows[1] = 2; h.rg_rows[2] = 2; h.mask[0] = 0x12; h.mask[1] = 0x41; h.mask[2] = 0x08; h.comp[0] = 0x2; h.page_sel = 1;
              uint8_t* im; size_t len; carquet_status_t st; const char* where; if (tbl_write(&h, &im, &len, &st, &where)) return -1; ref_buf_put(img, im, len); free(im); return 0; }
    case 9: f.ncols = 4; f.col[0].ptype = PT_BOOLEAN; f.col[1].ptype = PT_INT96; f.col[1].opt = 0; f.mask[1] = 0; f.col[2].ptype = PT_FLOAT; f.col[2].opt = 1; f.mask[2] = 0x9; f.col[3].ptype = PT_DOUBLE; f.npages[0] = 0; break;
    case 12: f.enc[0] = ENC_RLE_DICT; f.enc[1] = ENC_PLAIN_DICT; f.level_form = REF_H_BP_ONLY; f.index_form = REF_H_MIXED; f.col[0].opt = 1; f.mask[0] = 0x0a; f.npages[1] = 3; f.page_levels[1][0] = 1; f.page_levels[1][1] = 3; f.page_levels[1][2] = 2; break;      /* bit-packed levels, mixed dictionary-index runs, both columns nullable */
    case 10: f.fl.unknown_kind = 14; f.fl.tform.long_field_headers = true; f.fl.tform.long_list_headers = true; f.fl.kv = true; break;
    default: f.enc[0] = ENC_PLAIN_DICT; f.enc[1] = ENC_RLE_DICT; f.nrg = 2; f.dict_offset_present = false; f.data_offset_at_dict = true; f.codec = CODEC_SNAPPY; break;
    }
    if (rf_build(&RA, &f, img, NULL, 0, &np, cols)) return -1;
    return 0;
}

/* ---- tree mutation ----------------------------------------------------------------------- */
typedef struct { ref_tval* v; char path[96]; } site_t;
static site_t g_sites[4096]; static int g_nsites;
static void collect(ref_tval* v, const char* path) {
    if (g_nsites < 4096) { g_sites[g_nsites].v = v; snprintf(g_sites[g_nsites].path, 96, "%s", path); g_nsites++; }
    char p[96];
    if (v->type == RT_STRUCT) for (int k = 0; k < v->nitems; k++) { snprintf(p, sizeof p, "%s.%d", path, v->fids[k]); collect(&v->items[k], p); }
    else if (v->type == RT_LIST || v->type == RT_SET || v->type == RT_MAP) for (int k = 0; k < v->nitems; k++) { snprintf(p, sizeof p, "%s[%d]", path, k); collect(&v->items[k], p); }
}
static int64_t g_alpha[64]; static int g_nalpha;
static void set_alphabet(size_t file_size, const ref_file* rf) {
    static const int64_t BASE[] = { 0, 1, -1, 2, 7, 8, 15, 16, 127, 128, 255, 256, 32767, 32768, 65536, 2147483647LL, -2147483648LL, 4294967296LL, 9223372036854775807LL, (-9223372036854775807LL - 1) };
    g_nalpha = 0; for (int i = 0; i < 20; i++) g_alpha[g_nalpha++] = BASE[i];
    g_alpha[g_nalpha++] = (int64_t)file_size; g_alpha[g_nalpha++] = (int64_t)file_size - 1; g_alpha[g_nalpha++] = (int64_t)file_size + 1; g_alpha[g_nalpha++] = (int64_t)file_size - 8; g_alpha[g_nalpha++] = (int64_t)rf->footer_start;
    for (int p = 0; p < rf->npages && g_nalpha < 56; p++) { g_alpha[g_nalpha++] = (int64_t)rf->pages[p].header_off + 1; g_alpha[g_nalpha++] = (int64_t)rf->pages[p].body_off; g_alpha[g_nalpha++] = (int64_t)rf->pages[p].header_off - 1; }
}
/* assemble a file from data region + (possibly new) footer bytes */
static void assemble(const uint8_t* img, size_t footer_start, const ref_buf* footer, ref_buf* out) { ref_buf_clear(out); ref_buf_put(out, img, footer_start); ref_buf_put(out, footer->p, footer->n); ref_buf_u32le(out, (uint32_t)footer->n); ref_buf_put(out, "PAR1", 4); }
/* splice a new page header in place of the old one (later bytes shift) */
static void splice(const uint8_t* img, size_t n, size_t hoff, size_t hlen, const ref_buf* nh, ref_buf* out) { ref_buf_clear(out); ref_buf_put(out, img, hoff); ref_buf_put(out, nh->p, nh->n); ref_buf_put(out, img + hoff + hlen, n - hoff - hlen); }

typedef void (*emit_fn)(ref_tval* root, const char* what, void* ctx);
static bool g_pairs_only;
static void mutate_tree(ref_tval* root, const char* origin, emit_fn emit, void* ctx, int pairs) {     /* pairs: 0 none, 1 footer alphabet, 2 page-header alphabet */
    g_nsites = 0; collect(root, origin); char what[300];
    for (int si = 0; si < (g_pairs_only ? 0 : g_nsites); si++) {
        ref_tval* v = g_sites[si].v; ref_tval saved = *v;
        switch (v->type) {
        case RT_BYTE: case RT_I16: case RT_I32: case RT_I64:
            for (int a = 0; a < g_nalpha; a++) { int64_t nv = g_alpha[a]; if (v->type == RT_I32) nv = (int32_t)nv; else if (v->type == RT_I16) nv = (int16_t)nv; else if (v->type == RT_BYTE) nv = (int8_t)nv; if (nv == saved.i) continue; v->i = nv; snprintf(what, sizeof what, "%s=%lld", g_sites[si].path, (long long)nv); emit(root, what, ctx); }
            /* neighbours of the seed value */
            for (int d = -1; d <= 1; d += 2) { v->i = saved.i + d; snprintf(what, sizeof what, "%s=%lld(seed%+d)", g_sites[si].path, (long long)v->i, d); emit(root, what, ctx); }
            break;
        case RT_TRUE: v->i = !saved.i; snprintf(what, sizeof what, "%s=flipped", g_sites[si].path); emit(root, what, ctx); break;
        case RT_BINARY: {
            static const uint64_t LIES[] = { 0, 1, 127, 128, 65536, 2147483647ull, 2147483648ull, 4294967295ull, 4294967296ull, 9223372036854775807ull, 18446744073709551615ull };
            v->bin_n = 0; snprintf(what, sizeof what, "%s=empty", g_sites[si].path); emit(root, what, ctx); *v = saved;
            if (saved.bin_n > 0) { v->bin_n = saved.bin_n - 1; snprintf(what, sizeof what, "%s=shortened", g_sites[si].path); emit(root, what, ctx); *v = saved; }
            for (int l = 0; l < 11; l++) { v->has_lie = true; v->lie = LIES[l]; snprintf(what, sizeof what, "%s.length-lie=%llu", g_sites[si].path, (unsigned long long)LIES[l]); emit(root, what, ctx); } *v = saved;
            for (int l = 0; l < 2; l++) { v->has_lie = true; v->lie = saved.bin_n + (l ? 1 : 0) * 2 - 1 + (l ? 0 : 0); v->lie = l ? saved.bin_n + 1 : (saved.bin_n ? saved.bin_n - 1 : 0); snprintf(what, sizeof what, "%s.length-lie=seed%+d", g_sites[si].path, l ? 1 : -1); emit(root, what, ctx); } *v = saved;
            break; }
        case RT_LIST: case RT_SET: {
            static const uint64_t LIES[] = { 0, 1, 14, 15, 16, 100001, 2147483647ull, 2147483648ull, 4294967295ull, 4294967296ull, 9223372036854775807ull };
            if (saved.nitems > 0) { v->nitems = saved.nitems - 1; snprintf(what, sizeof what, "%s.drop-last", g_sites[si].path); emit(root, what, ctx); *v = saved; v->nitems = 0; snprintf(what, sizeof what, "%s.emptied", g_sites[si].path); emit(root, what, ctx); *v = saved;
                ref_tval* dup = ref_alloc(&RA, sizeof(ref_tval) * (size_t)(saved.nitems + 1)); memcpy(dup, saved.items, sizeof(ref_tval) * (size_t)saved.nitems); dup[saved.nitems] = saved.items[saved.nitems - 1]; v->items = dup; v->nitems = saved.nitems + 1; snprintf(what, sizeof what, "%s.dup-last", g_sites[si].path); emit(root, what, ctx); *v = saved; }
            for (int l = 0; l < 11; l++) { v->has_lie = true; v->lie = LIES[l]; snprintf(what, sizeof what, "%s.count-lie=%llu", g_sites[si].path, (unsigned long long)LIES[l]); emit(root, what, ctx); } *v = saved;
            static const int ET[] = { RT_TRUE, RT_BYTE, RT_I32, RT_I64, RT_DOUBLE, RT_BINARY, RT_LIST, RT_MAP, RT_STRUCT, 0, 14, 15 };
            for (int e = 0; e < 12; e++) { if (ET[e] == saved.elem_type) continue; v->elem_type = ET[e]; v->has_lie = true; v->lie = (uint64_t)saved.nitems; snprintf(what, sizeof what, "%s.elem-type=%d", g_sites[si].path, ET[e]); emit(root, what, ctx); } *v = saved;
            break; }
        case RT_STRUCT:
            for (int k = 0; k < saved.nitems; k++) {   /* remove field k */
                ref_tval* it = ref_alloc(&RA, sizeof(ref_tval) * (size_t)(saved.nitems + 1)); int16_t* fd = ref_alloc(&RA, sizeof(int16_t) * (size_t)(saved.nitems + 1)); int m = 0; for (int q = 0; q < saved.nitems; q++) if (q != k) { it[m] = saved.items[q]; fd[m] = saved.fids[q]; m++; }
                v->items = it; v->fids = fd; v->nitems = m; snprintf(what, sizeof what, "%s.remove-field-%d", g_sites[si].path, saved.fids[k]); emit(root, what, ctx); *v = saved;
            }
            for (int a = 0; a < saved.nitems; a++) for (int b = a + 1; b < saved.nitems; b++) if (saved.items[a].type == saved.items[b].type && saved.items[a].type != RT_STRUCT && saved.items[a].type != RT_LIST) {   /* swap two same-typed fields */
                ref_tval t = v->items[a]; v->items[a] = v->items[b]; v->items[b] = t; snprintf(what, sizeof what, "%s.swap-%d-%d", g_sites[si].path, saved.fids[a], saved.fids[b]); emit(root, what, ctx); t = v->items[a]; v->items[a] = v->items[b]; v->items[b] = t; }
            for (int k = 0; k < saved.nitems; k++) {   /* change a field's wire type: parsers must not trust it */
                static const int WT[] = { RT_TRUE, RT_BYTE, RT_I64, RT_BINARY, RT_LIST, RT_STRUCT, RT_DOUBLE };
                for (int w = 0; w < 7; w++) { if (saved.items[k].type == WT[w] || saved.items[k].type == RT_STRUCT || saved.items[k].type == RT_LIST) continue; ref_tval old = v->items[k]; ref_tval nv; memset(&nv, 0, sizeof nv); nv.type = WT[w]; nv.i = 1; nv.bin = (const uint8_t*)"ab"; nv.bin_n = 2; nv.elem_type = RT_I32; if (WT[w] == RT_STRUCT) nv = ref_t_struct(&RA, 1);
                    v->items[k] = nv; snprintf(what, sizeof what, "%s.field-%d-wire-type=%d", g_sites[si].path, saved.fids[k], WT[w]); emit(root, what, ctx); v->items[k] = old; }
            }
            break;
        default: break;
        }
        *v = saved;
    }
    if (pairs) {      /* all pairs of integer sites over a reduced alphabet */
        static const int RED_F[] = { 0, 2, 15, 16, 20, 21, 22, 24 }, RED_P[] = { 0, 2, 1, 10, 14, 15, 20, 4 };   /* page headers: 0, -1, 1, 255, 65536, INT32_MAX, file size, 7 */
        const int* RED = pairs == 2 ? RED_P : RED_F;
        for (int s1 = 0; s1 < g_nsites; s1++) { ref_tval* a = g_sites[s1].v; if (a->type != RT_I32 && a->type != RT_I64) continue; ref_tval sa = *a;
            for (int s2 = s1 + 1; s2 < g_nsites; s2++) { ref_tval* b = g_sites[s2].v; if (b->type != RT_I32 && b->type != RT_I64) continue; ref_tval sb = *b;
                for (int x = 0; x < 8; x++) for (int y = 0; y < 8; y++) { int64_t va = g_alpha[RED[x]], vb = g_alpha[RED[y]]; if (a->type == RT_I32) va = (int32_t)va; if (b->type == RT_I32) vb = (int32_t)vb; if (va == sa.i || vb == sb.i) continue; a->i = va; b->i = vb; snprintf(what, sizeof what, "%s=%lld,%s=%lld", g_sites[s1].path, (long long)va, g_sites[s2].path, (long long)vb); emit(root, what, ctx); }
                *b = sb; }
            *a = sa; }
    }
}

typedef struct { const uint8_t* img; size_t n; size_t footer_start; const char* seed; size_t hoff, hlen; int page; } emit_ctx;
static uint64_t g_salt;
static void emit_footer(ref_tval* root, const char* what, void* vp) {
    emit_ctx* c = vp; if (!mc_next()) return;
    ref_buf fb, out; ref_buf_init(&fb); ref_buf_init(&out); ref_thrift_encode(root, NULL, &fb); assemble(c->img, c->footer_start, &fb, &out);
    char d[420]; snprintf(d, sizeof d, "c04:%s;footer:%s", c->seed, what); mc_case_key(mc_hash(d, strlen(d), g_salt)); mc_nontrivial(); mc_feature("footer-mutation");
    try_image(out.p, out.n, d); ref_buf_free(&fb); ref_buf_free(&out);
}
static void emit_page(ref_tval* root, const char* what, void* vp) {
    emit_ctx* c = vp; if (!mc_next()) return;
    ref_buf hb, out; ref_buf_init(&hb); ref_buf_init(&out); ref_thrift_encode(root, NULL, &hb); splice(c->img, c->n, c->hoff, c->hlen, &hb, &out);
    char d[420]; snprintf(d, sizeof d, "c04:%s;page#%d-header:%s", c->seed, c->page, what); mc_case_key(mc_hash(d, strlen(d), g_salt)); mc_nontrivial(); mc_feature("page-header-mutation");
    try_image(out.p, out.n, d); ref_buf_free(&hb); ref_buf_free(&out);
}

static void enumerate(void) {
    mc_rule("C04: 12 seed files (flat/nested, PLAIN/dictionary, 5 codecs, multi-page, statistics, zero rows, carquet-written 3 row groups, all 8 types, unknown fields + long headers, dictionary without offset). Mutation ball at structural distance 1: "
            "every integer field of the footer tree and of every page-header tree set to every value of a 25-56 value alphabet (boundary constants, file_size, file_size+-1, footer start, every page offset +-1) and to seed+-1; booleans flipped; binaries "
            "emptied/shortened/given lying lengths; lists shortened/emptied/extended/given lying counts or another element type; struct fields removed, swapped with a same-typed field, or given another wire type; every byte of the file overwritten with "
            "{00,01,7f,80,ff}; nesting-depth and payload-free-count footers. Thorough: all pairs of integer fields of the footer over an 8-value alphabet for 3 seeds. Every image is opened from a buffer, by path and by path+mmap and driven through "
            "metadata accessors, out-of-range indices, statistics, predicates, column readers (read sizes 0,1,3,64, skip, re-creation) with caller buffers sized from the schema, and the batch reader (batch sizes 1,4,default; projection). "
            "Oracle: ASan, CPU budget proportional to the input, library allocation balance after close, error contract. Non-trivial = every image; distinct by descriptor hash.");
    const char* sd = getenv("VERIF_SCRATCH"); snprintf(g_path, sizeof g_path, "%s/c04_%d.parquet", sd ? sd : "/dev/shm", (int)getpid());
    mc_prologue("warm-up read of two valid seed files");
    { /* warm process-lifetime caches so that they are not counted as leaks */ g_warm = true; ref_buf w; ref_buf_init(&w); if (!make_seed(3, &w)) { mcf_reset(); try_image(w.p, w.n, "warm-up"); } ref_buf_free(&w); ref_buf_init(&w); if (!make_seed(2, &w)) try_image(w.p, w.n, "warm-up"); ref_buf_free(&w); (void)carquet_init(); mcf_reset(); ref_arena_free(&RA); g_warm = false; }
    mc_prologue_end();
    for (int pass = 0; pass < (mc_thorough() ? 2 : 1); pass++) {
        mc_stage(pass ? "distance-2.pairs-of-integer-fields" : "distance-1.structural-mutations");
        for (int k = 0; k < NSEED; k++) {
            if (pass && k != 0 && k != 1 && k != 8) continue;
            ref_buf img; ref_buf_init(&img); if (make_seed(k, &img)) mc_harness_error("seed %d cannot be built", k);
            ref_file rf; if (ref_pq_read(&RA, img.p, img.n, &rf, 0)) mc_harness_error("seed %d is rejected by the reference reader: %s", k, rf.err);
            char seed[24]; snprintf(seed, sizeof seed, "seed%d", k); g_salt = 0xc04 + (uint64_t)k * 7 + (uint64_t)pass;
            if (!pass && mc_next()) { char d[64]; snprintf(d, sizeof d, "c04:%s;unmodified", seed); mc_case_key(mc_hash(d, strlen(d), 1)); mc_nontrivial(); try_image(img.p, img.n, d); }
            set_alphabet(img.n, &rf);
            uint32_t flen = (uint32_t)img.p[img.n - 8] | (uint32_t)img.p[img.n - 7] << 8 | (uint32_t)img.p[img.n - 6] << 16 | (uint32_t)img.p[img.n - 5] << 24;
            ref_tval root; if (ref_thrift_decode(&RA, img.p + rf.footer_start, flen, &root, NULL)) mc_harness_error("footer decode");
            emit_ctx c = { img.p, img.n, rf.footer_start, seed, 0, 0, 0 };
            mutate_tree(&root, "footer", emit_footer, &c, pass == 1 ? 1 : 0);
            if (!pass) {
                for (int p = 0; p < rf.npages; p++) { ref_tval pr; size_t hu = 0; if (ref_thrift_decode(&RA, img.p + rf.pages[p].header_off, rf.pages[p].body_off - rf.pages[p].header_off, &pr, &hu)) continue; c.hoff = rf.pages[p].header_off; c.hlen = hu; c.page = p; mutate_tree(&pr, "hdr", emit_page, &c, 0); }
                /* byte-level */
                uint8_t* m = malloc(img.n); static const uint8_t SUB[] = { 0x00, 0x01, 0x7f, 0x80, 0xff };
                for (size_t i = 0; i < img.n; i++) for (int s = 0; s < 5; s++) { if (img.p[i] == SUB[s]) continue; if (!mc_next()) continue; memcpy(m, img.p, img.n); m[i] = SUB[s]; char d[96]; snprintf(d, sizeof d, "c04:%s;byte@%zu=%02x", seed, i, SUB[s]); mc_case_key(mc_hash(d, strlen(d), 2)); mc_nontrivial(); mc_feature("byte-mutation"); try_image(m, img.n, d); }
                /* the 4-byte footer length: every value around the file size and around the true length, and the 32-bit extremes */
                { uint32_t cand[96]; int nc = 0; for (int d = -16; d <= 4; d++) cand[nc++] = (uint32_t)((int64_t)img.n + d); for (int d = -8; d <= 8; d++) if (d) cand[nc++] = (uint32_t)((int64_t)flen + d);
                  static const uint32_t EX[] = { 0, 1, 2, 7, 8, 0x7fffffffu, 0x80000000u, 0xfffffff0u, 0xfffffff4u, 0xfffffff7u, 0xfffffff8u, 0xfffffff9u, 0xfffffffbu, 0xfffffffcu, 0xfffffffdu, 0xfffffffeu, 0xffffffffu }; for (int i = 0; i < 17; i++) cand[nc++] = EX[i];
                  for (int i = 0; i < nc; i++) { if (cand[i] == flen) continue; if (!mc_next()) continue; memcpy(m, img.p, img.n); m[img.n - 8] = (uint8_t)cand[i]; m[img.n - 7] = (uint8_t)(cand[i] >> 8); m[img.n - 6] = (uint8_t)(cand[i] >> 16); m[img.n - 5] = (uint8_t)(cand[i] >> 24);
                      char d[96]; snprintf(d, sizeof d, "c04:%s;footer-length=%u(file %zu, true %u)", seed, cand[i], img.n, flen); mc_case_key(mc_hash(d, strlen(d), g_salt)); mc_nontrivial(); mc_feature("footer-length"); try_image(m, img.n, d); } }
                free(m);
            }
            ref_buf_free(&img); ref_arena_free(&RA);
        }
    }
    mc_stage("distance-2.pairs-of-integer-fields-of-one-page-header");
    for (int k = 0; k < NSEED; k++) {
        ref_buf img; ref_buf_init(&img); if (make_seed(k, &img)) mc_harness_error("seed %d cannot be built", k);
        ref_file rf; if (ref_pq_read(&RA, img.p, img.n, &rf, 0)) mc_harness_error("seed %d is rejected by the reference reader: %s", k, rf.err);
        char seed[24]; snprintf(seed, sizeof seed, "seed%d", k); g_salt = 0xc04 + (uint64_t)k * 7 + 5; set_alphabet(img.n, &rf);
        emit_ctx c = { img.p, img.n, rf.footer_start, seed, 0, 0, 0 };
        for (int p = 0; p < rf.npages; p++) { if (!mc_thorough() && p >= 2 && p != rf.npages - 1) continue;     /* quick: first two pages and the last page of every seed */
            ref_tval pr; size_t hu = 0; if (ref_thrift_decode(&RA, img.p + rf.pages[p].header_off, rf.pages[p].body_off - rf.pages[p].header_off, &pr, &hu)) continue; c.hoff = rf.pages[p].header_off; c.hlen = hu; c.page = p; g_pairs_only = true; mutate_tree(&pr, "hdr", emit_page, &c, 2); g_pairs_only = false; }
        ref_buf_free(&img); ref_arena_free(&RA);
    }
    mc_stage("page-bodies.every-u32-window.length-prefix-values");
    for (int k = 100; k <= 104; k++) {
        ref_buf img; ref_buf_init(&img); if (make_seed(k, &img)) mc_harness_error("seed %d cannot be built", k);
        ref_file rf; if (ref_pq_read(&RA, img.p, img.n, &rf, 0)) mc_harness_error("seed %d is rejected by the reference reader: %s", k, rf.err);
        char seed[24]; snprintf(seed, sizeof seed, "seed%d", k); g_salt = 0xc04 + (uint64_t)k * 7 + 9; uint8_t* m = malloc(img.n);
        for (int p = 0; p < rf.npages; p++) for (size_t o = 0; o + 4 <= rf.pages[p].body_len; o++) {
            uint32_t rem = (uint32_t)(rf.pages[p].body_len - o - 4); uint32_t V[] = { 0xffffffffu, 0xfffffffcu, 0xfffffffbu, 0xfffffff8u, 0x7fffffffu, 0x80000000u, rem, rem + 1, rem - 1, rem - 4, 0, 1 };
            for (int vi = 0; vi < 12; vi++) { size_t at = rf.pages[p].body_off + o; uint32_t cur = (uint32_t)img.p[at] | (uint32_t)img.p[at + 1] << 8 | (uint32_t)img.p[at + 2] << 16 | (uint32_t)img.p[at + 3] << 24; if (cur == V[vi]) continue;
                if (!mc_next()) continue; memcpy(m, img.p, img.n); m[at] = (uint8_t)V[vi]; m[at + 1] = (uint8_t)(V[vi] >> 8); m[at + 2] = (uint8_t)(V[vi] >> 16); m[at + 3] = (uint8_t)(V[vi] >> 24);
                char d[112]; snprintf(d, sizeof d, "c04:%s;page#%d-body@%zu:u32=%u", seed, p, o, V[vi]); mc_case_key(mc_hash(d, strlen(d), g_salt)); mc_nontrivial(); mc_feature("page-body-u32"); try_image(m, img.n, d); } }
        free(m); ref_buf_free(&img); ref_arena_free(&RA);
    }
    /* valid wide files whose parsed metadata crosses the 64 KiB block size of the reader's arena: the common name length and the last name's length are swept byte by byte,
     * so that the allocations near the end of the block occur at every offset and alignment */
    mc_stage("valid-wide-files.metadata-arena-block-boundary-sweep");
    { enum { K = 150 }; static ref_schema_elem sc[K + 1]; static ref_coldata cols[K]; static ref_chunk_layout L[K]; static char names[K][640]; static int16_t zero16[2]; static uint8_t val[8] = { 7, 0, 0, 0 };
      int b0 = getenv("C04_B0") ? atoi(getenv("C04_B0")) : 8, b1 = getenv("C04_B1") ? atoi(getenv("C04_B1")) : (mc_thorough() ? 136 : 72);
      for (int base = b0; base < b1; base += 3) for (int extra = 0; extra < 16; extra++) { int which = 1, len = base + extra;
          if (!mc_next()) continue;
          memset(sc, 0, sizeof sc); memset(cols, 0, sizeof cols); memset(L, 0, sizeof L); sc[0].name = (ref_bin){ (const uint8_t*)"schema", 6, true }; sc[0].has_num_children = true; sc[0].num_children = K;
          for (int c = 0; c < K; c++) { int nl = (c == (which ? K - 1 : 0)) ? len : base; memset(names[c], 'x', (size_t)nl); int pl = snprintf(names[c], 8, "c%03d", c); names[c][pl] = 'x'; if (nl < 4) nl = 4; names[c][nl] = 0;
              sc[c + 1].name = (ref_bin){ (const uint8_t*)names[c], nl, true }; sc[c + 1].has_type = true; sc[c + 1].type = PT_INT32; sc[c + 1].has_rep = true; sc[c + 1].rep = 0;
              cols[c].ptype = PT_INT32; cols[c].nlevels = 1; cols[c].nvalues = 1; cols[c].def = zero16; cols[c].rep = zero16; cols[c].fixed = val; L[c].crc = true; }
          int64_t rows = 1; ref_write_req rq; memset(&rq, 0, sizeof rq); rq.schema = sc; rq.nschema = K + 1; rq.nleaves = K; rq.nrg = 1; rq.rg_rows = &rows; rq.cols = cols; rq.layouts = L; ref_buf img; ref_buf_init(&img);
          if (ref_pq_write(&RA, &rq, &img, NULL, 0, NULL)) mc_harness_error("reference writer failed (wide file)");
          char d[96]; snprintf(d, sizeof d, "c04:wide;%d columns;names=%d bytes;last-name=%d bytes", K, base, len); mc_case_key(mc_hash(d, strlen(d), 0xc04f)); mc_nontrivial(); mc_feature("wide-valid-file");
          try_image(img.p, img.n, d); ref_buf_free(&img); ref_arena_free(&RA);
      } }
    mc_stage("valid-long-files.skips-and-reads");
    for (int k = 0; k < 6; k++) {
        if (!mc_next()) continue;
        rfile_t f; memset(&f, 0, sizeof f); f.ncols = 2; f.N = 5000; f.nrg = 1; f.codec = k & 1 ? CODEC_SNAPPY : CODEC_NONE; f.crc = true; f.pattern = 3; f.dict_offset_present = true;
        static const int T2[] = { PT_INT32, PT_INT64, PT_BYTE_ARRAY }; f.col[0].ptype = T2[k / 2]; f.col[0].opt = k & 1; f.mask[0] = 0x5a5a5a5a5a5aull; f.uniform_page[0] = k >= 4 ? 700 : 0; f.col[1].ptype = PT_DOUBLE; f.uniform_page[1] = 2000;
        ref_buf img; ref_buf_init(&img); static ref_coldata lc[4]; int np = 0; if (rf_build(&RA, &f, &img, NULL, 0, &np, lc)) mc_harness_error("reference writer failed (long file)");
        char d[96]; snprintf(d, sizeof d, "c04:valid-long-file;%s", rf_desc(&f)); d[95] = 0; mc_case_key(mc_hash(d, strlen(d), 0xc04e)); mc_nontrivial(); mc_feature("valid-long-file");
        try_image(img.p, img.n, d); ref_buf_free(&img); ref_arena_free(&RA);
    }
    /* valid dictionary-encoded nullable chunks whose pages differ in how many values they hold: per-page scratch sized by one page and reused by the next */
    mc_stage("valid-dictionary-files.null-density-per-page");
    for (int combo = 0; combo < 256; combo++) for (int ty = 0; ty < 2; ty++) for (int enc = 0; enc < 2; enc++) {
        if (!mc_next()) continue;
        rfile_t f; memset(&f, 0, sizeof f); f.ncols = 1; f.N = 64; f.nrg = 1; f.codec = CODEC_NONE; f.crc = true; f.pattern = 0; f.dict_offset_present = true; f.level_form = REF_H_MIXED; f.index_form = REF_H_MIXED;
        f.col[0].ptype = ty ? PT_BYTE_ARRAY : PT_INT32; f.col[0].opt = 1; f.enc[0] = enc ? ENC_PLAIN_DICT : ENC_RLE_DICT; f.npages[0] = 4; uint64_t m = 0;
        for (int p = 0; p < 4; p++) { f.page_levels[0][p] = 16; int d = (combo >> (2 * p)) & 3; uint64_t pm = d == 0 ? 0xffff : d == 1 ? 0xfffe : d == 2 ? 0xaaaa : 0; m |= pm << (16 * p); }
        f.mask[0] = m;
        ref_buf img; ref_buf_init(&img); static ref_coldata lc[4]; int np = 0; if (rf_build(&RA, &f, &img, NULL, 0, &np, lc)) mc_harness_error("reference writer failed (dictionary file)");
        char d[96]; snprintf(d, sizeof d, "c04:valid-dictionary-file;type=%s;enc=%d;non-null-per-page=%d,%d,%d,%d", ty ? "str" : "i32", enc, "\0\1\10\20"[combo & 3], "\0\1\10\20"[(combo >> 2) & 3], "\0\1\10\20"[(combo >> 4) & 3], "\0\1\10\20"[(combo >> 6) & 3]);
        mc_case_key(mc_hash(d, strlen(d), 0xc04d)); mc_nontrivial(); mc_feature("valid-dictionary-file");
        try_image(img.p, img.n, d); ref_buf_free(&img); ref_arena_free(&RA);
    }
    /* strings that come from the caller and end up in error messages: a path that does not exist and a projected column name that is not in the schema, every length up to 1000;
     * the error struct is an exact-size heap block, so a write behind it is reported */
    mc_stage("caller-strings.every-length.error-struct-fenced");
    { ref_buf img; ref_buf_init(&img); if (make_seed(0, &img)) mc_harness_error("seed"); uint8_t* x = mc_exact(img.p, img.n);
      for (int len = 1; len <= 1000; len += (len < 200 || len > 420 ? 23 : 1)) for (int kind = 0; kind < 3; kind++) {
          if (!mc_next()) continue;
          mc_desc("c04:caller-string;kind=%s;length=%d", kind == 0 ? "missing-path-stdio" : kind == 1 ? "missing-path-mmap" : "missing-column-name", len); mc_case_key(mc_mix(0xc04c5, ((uint64_t)len << 2) | (uint64_t)kind)); mc_nontrivial(); mc_feature("caller-string");
          char* str = malloc((size_t)len + 32); int k = snprintf(str, 32, "%s", kind < 2 ? "/nonexistent-dir/" : "col_"); if (k > len) k = len; memset(str + k, 'n', (size_t)(len - k)); str[len] = 0;
          carquet_error_t* e = mc_exact(NULL, sizeof(carquet_error_t)); memset(e, 0, sizeof *e);
          if (kind < 2) { carquet_reader_options_t o; carquet_reader_options_init(&o); o.use_mmap = kind == 1; carquet_reader_t* rd = carquet_reader_open(str, &o, e); if (rd) { mc_fail("caller-string.nonexistent-path-opened", "length %d", len); carquet_reader_close(rd); }
              else if (e->code == CARQUET_OK || !memchr(e->message, 0, sizeof e->message)) mc_fail("error-contract.caller-string", "path of %d characters: code %d, message %sterminated", len, e->code, memchr(e->message, 0, sizeof e->message) ? "" : "not "); }
          else { carquet_reader_t* rd = carquet_reader_open_buffer(x, img.n, NULL, e); if (!rd) mc_harness_error("seed 0 does not open");
              carquet_batch_reader_config_t cfg; carquet_batch_reader_config_init(&cfg); const char* names[1] = { str }; cfg.column_names = names; cfg.num_column_names = 1; memset(e, 0, sizeof *e);
              carquet_batch_reader_t* br = carquet_batch_reader_create(rd, &cfg, e); if (br) { mc_fail("caller-string.unknown-column-accepted", "length %d", len); carquet_batch_reader_free(br); }
              else if (e->code == CARQUET_OK || !memchr(e->message, 0, sizeof e->message)) mc_fail("error-contract.caller-string", "column name of %d characters: code %d", len, e->code);
              carquet_reader_close(rd); }
          free(e); free(str);
      }
      free(x); ref_buf_free(&img); ref_arena_free(&RA); }
    mc_stage("families.nesting-depth.payload-free-counts");
    { ref_buf img; ref_buf_init(&img); if (make_seed(0, &img)) mc_harness_error("seed"); ref_file rf; if (ref_pq_read(&RA, img.p, img.n, &rf, 0)) mc_harness_error("seed0");
      static const long DEPTH[] = { 1, 31, 32, 33, 1000, 100000, 1000000 };
      for (int di = 0; di < 7; di++) for (int kind = 0; kind < 5; kind++) {
          if (!mc_next()) continue;
          ref_buf fb, out; ref_buf_init(&fb); ref_buf_init(&out); long D = DEPTH[di];
          /* the valid footer with an extra unknown field (id 15) in front whose value nests D containers */
          switch (kind) { case 0: ref_buf_u8(&fb, 0xf9); for (long i = 0; i < D; i++) ref_buf_u8(&fb, 0x19); ref_buf_u8(&fb, 0x05); ref_buf_u8(&fb, 0x00); break;
                          case 1: ref_buf_u8(&fb, 0xfb); for (long i = 0; i < D; i++) { ref_buf_u8(&fb, 0x01); ref_buf_u8(&fb, 0x5b); ref_buf_u8(&fb, 0x00); } ref_buf_u8(&fb, 0x00); break;
                          case 2: ref_buf_u8(&fb, 0xfc); for (long i = 0; i < D; i++) ref_buf_u8(&fb, 0x1c); for (long i = 0; i <= D; i++) ref_buf_u8(&fb, 0x00); break;
                          case 4: ref_buf_u8(&fb, 0xfc); for (long i = 0; i < D; i++) { ref_buf_u8(&fb, 0x0c); ref_buf_u8(&fb, 0x02); } for (long i = 0; i <= D; i++) ref_buf_u8(&fb, 0x00); break;      /* structs through long-form field headers (explicit id 1) */
                          default: ref_buf_u8(&fb, 0xfa); for (long i = 0; i < D; i++) ref_buf_u8(&fb, 0x1a); ref_buf_u8(&fb, 0x05); break; }
          uint32_t flen = (uint32_t)(img.n - 8 - rf.footer_start);
          /* field ids restart: the real footer's first header is a short-form delta from 0; after id 15 write long-form header for field 1 */
          ref_buf_u8(&fb, 0x05); ref_buf_u8(&fb, 0x02); ref_buf_put(&fb, img.p + rf.footer_start + 1, flen - 1);
          assemble(img.p, rf.footer_start, &fb, &out);
          char d[96]; snprintf(d, sizeof d, "c04:seed0;footer-unknown-field-nesting kind=%d depth=%ld", kind, D); mc_case_key(mc_hash(d, strlen(d), 3)); mc_nontrivial(); mc_feature("nesting-depth");
          try_image(out.p, out.n, d); ref_buf_free(&fb); ref_buf_free(&out);
      }
      ref_buf_free(&img); ref_arena_free(&RA); }
    unlink(g_path);
}
int main(int argc, char** argv) { return mc_main(argc, argv, "c04", enumerate); }
