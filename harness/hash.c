/* hash.c — C20 (mode c20: XXH64 and split-block Bloom filter against the
 * published algorithms) and C14 part (a) (mode c14a: CRC-32 is IEEE 802.3,
 * for every length, alignment and split point). */
#include "mc/mc.h"
#include "ref/ref.h"
#include "cq_decl.h"
#include <stdio.h>
#include <unistd.h>
#include <stdlib.h>
#include <string.h>
#include <zlib.h>

/* Bloom filter API (exported by the library; only the opaque type is in carquet.h) */
carquet_bloom_filter_t* carquet_bloom_filter_create(size_t num_bytes);
carquet_bloom_filter_t* carquet_bloom_filter_from_data(const uint8_t* data, size_t size);
void carquet_bloom_filter_destroy(carquet_bloom_filter_t* f);
void carquet_bloom_filter_insert_hash(carquet_bloom_filter_t* f, uint64_t h);
void carquet_bloom_filter_insert_i32(carquet_bloom_filter_t* f, int32_t v);
void carquet_bloom_filter_insert_i64(carquet_bloom_filter_t* f, int64_t v);
void carquet_bloom_filter_insert_float(carquet_bloom_filter_t* f, float v);
void carquet_bloom_filter_insert_double(carquet_bloom_filter_t* f, double v);
void carquet_bloom_filter_insert_bytes(carquet_bloom_filter_t* f, const uint8_t* d, size_t n);
bool carquet_bloom_filter_check_hash(const carquet_bloom_filter_t* f, uint64_t h);
bool carquet_bloom_filter_check_i32(const carquet_bloom_filter_t* f, int32_t v);
bool carquet_bloom_filter_check_i64(const carquet_bloom_filter_t* f, int64_t v);
bool carquet_bloom_filter_check_float(const carquet_bloom_filter_t* f, float v);
bool carquet_bloom_filter_check_double(const carquet_bloom_filter_t* f, double v);
bool carquet_bloom_filter_check_bytes(const carquet_bloom_filter_t* f, const uint8_t* d, size_t n);
const uint8_t* carquet_bloom_filter_data(const carquet_bloom_filter_t* f);
size_t carquet_bloom_filter_size(const carquet_bloom_filter_t* f);
size_t carquet_bloom_filter_num_blocks(const carquet_bloom_filter_t* f);
carquet_status_t carquet_bloom_filter_write(const carquet_bloom_filter_t* f, uint8_t* out, size_t cap, size_t* w);
carquet_status_t carquet_bloom_filter_read(carquet_bloom_filter_t** out, const uint8_t* d, size_t n);
carquet_status_t carquet_bloom_filter_merge(carquet_bloom_filter_t* dst, const carquet_bloom_filter_t* src);

static mc_arena_t A;

static void fill_pattern(uint8_t* p, size_t n, int pat, size_t bit) {
    switch (pat) {
    case 0: memset(p, 0, n); break;
    case 1: memset(p, 0xff, n); break;
    case 2: memset(p, 0, n); p[bit >> 3] = (uint8_t)(1u << (bit & 7)); break;
    default: for (size_t i = 0; i < n; i++) p[i] = (uint8_t)(i * 131 + 7 + (i >> 8) * 3); break;
    }
}

/* ---- XXH64 ------------------------------------------------------------- */
static void c20_xxh(void) {
    static const uint64_t SEEDS[] = { 0, 1, 0x100000000ull, 0xffffffffffffffffull, 11400714785074694791ull };
    size_t maxlen = 300;
    mc_stage("xxh64.every-length.patterns.seeds.alignments");
    for (size_t n = 0; n <= maxlen; n++)
        for (int pat = 0; pat < 4; pat++) {
            size_t nbits = pat == 2 ? n * 8 : 1;
            if (pat == 2 && n == 0) continue;
            for (size_t bit = 0; bit < nbits; bit++) {
                if (!mc_next()) continue;
                mc_desc("xxh64:n=%zu;pat=%d;bit=%zu", n, pat, bit); mc_feature("xxh64");
                mc_case_key(mc_mix(0x201, ((uint64_t)n << 32) | ((uint64_t)pat << 24) | bit)); if (n) mc_nontrivial();
                for (int al = 0; al < 8; al++) {
                    /* tail placement with `al` slack bytes after the message is not possible (guard); use head+offset and tail */
                    uint8_t* p = al == 0 ? mc_arena_tail(&A, n) : mc_arena_head(&A, n + 8) + al;
                    fill_pattern(p, n, pat, bit);
                    for (int s = 0; s < 5; s++) {
                        uint64_t got = carquet_xxhash64(p, n, SEEDS[s]), want = ref_xxh64(p, n, SEEDS[s]);
                        if (got != want) {
                            char key[96]; snprintf(key, sizeof key, "xxh64.value.len%s", n >= 32 ? ">=32" : n >= 8 ? "8-31" : n >= 4 ? "4-7" : "0-3");
                            mc_fail(key, "n=%zu pat=%d bit=%zu align=%d seed=%llx got=%016llx want=%016llx", n, pat, bit, al, (unsigned long long)SEEDS[s], (unsigned long long)got, (unsigned long long)want);
                        }
                    }
                }
            }
        }
}

/* ---- Bloom filter --------------------------------------------------------- */
enum { T_I32, T_I64, T_F32, T_F64, T_BYTES, NT };
static const char* TN[] = { "int32", "int64", "float", "double", "bytes" };
static const int32_t P32[12] = { 0, 1, -1, 2, 7, 100, 1000, 65536, INT32_MAX, INT32_MIN, 123456789, -42 };
static const int64_t P64[12] = { 0, 1, -1, 2, 7, 100, 4294967296LL, -4294967296LL, INT64_MAX, INT64_MIN, 1234567890123LL, -42 };
static const uint32_t PF[12] = { 0, 0x80000000u, 0x3f800000u, 0xbf800000u, 0x7f800000u, 0xff800000u, 0x7fc00000u, 0x7fc00001u, 0x00000001u, 0x7f7fffffu, 0x40490fdbu, 0x3dcccccdu };
static const uint64_t PD[12] = { 0, 0x8000000000000000ull, 0x3ff0000000000000ull, 0xbff0000000000000ull, 0x7ff0000000000000ull, 0xfff0000000000000ull, 0x7ff8000000000000ull, 0x7ff8000000000001ull, 1, 0x7fefffffffffffffull, 0x400921fb54442d18ull, 0x3fb999999999999aull };
static const char* PB[12] = { "", "a", "b", "ab", "ba", "abc", "hello world", "\x00", "\xff\xfe", "0123456789abcdef0123456789abcdef", "0123456789abcdef0123456789abcdeg", "zzzzzzzzzzzzzzzzzzzzzzzzzzzzzzzzzzzzzzzzzzzzzzzzzzzzzzzzzzzzzzzzzzzzzzzzzzzzzzzzzz" };
static const size_t PBN[12] = { 0, 1, 1, 2, 2, 3, 11, 1, 2, 32, 32, 80 };

static uint64_t ref_hash_of(int t, int k) {
    uint8_t b[8];
    switch (t) {
    case T_I32: for (int i = 0; i < 4; i++) b[i] = (uint8_t)((uint32_t)P32[k] >> (8 * i)); return ref_xxh64(b, 4, 0);
    case T_I64: for (int i = 0; i < 8; i++) b[i] = (uint8_t)((uint64_t)P64[k] >> (8 * i)); return ref_xxh64(b, 8, 0);
    case T_F32: for (int i = 0; i < 4; i++) b[i] = (uint8_t)(PF[k] >> (8 * i)); return ref_xxh64(b, 4, 0);
    case T_F64: for (int i = 0; i < 8; i++) b[i] = (uint8_t)(PD[k] >> (8 * i)); return ref_xxh64(b, 8, 0);
    default: return ref_xxh64(PB[k], PBN[k], 0);
    }
}
static void cq_insert(carquet_bloom_filter_t* f, int t, int k) {
    float fv; double dv;
    switch (t) {
    case T_I32: carquet_bloom_filter_insert_i32(f, P32[k]); break;
    case T_I64: carquet_bloom_filter_insert_i64(f, P64[k]); break;
    case T_F32: memcpy(&fv, &PF[k], 4); carquet_bloom_filter_insert_float(f, fv); break;
    case T_F64: memcpy(&dv, &PD[k], 8); carquet_bloom_filter_insert_double(f, dv); break;
    default: { uint8_t* d = mc_exact(PB[k], PBN[k]); carquet_bloom_filter_insert_bytes(f, d, PBN[k]); free(d); }
    }
}
static bool cq_check(const carquet_bloom_filter_t* f, int t, int k) {
    float fv; double dv; bool r;
    switch (t) {
    case T_I32: return carquet_bloom_filter_check_i32(f, P32[k]);
    case T_I64: return carquet_bloom_filter_check_i64(f, P64[k]);
    case T_F32: memcpy(&fv, &PF[k], 4); return carquet_bloom_filter_check_float(f, fv);
    case T_F64: memcpy(&dv, &PD[k], 8); return carquet_bloom_filter_check_double(f, dv);
    default: { uint8_t* d = mc_exact(PB[k], PBN[k]); r = carquet_bloom_filter_check_bytes(f, d, PBN[k]); free(d); return r; }
    }
}

static void c20_bloom(void) {
    static const size_t SZ[] = { 0, 1, 31, 32, 33, 63, 64, 65, 96, 1000, 1024 };
    /* requests the rounding to whole blocks cannot represent: refused (NULL), never a filter smaller than asked for */
    mc_stage("bloom.create.sizes-near-the-top-of-size_t");
    { static const size_t HUGE[] = { (size_t)-1, (size_t)-2, (size_t)-31, (size_t)-32, (size_t)-33, (size_t)-64, ((size_t)1 << 63) + 1 };
      for (int i = 0; i < 7; i++) { if (!mc_next()) continue; mc_desc("bloom:create;bytes=%zu", HUGE[i]); mc_case_key(mc_mix(0x211, (uint64_t)i)); mc_nontrivial();
          carquet_bloom_filter_t* f = carquet_bloom_filter_create(HUGE[i]);
          if (f) { size_t got = carquet_bloom_filter_size(f); if (got < HUGE[i]) { mc_fail("bloom.create.size-wraps", "create(%zu) returned a filter of %zu bytes / %zu blocks", HUGE[i], got, carquet_bloom_filter_num_blocks(f)); } else carquet_bloom_filter_destroy(f); } } }
    mc_stage("bloom.create.sizes");
    for (int i = 0; i < 11; i++) {
        if (!mc_next()) continue;
        mc_desc("bloom:create;bytes=%zu", SZ[i]); mc_case_key(mc_mix(0x210, SZ[i])); mc_nontrivial();
        carquet_bloom_filter_t* f = carquet_bloom_filter_create(SZ[i]);
        if (!f) { mc_fail("bloom.create.null", "create(%zu) returned NULL", SZ[i]); continue; }
        size_t want = SZ[i] < 32 ? 32 : (SZ[i] + 31) / 32 * 32;
        size_t got = carquet_bloom_filter_size(f);
        if (got % 32 != 0 || got < SZ[i] || got != want) mc_fail("bloom.create.size-rounding", "create(%zu): size %zu, expected %zu", SZ[i], got, want);
        if (carquet_bloom_filter_num_blocks(f) * 32 != got) mc_fail("bloom.create.num-blocks", "size %zu blocks %zu", got, carquet_bloom_filter_num_blocks(f));
        const uint8_t* d = carquet_bloom_filter_data(f);
        for (size_t k = 0; k < got; k++) if (d[k]) { mc_fail("bloom.create.not-zero", "byte %zu = %02x", k, d[k]); break; }
        for (int t = 0; t < NT; t++) for (int k = 0; k < 12; k++) if (cq_check(f, t, k)) mc_fail("bloom.fresh-filter-reports-present", "type=%s value#%d size=%zu", TN[t], k, got);
        carquet_bloom_filter_destroy(f);
    }
    static const int NB[] = { 1, 2, 3, 8 };
    mc_stage("bloom.all-subsets-of-12-values");
    for (int t = 0; t < NT; t++)
        for (int bi = 0; bi < 4; bi++)
            for (uint32_t sub = 0; sub < 4096; sub++) {
                if (!mc_next()) continue;
                uint32_t nb = (uint32_t)NB[bi];
                mc_desc("bloom:type=%s;blocks=%u;subset=0x%03x", TN[t], nb, sub);
                mc_case_key(mc_mix(0x211, ((uint64_t)t << 32) | ((uint64_t)bi << 16) | sub)); if (sub) mc_nontrivial();
                carquet_bloom_filter_t* f = carquet_bloom_filter_create(nb * 32);
                uint8_t refbits[8 * 32]; memset(refbits, 0, sizeof refbits);
                uint8_t refA[8 * 32], refB[8 * 32]; memset(refA, 0, sizeof refA); memset(refB, 0, sizeof refB);
                carquet_bloom_filter_t* fa = carquet_bloom_filter_create(nb * 32); carquet_bloom_filter_t* fb = carquet_bloom_filter_create(nb * 32);
                if (!f || !fa || !fb) { mc_fail("bloom.create.null", "NULL"); continue; }
                for (int k = 0; k < 12; k++) if ((sub >> k) & 1) {
                    cq_insert(f, t, k); ref_sbbf_insert(refbits, nb, ref_hash_of(t, k));
                    if (k & 1) { cq_insert(fa, t, k); } else { cq_insert(fb, t, k); }
                }
                for (int k = 0; k < 12; k++) if (((sub >> k) & 1) && !cq_check(f, t, k)) mc_fail("bloom.false-negative", "type=%s blocks=%u subset=0x%03x value#%d", TN[t], nb, sub, k);
                if (memcmp(carquet_bloom_filter_data(f), refbits, nb * 32)) {
                    char key[96]; snprintf(key, sizeof key, "bloom.bits-differ-from-parquet-sbbf.%s", nb == 1 ? "single-block" : "multi-block");
                    mc_fail(key, "type=%s blocks=%u subset=0x%03x carquet=%s ref=%s", TN[t], nb, sub, mc_hex(carquet_bloom_filter_data(f), nb * 32, 64), mc_hex(refbits, nb * 32, 64));
                }
                /* write -> read */
                /* the destination may be larger than the filter (exact, +7, +32, x4 bytes, in turn): the length reported is the filter's */
                static const size_t XCAP[4] = { 0, 7, 32, 0 }; size_t cap = (size_t)nb * 32 + XCAP[sub & 3] + ((sub & 3) == 3 ? (size_t)nb * 96 : 0);
                uint8_t* ser = mc_exact(NULL, cap); size_t w = 0;
                carquet_status_t st = carquet_bloom_filter_write(f, ser, cap, &w);
                carquet_bloom_filter_t* g = NULL;
                if (st != CARQUET_OK || w != nb * 32) mc_fail("bloom.write", "status=%d written=%zu", st, w);
                else if (carquet_bloom_filter_read(&g, ser, w) != CARQUET_OK || !g) mc_fail("bloom.read", "read failed");
                else {
                    if (carquet_bloom_filter_size(g) != nb * 32 || memcmp(carquet_bloom_filter_data(g), carquet_bloom_filter_data(f), nb * 32)) mc_fail("bloom.reload-differs", "subset=0x%03x", sub);
                    for (int k = 0; k < 12; k++) if (((sub >> k) & 1) && !cq_check(g, t, k)) mc_fail("bloom.false-negative-after-reload", "value#%d", k);
                    /* the re-loaded filter is independent of the bytes it was read from: the caller's buffer is reused for something else and then released, and inserting into the
                     * re-loaded filter leaves the caller's (const) bytes alone */
                    uint8_t* keep = mc_exact(ser, w); for (int k = 0; k < 12; k++) if (!((sub >> k) & 1)) { cq_insert(g, t, k); break; }
                    if (memcmp(ser, keep, w)) mc_fail("bloom.reload-aliases-the-callers-buffer.insert-writes-through", "subset=0x%03x: inserting into the re-loaded filter changed the serialized bytes it was read from", sub);
                    memset(ser, 0, w); free(ser); ser = NULL;
                    for (int k = 0; k < 12; k++) if (((sub >> k) & 1) && !cq_check(g, t, k)) { mc_fail("bloom.reload-aliases-the-callers-buffer.false-negative", "subset=0x%03x value#%d: reported absent after the buffer the filter was read from was overwritten and freed", sub, k); break; }
                    free(keep); carquet_bloom_filter_destroy(g);
                }
                free(ser);
                /* merge(A,B) contains the union */
                if (carquet_bloom_filter_merge(fa, fb) != CARQUET_OK) mc_fail("bloom.merge.status", "merge of equal sizes refused");
                else {
                    for (int k = 0; k < 12; k++) if (((sub >> k) & 1) && !cq_check(fa, t, k)) mc_fail("bloom.merge.false-negative", "value#%d subset=0x%03x", k, sub);
                    const uint8_t* m = carquet_bloom_filter_data(fa);
                    for (size_t i = 0; i < nb * 32; i++) if ((m[i] & refbits[i]) != refbits[i]) { mc_fail("bloom.merge.missing-bits", "byte %zu", i); break; }
                }
                carquet_bloom_filter_destroy(f); carquet_bloom_filter_destroy(fa); carquet_bloom_filter_destroy(fb);
            }
    /* the empty byte string in both spellings a caller may use, (pointer, 0) and (NULL, 0): inserted as one, found as the other, directly, re-loaded and merged */
    mc_stage("bloom.empty-byte-string.both-spellings");
    for (int bi = 0; bi < 4; bi++) for (int ins = 0; ins < 2; ins++) for (int chk = 0; chk < 2; chk++) {
        if (!mc_next()) continue;
        static const size_t BS[] = { 32, 64, 1024, 4000 }; static const uint8_t one[1] = { 0x41 };
        mc_desc("bloom:empty-string;bytes=%zu;inserted-as=%s;checked-as=%s", BS[bi], ins ? "(NULL,0)" : "(ptr,0)", chk ? "(NULL,0)" : "(ptr,0)"); mc_case_key(mc_mix(0xb10e, ((uint64_t)bi << 4) | ((uint64_t)ins << 1) | (uint64_t)chk)); mc_nontrivial();
        carquet_bloom_filter_t* f = carquet_bloom_filter_create(BS[bi]); carquet_bloom_filter_t* g = carquet_bloom_filter_create(BS[bi]); if (!f || !g) { mc_fail("bloom.create", "size %zu", BS[bi]); continue; }
        carquet_bloom_filter_insert_bytes(f, ins ? NULL : one, 0);
        if (!carquet_bloom_filter_check_bytes(f, chk ? NULL : one, 0)) mc_fail("bloom.false-negative.empty-byte-string", "size %zu: inserted as %s, reported absent when checked as %s", BS[bi], ins ? "(NULL,0)" : "(ptr,0)", chk ? "(NULL,0)" : "(ptr,0)");
        if (carquet_bloom_filter_merge(g, f) == CARQUET_OK && !carquet_bloom_filter_check_bytes(g, chk ? NULL : one, 0)) mc_fail("bloom.false-negative.empty-byte-string.merged", "size %zu", BS[bi]);
        uint64_t want = ref_xxh64("", 0, 0); (void)want;
        carquet_bloom_filter_destroy(f); carquet_bloom_filter_destroy(g);
    }
    /* raw hashes: block selection over the whole 32-bit upper word range */
    mc_stage("bloom.insert-hash.block-selection");
    for (int bi = 0; bi < 6; bi++)
        for (uint32_t hi = 0; hi < 4096; hi++) {
            if (!mc_next()) continue;
            static const uint32_t NBL[] = { 1, 2, 3, 5, 8, 31 };
            uint32_t nb = NBL[bi];
            uint64_t h = ((uint64_t)(hi * 0x00100001u + (hi << 20)) << 32) | (uint64_t)(hi * 2654435761u);
            mc_desc("bloom:hash=%016llx;blocks=%u", (unsigned long long)h, nb); mc_case_key(mc_mix(0x212, ((uint64_t)bi << 32) | hi)); mc_nontrivial();
            carquet_bloom_filter_t* f = carquet_bloom_filter_create(nb * 32);
            uint8_t refbits[31 * 32]; memset(refbits, 0, sizeof refbits);
            carquet_bloom_filter_insert_hash(f, h); ref_sbbf_insert(refbits, nb, h);
            if (!carquet_bloom_filter_check_hash(f, h)) mc_fail("bloom.false-negative.hash", "hash=%016llx", (unsigned long long)h);
            if (memcmp(carquet_bloom_filter_data(f), refbits, nb * 32)) {
                char key[96]; snprintf(key, sizeof key, "bloom.bits-differ-from-parquet-sbbf.%s", nb == 1 ? "single-block" : "multi-block");
                mc_fail(key, "hash=%016llx blocks=%u", (unsigned long long)h, nb);
            }
            carquet_bloom_filter_destroy(f);
        }
}

/* ---- CRC-32 ---------------------------------------------------------------- */
static void c14a(void) {
    mc_rule("C14(a): carquet_crc32 / carquet_crc32_update against a bit-serial IEEE 802.3 CRC-32 and zlib's crc32(): every length 0..64 (quick) / 0..300 (thorough) x {zero, all-ones, every single-bit message, tagged} x source alignment 0..15 "
            "x every split point for update-composition; lengths up to 4100 for structured patterns. Non-trivial = length >= 1; distinct by (length, pattern, bit).");
    size_t maxlen = mc_thorough() ? 300 : 160;
    mc_stage("crc32.every-length.patterns.alignments.splits");
    for (size_t n = 0; n <= maxlen; n++)
        for (int pat = 0; pat < 4; pat++) {
            size_t nbits = pat == 2 ? n * 8 : 1;
            if (pat == 2 && n == 0) continue;
            for (size_t bit = 0; bit < nbits; bit++) {
                if (!mc_next()) continue;
                mc_desc("crc32:n=%zu;pat=%d;bit=%zu", n, pat, bit); mc_feature("crc32");
                mc_case_key(mc_mix(0x141, ((uint64_t)n << 32) | ((uint64_t)pat << 24) | bit)); if (n) mc_nontrivial();
                for (int al = 0; al < 16; al++) {
                    uint8_t* p = al == 0 ? mc_arena_tail(&A, n) : mc_arena_head(&A, n + 16) + al;
                    fill_pattern(p, n, pat, bit);
                    uint32_t want = ref_crc32_ieee(p, n), z = (uint32_t)crc32(0L, p, (uInt)n), got = carquet_crc32(p, n);
                    if (want != z) mc_harness_error("reference CRC disagrees with zlib");
                    if (got != want) { char key[64]; snprintf(key, sizeof key, "crc32.value.len%s", n >= 8 ? ">=8" : "<8"); mc_fail(key, "n=%zu pat=%d bit=%zu align=%d got=%08x want=%08x", n, pat, bit, al, got, want); }
                    if (al < 2)
                        for (size_t k = 0; k <= n; k++) {
                            uint32_t c1 = carquet_crc32(p, k), c2 = carquet_crc32_update(c1, p + k, n - k);
                            if (c2 != want) { mc_fail("crc32.update-composition", "n=%zu split=%zu pat=%d bit=%zu crc(a)=%08x update=%08x want=%08x", n, k, pat, bit, c1, c2, want); break; }
                        }
                }
            }
        }
    mc_stage("crc32.long-structured");
    for (size_t n = 65; n <= 4100; n += 1)
        for (int pat = 0; pat < 4; pat++) {
            if (!mc_next()) continue;
            mc_desc("crc32:long;n=%zu;pat=%d", n, pat); mc_feature("crc32"); mc_case_key(mc_mix(0x142, ((uint64_t)n << 8) | (uint64_t)pat)); mc_nontrivial();
            uint8_t* p = mc_arena_tail(&A, n); fill_pattern(p, n, pat, n * 3 + 1);
            uint32_t want = (uint32_t)crc32(0L, p, (uInt)n), got = carquet_crc32(p, n);
            if (got != want) mc_fail("crc32.value.len>=8", "n=%zu pat=%d got=%08x want=%08x", n, pat, got, want);
            size_t k = n / 3; uint32_t c2 = carquet_crc32_update(carquet_crc32(p, k), p + k, n - k);
            if (c2 != want) mc_fail("crc32.update-composition", "n=%zu split=%zu", n, k);
        }
}

/* large filters with block counts that are not powers of two, many sequential and spread keys: the block index is a multiply-shift of the
 * UPPER 32 hash bits only, which no small filter can distinguish from other plausible formulas; and NaN payloads hash as their bytes */
static void c20_large(void) {
    /* filters beyond 4 GiB (block byte offsets need more than 32 bits): the memory is reserved, only the touched blocks become resident */
    mc_stage("bloom.filters-beyond-4GiB");
    { static const uint64_t GIB[] = { 4, 6 };
      for (int gi = 0; gi < 2; gi++) { if (!mc_next()) continue; size_t bytes = (size_t)GIB[gi] << 30; if (gi == 0) bytes += 64; uint64_t nb64 = bytes / 32;
          mc_desc("bloom:huge;bytes=%zu", bytes); mc_feature("bloom"); mc_case_key(mc_mix(0x206, (uint64_t)gi)); mc_nontrivial(); mc_budget_ms(60000);
          carquet_bloom_filter_t* f = carquet_bloom_filter_create(bytes); uint8_t* ref = calloc(bytes, 1);
          if (!f || !ref) { mc_count("bloom.huge.reservation-refused", 1); if (f) carquet_bloom_filter_destroy(f); free(ref); continue; }
          if (carquet_bloom_filter_size(f) != bytes) mc_fail("bloom.huge.size", "create(%zu) gives %zu bytes", bytes, carquet_bloom_filter_size(f));
          const uint8_t* d = carquet_bloom_filter_data(f); int bad = 0;
          for (int k = 0; k < 96 && !bad; k++) { uint64_t hi = k < 32 ? ((uint64_t)k << 27) | 5u : k < 64 ? 0xFFFFFFFFu - (uint64_t)(k - 32) * 0x01010101u : (uint64_t)(k - 63) * 0x07FFFFF1u; uint64_t h = (hi << 32) | (0x9E3779B9u * (uint64_t)(k + 1) & 0xFFFFFFFFu);
              carquet_bloom_filter_insert_hash(f, h); ref_sbbf_insert(ref, (uint32_t)nb64, h); uint64_t blk = ((h >> 32) * nb64) >> 32;
              if (!carquet_bloom_filter_check_hash(f, h)) { mc_fail("bloom.huge.false-negative", "filter of %zu bytes: hash %016llx (block %llu, byte offset %llu) inserted, reported absent", bytes, (unsigned long long)h, (unsigned long long)blk, (unsigned long long)(blk * 32)); bad = 1; }
              else if (memcmp(d + blk * 32, ref + blk * 32, 32)) { mc_fail("bloom.huge.bits-differ-from-parquet-sbbf", "filter of %zu bytes: block %llu (byte offset %llu) differs from the reference after inserting %016llx", bytes, (unsigned long long)blk, (unsigned long long)(blk * 32), (unsigned long long)h); bad = 1; } }
          carquet_bloom_filter_destroy(f); free(ref); } }
    mc_stage("bloom.large-filters.non-power-of-two-blocks");
    static const uint32_t NB[] = { 3, 5, 1000, 4097, 100001 };
    for (int bi = 0; bi < 5; bi++) for (int fam = 0; fam < 3; fam++) {
        if (!mc_next()) continue;
        uint32_t nb = NB[bi]; size_t bytes = (size_t)nb * 32; int nkeys = nb < 100 ? 200000 : 400000;
        mc_desc("bloom:large;blocks=%u;keys=%d;family=%d", nb, nkeys, fam); mc_feature("bloom"); mc_case_key(mc_mix(0x205, ((uint64_t)bi << 8) | (uint64_t)fam)); mc_nontrivial(); mc_budget_ms(60000);
        carquet_bloom_filter_t* f = carquet_bloom_filter_create(bytes); if (!f) { mc_fail("bloom.large.create-failed", "%zu bytes", bytes); continue; }
        if (carquet_bloom_filter_num_blocks(f) != nb) { mc_count("bloom.large.size-rounded", 1); nb = (uint32_t)carquet_bloom_filter_num_blocks(f); bytes = (size_t)nb * 32; }
        uint8_t* refbits = calloc(1, bytes); int64_t firstbad = -1;
        for (int k = 0; k < nkeys; k++) { int64_t key = fam == 0 ? k : fam == 1 ? (int64_t)k * 6956284205LL + 449628179 : (int64_t)((uint64_t)k * 0x9E3779B97F4A7C15ull);
            if (fam == 1 && (k & 1)) { int32_t k32 = (int32_t)key; carquet_bloom_filter_insert_i32(f, k32); ref_sbbf_insert(refbits, nb, ref_xxh64(&k32, 4, 0)); } else { carquet_bloom_filter_insert_i64(f, key); ref_sbbf_insert(refbits, nb, ref_xxh64(&key, 8, 0)); } }
        if (memcmp(carquet_bloom_filter_data(f), refbits, bytes)) { size_t d = 0; const uint8_t* g = carquet_bloom_filter_data(f); while (g[d] == refbits[d]) d++; mc_fail("bloom.bits-differ-from-parquet-sbbf.large-filter", "blocks=%u: first differing byte %zu (block %zu): %02x, Parquet algorithm %02x", nb, d, d / 32, g[d], refbits[d]); }
        /* a filter built by the Parquet algorithm, loaded: every inserted key must be reported present */
        carquet_bloom_filter_t* g2 = carquet_bloom_filter_from_data(refbits, bytes);
        if (g2) { for (int k = 0; k < nkeys && firstbad < 0; k++) { int64_t key = fam == 0 ? k : fam == 1 ? (int64_t)k * 6956284205LL + 449628179 : (int64_t)((uint64_t)k * 0x9E3779B97F4A7C15ull); bool in = (fam == 1 && (k & 1)) ? carquet_bloom_filter_check_i32(g2, (int32_t)key) : carquet_bloom_filter_check_i64(g2, key); if (!in) firstbad = k; }
            if (firstbad >= 0) mc_fail("bloom.false-negative.large-filter", "blocks=%u: key #%lld is in the reference-built filter but reported absent", nb, (long long)firstbad); carquet_bloom_filter_destroy(g2); }
        free(refbits); carquet_bloom_filter_destroy(f);
    }
    mc_stage("bloom.float-bit-patterns");
    { static const uint32_t FB[] = { 0x7fc00000u, 0xffc00000u, 0x7fc00001u, 0x7fa00000u, 0xffffffffu, 0x7f800001u, 0x00000000u, 0x80000000u, 0x7f800000u, 0xff800000u, 0x00000001u, 0x3f800000u };
      static const uint64_t DB[] = { 0x7ff8000000000000ull, 0xfff8000000000000ull, 0x7ff8000000000123ull, 0x7ff4000000000000ull, 0xffffffffffffffffull, 0x7ff0000000000001ull, 0, 0x8000000000000000ull, 0x7ff0000000000000ull, 0xfff0000000000000ull, 1, 0x3ff0000000000000ull };
      for (int i = 0; i < 12; i++) for (int dbl = 0; dbl < 2; dbl++) for (int nbi = 0; nbi < 2; nbi++) {
          if (!mc_next()) continue;
          uint32_t nb = nbi ? 7 : 1; mc_desc("bloom:float-bits;%s=%llx;blocks=%u", dbl ? "double" : "float", dbl ? (unsigned long long)DB[i] : (unsigned long long)FB[i], nb); mc_feature("bloom"); mc_case_key(mc_mix(0x206, ((uint64_t)i << 8) | ((uint64_t)dbl << 4) | (uint64_t)nbi)); mc_nontrivial();
          carquet_bloom_filter_t* f = carquet_bloom_filter_create((size_t)nb * 32); if (!f) continue; uint8_t refbits[7 * 32]; memset(refbits, 0, sizeof refbits); bool present;
          if (dbl) { double dv; memcpy(&dv, &DB[i], 8); carquet_bloom_filter_insert_double(f, dv); ref_sbbf_insert(refbits, nb, ref_xxh64(&DB[i], 8, 0)); present = carquet_bloom_filter_check_double(f, dv); }
          else { float fv; memcpy(&fv, &FB[i], 4); carquet_bloom_filter_insert_float(f, fv); ref_sbbf_insert(refbits, nb, ref_xxh64(&FB[i], 4, 0)); present = carquet_bloom_filter_check_float(f, fv); }
          if (!present) mc_fail("bloom.false-negative.float-bit-pattern", "the value just inserted is reported absent");
          if (memcmp(carquet_bloom_filter_data(f), refbits, (size_t)nb * 32)) mc_fail("bloom.bits-differ-from-parquet-sbbf.float-bit-pattern", "the bits set are not those of XXH64 over the value's plain encoding");
          carquet_bloom_filter_destroy(f);
      } }
}

/* lengths at and beyond 64 KiB / 1 MiB (where an implementation may switch kernels) */
static void c14a_large(void) {
    mc_stage("crc32.large-lengths");
    static const size_t LN[] = { 8191, 8192, 8193, 65535, 65536, 65537, 65599, 131072, 131073, (1u << 20) - 1, 1u << 20, (1u << 20) + 1, 3000017 };
    static uint8_t* big; if (!big) big = malloc(3000017 + 64);
    for (int li = 0; li < 13; li++) for (int pat = 0; pat < 3; pat++) for (int al = 0; al < 3; al++) {
        if (!mc_next()) continue;
        size_t n = LN[li]; uint8_t* p = big + al * 5; uint32_t x = 99u + (uint32_t)pat;
        for (size_t i = 0; i < n; i++) { if (pat == 0) p[i] = 0; else if (pat == 1) p[i] = 0xff; else { x = x * 1664525u + 1013904223u; p[i] = (uint8_t)(x >> 24); } }
        mc_desc("crc32:large;n=%zu;pat=%d;align=%d", n, pat, al * 5); mc_feature("crc32"); mc_case_key(mc_mix(0x143, ((uint64_t)li << 16) | ((uint64_t)pat << 8) | (uint64_t)al)); mc_nontrivial();
        uint32_t want = (uint32_t)crc32(0L, p, (uInt)n), got = carquet_crc32(p, n);
        if (got != want) mc_fail("crc32.value.len>=64KiB", "n=%zu pat=%d align=%d got=%08x want=%08x", n, pat, al * 5, got, want);
        static const size_t CUT[] = { 0, 1, 7, 4096, 65535, 65536 };
        for (int ci = 0; ci < 6; ci++) { size_t k = CUT[ci] <= n ? CUT[ci] : n; uint32_t c2 = carquet_crc32_update(carquet_crc32(p, k), p + k, n - k); if (c2 != want) { mc_fail("crc32.update-composition.large", "n=%zu split=%zu: update gives %08x, whole %08x", n, k, c2, want); break; }
            k = n - k; c2 = carquet_crc32_update(carquet_crc32(p, k), p + k, n - k); if (c2 != want) { mc_fail("crc32.update-composition.large", "n=%zu split=%zu: update gives %08x, whole %08x", n, k, c2, want); break; } }
    }
}

/* ---- first use: every entry point as the FIRST library call of a fresh process (tables and dispatch pointers are built lazily) ------------- */
/* the harness re-executes itself: `hash --firstuse <entry> <length>` performs exactly one library call and prints its result */
static int firstuse_child(int entry, size_t n) {
    static uint8_t msg[80]; for (size_t i = 0; i < sizeof msg; i++) msg[i] = (uint8_t)(i * 29 + 7);
    switch (entry) {
    case 0: printf("%08x\n", carquet_crc32(msg, n)); break;
    case 1: printf("%08x\n", carquet_crc32_update(0, msg, n)); break;
    case 2: printf("%08x\n", carquet_crc32_update(0x1234abcdu, msg, n)); break;
    case 3: printf("%016llx\n", (unsigned long long)carquet_xxhash64(msg, n, 0)); break;
    case 4: printf("%016llx\n", (unsigned long long)carquet_xxhash64(msg, n, 0x9e3779b97f4a7c15ull)); break;
    default: { carquet_bloom_filter_t* f = carquet_bloom_filter_create(64); if (!f) { printf("create-failed\n"); break; } carquet_bloom_filter_insert_bytes(f, msg, n); printf("%d%d\n", carquet_bloom_filter_check_bytes(f, msg, n) ? 1 : 0, carquet_bloom_filter_check_bytes(f, msg + 1, n + 1) ? 1 : 0);
        const uint8_t* d = carquet_bloom_filter_data(f); uint64_t h = 0; for (size_t i = 0; i < 64; i++) h = h * 1099511628211ull + d[i]; printf("%016llx\n", (unsigned long long)h); carquet_bloom_filter_destroy(f); break; }
    }
    return 0;
}
static void firstuse_stage(int lo, int hi, const char* self) {
    mc_stage("first-use.every-entry-point-as-the-first-call-of-a-process");
    static const size_t LN[] = { 0, 1, 3, 7, 8, 9, 31, 32, 33, 64 }; static const char* EN[] = { "crc32", "crc32_update(0,..)", "crc32_update(seed,..)", "xxhash64(seed 0)", "xxhash64(seed)", "bloom insert/check" };
    for (int e = lo; e <= hi; e++) for (int li = 0; li < 10; li++) {
        if (!mc_next()) continue;
        size_t n = LN[li]; mc_desc("firstuse:%s;n=%zu", EN[e], n); mc_case_key(mc_mix(0xf1a5, ((uint64_t)e << 8) | (uint64_t)li)); mc_nontrivial(); mc_feature("first-use");
        char cmd[512]; snprintf(cmd, sizeof cmd, "%s --firstuse %d %zu 2>&1", self, e, n); FILE* p = popen(cmd, "r"); char fresh[160] = ""; size_t k = p ? fread(fresh, 1, sizeof fresh - 1, p) : 0; fresh[k] = 0; int rc = p ? pclose(p) : -1;
        /* the same call in this (long-running, warmed-up) process, through the same code */
        char warm[160]; { int pfd[2]; if (pipe(pfd)) mc_harness_error("pipe"); fflush(stdout); int so = dup(1); dup2(pfd[1], 1); firstuse_child(e, n); fflush(stdout); dup2(so, 1); close(so); close(pfd[1]); ssize_t w = read(pfd[0], warm, sizeof warm - 1); close(pfd[0]); warm[w > 0 ? w : 0] = 0; }
        if (rc != 0 || strcmp(fresh, warm)) { char key[96]; snprintf(key, sizeof key, "first-use.%s", e <= 2 ? "crc32" : e <= 4 ? "xxhash64" : "bloom"); mc_fail(key, "%s, %zu bytes: as the first library call of a process it gives [%s] (exit status %d), later in a process [%s]", EN[e], n, fresh, rc, warm); }
    }
}
static char g_self[512];
static void enumerate(void) {
    mc_arena_init(&A, 8192);
    if (!strcmp(mc_mode(), "c14a")) { c14a(); c14a_large(); firstuse_stage(0, 2, g_self); return; }
    mc_rule("C20: XXH64 vs a reference written from the XXH64 specification: every length 0..100 (300 thorough) x {zero, ones, every single-bit message, tagged} x 5 seeds x alignment 0..7 (guard-paged). "
            "Bloom filter: creation sizes (rounding, zero, all-absent), every subset of a 12-value pool per type x filter sizes {1,2,3,8} blocks: members probe true, bit array identical to the Parquet split-block "
            "algorithm (block = ((h>>32)*blocks)>>32, salted bits from the low word, XXH64 seed 0 of the plain encoding), write->read->same, merge contains the union; raw-hash block selection over 4096 spread hashes x 6 sizes. "
            "Non-trivial = non-empty message / non-empty subset; distinct by (family, code).");
    mc_assume("ref_xxh64 / ref_sbbf follow the published XXH64 and Parquet BloomFilter specifications; checked against published XXH64 vectors by bin/selftest");
    c20_xxh();
    c20_bloom();
    c20_large();
    firstuse_stage(3, 5, g_self);
}
int main(int argc, char** argv) {
    if (argc == 4 && !strcmp(argv[1], "--firstuse")) return firstuse_child(atoi(argv[2]), (size_t)atol(argv[3]));
    if (readlink("/proc/self/exe", g_self, sizeof g_self - 1) <= 0) snprintf(g_self, sizeof g_self, "%s", argv[0]);
    return mc_main(argc, argv, "hash", enumerate);
}
