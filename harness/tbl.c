/* tbl.c — table model and its execution on carquet's writer (see tbl.h). */
#define _GNU_SOURCE
#include "tbl.h"
#include <limits.h>
#include <unistd.h>

const tcol_t TBL_KINDS[14] = {
    { PT_INT32, 0, 0, "i32" }, { PT_INT32, 1, 0, "i32n" }, { PT_BOOLEAN, 0, 0, "b" }, { PT_BOOLEAN, 1, 0, "bn" },
    { PT_BYTE_ARRAY, 0, 0, "s" }, { PT_BYTE_ARRAY, 1, 0, "sn" }, { PT_INT64, 0, 0, "i64" }, { PT_INT64, 1, 0, "i64n" },
    { PT_FLOAT, 0, 0, "f" }, { PT_FLOAT, 1, 0, "fn" }, { PT_DOUBLE, 0, 0, "d" }, { PT_DOUBLE, 1, 0, "dn" },
    { PT_FLBA, 0, 3, "x3" }, { PT_FLBA, 1, 1, "x1n" },
};

int tbl_width(const tcol_t* c) { return ref_type_width(c->ptype, c->tlen); }

static const char* kname(const tcol_t* c) {
    static char b[4][24]; static int r; char* o = b[r++ & 3];
    static const char* T[] = { "bool", "i32", "i64", "i96", "f32", "f64", "str", "flba" };
    if (c->ptype == PT_FLBA) snprintf(o, 24, "flba%d%s", c->tlen, c->opt ? "?" : ""); else snprintf(o, 24, "%s%s", T[c->ptype], c->opt ? "?" : "");
    return o;
}
const char* tbl_desc(const hist_t* h) {
    static char b[2][700]; static int r; char* o = b[r++ & 1]; int k = 0;
    k += snprintf(o + k, 700 - (size_t)k, "cols=");
    for (int c = 0; c < h->ncols; c++) k += snprintf(o + k, 700 - (size_t)k, "%s%s", c ? "," : "", kname(&h->cols[c]));
    k += snprintf(o + k, 700 - (size_t)k, ";n=%d;mask=", h->N);
    for (int c = 0; c < h->ncols; c++) k += snprintf(o + k, 700 - (size_t)k, "%s0x%llx", c ? "," : "", (unsigned long long)h->mask[c]);
    k += snprintf(o + k, 700 - (size_t)k, ";parts=");
    for (int c = 0; c < h->ncols; c++) k += snprintf(o + k, 700 - (size_t)k, "%s0x%llx", c ? "," : "", (unsigned long long)h->comp[c]);
    k += snprintf(o + k, 700 - (size_t)k, ";rg=");
    for (int g = 0; g < h->nrg; g++) k += snprintf(o + k, 700 - (size_t)k, "%s%d", g ? "+" : "", h->rg_rows[g]);
    static const char* CN[] = { "U", "S", "G", "LZO", "BR", "L", "Z", "LR" }; static const char* PS[] = { "1", "96", "def" };
    snprintf(o + k, 700 - (size_t)k, ";ps=%s;codec=%s;vals=p%d;nodef=%d;il=%d", PS[h->page_sel], CN[h->codec & 7], h->pattern, h->nodef, h->interleave);
    return o;
}

static uint8_t g_s300[300];
static const struct { const char* p; uint32_t n; } SP[] = { { "", 0 }, { "a", 1 }, { (const char*)g_s300, 300 }, { "\x00", 1 }, { "\xff\xfe", 2 }, { "hello", 5 }, { "ab", 2 } };
void tbl_value(const tcol_t* c, int ci, int r, int p, uint8_t* out, ref_str* s) {
    static const int32_t P32[] = { 0, 1, -1, INT32_MIN, INT32_MAX, 42, 1000000 };
    static const int64_t P64[] = { 0, 1, -1, INT64_MIN, INT64_MAX, 4294967296LL, -42 };
    static const uint32_t PF[] = { 0x00000000u, 0x80000000u, 0x3f800000u, 0x7f800000u, 0xff800000u, 0x7fc00000u, 0x7fa00001u, 0xc2f70000u };
    static const uint64_t PD[] = { 0, 0x8000000000000000ull, 0x3ff0000000000000ull, 0x7ff0000000000000ull, 0xfff0000000000000ull, 0x7ff8000000000000ull, 0x7ff4000000000001ull, 0xc05ec00000000000ull };
    if (!g_s300[0]) memset(g_s300, 'L', 300);
    unsigned k = (unsigned)(r * (p == 2 ? 3 : 1) + p * 2 + ci);
    switch (c->ptype) {
    case PT_BOOLEAN: out[0] = (uint8_t)((p == 0 ? (r ^ (r >> 1) ^ ci) : p == 1 ? 1 : (r % 3 == 0)) & 1); break;
    case PT_INT32: memcpy(out, &P32[k % 7], 4); break;
    case PT_INT64: memcpy(out, &P64[k % 7], 8); break;
    case PT_FLOAT: memcpy(out, &PF[k % 8], 4); break;
    case PT_DOUBLE: memcpy(out, &PD[k % 8], 8); break;
    case PT_FLBA: for (int i = 0; i < c->tlen; i++) out[i] = (uint8_t)(p == 1 ? 0xff : p == 2 ? 0x00 : (r * 37 + i * 11 + ci + 1)); break;
    default: s->p = (const uint8_t*)SP[k % 7].p; s->n = SP[k % 7].n; break;
    }
}
static void rg_range(const hist_t* h, int rg, int* lo, int* hi) { int s = 0; for (int g = 0; g < rg; g++) s += h->rg_rows[g]; *lo = s; *hi = s + h->rg_rows[rg]; }

void tbl_expected(ref_arena* a, const hist_t* h, int rg, int ci, ref_coldata* o) {
    const tcol_t* c = &h->cols[ci]; int lo, hi; rg_range(h, rg, &lo, &hi); int w = tbl_width(c);
    memset(o, 0, sizeof *o); o->ptype = c->ptype; o->type_length = c->tlen; o->max_def = c->opt; o->max_rep = 0; o->nlevels = hi - lo;
    o->def = ref_alloc(a, sizeof(int16_t) * (size_t)(hi - lo + 1)); o->rep = ref_alloc(a, sizeof(int16_t) * (size_t)(hi - lo + 1));
    o->fixed = ref_alloc(a, (size_t)(w ? w : 1) * (size_t)(hi - lo + 1)); o->strs = ref_alloc(a, sizeof(ref_str) * (size_t)(hi - lo + 1));
    for (int r = lo; r < hi; r++) {
        bool null = c->opt && ((h->mask[ci] >> r) & 1);
        o->def[r - lo] = c->opt ? (null ? 0 : 1) : 0;
        if (null) continue;
        tbl_value(c, ci, r, h->pattern, o->fixed + o->nvalues * (w ? w : 1), &o->strs[o->nvalues]); o->nvalues++;
    }
}
int tbl_batches(const hist_t* h, int rg, int ci) {
    int lo, hi; rg_range(h, rg, &lo, &hi); if (hi == lo) return 0; int n = 1;
    for (int r = lo; r < hi - 1; r++) if ((h->comp[ci] >> r) & 1) n++;
    return n;
}

int tbl_logical_on;
bool tbl_logical_of(const hist_t* h, int c, carquet_logical_type_t* lt) {
    if (!tbl_logical_on) return false;
    int sel = (h->N + 3 * h->ncols + h->codec) % 6; if (sel < 3) return false; sel -= 3;
    memset(lt, 0, sizeof *lt);
    switch (h->cols[c].ptype) {
    case CARQUET_PHYSICAL_INT64: lt->id = CARQUET_LOGICAL_TIMESTAMP; lt->params.timestamp.unit = (carquet_time_unit_t)sel; lt->params.timestamp.is_adjusted_to_utc = (c & 1) == 0; return true;
    case CARQUET_PHYSICAL_INT32: if (sel == 0) lt->id = CARQUET_LOGICAL_DATE; else if (sel == 1) { lt->id = CARQUET_LOGICAL_TIME; lt->params.time.unit = CARQUET_TIME_UNIT_MILLIS; lt->params.time.is_adjusted_to_utc = true; } else { lt->id = CARQUET_LOGICAL_INTEGER; lt->params.integer.bit_width = 16; lt->params.integer.is_signed = true; } return true;
    case CARQUET_PHYSICAL_BYTE_ARRAY: lt->id = sel == 0 ? CARQUET_LOGICAL_STRING : sel == 1 ? CARQUET_LOGICAL_JSON : CARQUET_LOGICAL_ENUM; return true;
    default: return false;
    }
}
carquet_schema_t* tbl_schema(const hist_t* h) {
    carquet_error_t err = CARQUET_ERROR_INIT; carquet_schema_t* s = carquet_schema_create(&err);
    if (!s) return NULL;
    for (int c = 0; c < h->ncols; c++)
    { carquet_logical_type_t lt; bool has = tbl_logical_of(h, c, &lt);
        if (carquet_schema_add_column(s, h->cols[c].name, (carquet_physical_type_t)h->cols[c].ptype, has ? &lt : NULL, h->cols[c].opt ? CARQUET_REPETITION_OPTIONAL : CARQUET_REPETITION_REQUIRED, h->cols[c].tlen) != CARQUET_OK) { carquet_schema_free(s); return NULL; } }
    return s;
}

/* one write_batch for rows [a,b) of column ci; exact-size heap buffers */
static carquet_status_t write_rows(carquet_writer_t* w, const hist_t* h, int ci, int a, int b) {
    const tcol_t* c = &h->cols[ci]; int wd = tbl_width(c); int n = b - a, nn = 0; bool anynull = false;
    int16_t* def = mc_exact(NULL, sizeof(int16_t) * (size_t)(n ? n : 1));
    for (int r = a; r < b; r++) { bool null = c->opt && ((h->mask[ci] >> r) & 1); def[r - a] = null ? 0 : 1; if (null) anynull = true; else nn++; }
    void* vals; carquet_byte_array_t* ba = NULL; uint8_t** owned = NULL;
    if (c->ptype == PT_BYTE_ARRAY) {
        ba = mc_exact(NULL, sizeof(carquet_byte_array_t) * (size_t)(nn ? nn : 1)); owned = calloc((size_t)nn + 1, sizeof(uint8_t*)); int k = 0;
        for (int r = a; r < b; r++) { if (c->opt && ((h->mask[ci] >> r) & 1)) continue; ref_str s; tbl_value(c, ci, r, h->pattern, NULL, &s); owned[k] = s.n ? mc_exact(s.p, s.n) : NULL; ba[k].data = owned[k]; ba[k].length = (int32_t)s.n; k++; }
        vals = ba;
    } else {
        uint8_t* f = mc_exact(NULL, (size_t)wd * (size_t)(nn ? nn : 1)); int k = 0; ref_str s;
        for (int r = a; r < b; r++) { if (c->opt && ((h->mask[ci] >> r) & 1)) continue; tbl_value(c, ci, r, h->pattern, f + (size_t)k * (size_t)wd, &s);
            /* value pattern 2 hands BOOLEAN trues to the writer as other non-zero bytes (0xFF, 2, 0x80): a C caller's "true" is any non-zero value; the table that must come back holds 1 */
            if (c->ptype == PT_BOOLEAN && h->pattern == 2 && f[k]) { static const uint8_t TRUE_BYTES[] = { 0xFF, 0x02, 0x80, 0x01 }; f[k] = TRUE_BYTES[(r + ci) & 3]; }
            k++; }
        vals = f;
    }
    const int16_t* dl = c->opt ? ((h->nodef && !anynull) ? NULL : def) : NULL;
    carquet_status_t st = carquet_writer_write_batch(w, ci, vals, n, dl, NULL);
    if (owned) { for (int k = 0; k < nn; k++) free(owned[k]); free(owned); }
    free(vals); free(def);
    return st;
}

static int run_history(const hist_t* h, carquet_writer_t* w, carquet_status_t* st, const char** where) {
    int lo = 0;
    for (int g = 0; g < h->nrg; g++) {
        int hi = lo + h->rg_rows[g];
        if (g > 0) { *st = carquet_writer_new_row_group(w); if (*st != CARQUET_OK) { *where = "new_row_group"; return 1; } }
        if (!h->interleave) {
            for (int c = 0; c < h->ncols; c++) {
                int a = lo;
                for (int r = lo; r < hi; r++) if (r == hi - 1 || ((h->comp[c] >> r) & 1)) { *st = write_rows(w, h, c, a, r + 1); if (*st != CARQUET_OK) { *where = "write_batch"; return 1; } a = r + 1; }
            }
        } else {
            int a[TBL_MAXC]; for (int c = 0; c < h->ncols; c++) a[c] = lo;
            for (bool more = true; more;) {
                more = false;
                for (int c = 0; c < h->ncols; c++) {
                    if (a[c] >= hi) continue;
                    int r = a[c]; while (r < hi - 1 && !((h->comp[c] >> r) & 1)) r++;
                    *st = write_rows(w, h, c, a[c], r + 1); if (*st != CARQUET_OK) { *where = "write_batch"; return 1; }
                    a[c] = r + 1; if (a[c] < hi) more = true;
                }
            }
        }
        lo = hi;
    }
    return 0;
}
static void set_opts(const hist_t* h, carquet_writer_options_t* o) {
    carquet_writer_options_init(o); o->compression = (carquet_compression_t)h->codec;
    o->page_size = h->page_sel == 0 ? 1 : h->page_sel == 1 ? 96 : o->page_size;
}
int tbl_write(const hist_t* h, uint8_t** img, size_t* len, carquet_status_t* st, const char** where) {
    *img = NULL; *len = 0; *st = CARQUET_OK; *where = "";
    carquet_schema_t* s = tbl_schema(h); if (!s) { *st = CARQUET_ERROR_OUT_OF_MEMORY; *where = "schema"; return 1; }
    char* mem = NULL; size_t mlen = 0; FILE* f = open_memstream(&mem, &mlen);
    carquet_writer_options_t o; set_opts(h, &o); carquet_error_t err = CARQUET_ERROR_INIT;
    carquet_writer_t* w = carquet_writer_create_file(f, s, &o, &err);
    if (!w) { *st = err.code ? err.code : CARQUET_ERROR_INTERNAL; *where = "writer_create_file"; fclose(f); free(mem); carquet_schema_free(s); return 1; }
    if (run_history(h, w, st, where)) { carquet_writer_abort(w); fclose(f); free(mem); carquet_schema_free(s); return 1; }
    *st = carquet_writer_close(w);
    size_t seen_after_close = mlen;      /* a memory stream publishes its size when it is flushed: OK from close means the whole file has left the stdio buffer of a caller-owned stream */
    fclose(f); carquet_schema_free(s);
    if (*st != CARQUET_OK) { *where = "close"; free(mem); return 1; }
    if (seen_after_close != mlen) { *st = CARQUET_ERROR_FILE_WRITE; *where = "close returned OK with bytes still in the caller's stream buffer"; free(mem); return 1; }
    *img = mc_exact(mem, mlen); *len = mlen; free(mem);
    return 0;
}
int tbl_write_path(const hist_t* h, const char* path, carquet_status_t* st, const char** where) {
    *st = CARQUET_OK; *where = "";
    carquet_schema_t* s = tbl_schema(h); if (!s) { *st = CARQUET_ERROR_OUT_OF_MEMORY; *where = "schema"; return 1; }
    carquet_writer_options_t o; set_opts(h, &o); carquet_error_t err = CARQUET_ERROR_INIT;
    carquet_writer_t* w = carquet_writer_create(path, s, &o, &err);
    if (!w) { *st = err.code ? err.code : CARQUET_ERROR_INTERNAL; *where = "writer_create"; carquet_schema_free(s); return 1; }
    if (run_history(h, w, st, where)) { carquet_writer_abort(w); carquet_schema_free(s); return 1; }
    *st = carquet_writer_close(w); carquet_schema_free(s);
    if (*st != CARQUET_OK) { *where = "close"; return 1; }
    return 0;
}

/* ---- general executor with abort point ------------------------------------------------ */
typedef struct { carquet_writer_t* w; const hist_t* h; int stop_after; tbl_result* r; } exec_t;
static carquet_status_t op_write(exec_t* e, int c, int a, int b);
static bool step(exec_t* e, const char* where, carquet_status_t (*fn)(exec_t*, int, int, int), int a, int b, int c) {
    if (e->stop_after >= 0 && e->r->nops == e->stop_after) { carquet_writer_abort(e->w); e->w = NULL; e->r->aborted = true; return false; }
    carquet_status_t st = fn(e, a, b, c); e->r->nops++;
    if (st != CARQUET_OK && fn == op_write) e->r->refused_batches++;
    if (st != CARQUET_OK && e->r->status == CARQUET_OK) { e->r->status = st; e->r->where = where; e->r->failed_op = e->r->nops - 1; }
    return true;
}
static carquet_status_t op_write(exec_t* e, int c, int a, int b) { return write_rows(e->w, e->h, c, a, b); }
static carquet_status_t op_newrg(exec_t* e, int a, int b, int c) { (void)a; (void)b; (void)c; return carquet_writer_new_row_group(e->w); }
void tbl_exec(const hist_t* h, FILE* f, const char* path, int stop_after, tbl_result* r) {
    memset(r, 0, sizeof *r); r->where = ""; r->failed_op = -1;
    carquet_schema_t* s = tbl_schema(h); if (!s) { r->status = CARQUET_ERROR_OUT_OF_MEMORY; r->where = "schema"; return; }
    carquet_writer_options_t o; set_opts(h, &o); carquet_error_t err = CARQUET_ERROR_INIT;
    carquet_writer_t* w = f ? carquet_writer_create_file(f, s, &o, &err) : carquet_writer_create(path, s, &o, &err);
    if (!w) { r->status = err.code ? err.code : CARQUET_ERROR_INTERNAL; r->where = "create"; carquet_schema_free(s); return; }
    r->created = true; exec_t e = { w, h, stop_after, r }; int lo = 0; bool alive = true;
    for (int g = 0; g < h->nrg && alive; g++) {
        int hi = lo + h->rg_rows[g];
        if (g > 0) alive = step(&e, "new_row_group", op_newrg, 0, 0, 0);
        for (int c = 0; c < h->ncols && alive; c++) { int a = lo; for (int rr = lo; rr < hi && alive; rr++) if (rr == hi - 1 || ((h->comp[c] >> rr) & 1)) { alive = step(&e, "write_batch", op_write, c, a, rr + 1); a = rr + 1; } }
        lo = hi;
    }
    if (alive) {
        if (stop_after >= 0 && r->nops == stop_after) { carquet_writer_abort(e.w); r->aborted = true; }
        else { carquet_status_t st = carquet_writer_close(e.w); r->nops++; r->closed = true; r->close_status = st; if (st != CARQUET_OK && r->status == CARQUET_OK) { r->status = st; r->where = "close"; r->failed_op = r->nops - 1; } }
    }
    carquet_schema_free(s);
}
