/* codec.c — C09 (mode c09: codecs round-trip every input and honour their
 * size bounds, guard-paged buffers) and C10 (mode c10: Snappy/LZ4 speak the
 * standard formats: strict reference decoders on carquet's output, grammar-
 * enumerated reference streams into carquet's decompressors, invalid classes
 * rejected). */
#include "mc/mc.h"
#include "ref/ref.h"
#include "cq_decl.h"
#include <stdio.h>
#include <sys/mman.h>
#include <stdlib.h>
#include <string.h>

enum { SNAPPY, LZ4, GZIP, ZSTD };
static const char* CN[] = { "snappy", "lz4", "gzip", "zstd" };
static mc_arena_t A_src, A_dst, A_cin, A_out;
#define MAXIN (18u << 20)

static size_t cbound(int c, size_t n) {
    switch (c) { case SNAPPY: return carquet_snappy_compress_bound(n); case LZ4: return carquet_lz4_compress_bound(n);
                 case GZIP: return carquet_gzip_compress_bound(n); default: return carquet_zstd_compress_bound(n); }
}
static int ccompress(int c, int lvl, const uint8_t* s, size_t n, uint8_t* d, size_t cap, size_t* w) {
    switch (c) { case SNAPPY: return (int)carquet_snappy_compress(s, n, d, cap, w); case LZ4: return (int)carquet_lz4_compress(s, n, d, cap, w);
                 case GZIP: return carquet_gzip_compress(s, n, d, cap, w, lvl); default: return carquet_zstd_compress(s, n, d, cap, w, lvl); }
}
static int cdecompress(int c, const uint8_t* s, size_t n, uint8_t* d, size_t cap, size_t* w) {
    switch (c) { case SNAPPY: return (int)carquet_snappy_decompress(s, n, d, cap, w); case LZ4: return (int)carquet_lz4_decompress(s, n, d, cap, w);
                 case GZIP: return carquet_gzip_decompress(s, n, d, cap, w); default: return carquet_zstd_decompress(s, n, d, cap, w); }
}

/* destination capacities at and beyond 4 GiB (the room left in a large reserved arena): a valid stream decodes to the same bytes; the arena is reserved, not committed */
static void huge_capacity_cases(int c_lo, int c_hi, uint64_t salt) {
    static uint8_t* arena; static size_t asz = ((size_t)8 << 30) + 4096;
    if (!arena) { arena = mmap(NULL, asz, PROT_READ | PROT_WRITE, MAP_PRIVATE | MAP_ANONYMOUS | MAP_NORESERVE, -1, 0); if (arena == MAP_FAILED) arena = NULL; }
    static const size_t CAP[] = { ((size_t)1 << 32) - 1, (size_t)1 << 32, ((size_t)1 << 32) + 50, (size_t)1 << 33, ((size_t)8 << 30) + 4096 };
    for (int c = c_lo; c <= c_hi; c++) for (int ci = 0; ci < 5; ci++) {
        if (!mc_next()) continue;
        mc_desc("huge-capacity:codec=%s;capacity=%zu", CN[c], CAP[ci]); mc_case_key(mc_mix(salt, ((uint64_t)c << 8) | (uint64_t)ci)); mc_nontrivial();
        if (!arena) { mc_count("huge-capacity.reservation-refused", 1); continue; }
        uint8_t x[76]; for (int i = 0; i < 76; i++) x[i] = (uint8_t)("parquet-"[i % 8] + (i >= 40 ? 1 : 0)); size_t b = cbound(c, 76), w = 0; uint8_t* dst = mc_arena_tail(&A_dst, b);
        if (ccompress(c, 0, x, 76, dst, b, &w) != 0) { mc_count("huge-capacity.compress-refused", 1); continue; }
        uint8_t* out = arena + (asz - CAP[ci]); size_t on = 0; int st = cdecompress(c, dst, w, out, CAP[ci], &on);
        if (st != 0 || on != 76 || memcmp(out, x, 76)) { char key[96]; snprintf(key, sizeof key, "%s.decompress.capacity-beyond-32-bits", CN[c]); mc_fail(key, "a valid %zu-byte stream of 76 bytes into a destination of %zu bytes: status %d, %zu bytes", w, CAP[ci], st, on); }
        /* and compression into a destination that large */
        uint8_t* cd = arena + (asz - CAP[ci]); size_t w2 = 0; int s2 = ccompress(c, 0, x, 76, cd, CAP[ci], &w2);
        if (s2 != 0 || w2 > b) { char key[96]; snprintf(key, sizeof key, "%s.compress.capacity-beyond-32-bits", CN[c]); mc_fail(key, "76 bytes into a destination of %zu bytes: status %d, %zu bytes (bound %zu)", CAP[ci], s2, w2, b); }
    }
}
/* ---- C09 ------------------------------------------------------------------ */
static bool g_full_caps;      /* every capacity 0..bound+1 instead of four: set for the structured families and the shortest strings */
static void roundtrip(const uint8_t* x, size_t n, int c, int lvl, int placement, bool caps) {
    char key[160];
    uint8_t* src = placement ? mc_arena_tail(&A_src, n) : mc_arena_head(&A_src, n);
    if (n) memcpy(src, x, n);
    size_t b = cbound(c, n);
    uint8_t* dst = placement ? mc_arena_tail(&A_dst, b) : mc_arena_head(&A_dst, b);
    memset(dst, 0x5A, b);
    size_t w = (size_t)-1;
    int st = ccompress(c, lvl, src, n, dst, b, &w);
    if (!mc_arena_check(&A_dst)) { snprintf(key, sizeof key, "%s.compress.wrote-outside-bound", CN[c]); mc_fail(key, "n=%zu bound=%zu lvl=%d", n, b, lvl); }
    if (st != 0) {
        snprintf(key, sizeof key, "%s.compress.refused-at-bound", CN[c]);
        mc_fail(key, "n=%zu bound=%zu lvl=%d status=%d", n, b, lvl, st); return;
    }
    if (w > b) { snprintf(key, sizeof key, "%s.compress.length-exceeds-bound", CN[c]); mc_fail(key, "n=%zu bound=%zu reported=%zu", n, b, w); return; }
    uint8_t* cin = placement ? mc_arena_tail(&A_cin, w) : mc_arena_head(&A_cin, w);
    memcpy(cin, dst, w);
    uint8_t* out = placement ? mc_arena_tail(&A_out, n) : mc_arena_head(&A_out, n);
    if (n) memset(out, 0xA5, n);
    size_t on = (size_t)-1;
    st = cdecompress(c, cin, w, out, n, &on);
    if (!mc_arena_check(&A_out)) { snprintf(key, sizeof key, "%s.decompress.wrote-outside-capacity", CN[c]); mc_fail(key, "n=%zu", n); }
    if (st != 0 || on != n || (n && memcmp(out, x, n))) {
        snprintf(key, sizeof key, "%s.roundtrip.%s", CN[c], st != 0 ? "decompress-error" : on != n ? "length" : "bytes");
        mc_fail(key, "n=%zu lvl=%d compressed=%zu status=%d out_n=%zu head=%s", n, lvl, w, st, on, mc_hex(x, n, 24));
    }
    /* a refused call leaves no trace: the same stream into a destination one byte short and a stream cut by one byte are refused (or at least do not overflow), and the valid
     * call made right after them on the same thread still returns x (decompression contexts are cached per thread) */
    if (n > 0 && st == 0) {
        uint8_t* o2 = mc_arena_tail(&A_out, n - 1); size_t on2 = 0; int s2 = cdecompress(c, cin, w, o2, n - 1, &on2);
        if (!mc_arena_check(&A_out)) { snprintf(key, sizeof key, "%s.decompress.short-destination.wrote-outside-capacity", CN[c]); mc_fail(key, "n=%zu capacity=%zu", n, n - 1); }
        if (s2 == 0 && on2 > n - 1) { snprintf(key, sizeof key, "%s.decompress.short-destination.length-exceeds-capacity", CN[c]); mc_fail(key, "n=%zu reported %zu", n, on2); }
        for (int pass = 0; pass < 2; pass++) {      /* pass 0: right after the short-destination call; pass 1: right after a stream cut by its last byte */
            if (pass == 1) { if (w < 2) break; uint8_t* c2 = mc_arena_tail(&A_cin, w - 1); memcpy(c2, dst, w - 1); uint8_t* o3 = mc_arena_tail(&A_out, n); size_t on3 = 0; int s3 = cdecompress(c, c2, w - 1, o3, n, &on3);
                if (s3 == 0 && (on3 != n || memcmp(o3, x, n))) { snprintf(key, sizeof key, "%s.decompress.cut-stream-accepted-with-other-bytes", CN[c]); mc_fail(key, "n=%zu: the stream without its last byte decodes with status OK to %zu bytes that are not x", n, on3); } }
            cin = mc_arena_tail(&A_cin, w); memcpy(cin, dst, w); out = mc_arena_tail(&A_out, n); memset(out, 0xA5, n); on = (size_t)-1; st = cdecompress(c, cin, w, out, n, &on);
            if (st != 0 || on != n || memcmp(out, x, n)) { snprintf(key, sizeof key, "%s.decompress.valid-stream-after-a-refused-call", CN[c]); mc_fail(key, "n=%zu lvl=%d: after a call with %s the valid stream gives status %d, %zu bytes", n, lvl, pass ? "a cut stream" : "a short destination", st, on); break; }
        }
    }
    if (!caps) return;
    /* destination capacities around the bound: refused, or correct without overflow */
    /* inputs of up to 20 bytes: EVERY capacity 0..bound+1 (the codecs have special paths for inputs stored as one literal); longer inputs: 0, 1, bound-1, bound+1 */
    size_t capv[4] = { 0, 1, b - 1, b + 1 }; size_t ncap = (n <= 20 && g_full_caps) ? b + 2 : 4;
    for (size_t k = 0; k < ncap; k++) {
        size_t cap = (n <= 20 && g_full_caps) ? k : capv[k];
        uint8_t* d2 = mc_arena_tail(&A_dst, cap);
        size_t w2 = (size_t)-1;
        st = ccompress(c, lvl, src, n, d2, cap, &w2);
        if (!mc_arena_check(&A_dst)) { snprintf(key, sizeof key, "%s.compress.small-capacity.underrun", CN[c]); mc_fail(key, "n=%zu cap=%zu", n, cap); }
        if (st == 0) {
            if (w2 > cap) { snprintf(key, sizeof key, "%s.compress.small-capacity.length-exceeds-capacity", CN[c]); mc_fail(key, "n=%zu cap=%zu reported=%zu", n, cap, w2); continue; }
            uint8_t* c2 = mc_arena_tail(&A_cin, w2); memcpy(c2, d2, w2);
            uint8_t* o2 = mc_arena_tail(&A_out, n); size_t on2 = (size_t)-1;
            int st2 = cdecompress(c, c2, w2, o2, n, &on2);
            if (st2 != 0 || on2 != n || (n && memcmp(o2, x, n))) { snprintf(key, sizeof key, "%s.compress.small-capacity.ok-but-wrong", CN[c]); mc_fail(key, "n=%zu cap=%zu reported=%zu", n, cap, w2); }
            mc_count("cap.accepted", 1);
        } else mc_count("cap.refused", 1);
    }
}

typedef struct { int c, lvl; } cfg_t;
static const cfg_t CORE[] = { {SNAPPY, 0}, {LZ4, 0}, {GZIP, 1}, {GZIP, 6}, {GZIP, 9}, {ZSTD, 1}, {ZSTD, 3}, {ZSTD, 19} };
static const cfg_t FASTC[] = { {SNAPPY, 0}, {LZ4, 0} };

static uint8_t* g_big;   /* scratch for generated inputs */

static void run_all(const uint8_t* x, size_t n, const cfg_t* cfgs, int ncfg, bool caps, bool both) {
    for (int i = 0; i < ncfg; i++)
        for (int pl = both ? 0 : 1; pl < 2; pl++)
            roundtrip(x, n, cfgs[i].c, cfgs[i].lvl, pl, caps && pl == 1);
}

static void gen_family(int fam, size_t n, uint8_t* o) {
    uint32_t s = 12345;
    for (size_t i = 0; i < n; i++) {
        switch (fam) {
        case 0: o[i] = 0; break;
        case 1: o[i] = (uint8_t)(i % 7); break;
        case 2: s = s * 1103515245u + 12345u; o[i] = (uint8_t)(s >> 16); break;
        default: o[i] = (uint8_t)("abcd"[i & 3] ^ ((i % 37) == 36 ? 1 : 0)); break;
        }
    }
}
/* de Bruijn sequence B(16,4): 65536 symbols over 16 letters, every 4-gram once */
static int db_a[64]; static size_t db_n; static uint8_t* db_out;
static uint8_t g_dbs[65536 + 8];
static void db(int t, int p);
static void dbs_init(void) { db_out = g_dbs; db_n = 0; memset(db_a, 0, sizeof db_a); db(1, 1); }
/* literal-run family: L bytes without a repeated 4-gram, then a repeat of the first m bytes (a match at distance exactly L), then 12 fresh literals */
static const int LRM_ML[] = { 4, 5, 8, 11, 12, 18, 19, 20, 60, 64, 65, 66, 67, 68, 69, 128, 129, 130, 131, 132, 273, 274, 275 };
#define LRM_NML 23
static size_t gen_literals_match(uint8_t* o, int L, int m) {
    size_t n = 0; for (int i = 0; i < L; i++) o[n++] = (uint8_t)(g_dbs[i % 65536] * 16 + 3 + (i >> 16) * 37);
    for (int i = 0; i < m; i++) o[n++] = o[i];
    for (int i = 0; i < 12; i++) o[n++] = (uint8_t)(g_dbs[30000 + i] * 16 + 5);
    return n;
}
static int lrm_L(int Lx, int maxL) { return Lx <= maxL ? Lx : Lx <= maxL + 60 ? 65510 + (Lx - maxL) : 16777196 + (Lx - maxL - 60); }
static void db(int t, int p) {
    if (t > 4) { if (4 % p == 0) for (int i = 1; i <= p; i++) db_out[db_n++] = (uint8_t)db_a[i]; }
    else { db_a[t] = db_a[t - p]; db(t + 1, p); for (int j = db_a[t - p] + 1; j < 16; j++) { db_a[t] = j; db(t + 1, t); } }
}

static void c09(void) {
    mc_rule("C09: each input is compressed into a buffer of exactly compress_bound bytes that ends at (and, in a second placement, starts after) a PROT_NONE page: "
            "status OK, reported length <= bound; the reported bytes are decompressed into exactly len(x) guard-paged bytes and compared; capacities {0,1,bound-1,bound+1} "
            "must be refused or handled correctly. Inputs: all strings over {a,b} / {a,b,c} up to a length, every length 0..300 of four structured families, "
            "16-bit hash-position wrap-around families beyond 64 KiB, a de Bruijn B(16,4) sequence and rotations, every literal-run length 4..1100 (thorough 4200) followed by a match of 9 lengths and a literal tail, MiB-sized concatenations. "
            "Non-trivial = input length >= 4 (a match is possible); distinct by (family, length, code, codec configuration).");
    mc_arena_init(&A_src, MAXIN); mc_arena_init(&A_dst, MAXIN + MAXIN / 4 + 4096); mc_arena_init(&A_cin, MAXIN + MAXIN / 4 + 4096); mc_arena_init(&A_out, MAXIN);
    g_big = malloc(MAXIN);
    uint8_t x[64];
    int L2 = mc_thorough() ? 18 : 16, L3 = mc_thorough() ? 11 : 10;
    mc_stage("c09.all-binary-strings");
    for (int n = 0; n <= L2; n++)
        for (uint32_t bits = 0; bits < (1u << n); bits++) {
            if (!mc_next()) continue;
            for (int i = 0; i < n; i++) x[i] = (uint8_t)('a' + ((bits >> i) & 1));
            mc_desc("c09:alpha=2;n=%d;bits=0x%x", n, bits); mc_feature("binary-string");
            mc_case_key(mc_mix(0x91, ((uint64_t)n << 32) | bits)); if (n >= 4) mc_nontrivial();
            g_full_caps = n <= 6 || bits == 0 || bits == (1u << n) - 1 || bits == 0x5555u >> (16 - n > 0 ? 0 : 0); run_all(x, (size_t)n, CORE, 8, true, true); g_full_caps = false;
        }
    mc_stage("c09.all-ternary-strings");
    for (int n = 1; n <= L3; n++) {
        uint32_t tot = 1; for (int i = 0; i < n; i++) tot *= 3;
        for (uint32_t c = 0; c < tot; c++) {
            if (!mc_next()) continue;
            uint32_t v = c; for (int i = 0; i < n; i++) { x[i] = (uint8_t)('a' + v % 3); v /= 3; }
            mc_desc("c09:alpha=3;n=%d;code=%u", n, c); mc_feature("ternary-string");
            mc_case_key(mc_mix(0x92, ((uint64_t)n << 32) | c)); if (n >= 4) mc_nontrivial();
            run_all(x, (size_t)n, CORE, 8, false, true);
        }
    }
    mc_stage("c09.all-levels.short-strings");
    for (int n = 0; n <= 9; n++)
        for (uint32_t bits = 0; bits < (1u << n); bits += (n > 6 ? 5 : 1))
            for (int c = GZIP; c <= ZSTD; c++)
                for (int lvl = 1; lvl <= (c == GZIP ? 9 : 22); lvl++) {
                    if (!mc_next()) continue;
                    for (int i = 0; i < n; i++) x[i] = (uint8_t)('a' + ((bits >> i) & 1));
                    mc_desc("c09:levels;codec=%s;lvl=%d;n=%d;bits=0x%x", CN[c], lvl, n, bits); mc_feature("levels");
                    mc_case_key(mc_mix(0x93, ((uint64_t)c << 56) | ((uint64_t)lvl << 48) | ((uint64_t)n << 32) | bits)); if (n >= 4) mc_nontrivial();
                    roundtrip(x, (size_t)n, c, lvl, 1, false);
                }
    mc_stage("c09.families.every-length-0-300");
    for (int fam = 0; fam < 4; fam++)
        for (size_t n = 0; n <= 300; n++) {
            if (!mc_next()) continue;
            gen_family(fam, n, g_big);
            mc_desc("c09:family=%d;n=%zu", fam, n); mc_feature("family");
            mc_case_key(mc_mix(0x94, ((uint64_t)fam << 32) | n)); if (n >= 4) mc_nontrivial();
            g_full_caps = true; run_all(g_big, n, CORE, 8, true, true); g_full_caps = false;
        }
    mc_stage("c09.all-levels.families");
    for (int fam = 0; fam < 4; fam++)
        for (size_t n = 250; n <= 4000; n += 1250)
            for (int c = GZIP; c <= ZSTD; c++)
                for (int lvl = 1; lvl <= (c == GZIP ? 9 : 22); lvl++) {
                    if (!mc_next()) continue;
                    gen_family(fam, n, g_big);
                    mc_desc("c09:levels;codec=%s;lvl=%d;family=%d;n=%zu", CN[c], lvl, fam, n); mc_feature("levels-family");
                    mc_case_key(mc_mix(0x95, ((uint64_t)c << 56) | ((uint64_t)lvl << 48) | ((uint64_t)fam << 40) | n)); mc_nontrivial();
                    roundtrip(g_big, n, c, lvl, 1, false);
                }
    /* 16-bit hash positions alias beyond 64 KiB */
    static const size_t WL[] = { 65535, 65536, 65537, 65540, 70000, 131072, 131073, 131080 };
    int pstep = 1, qstep = 1;
    mc_stage("c09.hash-position-wrap");
    for (int li = 0; li < 8; li++)
        for (int p = 1; p <= 64; p += pstep)
            for (int q = 0; q < 64; q += qstep) {
                if (!mc_next()) continue;
                size_t n = WL[li];
                for (size_t i = 0; i < n; i++) g_big[i] = (uint8_t)((i % (size_t)p) * 3 + 1);
                size_t pos = (n / 64) * (size_t)q + (size_t)q; if (pos >= n) pos = n - 1;
                g_big[pos] ^= 0x80;
                mc_desc("c09:wrap;n=%zu;period=%d;flip@%zu", n, p, pos); mc_feature("wrap");
                mc_case_key(mc_mix(0x96, ((uint64_t)li << 48) | ((uint64_t)p << 32) | (uint64_t)q)); mc_nontrivial();
                run_all(g_big, n, FASTC, 2, q == 0, false);
            }
    mc_stage("c09.debruijn-and-large");
    {
        uint8_t* dbs = g_dbs; dbs_init();
        for (int rot = 0; rot < 64; rot++)
            for (int ext = 0; ext < 3; ext++) {
                if (!mc_next()) continue;
                size_t n = db_n + (size_t)ext * 4000;
                for (size_t i = 0; i < n; i++) g_big[i] = (uint8_t)(dbs[(i + (size_t)rot * 1021) % db_n] * 16 + 3);
                mc_desc("c09:debruijn16x4;rot=%d;n=%zu", rot * 1021, n); mc_feature("debruijn");
                mc_case_key(mc_mix(0x97, ((uint64_t)rot << 32) | (uint64_t)ext)); mc_nontrivial();
                run_all(g_big, n, rot == 0 ? CORE : FASTC, rot == 0 ? 8 : 2, rot == 0, false);
            }
        /* L incompressible literals (no repeated 4-gram), then a repeat of the first m bytes, then 12 fresh literals: every literal-run
         * length (length-extension bytes 15, 15+255, 15+510, ...) x match lengths around the match-length extension boundaries */
        mc_stage("c09.literal-run-then-match.every-run-length");
        { int maxL = 4200;
          for (int Lx = 4; Lx <= maxL + 60 + (mc_thorough() ? 40 : 0); Lx++) for (int mi = 0; mi < LRM_NML; mi++) {
              int L = lrm_L(Lx, maxL);      /* then 65511..65570 (2-byte literal length forms end at 65536) and, thorough, 16777197..16777236 (3-byte forms end at 2^24) */
              int m = LRM_ML[mi]; if (m > L) continue; if (Lx > maxL && m != 4 && m != 19 && m != 66) continue;
              if (!mc_next()) continue;
              size_t n = gen_literals_match(g_big, L, m);
              mc_desc("c09:literals=%d;match=%d;tail=12", L, m); mc_feature("literal-run-then-match"); mc_case_key(mc_mix(0x99, ((uint64_t)L << 16) | (uint64_t)m)); mc_nontrivial();
              run_all(g_big, n, FASTC, 2, false, false);
          } }
        mc_stage("c09.large");
        int nbig = mc_thorough() ? 8 : 3;
        for (int k = 0; k < nbig; k++) {
            if (!mc_next()) continue;
            size_t n = (size_t)(1 + k % 4) << 20; n += (size_t)k * 17;
            for (size_t i = 0; i < n; i++) {
                size_t seg = i >> 16;
                g_big[i] = (seg % 3 == 0) ? (uint8_t)(dbs[i % db_n] * 7) : (seg % 3 == 1) ? (uint8_t)(i % 251) : (uint8_t)0x41;
            }
            mc_desc("c09:large;n=%zu;mix=debruijn/ramp251/constant-64KiB-segments", n); mc_feature("large");
            mc_case_key(mc_mix(0x98, (uint64_t)k)); mc_nontrivial();
            run_all(g_big, n, k == 0 ? CORE : FASTC, k == 0 ? 8 : 2, false, false);
        }
    }
}

/* ---- C10 ------------------------------------------------------------------ */
static void c10_carquet_output(const uint8_t* x, size_t n) {
    char key[128];
    for (int c = SNAPPY; c <= LZ4; c++) {
        size_t b = cbound(c, n);
        uint8_t* dst = mc_arena_tail(&A_dst, b); size_t w = 0;
        if (ccompress(c, 0, x, n, dst, b, &w) != 0) { mc_count("c10.compress-refused", 1); continue; }
        uint8_t* out = mc_arena_tail(&A_out, n); size_t on = (size_t)-1;
        int rc = c == SNAPPY ? ref_snappy_decode(dst, w, out, n, &on) : ref_lz4_decode(dst, w, out, n, &on, true);
        if (rc != 0 || on != n || (n && memcmp(out, x, n))) {
            snprintf(key, sizeof key, "%s.carquet-stream.ref-decoder.rc%d", CN[c], rc);
            mc_fail(key, "n=%zu compressed=%zu ref rc=%d out_n=%zu stream=%s", n, w, rc, on, mc_hex(dst, w, 40));
        }
    }
}

/* Stream builder: bytes + expected output + positions of offset fields */
typedef struct { ref_buf s, o; size_t offpos[8]; size_t offprod[8]; int offlen[8]; int noff; size_t elem_start[10]; int nelem; } sb_t;
static void sb_reset(sb_t* b) { ref_buf_clear(&b->s); ref_buf_clear(&b->o); b->noff = 0; b->nelem = 0; }
static uint8_t litbyte(size_t k) { return (uint8_t)(0x30 + (k * 7 + (k >> 8)) % 75); }
static void out_lit(sb_t* b, size_t len) { for (size_t i = 0; i < len; i++) ref_buf_u8(&b->o, litbyte(b->o.n)); }
static void out_copy(sb_t* b, size_t off, size_t len) { for (size_t i = 0; i < len; i++) ref_buf_u8(&b->o, b->o.p[b->o.n - off]); }

/* snappy element alphabet */
typedef struct { int kind; uint32_t len, off; int form; } sel_t;  /* kind 0 literal (form = number of extra length bytes 0..4), 1/2/4 copy */
static bool sn_emit(sb_t* b, const sel_t* e) {
    b->elem_start[b->nelem++] = b->s.n;
    if (e->kind == 0) {
        uint32_t l1 = e->len - 1;
        if (e->form == 0) { if (e->len > 60) return false; ref_buf_u8(&b->s, (uint8_t)(l1 << 2)); }
        else {
            if (e->form < 4 && (l1 >> (8 * e->form)) != 0) return false;
            ref_buf_u8(&b->s, (uint8_t)((59 + e->form) << 2));
            for (int i = 0; i < e->form; i++) ref_buf_u8(&b->s, (uint8_t)(l1 >> (8 * i)));
        }
        size_t start = b->o.n; out_lit(b, e->len); ref_buf_put(&b->s, b->o.p + start, e->len);
        return true;
    }
    if (e->off == 0 || e->off > b->o.n) return false;
    if (e->kind == 1) {
        if (e->len < 4 || e->len > 11 || e->off > 2047) return false;
        ref_buf_u8(&b->s, (uint8_t)(((e->off >> 8) << 5) | ((e->len - 4) << 2) | 1));
        b->offpos[b->noff] = b->s.n; b->offprod[b->noff] = b->o.n; b->offlen[b->noff++] = 1; ref_buf_u8(&b->s, (uint8_t)e->off);
    } else if (e->kind == 2) {
        if (e->len < 1 || e->len > 64 || e->off > 65535) return false;
        ref_buf_u8(&b->s, (uint8_t)(((e->len - 1) << 2) | 2));
        b->offpos[b->noff] = b->s.n; b->offprod[b->noff] = b->o.n; b->offlen[b->noff++] = 2; ref_buf_u8(&b->s, (uint8_t)e->off); ref_buf_u8(&b->s, (uint8_t)(e->off >> 8));
    } else {
        if (e->len < 1 || e->len > 64) return false;
        ref_buf_u8(&b->s, (uint8_t)(((e->len - 1) << 2) | 3));
        b->offpos[b->noff] = b->s.n; b->offprod[b->noff] = b->o.n; b->offlen[b->noff++] = 4; ref_buf_u32le(&b->s, e->off);
    }
    out_copy(b, e->off, e->len);
    return true;
}

static void feed_snappy(const uint8_t* stream, size_t sn, const uint8_t* expect, size_t en, const char* what) {
    /* judge = strict reference decoder; carquet must agree (accept with same bytes / reject) */
    char key[160];
    uint8_t* rout = mc_arena_tail(&A_out, en + 70); size_t rn = 0;
    int rc = ref_snappy_decode(stream, sn, rout, en + 70, &rn);
    if (expect && (rc != 0 || rn != en || memcmp(rout, expect, en))) mc_harness_error("reference snappy decoder disagrees with the generator (%s rc=%d)", what, rc);
    uint8_t* cin = mc_arena_tail(&A_cin, sn); memcpy(cin, stream, sn);
    for (int capx = 0; capx < 2; capx++) {
        size_t cap = (rc == 0 ? rn : en) + (capx ? 64 : 0);
        uint8_t* out = mc_arena_tail(&A_dst, cap); size_t on = (size_t)-1;
        if (cap) memset(out, 0xEE, cap);
        int st = (int)carquet_snappy_decompress(cin, sn, out, cap, &on);
        if (!mc_arena_check(&A_dst)) { mc_fail("snappy.decompress.underrun", "%s", what); }
        if (rc == 0) {
            mc_count("snappy.valid-streams", 1);
            if (st != 0) { snprintf(key, sizeof key, "snappy.valid-stream-rejected.%s", what); mc_fail(key, "status=%d stream=%s", st, mc_hex(stream, sn, 40)); }
            else if (on != rn || memcmp(out, rout, rn)) { snprintf(key, sizeof key, "snappy.valid-stream-wrong-output.%s", what); mc_fail(key, "out_n=%zu expected %zu stream=%s", on, rn, mc_hex(stream, sn, 40)); }
        } else {
            mc_count("snappy.invalid-streams", 1);
            if (st == 0) { snprintf(key, sizeof key, "snappy.invalid-stream-accepted.%s.ref-rc%d", what, rc); mc_fail(key, "carquet returned OK with %zu bytes; stream=%s", on, mc_hex(stream, sn, 40)); }
        }
    }
}
static void feed_lz4(const uint8_t* stream, size_t sn, const uint8_t* expect, size_t en, const char* what, bool gen_valid) {
    char key[160];
    uint8_t* rout = mc_arena_tail(&A_out, en + 70); size_t rn = 0;
    int rc = ref_lz4_decode(stream, sn, rout, en + 70, &rn, false);
    if (gen_valid && (rc != 0 || rn != en || memcmp(rout, expect, en))) mc_harness_error("reference lz4 decoder disagrees with the generator (%s rc=%d)", what, rc);
    uint8_t* cin = mc_arena_tail(&A_cin, sn); memcpy(cin, stream, sn);
    for (int capx = 0; capx < 2; capx++) {
        size_t cap = (rc == 0 ? rn : en) + (capx ? 64 : 0);
        uint8_t* out = mc_arena_tail(&A_dst, cap); size_t on = (size_t)-1;
        if (cap) memset(out, 0xEE, cap);
        int st = (int)carquet_lz4_decompress(cin, sn, out, cap, &on);
        if (!mc_arena_check(&A_dst)) { mc_fail("lz4.decompress.underrun", "%s", what); }
        if (rc == 0) {
            mc_count("lz4.valid-streams", 1);
            if (st != 0) { snprintf(key, sizeof key, "lz4.valid-stream-rejected.%s", what); mc_fail(key, "status=%d stream=%s", st, mc_hex(stream, sn, 40)); }
            else if (on != rn || memcmp(out, rout, rn)) { snprintf(key, sizeof key, "lz4.valid-stream-wrong-output.%s", what); mc_fail(key, "out_n=%zu expected %zu stream=%s", on, rn, mc_hex(stream, sn, 40)); }
        } else if (rc == -1 || rc == -10) {
            /* empty block / block ending right after a match: the block format's end conditions are stated as
             * encoder requirements; whether a decoder must refuse is not unambiguous, so these are not judged */
            mc_count("lz4.not-judged.end-condition-only", 1);
        } else if (rc != -5) {     /* -5: output larger than the capacity we offered: not a format error */
            mc_count("lz4.invalid-streams", 1);
            if (st == 0) { snprintf(key, sizeof key, "lz4.invalid-stream-accepted.%s.ref-rc%d", what, rc); mc_fail(key, "carquet returned OK with %zu bytes; stream=%s", on, mc_hex(stream, sn, 40)); }
        }
    }
}

static void put_preamble(ref_buf* s, uint64_t n) { ref_buf_uleb(s, n); }

static sel_t SA_FULL[160]; static int n_full; static sel_t SA_RED[32]; static int n_red;
static void build_snappy_alphabets(void) {
    static const uint32_t LL[] = { 1, 2, 60, 61, 256, 257, 65536, 65537 };
    n_full = 0; n_red = 0;
    for (int i = 0; i < 8; i++)
        for (int f = 0; f <= 4; f++) {
            sel_t e = { 0, LL[i], 0, f };
            uint32_t l1 = LL[i] - 1;
            if (f == 0 && LL[i] > 60) continue;
            if (f > 0 && f < 4 && (l1 >> (8 * f))) continue;
            SA_FULL[n_full++] = e;
        }
    static const uint32_t O1[] = { 1, 2, 3, 4, 8, 2047 };
    for (uint32_t len = 4; len <= 11; len++) for (int o = 0; o < 6; o++) { sel_t e = { 1, len, O1[o], 0 }; SA_FULL[n_full++] = e; }
    static const uint32_t L2[] = { 1, 2, 64 }, O2[] = { 1, 5, 255, 256, 65535 };
    for (int l = 0; l < 3; l++) for (int o = 0; o < 5; o++) { sel_t e = { 2, L2[l], O2[o], 0 }; SA_FULL[n_full++] = e; }
    static const uint32_t O4[] = { 1, 300, 65536, 65537 };
    for (int l = 0; l < 3; l++) for (int o = 0; o < 4; o++) { sel_t e = { 4, L2[l], O4[o], 0 }; SA_FULL[n_full++] = e; }
    sel_t red[] = { {0,1,0,0}, {0,5,0,0}, {0,5,0,1}, {0,61,0,1}, {0,257,0,2}, {0,3,0,4},
                    {1,4,1,0}, {1,11,3,0}, {1,7,4,0}, {1,5,260,0}, {2,1,1,0}, {2,64,2,0}, {2,10,256,0}, {2,3,5,0}, {4,1,1,0}, {4,64,3,0}, {4,9,300,0} };
    n_red = (int)(sizeof red / sizeof red[0]); memcpy(SA_RED, red, sizeof red);
}

static void snappy_case(sb_t* b, const sel_t* const* els, int ne) {
    sb_reset(b);
    ref_buf body; ref_buf_init(&body);
    for (int i = 0; i < ne; i++) if (!sn_emit(b, els[i])) { ref_buf_free(&body); mc_count("snappy.generator-skipped-invalid-combination", 1); return; }
    /* prepend preamble */
    ref_buf full; ref_buf_init(&full); put_preamble(&full, b->o.n); size_t pre = full.n; ref_buf_put(&full, b->s.p, b->s.n);
    feed_snappy(full.p, full.n, b->o.p, b->o.n, "generated");
    /* invalid classes derived from this stream */
    ref_buf m; ref_buf_init(&m);
    /* (1) wrong preamble */
    for (int d = -1; d <= 1; d += 2) {
        if (d < 0 && b->o.n == 0) continue;
        ref_buf_clear(&m); put_preamble(&m, (uint64_t)((int64_t)b->o.n + d)); ref_buf_put(&m, b->s.p, b->s.n);
        feed_snappy(m.p, m.n, NULL, b->o.n + 1, d < 0 ? "preamble-minus-1" : "preamble-plus-1");
    }
    /* (2) extra element after the declared length */
    ref_buf_clear(&m); ref_buf_put(&m, full.p, full.n); ref_buf_u8(&m, 0x00); ref_buf_u8(&m, 'Z');
    feed_snappy(m.p, m.n, NULL, b->o.n + 1, "trailing-literal");
    ref_buf_clear(&m); ref_buf_put(&m, full.p, full.n); ref_buf_u8(&m, 0x01); ref_buf_u8(&m, 0x01);
    feed_snappy(m.p, m.n, NULL, b->o.n + 4, "trailing-copy");
    /* (3) offsets: zero / beyond produced output */
    for (int k = 0; k < b->noff; k++) {
        ref_buf_clear(&m); ref_buf_put(&m, full.p, full.n);
        size_t p = pre + b->offpos[k];
        uint8_t tagsave = m.p[p - 1];
        for (int j = 0; j < b->offlen[k]; j++) m.p[p + (size_t)j] = 0;
        if (b->offlen[k] == 1) m.p[p - 1] &= 0x1f;
        feed_snappy(m.p, m.n, NULL, b->o.n, "zero-offset");
        m.p[p - 1] = tagsave;
        for (int j = 0; j < b->offlen[k]; j++) m.p[p + (size_t)j] = 0xff;
        if (b->offlen[k] == 1) m.p[p - 1] |= 0xe0;
        if (b->offlen[k] < 4) { if ((b->offlen[k] == 1 ? 2047u : 65535u) > b->o.n) feed_snappy(m.p, m.n, NULL, b->o.n, "offset-beyond-output"); }
        else feed_snappy(m.p, m.n, NULL, b->o.n, "offset-beyond-output");
        {   /* the first offset that is too large: one more than the bytes produced so far */
            size_t o1 = b->offprod[k] + 1; bool fits = true;
            m.p[p - 1] = tagsave;
            if (b->offlen[k] == 1) { if (o1 > 2047) fits = false; else { m.p[p - 1] = (uint8_t)((tagsave & 0x1f) | ((o1 >> 8) << 5)); m.p[p] = (uint8_t)o1; } }
            else if (b->offlen[k] == 2) { if (o1 > 65535) fits = false; else { m.p[p] = (uint8_t)o1; m.p[p + 1] = (uint8_t)(o1 >> 8); } }
            else { m.p[p] = (uint8_t)o1; m.p[p + 1] = (uint8_t)(o1 >> 8); m.p[p + 2] = (uint8_t)(o1 >> 16); m.p[p + 3] = (uint8_t)(o1 >> 24); }
            if (fits) feed_snappy(m.p, m.n, NULL, b->o.n, "offset-produced-plus-one");
        }
    }
    /* (4) truncation at every byte of the stream (long literal payloads: only around element boundaries) */
    for (size_t cut = 0; cut < full.n; cut++) {
        bool near = cut < pre + 8;
        for (int e2 = 0; e2 < b->nelem && !near; e2++) { size_t s0 = pre + b->elem_start[e2]; if (cut + 8 >= s0 && cut <= s0 + 8) near = true; }
        if (cut + 8 >= full.n) near = true;
        if (!near) continue;
        feed_snappy(full.p, cut, NULL, b->o.n, "truncated");
    }
    ref_buf_free(&m); ref_buf_free(&full); ref_buf_free(&body);
}

/* LZ4 sequences */
typedef struct { uint32_t lit, off, ml; } lseq_t;   /* ml = match length - 4; off 0 => final literal-only sequence */
static void lz_len(ref_buf* s, uint32_t v) { v -= 15; while (v >= 255) { ref_buf_u8(s, 255); v -= 255; } ref_buf_u8(s, (uint8_t)v); }
static bool lz_emit(sb_t* b, const lseq_t* q, bool last) {
    b->elem_start[b->nelem++] = b->s.n;
    uint8_t tok = (uint8_t)((q->lit >= 15 ? 15 : q->lit) << 4);
    if (!last) tok |= (uint8_t)(q->ml >= 15 ? 15 : q->ml);
    ref_buf_u8(&b->s, tok);
    if (q->lit >= 15) lz_len(&b->s, q->lit);
    size_t st = b->o.n; out_lit(b, q->lit); ref_buf_put(&b->s, b->o.p + st, q->lit);
    if (last) return true;
    if (q->off == 0 || q->off > b->o.n) return false;
    b->offpos[b->noff] = b->s.n; b->offprod[b->noff] = b->o.n; b->offlen[b->noff++] = 2;
    ref_buf_u8(&b->s, (uint8_t)q->off); ref_buf_u8(&b->s, (uint8_t)(q->off >> 8));
    if (q->ml >= 15) lz_len(&b->s, q->ml);
    out_copy(b, q->off, q->ml + 4);
    return true;
}
static void lz4_case(sb_t* b, const lseq_t* seqs, int ns, uint32_t final_lit) {
    sb_reset(b);
    for (int i = 0; i < ns; i++) if (!lz_emit(b, &seqs[i], false)) { mc_count("lz4.generator-skipped-invalid-combination", 1); return; }
    lseq_t fin = { final_lit, 0, 0 }; lz_emit(b, &fin, true);
    /* the generator only claims validity under the end-of-block rules; check with the strict decoder */
    uint8_t* tmp = mc_arena_tail(&A_out, b->o.n + 8); size_t tn = 0;
    if (ref_lz4_decode(b->s.p, b->s.n, tmp, b->o.n + 8, &tn, true) != 0) { mc_count("lz4.generator-skipped-end-rule", 1); return; }
    feed_lz4(b->s.p, b->s.n, b->o.p, b->o.n, "generated", true);
    ref_buf m; ref_buf_init(&m);
    for (int k = 0; k < b->noff; k++) {
        ref_buf_clear(&m); ref_buf_put(&m, b->s.p, b->s.n);
        m.p[b->offpos[k]] = 0; m.p[b->offpos[k] + 1] = 0;
        feed_lz4(m.p, m.n, NULL, b->o.n, "zero-offset", false);
        m.p[b->offpos[k]] = 0xff; m.p[b->offpos[k] + 1] = 0xff;
        feed_lz4(m.p, m.n, NULL, b->o.n, "offset-beyond-output", false);
        /* the first offset that is too large: one more than the bytes produced so far */
        size_t o1 = b->offprod[k] + 1;
        if (o1 <= 0xffff) { m.p[b->offpos[k]] = (uint8_t)o1; m.p[b->offpos[k] + 1] = (uint8_t)(o1 >> 8); feed_lz4(m.p, m.n, NULL, b->o.n, "offset-produced-plus-one", false); }
    }
    for (size_t cut = 0; cut < b->s.n; cut++) {
        bool near = false;
        for (int e2 = 0; e2 < b->nelem && !near; e2++) { size_t s0 = b->elem_start[e2]; if (cut + 6 >= s0 && cut <= s0 + 6) near = true; }
        for (int k = 0; k < b->noff && !near; k++) if (cut + 3 >= b->offpos[k] && cut <= b->offpos[k] + 6) near = true;
        if (cut + 6 >= b->s.n) near = true;
        if (!near) continue;
        feed_lz4(b->s.p, cut, NULL, b->o.n, "truncated", false);
    }
    ref_buf_free(&m);
}

static void c10(void) {
    mc_rule("C10: (a) every stream carquet's Snappy/LZ4 compressors produce over the C09 small-scope inputs is decoded by strict reference decoders (LZ4 including the end-of-block rules); "
            "(b) every valid stream with up to 4 (quick) / 5 (thorough) elements over the listed element alphabets (all literal length forms, copy-1/2/4, overlapping copies, LZ4 token/extended lengths and offsets) "
            "is generated with its expected output and must be decompressed to it; (c) the invalid classes the formats define (zero offset, offset beyond output, every truncation near an element boundary, "
            "preamble +-1, elements after the declared length) are derived from each generated stream; the strict reference decoder is the judge: carquet must reject what it rejects and agree on what it accepts. "
            "Non-trivial = stream with at least one copy/match element or input length >= 4; distinct by (family, code).");
    mc_assume("reference decoders in /verif/ref/ref_lz.c follow format_description.txt (Snappy) and lz4_Block_format.md; the generator and the reference decoder are cross-checked on every generated stream");
    mc_arena_init(&A_src, MAXIN); mc_arena_init(&A_dst, MAXIN + MAXIN / 4 + 4096); mc_arena_init(&A_cin, MAXIN + MAXIN / 4 + 4096); mc_arena_init(&A_out, MAXIN);
    g_big = malloc(MAXIN);
    uint8_t x[64];
    int L2 = mc_thorough() ? 20 : 18, L3 = mc_thorough() ? 12 : 11;
    mc_stage("c10.a.carquet-streams.binary-strings");
    for (int n = 0; n <= L2; n++)
        for (uint32_t bits = 0; bits < (1u << n); bits++) {
            if (!mc_next()) continue;
            for (int i = 0; i < n; i++) x[i] = (uint8_t)('a' + ((bits >> i) & 1));
            mc_desc("c10a:alpha=2;n=%d;bits=0x%x", n, bits); mc_case_key(mc_mix(0xa1, ((uint64_t)n << 32) | bits)); if (n >= 4) mc_nontrivial();
            c10_carquet_output(x, (size_t)n);
        }
    mc_stage("c10.a.carquet-streams.ternary-strings");
    for (int n = 1; n <= L3; n++) {
        uint32_t tot = 1; for (int i = 0; i < n; i++) tot *= 3;
        for (uint32_t c = 0; c < tot; c++) {
            if (!mc_next()) continue;
            uint32_t v = c; for (int i = 0; i < n; i++) { x[i] = (uint8_t)('a' + v % 3); v /= 3; }
            mc_desc("c10a:alpha=3;n=%d;code=%u", n, c); mc_case_key(mc_mix(0xa2, ((uint64_t)n << 32) | c)); if (n >= 4) mc_nontrivial();
            c10_carquet_output(x, (size_t)n);
        }
    }
    mc_stage("c10.a.carquet-streams.families-and-wrap");
    for (int fam = 0; fam < 4; fam++)
        for (size_t n = 0; n <= 600; n++) {
            if (!mc_next()) continue;
            gen_family(fam, n, g_big);
            mc_desc("c10a:family=%d;n=%zu", fam, n); mc_case_key(mc_mix(0xa3, ((uint64_t)fam << 32) | n)); if (n >= 4) mc_nontrivial();
            c10_carquet_output(g_big, n);
        }
    static const size_t WL[] = { 65535, 65536, 65537, 65540, 70000, 131072, 131080 };
    for (int li = 0; li < 7; li++)
        for (int p = 1; p <= 64; p += 1)
            for (int q = 0; q < 64; q += 2) {
                if (!mc_next()) continue;
                size_t n = WL[li];
                for (size_t i = 0; i < n; i++) g_big[i] = (uint8_t)((i % (size_t)p) * 3 + 1);
                size_t pos = (n / 64) * (size_t)q + (size_t)q; if (pos >= n) pos = n - 1;
                g_big[pos] ^= 0x80;
                mc_desc("c10a:wrap;n=%zu;period=%d;flip@%zu", n, p, pos); mc_case_key(mc_mix(0xa4, ((uint64_t)li << 48) | ((uint64_t)p << 32) | (uint64_t)q)); mc_nontrivial();
                c10_carquet_output(g_big, n);
            }
    mc_stage("c10.a.carquet-streams.literal-run-then-match.every-run-length");
    { int maxL = 4200; dbs_init();
      for (int Lx = 4; Lx <= maxL + 60; Lx++) for (int mi = 0; mi < LRM_NML; mi++) {
          int L = lrm_L(Lx, maxL), m = LRM_ML[mi]; if (m > L) continue; if (Lx > maxL && m != 4 && m != 19 && m != 66) continue;
          if (!mc_next()) continue;
          size_t n = gen_literals_match(g_big, L, m);
          mc_desc("c10a:literals=%d;match=%d;tail=12", L, m); mc_case_key(mc_mix(0xaa, ((uint64_t)L << 16) | (uint64_t)m)); mc_nontrivial();
          c10_carquet_output(g_big, n);
      } }
    mc_stage("c10.a.carquet-streams.multi-megabyte");
    { static const size_t BIG[] = { (1u << 21) - 1, 1u << 21, (1u << 21) + 1, (1u << 22) - 1, 1u << 22, (1u << 22) + 123, (5u << 20) + 123, (8u << 20) + 4096, (16u << 20) + 102400, (17u << 20) + 5 };
      for (int k = 0; k < 10; k++) for (int kind = 0; kind < 2; kind++) {
          if (!mc_next()) continue;
          size_t n = BIG[k]; uint32_t x = 12345;
          for (size_t i = 0; i < n; i++) { if (kind == 0) { x = x * 1664525u + 1013904223u; g_big[i] = (uint8_t)(x >> 24); } else g_big[i] = (uint8_t)(((i >> 4) * 7) ^ (i & 3)); }     /* incompressible / compressible */
          mc_desc("c10a:multi-megabyte;n=%zu;%s", n, kind ? "compressible" : "incompressible"); mc_case_key(mc_mix(0xa9, ((uint64_t)k << 8) | (uint64_t)kind)); mc_nontrivial(); mc_budget_ms(60000);
          c10_carquet_output(g_big, n);
      } }
    /* (b)+(c) grammar enumeration */
    build_snappy_alphabets();
    static sb_t sb; ref_buf_init(&sb.s); ref_buf_init(&sb.o);
    /* the preamble: every length at the boundaries of the 1..5-byte varint forms (the format allows 2^32 - 1) */
    mc_stage("c10.b.capacities-beyond-4GiB"); huge_capacity_cases(SNAPPY, LZ4, 0xac);
    mc_stage("c10.b.snappy.preamble.every-varint-form");
    { static const uint64_t PV[] = { 0, 1, 127, 128, 129, 16383, 16384, 16385, (1u << 21) - 1, 1u << 21, (1u << 21) + 1, (1u << 28) - 1, 1u << 28, (1u << 28) + 1, (1u << 28) + 64, 0x7fffffffu, 0x80000000u, 0xfffffffeu, 0xffffffffu };
      for (int i = 0; i < 19; i++) for (int tail = 0; tail < 2; tail++) {
          if (!mc_next()) continue;
          uint8_t pb[12]; size_t pn = 0; uint64_t v = PV[i]; do { uint8_t b = (uint8_t)(v & 0x7f); v >>= 7; pb[pn++] = (uint8_t)(b | (v ? 0x80 : 0)); } while (v); if (tail) { pb[pn++] = 0x00; pb[pn++] = 0x41; }      /* with / without a first element behind it */
          mc_desc("c10b:snappy;preamble=%llu (%zu-byte varint)%s", (unsigned long long)PV[i], tail ? pn - 2 : pn, tail ? " + one literal" : ""); mc_case_key(mc_mix(0xb9, ((uint64_t)i << 1) | (uint64_t)tail)); mc_nontrivial();
          uint8_t* x = mc_arena_tail(&A_cin, pn); memcpy(x, pb, pn); size_t got = 12345; carquet_status_t st = carquet_snappy_get_uncompressed_length(x, pn, &got);
          if (st != CARQUET_OK || got != (size_t)PV[i]) { char key[96]; snprintf(key, sizeof key, "snappy.preamble.%s", (tail ? pn - 2 : pn) >= 5 ? "five-byte-varint" : "short-varint"); mc_fail(key, "declared length %llu: get_uncompressed_length returned status %d, length %zu (preamble %s)", (unsigned long long)PV[i], st, got, mc_hex(pb, pn, 8)); }
      } }
    if (mc_thorough()) {       /* one valid stream whose declared length needs the five-byte form: a 64-byte literal and 2^22 - 1 copies of it (256 MiB of output) */
        mc_stage("c10.b.snappy.declared-length-2^28");
        if (mc_next()) { mc_desc("c10b:snappy;declared-length=268435456;one-literal-then-copies"); mc_case_key(0xba01); mc_nontrivial(); mc_budget_ms(300000);
            size_t n = (size_t)1 << 28, ncopies = n / 64 - 1, sn = 5 + 2 + 64 + ncopies * 3; uint8_t* st8 = malloc(sn); uint8_t* out = malloc(n); size_t p = 0;
            if (st8 && out) { uint64_t v = n; do { uint8_t b = (uint8_t)(v & 0x7f); v >>= 7; st8[p++] = (uint8_t)(b | (v ? 0x80 : 0)); } while (v); st8[p++] = 60 << 2; st8[p++] = 63; for (int i = 0; i < 64; i++) st8[p++] = (uint8_t)(i * 3 + 1);
                for (size_t c = 0; c < ncopies; c++) { st8[p++] = (uint8_t)(2 | (63 << 2)); st8[p++] = 64; st8[p++] = 0; }
                size_t on = 0; int rc = carquet_snappy_decompress(st8, p, out, n, &on); bool ok = rc == 0 && on == n; for (size_t i = 0; ok && i < n; i += 4099) ok = out[i] == (uint8_t)((i % 64) * 3 + 1);
                if (!ok) mc_fail("snappy.valid-stream-rejected.declared-length-needs-five-bytes", "declared length 2^28: status %d, %zu bytes", rc, on); }
            free(st8); free(out); }
    }
    mc_stage("c10.bc.snappy.full-alphabet.up-to-2-elements");
    {   /* empty stream: preamble 0 only */
        if (mc_next()) { mc_desc("c10b:snappy;empty"); mc_case_key(mc_mix(0xb0, 0)); snappy_case(&sb, NULL, 0); }
        for (int i = 0; i < n_full; i++) {
            if (SA_FULL[i].kind != 0) continue;
            if (mc_next()) { const sel_t* e[1] = { &SA_FULL[i] }; mc_desc("c10b:snappy;full;els=[%d]", i); mc_case_key(mc_mix(0xb1, (uint64_t)i)); snappy_case(&sb, e, 1); }
            for (int j = 0; j < n_full; j++) {
                if (!mc_next()) continue;
                const sel_t* e[2] = { &SA_FULL[i], &SA_FULL[j] };
                mc_desc("c10b:snappy;full;els=[%d,%d] (kind/len/off/form %d/%u/%u/%d then %d/%u/%u/%d)", i, j, e[0]->kind, e[0]->len, e[0]->off, e[0]->form, e[1]->kind, e[1]->len, e[1]->off, e[1]->form);
                mc_case_key(mc_mix(0xb2, ((uint64_t)i << 16) | (uint64_t)j)); if (e[1]->kind) mc_nontrivial();
                snappy_case(&sb, e, 2);
            }
        }
    }
    int maxel = 5;
    mc_stage("c10.bc.snappy.reduced-alphabet.3-to-N-elements");
    for (int ne = 3; ne <= maxel; ne++) {
        uint64_t tot = 1; for (int i = 0; i < ne; i++) tot *= (uint64_t)n_red;
        for (uint64_t c = 0; c < tot; c++) {
            uint64_t v = c; const sel_t* e[6]; for (int i = 0; i < ne; i++) { e[i] = &SA_RED[v % (uint64_t)n_red]; v /= (uint64_t)n_red; }
            if (e[0]->kind != 0) continue;          /* a block cannot start with a copy */
            if (!mc_next()) continue;
            mc_desc("c10b:snappy;reduced;ne=%d;code=%llu", ne, (unsigned long long)c); mc_case_key(mc_mix(0xb3, ((uint64_t)ne << 56) | c)); mc_nontrivial();
            snappy_case(&sb, e, ne);
        }
    }
    static const uint32_t LL[] = { 0, 1, 14, 15, 16, 269, 270, 271, 525 };
    static const uint32_t ML[] = { 0, 1, 14, 15, 16, 269, 270, 271, 525 };
    static const uint32_t OF[] = { 1, 2, 3, 4, 7, 8, 9, 65535 };
    static const uint32_t FL[] = { 5, 8, 12, 15, 16, 270 };
    mc_stage("c10.bc.lz4.one-and-two-sequences");
    if (mc_next()) { mc_desc("c10b:lz4;final-literals-only;0"); mc_case_key(mc_mix(0xc0, 0)); lz4_case(&sb, NULL, 0, 0); }
    for (int f = 0; f < 9; f++) if (mc_next()) { mc_desc("c10b:lz4;final-literals-only;%u", LL[f]); mc_case_key(mc_mix(0xc0, 1 + (uint64_t)f)); lz4_case(&sb, NULL, 0, LL[f]); }
    for (int a = 0; a < 9; a++) for (int o = 0; o < 8; o++) for (int m = 0; m < 9; m++) for (int f = 0; f < 6; f++) {
        if (OF[o] == 65535) continue;
        if (!mc_next()) continue;
        lseq_t s1 = { LL[a], OF[o], ML[m] };
        mc_desc("c10b:lz4;1seq;lit=%u;off=%u;ml=%u;final=%u", s1.lit, s1.off, s1.ml + 4, FL[f]); mc_case_key(mc_mix(0xc1, ((uint64_t)a << 24) | ((uint64_t)o << 16) | ((uint64_t)m << 8) | (uint64_t)f)); mc_nontrivial();
        lz4_case(&sb, &s1, 1, FL[f]);
    }
    static const uint32_t LL2[] = { 0, 1, 15, 270 }, ML2[] = { 0, 15, 16, 270 }, OF2[] = { 1, 3, 8, 9 }, FL2[] = { 5, 12, 16 };
    for (int a = 0; a < 4; a++) for (int o = 0; o < 4; o++) for (int m = 0; m < 4; m++)
        for (int a2 = 0; a2 < 4; a2++) for (int o2 = 0; o2 < 4; o2++) for (int m2 = 0; m2 < 4; m2++) for (int f = 0; f < 3; f++) {
            if (!mc_next()) continue;
            lseq_t s2[2] = { { LL2[a], OF2[o], ML2[m] }, { LL2[a2], OF2[o2], ML2[m2] } };
            mc_desc("c10b:lz4;2seq;(%u,%u,%u)(%u,%u,%u);final=%u", s2[0].lit, s2[0].off, s2[0].ml + 4, s2[1].lit, s2[1].off, s2[1].ml + 4, FL2[f]);
            mc_case_key(mc_mix(0xc2, ((uint64_t)a << 40) | ((uint64_t)o << 32) | ((uint64_t)m << 24) | ((uint64_t)a2 << 16) | ((uint64_t)o2 << 8) | ((uint64_t)m2 << 4) | (uint64_t)f)); mc_nontrivial();
            lz4_case(&sb, s2, 2, FL2[f]);
        }
    mc_stage("c10.bc.lz4.long-offset");
    for (int m = 0; m < 9; m++) for (int f = 0; f < 6; f++) for (int extra = 0; extra < 2; extra++) {
        if (!mc_next()) continue;
        lseq_t s1 = { 65535 + (uint32_t)extra * 2, 65535, ML[m] };
        mc_desc("c10b:lz4;long;lit=%u;off=65535;ml=%u;final=%u", s1.lit, s1.ml + 4, FL[f]); mc_case_key(mc_mix(0xc3, ((uint64_t)m << 16) | ((uint64_t)f << 8) | (uint64_t)extra)); mc_nontrivial();
        lz4_case(&sb, &s1, 1, FL[f]);
    }
    {
        mc_stage("c10.bc.lz4.three-sequences");
        static const uint32_t L3v[] = { 0, 1, 15 }, M3[] = { 0, 15, 270 }, O3[] = { 1, 4, 9 };
        for (int code = 0; code < 19683; code++) {
            if (!mc_next()) continue;
            int v = code; lseq_t s3[3];
            for (int i = 0; i < 3; i++) { s3[i].lit = L3v[v % 3]; v /= 3; s3[i].off = O3[v % 3]; v /= 3; s3[i].ml = M3[v % 3]; v /= 3; }
            mc_desc("c10b:lz4;3seq;code=%d", code); mc_case_key(mc_mix(0xc4, (uint64_t)code)); mc_nontrivial();
            lz4_case(&sb, s3, 3, 12);
        }
    }
}

static void enumerate(void) { if (!strcmp(mc_mode(), "c10")) c10(); else c09(); }
int main(int argc, char** argv) { return mc_main(argc, argv, "codec", enumerate); }
