/* cq_decl.h — declarations of carquet entry points that have no header in
 * /repo/src (the repository's own tests declare them locally as well). */
#ifndef CQ_DECL_H
#define CQ_DECL_H
#include <carquet/carquet.h>
#include "core/buffer.h"
#include "core/bitpack.h"
#include "encoding/rle.h"
#include "encoding/plain.h"

carquet_status_t carquet_delta_decode_int32(const uint8_t*, size_t, int32_t*, int32_t, size_t*);
carquet_status_t carquet_delta_decode_int64(const uint8_t*, size_t, int64_t*, int32_t, size_t*);
carquet_status_t carquet_delta_encode_int32(const int32_t*, int32_t, uint8_t*, size_t, size_t*);
carquet_status_t carquet_delta_encode_int64(const int64_t*, int32_t, uint8_t*, size_t, size_t*);
carquet_status_t carquet_delta_length_decode(const uint8_t*, size_t, carquet_byte_array_t*, int32_t, size_t*);
carquet_status_t carquet_delta_length_encode(const carquet_byte_array_t*, int32_t, carquet_buffer_t*);
carquet_status_t carquet_delta_strings_decode(const uint8_t*, size_t, carquet_byte_array_t*, int32_t, uint8_t*, size_t, size_t*);
carquet_status_t carquet_delta_strings_encode(const carquet_byte_array_t*, int32_t, carquet_buffer_t*);
carquet_status_t carquet_byte_stream_split_encode_float(const float*, int64_t, uint8_t*, size_t, size_t*);
carquet_status_t carquet_byte_stream_split_decode_float(const uint8_t*, size_t, float*, int64_t);
carquet_status_t carquet_byte_stream_split_encode_double(const double*, int64_t, uint8_t*, size_t, size_t*);
carquet_status_t carquet_byte_stream_split_decode_double(const uint8_t*, size_t, double*, int64_t);
carquet_status_t carquet_byte_stream_split_encode(const uint8_t*, int64_t, int32_t, uint8_t*, size_t, size_t*);
carquet_status_t carquet_byte_stream_split_decode(const uint8_t*, size_t, int32_t, uint8_t*, int64_t);
carquet_status_t carquet_dictionary_encode_int32(const int32_t*, int64_t, carquet_buffer_t*, carquet_buffer_t*);
carquet_status_t carquet_dictionary_encode_int64(const int64_t*, int64_t, carquet_buffer_t*, carquet_buffer_t*);
carquet_status_t carquet_dictionary_encode_float(const float*, int64_t, carquet_buffer_t*, carquet_buffer_t*);
carquet_status_t carquet_dictionary_encode_double(const double*, int64_t, carquet_buffer_t*, carquet_buffer_t*);
carquet_status_t carquet_dictionary_encode_byte_array(const carquet_byte_array_t*, int64_t, carquet_buffer_t*, carquet_buffer_t*);
carquet_status_t carquet_dictionary_decode_int32(const uint8_t*, size_t, int32_t, const uint8_t*, size_t, int32_t*, int64_t);
carquet_status_t carquet_dictionary_decode_int64(const uint8_t*, size_t, int32_t, const uint8_t*, size_t, int64_t*, int64_t);
carquet_status_t carquet_dictionary_decode_float(const uint8_t*, size_t, int32_t, const uint8_t*, size_t, float*, int64_t);
carquet_status_t carquet_dictionary_decode_double(const uint8_t*, size_t, int32_t, const uint8_t*, size_t, double*, int64_t);

carquet_status_t carquet_snappy_decompress(const uint8_t*, size_t, uint8_t*, size_t, size_t*);
carquet_status_t carquet_snappy_compress(const uint8_t*, size_t, uint8_t*, size_t, size_t*);
size_t carquet_snappy_compress_bound(size_t);
carquet_status_t carquet_snappy_get_uncompressed_length(const uint8_t*, size_t, size_t*);
carquet_status_t carquet_lz4_decompress(const uint8_t*, size_t, uint8_t*, size_t, size_t*);
carquet_status_t carquet_lz4_compress(const uint8_t*, size_t, uint8_t*, size_t, size_t*);
size_t carquet_lz4_compress_bound(size_t);
int carquet_gzip_decompress(const uint8_t*, size_t, uint8_t*, size_t, size_t*);
int carquet_gzip_compress(const uint8_t*, size_t, uint8_t*, size_t, size_t*, int);
size_t carquet_gzip_compress_bound(size_t);
int carquet_zstd_decompress(const uint8_t*, size_t, uint8_t*, size_t, size_t*);
int carquet_zstd_compress(const uint8_t*, size_t, uint8_t*, size_t, size_t*, int);
size_t carquet_zstd_compress_bound(size_t);

uint32_t carquet_crc32(const uint8_t*, size_t);
uint32_t carquet_crc32_update(uint32_t, const uint8_t*, size_t);
uint64_t carquet_xxhash64(const void*, size_t, uint64_t);
#endif
