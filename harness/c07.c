/* c07.c — C07: parallel reading is independent of thread count and schedule.
 * Stateless exploration of all interleavings (preemption-bounded, bound iterated
 * 0,1,2) of the real batch reader under mc/sched's serialising scheduler and own
 * OpenMP runtime; one forked process per execution. */
#define _GNU_SOURCE
#include "mc/mc.h"
#include "mc/sched.h"
#include "reftbl.h"
#include <carquet/carquet.h>
#include <stdio.h>
#include <stdlib.h>
#include <string.h>
#include <unistd.h>
#include <signal.h>
#include <sys/mman.h>
#include <sys/wait.h>
#include <sys/time.h>

/* ---- scenario ------------------------------------------------------------------------------- */
typedef struct {
    int kind;            /* 0: A one batch reader with an OpenMP team; 1: B independent readers in user threads */
    int mode;            /* 0 fread, 1 mmap, 2 buffer */
    int codec;           /* CODEC_* */
    int nt;              /* A: num_threads; B: number of user threads */
    int bs;              /* batch size */
    int shape;           /* file shape */
    int bound;           /* preemption bound */
} scn_t;
static const char* MODE_N[] = { "fread", "mmap", "buffer", "mmap+fread" };      /* the last: independent readers on different I/O paths (reader 0 mapped, reader 1 stdio, ...) */
static const char* codec_name(int c) { return c == CODEC_NONE ? "U" : c == CODEC_SNAPPY ? "S" : c == CODEC_ZSTD ? "Z" : c == CODEC_GZIP ? "G" : "L"; }
static const char* scn_desc(const scn_t* s) { static char b[200]; snprintf(b, sizeof b, "sched:scn=%c;mode=%s;nt=%d;codec=%s;bs=%d;shape=%d;c=%d", s->kind ? 'B' : 'A', MODE_N[s->mode], s->nt, codec_name(s->codec), s->bs, s->shape, s->bound); return b; }

static ref_arena RA; static ref_buf IMG; static char PATH[64]; static int FD = -1; static int64_t TOTAL_ROWS;
static void build_file(const scn_t* s) {
    rfile_t f; memset(&f, 0, sizeof f);
    if (s->shape == 4 || s->shape == 5) {     /* large pages: 4 = a dictionary-encoded INT32 column of 70 000 values in one page (+ a plain INT64 column); 5 = two INT64 columns of 16 000 values (128 KB page bodies) */
        f.ncols = 2; f.N = s->shape == 4 ? 70000 : 16000; f.nrg = 1; f.codec = s->codec; f.crc = true; f.dict_offset_present = true; f.pattern = 0;
        f.col[0].ptype = s->shape == 4 ? PT_INT32 : PT_INT64; f.enc[0] = s->shape == 4 ? ENC_RLE_DICT : ENC_PLAIN; f.col[1].ptype = PT_INT64; f.enc[1] = ENC_PLAIN; if (s->shape == 5) f.pattern = 3;
        ref_buf_free(&IMG); ref_buf_init(&IMG); ref_arena_free(&RA); static ref_coldata colsb[4]; if (rf_build(&RA, &f, &IMG, NULL, 0, NULL, colsb)) mc_harness_error("reference writer failed");
        TOTAL_ROWS = f.N; if (FD >= 0) close(FD); FD = memfd_create("c07", 0); if (FD < 0 || write(FD, IMG.p, IMG.n) != (ssize_t)IMG.n) mc_harness_error("memfd"); snprintf(PATH, sizeof PATH, "/proc/self/fd/%d", FD); return; }
    int damaged = s->shape == 6; int shape = s->shape >= 6 ? 0 : s->shape; (void)shape;
    f.ncols = s->shape == 1 ? 2 : 3; f.N = 12; f.nrg = s->shape == 2 ? 2 : 1; f.codec = s->codec; f.crc = true; f.dict_offset_present = true;
    f.col[0].ptype = PT_INT32; f.col[0].opt = 0; f.col[1].ptype = PT_INT64; f.col[1].opt = 1; f.mask[1] = 0x492; f.col[2].ptype = s->shape == 3 ? PT_BYTE_ARRAY : PT_DOUBLE; f.col[2].opt = s->shape == 3; f.mask[2] = 0x0c1;
    if (s->shape == 3) { f.level_form = REF_H_BP_ONLY; f.index_form = REF_H_MIXED; }      /* shape 3: two nullable columns whose levels are bit-packed groups (shared decoder scratch would be touched by two threads); shapes 0-2: RLE runs */
    for (int c = 0; c < f.ncols; c++) { f.npages[c] = 2; f.page_levels[c][0] = 6; f.page_levels[c][1] = 6; f.enc[c] = (c == 1 && s->shape != 1) ? ENC_RLE_DICT : ENC_PLAIN; }
    ref_buf_free(&IMG); ref_buf_init(&IMG); ref_arena_free(&RA);
    static ref_coldata cols[8]; static ref_pageinfo pgs[32]; int npg = 0; if (rf_build(&RA, &f, &IMG, pgs, 32, &npg, cols)) mc_harness_error("reference writer failed");
    TOTAL_ROWS = (int64_t)f.N * f.nrg;
    if (damaged) { int hit = -1; for (int p = 0; p < npg; p++) if (pgs[p].leaf == 2 && pgs[p].page_type != 2 && pgs[p].body_len > 0) hit = p;      /* the last data page of the third column: one byte of its body changed, its CRC no longer matches */
        if (hit < 0) mc_harness_error("no page to damage"); IMG.p[pgs[hit].body_off + pgs[hit].body_len / 2] ^= 0x10; TOTAL_ROWS = -1; }
    if (FD >= 0) close(FD);
    FD = memfd_create("c07", 0); if (FD < 0 || write(FD, IMG.p, IMG.n) != (ssize_t)IMG.n) mc_harness_error("memfd");
    snprintf(PATH, sizeof PATH, "/proc/self/fd/%d", FD);
}

/* runs in the execution process, on a scheduler thread: open, batch-read everything, close */
typedef struct { const scn_t* s; int nthreads_cfg; uint64_t hash; char detail[160]; int idx; } rd_job;
void GOMP_critical_start(void); void GOMP_critical_end(void);
static void read_all(rd_job* j) {
    const scn_t* s = j->s; uint64_t h = 0xc07; char* d = j->detail; size_t dn = 0; d[0] = 0;
    int mode = s->mode == 3 ? (j->idx % 2 == 0 ? 1 : 0) : s->mode;
    carquet_error_t err = CARQUET_ERROR_INIT; carquet_reader_options_t opt; carquet_reader_options_init(&opt); opt.use_mmap = mode == 1; opt.verify_checksums = true;
    carquet_reader_t* rd = mode == 2 ? carquet_reader_open_buffer(IMG.p, IMG.n, &opt, &err) : carquet_reader_open(PATH, &opt, &err);
    if (!rd) { snprintf(d, 160, "open:%d", err.code); j->hash = mc_mix(h, (uint64_t)err.code); return; }
    carquet_batch_reader_config_t cfg; carquet_batch_reader_config_init(&cfg); cfg.batch_size = s->bs; cfg.num_threads = j->nthreads_cfg;
    static const int32_t PROJ8[3] = { 2, 0, 1 }; if (s->shape == 8) { cfg.column_indices = PROJ8; cfg.num_columns = 3; }
    carquet_batch_reader_t* br = carquet_batch_reader_create(rd, &cfg, &err);
    if (!br) { snprintf(d, 160, "create:%d", err.code); j->hash = mc_mix(h, 77 + (uint64_t)err.code); carquet_reader_close(rd); return; }
    int64_t rows_total = 0;
    for (int guard = 0; guard < 64; guard++) {
        carquet_row_batch_t* b = NULL; if (s->shape == 7) GOMP_critical_start();      /* shape 7: the caller pulls batches inside its own unnamed `omp critical` (a team of consumers sharing one batch reader) */
        carquet_status_t st = carquet_batch_reader_next(br, &b); if (s->shape == 7) GOMP_critical_end();
        h = mc_mix(h, (uint64_t)st);
        if (st != CARQUET_OK || !b) { dn += (size_t)snprintf(d + dn, dn < 150 ? 160 - dn : 0, "st%d;", st); break; }
        int64_t rows = carquet_row_batch_num_rows(b); int nc = carquet_row_batch_num_columns(b); h = mc_mix(h, (uint64_t)rows * 131 + (uint64_t)nc); rows_total += rows;
        if (dn < 140) dn += (size_t)snprintf(d + dn, 160 - dn, "%lld,", (long long)rows);
        for (int i = 0; i < nc; i++) {
            const void* data; const uint8_t* nulls; int64_t cnt; if (carquet_row_batch_column(b, i, &data, &nulls, &cnt) != CARQUET_OK) { h = mc_mix(h, 0xbad); continue; }
            h = mc_mix(h, (uint64_t)cnt); int64_t nn = 0; for (int64_t r = 0; r < cnt; r++) if (!nulls || !((nulls[r >> 3] >> (r & 7)) & 1)) nn++;
            if (nulls) h = mc_mix(h, mc_hash(nulls, (size_t)(cnt + 7) / 8, 3));
            int fi = s->shape == 8 && i < 3 ? PROJ8[i] : i;      /* file column behind batch column i */
            int pt = s->shape == 5 ? PT_INT64 : fi == 0 ? PT_INT32 : fi == 1 ? PT_INT64 : (s->shape == 3 ? PT_BYTE_ARRAY : PT_DOUBLE);
            if (pt == PT_BYTE_ARRAY) { const carquet_byte_array_t* ba = data; for (int64_t k = 0; k < nn; k++) { h = mc_mix(h, (uint64_t)ba[k].length); if (ba[k].length > 0) h = mc_mix(h, mc_hash(ba[k].data, (size_t)ba[k].length, 5)); } }
            else h = mc_mix(h, mc_hash(data, (size_t)nn * (size_t)ref_type_width(pt, 0), 4));
        }
        carquet_row_batch_free(b);
    }
    snprintf(d + dn, dn < 150 ? 160 - dn : 0, "rows=%lld", (long long)rows_total);
    carquet_batch_reader_free(br); carquet_reader_close(rd); j->hash = h;
}
static void user_thread(void* a) { read_all(a); }
static void scenario_body(const scn_t* s, int reference, sch_trace* tr) {
    rd_job jobs[4]; memset(jobs, 0, sizeof jobs);
    if (s->kind == 0) { jobs[0].s = s; jobs[0].nthreads_cfg = reference ? 1 : s->nt; read_all(&jobs[0]); tr->outcome = jobs[0].hash; snprintf(tr->detail, sizeof tr->detail, "%s", jobs[0].detail); return; }
    int k = reference ? 1 : s->nt, tid[4];
    for (int i = 0; i < k; i++) { jobs[i].s = s; jobs[i].nthreads_cfg = 1; jobs[i].idx = i; }
    if (reference) { read_all(&jobs[0]); tr->outcome = jobs[0].hash; snprintf(tr->detail, sizeof tr->detail, "%s", jobs[0].detail); return; }
    for (int i = 0; i < k; i++) tid[i] = sch_spawn(user_thread, &jobs[i]);
    for (int i = 0; i < k; i++) sch_join(tid[i]);
    uint64_t h = jobs[0].hash; size_t n = 0; tr->detail[0] = 0;
    for (int i = 0; i < k; i++) { if (jobs[i].hash != jobs[0].hash) h = mc_mix(h, jobs[i].hash + (uint64_t)i); n += (size_t)snprintf(tr->detail + n, n < 500 ? sizeof tr->detail - n : 0, "[t%d %s]", i, jobs[i].detail); }
    tr->outcome = h;      /* equal to the reference outcome iff every thread produced the reference content */
}

/* ---- one execution = one forked process -------------------------------------------------------- */
static sch_trace* TR;        /* MAP_SHARED */
static uint32_t RACY[SCH_MAXRACY]; static int NRACY;          /* promoted set in force (constant during one search round) */
static uint32_t PEND[SCH_MAXRACY]; static int NPEND;          /* found so far; becomes the set in force at the next round */ static sch_race RACES[128]; static int NRACES;
static long N_DETECT; static long N_EXEC, N_INTERLEAVED, N_REPLAY_CHECKS, MAX_POINTS, SUM_POINTS; static long KIND_POINTS[SCH_K_NKINDS];
static void run_exec(const scn_t* s, const uint8_t* prefix, int nprefix, int reference, int detect) {
    memset(TR, 0, offsetof(sch_trace, pt)); TR->nprefix = nprefix; if (nprefix) memcpy(TR->prefix, prefix, (size_t)nprefix);
    TR->nracy_in = NRACY; memcpy(TR->racy_in, RACY, sizeof(uint32_t) * (size_t)NRACY); TR->omp_max_threads = s->nt; TR->detect = detect; TR->done = 0; TR->nraces = 0; TR->npoints = 0;
    pid_t pid = fork(); if (pid < 0) mc_harness_error("fork failed");
    if (pid == 0) {
        struct itimerval z = { { 0, 0 }, { 0, 0 } }; setitimer(ITIMER_PROF, &z, NULL); signal(SIGPROF, SIG_DFL); alarm(20);
        sch_begin(TR); scenario_body(s, reference, TR); sch_end(); _exit(0);
    }
    int st = 0; while (waitpid(pid, &st, 0) < 0) {}
    if (!TR->done) { if (WIFSIGNALED(st) && WTERMSIG(st) == SIGALRM) { TR->status = SCH_TIMEOUT; snprintf(TR->msg, sizeof TR->msg, "execution did not finish within 20 s (livelock or lost wake-up)"); } else { TR->status = SCH_CHILD_DIED; snprintf(TR->msg, sizeof TR->msg, "execution process died: %s %d", WIFSIGNALED(st) ? "signal" : "exit", WIFSIGNALED(st) ? WTERMSIG(st) : WEXITSTATUS(st)); } }
    if (!reference) { N_EXEC++; if (TR->interleaved) N_INTERLEAVED++; if (TR->npoints > MAX_POINTS) MAX_POINTS = TR->npoints; SUM_POINTS += TR->npoints; for (int k = 0; k < SCH_K_NKINDS; k++) KIND_POINTS[k] += TR->points_by_kind[k]; }
}
static bool collect_races(void) {
    bool grew = false;
    for (int i = 0; i < TR->nraces; i++) { sch_race r = TR->races[i]; bool have = false; for (int k = 0; k < NRACES; k++) if (RACES[k].pc_a == r.pc_a && RACES[k].pc_b == r.pc_b) have = true; if (!have && NRACES < 128) RACES[NRACES++] = r;
        uint32_t pcs[2] = { r.pc_a, r.pc_b }; for (int q = 0; q < 2; q++) { bool in = false; for (int k = 0; k < NPEND; k++) if (PEND[k] == pcs[q]) in = true; if (!in && NPEND < SCH_MAXRACY) { PEND[NPEND++] = pcs[q]; grew = true; } } }
    return grew;
}

/* ---- DFS over schedules --------------------------------------------------------------------------- */
typedef struct { uint64_t expected; char expected_detail[200]; const scn_t* s; bool racy_grew; long violations; int detect; } dfs_t;
typedef struct { int status, npoints; uint64_t outcome; char msg[300], detail[600]; sch_point* pt; } xres;
static const char* racy_string(void) { static char b[SCH_MAXRACY * 9 + 8]; size_t n = 0; b[0] = 0; for (int i = 0; i < NRACY; i++) n += (size_t)snprintf(b + n, sizeof b - n, "%s%x", i ? "," : "", RACY[i]); return b; }
static const char* sched_string_x(const xres* x) { static char b[4096]; size_t n = 0; int last = -1; for (int i = 0; i < x->npoints; i++) if (x->pt[i].chosen) last = i; b[0] = 0; for (int i = 0; i <= last && n < sizeof b - 8; i++) n += (size_t)snprintf(b + n, sizeof b - n, "%s%d", i ? "." : "", x->pt[i].chosen); if (last < 0) snprintf(b, sizeof b, "default"); return b; }
static void snapshot(xres* x) { x->status = TR->status; x->npoints = TR->npoints; x->outcome = TR->outcome; memcpy(x->msg, TR->msg, sizeof x->msg); memcpy(x->detail, TR->detail, sizeof x->detail); x->pt = malloc(sizeof(sch_point) * (size_t)(x->npoints + 1)); memcpy(x->pt, TR->pt, sizeof(sch_point) * (size_t)x->npoints); }
static void replay_must_match(const scn_t* s, const xres* x, const char* what) {
    uint8_t* ch = malloc((size_t)x->npoints + 1); for (int i = 0; i < x->npoints; i++) ch[i] = x->pt[i].chosen;
    run_exec(s, ch, x->npoints, 0, 0); N_EXEC--; N_REPLAY_CHECKS++; free(ch);
    if (TR->status != x->status || TR->outcome != x->outcome || (x->status == SCH_OK && (TR->npoints != x->npoints || memcmp(TR->pt, x->pt, sizeof(sch_point) * (size_t)x->npoints))))
        mc_harness_error("%s sched=%s: replay of a %s schedule gave a different trace (status %d/%d, points %d/%d) — uncontrolled nondeterminism", scn_desc(s), sched_string_x(x), what, TR->status, x->status, TR->npoints, x->npoints);
}
static void judge(dfs_t* D, const xres* x) {
    const scn_t* s = D->s; char key[160]; const char* area = s->kind ? "independent-readers" : "batch-reader";
    if (x->status == SCH_DIVERGED) mc_harness_error("%s: replaying a prefix diverged (%s) — uncontrolled nondeterminism", scn_desc(s), x->msg);
    if (x->status == SCH_TOO_MANY_POINTS) mc_harness_error("%s: %s", scn_desc(s), x->msg);
    bool bad = x->status != SCH_OK || x->outcome != D->expected; if (!bad) return;
    /* the same schedule must fail again, twice.  A replay that fails with ANOTHER wrong outcome is still a failure of the implementation (its output
     * depends on memory it never wrote); a replay that passes is reported as a violation of its own kind (the schedule itself is replayed exactly, so the run depends on memory the library never wrote or had freed) */
    bool unstable = false;
    for (int rep = 0; rep < 2; rep++) { uint8_t* ch = malloc((size_t)x->npoints + 1); for (int i = 0; i < x->npoints; i++) ch[i] = x->pt[i].chosen; run_exec(s, ch, x->npoints, 0, 0); N_EXEC--; N_REPLAY_CHECKS++; free(ch);
        bool bad2 = TR->status != SCH_OK || TR->outcome != D->expected;
        if (!bad2) { snprintf(key, sizeof key, "not-reproducible.%s.%s", area, MODE_N[s->mode]);      /* the schedule is replayed exactly (a divergence would have been reported above), so what differs is memory the library never wrote or had already freed */
            mc_fail(key, "%s sched=%s racy=%s: failed (status %d %s, got [%s]) and then passed when the same schedule was replayed: the execution depends on something outside the schedule (uninitialised or freed memory); the single-threaded run gives [%s]", scn_desc(s), sched_string_x(x), racy_string(), x->status, x->msg, x->detail, D->expected_detail); return; }
        if (TR->status != x->status || TR->outcome != x->outcome) unstable = true; }
    const char* ss = sched_string_x(x);
    if (x->status == SCH_DEADLOCK) snprintf(key, sizeof key, "deadlock.%s.%s", area, MODE_N[s->mode]);
    else if (x->status == SCH_MONITOR) snprintf(key, sizeof key, "zstd-context-shared.%s.%s", area, MODE_N[s->mode]);
    else if (x->status == SCH_TIMEOUT) snprintf(key, sizeof key, "hang.%s.%s", area, MODE_N[s->mode]);
    else if (x->status == SCH_CHILD_DIED) snprintf(key, sizeof key, "crash.%s.%s", area, MODE_N[s->mode]);
    else snprintf(key, sizeof key, "outcome-differs.%s.%s.%s", area, MODE_N[s->mode], s->codec == CODEC_NONE ? "uncompressed" : "compressed");
    if (x->status != SCH_OK) mc_fail(key, "%s sched=%s racy=%s: %s", scn_desc(s), ss, racy_string(), x->msg);
    else mc_fail(key, "%s sched=%s racy=%s: got [%s]%s, the single-threaded run gives [%s]", scn_desc(s), ss, racy_string(), x->detail, unstable ? " (a different wrong result on each replay: the output contains bytes the reader never wrote)" : "", D->expected_detail);
    D->violations++;
}
static void explore(dfs_t* D, const uint8_t* prefix, int nprefix) {
    if (mc_expired() || D->violations) return;
    int ndev = 0; for (int i = 0; i < nprefix; i++) if (prefix[i]) ndev++;
    run_exec(D->s, prefix, nprefix, 0, D->detect && ndev <= 1);      /* the happens-before detector is schedule-insensitive on a fixed path: it runs on every schedule with <= 1 deviation */
    if (D->detect && ndev <= 1) N_DETECT++;
    xres x; snapshot(&x); sch_race races[64]; int nraces = TR->nraces; memcpy(races, TR->races, sizeof races);
    judge(D, &x);                                   /* replays use the promoted set this execution ran with */
    if (x.status == SCH_OK && !D->violations && (N_EXEC & 63) == 0) replay_must_match(D->s, &x, "passing");
    TR->nraces = nraces; memcpy(TR->races, races, sizeof races); if (collect_races()) D->racy_grew = true;
    if (x.status != SCH_OK || D->violations) { free(x.pt); return; }
    int n = x.npoints; uint8_t* ch = malloc((size_t)n + 1); int cost = 0;
    for (int i = 0; i < n; i++) ch[i] = x.pt[i].chosen;
    /* a deviation is any non-default choice: a preemption of the running thread, or resuming a thread other than the
     * lowest-numbered runnable one when the running thread blocks or ends (free switches multiply factorially over the
     * regions of a run, so they are bounded together with the preemptions) */
    for (int i = 0; i < nprefix && i < n; i++) if (x.pt[i].chosen) cost++;
    for (int i = nprefix; i < n; i++) {
        int c = cost + 1;
        if (c <= D->s->bound) for (int alt = 1; alt < x.pt[i].n_enabled; alt++) { ch[i] = (uint8_t)alt; explore(D, ch, i + 1); ch[i] = 0; }
    }
    free(ch); free(x.pt);
}

static int LAST_ROUNDS, LAST_NOFIX;
static void run_scenario(const scn_t* s) {
    LAST_ROUNDS = 0; LAST_NOFIX = 0;
    build_file(s); NRACY = 0; NPEND = 0;                      /* every case is self-contained: the promoted set is rebuilt per case */
    dfs_t D; memset(&D, 0, sizeof D); D.s = s; D.detect = s->nt <= 4 && s->shape != 4 && s->shape != 5;     /* large pages exceed the detector's shadow table */
    run_exec(s, NULL, 0, 1, 0);
    if (TR->status != SCH_OK) { char key[120]; snprintf(key, sizeof key, "reference-run-failed.%s", MODE_N[s->mode]); mc_fail(key, "%s: %s", scn_desc(s), TR->msg); return; }
    D.expected = TR->outcome; snprintf(D.expected_detail, sizeof D.expected_detail, "%s", TR->detail);
    char want[40]; snprintf(want, sizeof want, "rows=%lld", (long long)TOTAL_ROWS); if (TOTAL_ROWS < 0) { if (!strstr(TR->detail, "st")) mc_harness_error("%s: the single-threaded run of the damaged file reports no error: [%s]", scn_desc(s), TR->detail); } else if (!strstr(TR->detail, want)) mc_harness_error("%s: single-threaded run did not deliver the file: [%s]", scn_desc(s), TR->detail);
    /* discovery: default schedule with the detector on until the promoted set is stable, then the search; restart if the search promotes more */
    if (D.detect) for (int i = 0; i < 8; i++) { run_exec(s, NULL, 0, 0, 1); N_EXEC--; if (TR->status != SCH_OK || !collect_races()) break; memcpy(RACY, PEND, sizeof RACY); NRACY = NPEND; }
    int rounds = 0;
    do { memcpy(RACY, PEND, sizeof RACY); NRACY = NPEND; D.racy_grew = false; if (rounds) N_EXEC = N_INTERLEAVED = SUM_POINTS = N_DETECT = 0; explore(&D, NULL, 0); rounds++; } while (D.racy_grew && rounds < 16 && !mc_expired() && !D.violations);
    mc_count("search-rounds", (uint64_t)rounds); LAST_ROUNDS = rounds;
    if (D.racy_grew && !D.violations && !mc_expired()) { mc_count("fixpoint-not-reached", 1); LAST_NOFIX = 1; }
}

static void enumerate(void) {
    mc_rule("C07: every schedule of the real batch reader (scenario A: one carquet_batch_reader over a 2-3 column x 2 pages x 1-2 row-group file, OpenMP team of nt threads; scenario B: 2-3 independent readers in user threads, first use of the library inside the threads) "
            "with at most c deviations from the non-preemptive lowest-thread-first schedule (a deviation = preempting the running thread, or resuming another than the lowest-numbered runnable thread when the running one blocks or ends; c iterated 0,1,2) over scheduling points at: parallel-region fork, every dynamic-schedule iteration grab, every fseek/ftell/fread of the library, ZSTD_decompressDCtx begin, atomics, lock operations, "
            "and every instruction the happens-before detector found racy (first execution per function activation, at most 3 activations per thread and instruction), iterated to a fixpoint. Oracle: batches (row counts, null bitmaps, values), per-call status codes and totals identical to the single-threaded run; "
            "no deadlock, no hang, no crash, no concurrent use of one ZSTD_DCtx. A case is one (scenario, mode, codec, threads, batch size, shape, bound) tuple; its schedules are counted in 'schedules'. Sequentially consistent interleavings only.");
    mc_assume("Preemptions only at the listed points; libc, zlib and libzstd calls are atomic steps; memory accesses made inside libc on the library's behalf are reported to the detector as ranges (memcpy/memset/memmove/memcmp/fread/ZSTD output).");
    TR = mmap(NULL, sizeof(sch_trace), PROT_READ | PROT_WRITE, MAP_SHARED | MAP_ANONYMOUS, -1, 0); if (TR == MAP_FAILED) mc_harness_error("mmap");
    const char* only_sched = getenv("C07_SCHED");
    static const int CODECS[] = { CODEC_NONE, CODEC_SNAPPY, CODEC_ZSTD, CODEC_GZIP, CODEC_LZ4_RAW };
    int maxbound = 3;
    for (int bound = 0; bound <= maxbound; bound++) {
        char st[64]; snprintf(st, sizeof st, "deviation-bound-%d", bound); mc_stage(st);
        for (int kind = 0; kind < 2; kind++) for (int mode = 0; mode < 4; mode++) for (int ci = 0; ci < 5; ci++) for (int nti = 0; nti < 6; nti++) for (int bsi = 0; bsi < 2; bsi++) for (int shape = 0; shape < 9; shape++) {
            static const int NTA[] = { 2, 3, 4, 8, 16, 1 }; int nt = NTA[nti];
            scn_t s = { kind, mode, CODECS[ci], nt, bsi ? 12 : 4, shape, bound };
            if (nt == 1) continue;
            if (shape == 8 && !(kind == 0 && nt == 2 && ci <= 1 && bound <= 1 && mode != 3 && bsi == 1)) continue;      /* 8: the base file read through a projection that is not in file order (columns 2, 0, 1) */
            if (shape >= 6 && shape <= 7 && !(kind == 0 && nt <= 3 && ci <= 2 && bound <= 1 && mode != 3 && (shape == 6 || (bsi == 1 && mode == 0)))) continue;      /* 6: a damaged page (the error must be reported under every schedule); 7: the caller inside its own critical section */
            if (mode == 3 && !(kind == 1 && nt == 2 && shape == 0 && bsi == 1 && ci <= 1 && bound <= 2)) continue;      /* mixed I/O paths: two independent readers, up to two deviations */
            if (ci >= 3 && (bound > 1 || nt > 3 || bsi == 0 || (shape != 0 && shape != 3) || (kind == 1 && (nt != 2 || shape != 0)))) continue;      /* GZIP and LZ4: whole-page batches, 2-3 threads, two shapes, c <= 1 */
            if (bound == 3 && !(kind == 0 && mode == 0 && nt == 2 && ((shape == 5 && ci == 1 && bsi == 1) || (mc_thorough() && shape == 0 && ci == 0 && bsi == 0)))) continue;     /* three deviations: the two-column large-page file (a failed prefetch is retried in the main region, so a wrong result needs a third switch) */
            if (shape == 4 || shape == 5) {                                                                     /* large pages: one batch for the whole file, SNAPPY and ZSTD (page loads inside the team), 2-3 threads */
                if (kind || bsi == 0 || ci == 0 || nt > 3 || mode == 1) continue; if (shape == 4 && bound > 1) continue; if (shape == 5 && (mode != 0 || (bound == 2 && !mc_thorough() && !(nt == 2 && ci == 1)))) continue;
                s.bs = shape == 4 ? 70000 : 16000;
            }
            bool base = shape == 0 && bsi == 0;                                                               /* base shape: 3 columns x 2 pages, batch smaller than a page */
            if (kind == 1) {                                                                                    /* B: 2-3 user threads, batch >= page, two shapes */
                if (nt > 3 || bsi == 0 || shape > 1) continue;
                if (bound == 2 && mode != 3 && !(mc_thorough() && nt == 2 && shape == 0 && ((mode == 0 && ci == 0) || (mode == 1 && ci == 2)))) continue;
            } else {
                if (nt >= 8 && (bound > 1 || !base)) continue;                                                 /* wide teams: c <= 1, base shape */
                if (bound == 2 && shape < 4) {
                    if (nt > 4) continue;
                    if (!mc_thorough()) { if (!base) continue; if (!((nt == 2 && (mode == 0 || (mode == 1 && ci == 2) || (mode == 2 && ci == 1))) || (nt == 3 && mode == 0 && ci == 0))) continue; }
                    else { if (nt == 4 && !(base && mode == 0)) continue; if (nt == 3 && mode != 0 && !base) continue; }
                }
            }
            if (!mc_next()) continue;
            mc_desc("%s", scn_desc(&s)); mc_case_key(mc_hash(scn_desc(&s), strlen(scn_desc(&s)), 7)); mc_nontrivial(); mc_budget_ms(0);
            N_EXEC = N_INTERLEAVED = N_REPLAY_CHECKS = MAX_POINTS = SUM_POINTS = N_DETECT = 0; memset(KIND_POINTS, 0, sizeof KIND_POINTS);
            if (only_sched && mc_replaying()) {         /* replay one schedule: C07_SCHED=0.0.1 (or "default") */
                build_file(&s); uint8_t pre[SCH_MAXPT]; int n = 0; NRACY = 0; const char* rz = getenv("C07_RACY"); if (rz) for (const char* p = rz; *p && NRACY < SCH_MAXRACY; ) { RACY[NRACY++] = (uint32_t)strtoul(p, (char**)&p, 16); if (*p == ',') p++; } if (strcmp(only_sched, "default")) for (const char* p = only_sched; *p && n < SCH_MAXPT; ) { pre[n++] = (uint8_t)strtol(p, (char**)&p, 10); if (*p == '.') p++; }
                run_exec(&s, NULL, 0, 1, 0); uint64_t exp = TR->outcome; printf("single-threaded: [%s]\n", TR->detail);
                run_exec(&s, pre, n, 0, 1); printf("schedule %s: status=%d %s outcome %s [%s] points=%d switches=%d\n", only_sched, TR->status, TR->msg, TR->outcome == exp ? "EQUAL" : "DIFFERENT", TR->detail, TR->npoints, TR->nswitches);
                if (TR->status != SCH_OK || TR->outcome != exp) mc_fail("replayed-schedule-violates", "%s sched=%s: status %d %s, got [%s]", scn_desc(&s), only_sched, TR->status, TR->msg, TR->detail);
                for (int i = 0; i < TR->npoints; i++) printf("  point %d: thread %d at %s, %d enabled, chose %d%s\n", i, TR->pt[i].tid, sch_kind_name(TR->pt[i].kind), TR->pt[i].n_enabled, TR->pt[i].chosen, TR->pt[i].cur_enabled && TR->pt[i].chosen ? " (preemption)" : "");
                continue;
            }
            run_scenario(&s);
            if (getenv("C07_VERBOSE")) { FILE* vf = fopen(getenv("C07_VERBOSE"), "a"); if (vf) { fprintf(vf, "%s: schedules=%ld interleaved=%ld maxpoints=%ld racy=%d rounds=%d nofix=%d\n", scn_desc(&s), N_EXEC, N_INTERLEAVED, MAX_POINTS, NRACY, LAST_ROUNDS, LAST_NOFIX); fclose(vf); } }
            mc_count("schedules", (uint64_t)N_EXEC); mc_count("schedules.with-race-detector", (uint64_t)N_DETECT); mc_count("schedules.interleaved", (uint64_t)N_INTERLEAVED); mc_count("replay-determinism-checks", (uint64_t)N_REPLAY_CHECKS);
            mc_count("choice-points.sum", (uint64_t)SUM_POINTS);
            /* model-checking coverage keys: the search is stateless, so "states" are the scheduler states with a real choice (>= 2 enabled threads) visited over
             * all executions, not deduplicated; "transitions" are the scheduling points passed; every trace is an execution of the implementation itself */
            { uint64_t tr = 0; for (int k = 1; k < SCH_K_NKINDS; k++) tr += (uint64_t)KIND_POINTS[k]; mc_count("states", (uint64_t)SUM_POINTS); mc_count("transitions", tr); mc_count("traces_validated", (uint64_t)N_EXEC); }
            for (int k = 1; k < SCH_K_NKINDS; k++) if (KIND_POINTS[k]) { char nm[64]; snprintf(nm, sizeof nm, "points.%s", sch_kind_name(k)); mc_count(nm, (uint64_t)KIND_POINTS[k]); }
            mc_outcome(N_INTERLEAVED ? "interleaved" : "not-interleaved");
        }
    }
    /* racy instructions found (evidence, not a verdict) */
    for (int i = 0; i < NRACES; i++) { char k[96]; snprintf(k, sizeof k, "race.%08x-%c.%08x-%c", RACES[i].pc_a, RACES[i].write_a ? 'w' : 'r', RACES[i].pc_b, RACES[i].write_b ? 'w' : 'r'); mc_count(k, 1); }
    mc_count("racy-instructions-promoted", (uint64_t)NRACY);
}
int main(int argc, char** argv) { return mc_main(argc, argv, "c07", enumerate); }
