# Builds carquet objects from $(REPO)'s working tree per variant, the engines,
# the reference stack and the harnesses.  Incremental (-MMD dependencies), so
# a re-check after an edit in /repo recompiles only what changed.
#
#   make V=asan H=c11 harness      -> build/asan/bin/c11
#   make setup                     -> engines + references for asan and fast
REPO ?= /repo
V    ?= asan
H    ?=
B    := build/$(V)
CC   := gcc

DEFS := -DCARQUET_ARCH_X86 -DCARQUET_ENABLE_SSE -DCARQUET_ENABLE_AVX2 -DCARQUET_ENABLE_AVX512 -DNDEBUG -DCARQUET_VERIF
INCS := -I$(REPO)/include -I$(REPO)/src -isystem /root/miniconda/include
BASE := -std=gnu11 -g -fno-omit-frame-pointer -fopenmp -w

ifeq ($(V),asan)
  VFLAGS := -O2 -fsanitize=address
  # library objects only: indexes into fixed-size arrays are checked too (ASan cannot see an overflow that stays inside a struct)
  REPO_XFLAGS := -fsanitize=bounds -fno-sanitize-recover=bounds
  LFLAGS := -fsanitize=address -fsanitize=bounds
else ifeq ($(V),fast2)
  VFLAGS := -O2
  LFLAGS := -rdynamic
else ifeq ($(V),fast)
  VFLAGS := -O2
  LFLAGS := -rdynamic
else ifeq ($(V),mcs)
  VFLAGS := -O1 -fsanitize=thread
  LFLAGS :=
else
  $(error unknown variant $(V))
endif

REPO_SRCS := $(wildcard $(REPO)/src/core/*.c $(REPO)/src/thrift/*.c $(REPO)/src/encoding/*.c \
             $(REPO)/src/compression/*.c $(REPO)/src/reader/*.c $(REPO)/src/writer/*.c \
             $(REPO)/src/metadata/*.c $(REPO)/src/util/*.c $(REPO)/src/simd/*.c $(REPO)/src/simd/x86/*.c)
REPO_OBJS := $(patsubst $(REPO)/%.c,$(B)/repo/%.o,$(REPO_SRCS))

EXTRA_SRCS ?=
ifeq ($(V),mcs)
  MC_SRCS := mc/mc.c mc/sched.c $(EXTRA_SRCS)
else
  MC_SRCS := mc/mc.c mc/gomp_seq.c $(EXTRA_SRCS)
endif
REF_SRCS := $(wildcard ref/*.c)
# engines and references are never sanitised with tsan; under mcs they use plain flags
ifeq ($(V),mcs)
  OWNFLAGS := -O1
else
  OWNFLAGS := $(VFLAGS)
endif
MC_OBJS  := $(patsubst %.c,$(B)/verif/%.o,$(MC_SRCS))
REF_OBJS := $(patsubst %.c,$(B)/verif/%.o,$(REF_SRCS))

LIBS := /root/miniconda/lib/libzstd.a /usr/lib/x86_64-linux-gnu/libz.a -lm -lpthread

# WRAP=1: the harness links copies of the library objects (and of zlib/zstd) whose
# allocator references are renamed to mcf_* (mc/fault.c), see mc/wrap.syms
WRAP ?=
ifeq ($(V),mcs)
  # C07: library objects whose stdio / allocator / memcpy / libzstd references are routed through mc/sched.c
  REPO_LINK := $(patsubst $(B)/repo/%.o,$(B)/repos/%.o,$(REPO_OBJS))
  WLIBS :=
  LFLAGS := -no-pie
else ifeq ($(WRAP),1)
  REPO_LINK := $(patsubst $(B)/repo/%.o,$(B)/repow/%.o,$(REPO_OBJS))
  LIBS := $(B)/libzstd_w.a $(B)/libz_w.a -lm -lpthread
  WLIBS := $(B)/libzstd_w.a $(B)/libz_w.a
else
  REPO_LINK := $(REPO_OBJS)
  WLIBS :=
endif

$(B)/repo/src/simd/x86/sse_ops.o:    ISA := -msse4.2
$(B)/repo/src/simd/x86/avx2_ops.o:   ISA := -mavx2 -mbmi2
$(B)/repo/src/simd/x86/avx512_ops.o: ISA := -mavx512f -mavx512bw -mavx512vl

.PHONY: setup objs harness clean
setup:
	$(MAKE) V=asan own
	$(MAKE) V=fast own

own: $(MC_OBJS) $(REF_OBJS)
objs: $(REPO_OBJS)

$(B)/repo/%.o: $(REPO)/%.c
	@mkdir -p $(dir $@)
	$(CC) $(BASE) $(VFLAGS) $(REPO_XFLAGS) $(DEFS) $(INCS) $(ISA) -MMD -MP -c $< -o $@

$(B)/verif/%.o: %.c
	@mkdir -p $(dir $@)
	$(CC) -std=gnu11 -g -fno-omit-frame-pointer -Wall -Wextra -Wno-unused-parameter -Wno-unused-function -Wno-format-truncation -Wno-misleading-indentation -Wno-maybe-uninitialized $(OWNFLAGS) -DNDEBUG $(INCS) -I. -MMD -MP -c $< -o $@

# harness sources see carquet's internal headers
$(B)/verif/harness/%.o: harness/%.c
	@mkdir -p $(dir $@)
	$(CC) -std=gnu11 -g -fno-omit-frame-pointer -Wall -Wextra -Wno-unused-parameter -Wno-unused-function -Wno-format-truncation -Wno-misleading-indentation -Wno-maybe-uninitialized $(OWNFLAGS) $(DEFS) $(INCS) -I. -MMD -MP -c $< -o $@

HSRCS ?=
HOBJS := $(patsubst %.c,$(B)/verif/%.o,$(HSRCS))
harness: $(B)/bin/$(H)
$(B)/repos/%.o: $(B)/repo/%.o mc/sched.syms
	@mkdir -p $(dir $@)
	objcopy --redefine-syms=mc/sched.syms $< $@
$(B)/repow/%.o: $(B)/repo/%.o mc/wrap.syms
	@mkdir -p $(dir $@)
	objcopy --redefine-syms=mc/wrap.syms $< $@
$(B)/libz_w.a: /usr/lib/x86_64-linux-gnu/libz.a mc/wrap.syms
	@mkdir -p $(dir $@)
	objcopy --redefine-syms=mc/wrap.syms $< $@
$(B)/libzstd_w.a: /root/miniconda/lib/libzstd.a mc/wrap.syms
	@mkdir -p $(dir $@)
	objcopy --redefine-syms=mc/wrap.syms $< $@

$(B)/bin/$(H): $(B)/verif/harness/$(H).o $(HOBJS) $(MC_OBJS) $(REF_OBJS) $(REPO_LINK) $(WLIBS)
	@mkdir -p $(dir $@)
	$(CC) $(LFLAGS) $(LDEXTRA) -o $@ $(filter %.o,$^) $(LIBS)

clean:
	rm -rf build

-include $(REPO_OBJS:.o=.d) $(MC_OBJS:.o=.d) $(REF_OBJS:.o=.d) $(wildcard $(B)/verif/harness/*.d)
